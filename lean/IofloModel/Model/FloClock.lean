/-
Model for C11 — a framer's `elapsed` / `recurred` clocks and the `timeout` / `repeat` verbs.

Transcribed from
  ioflo/base/framing.py    Framer.restartTimer / updateTimer / restartCounter / updateCounter,
                           Framer.enterAll / enter / segue, Frame.precur (first transition whose needs hold)
  ioflo/base/acting.py     Transiter.action (needs → exit → enter(enters) → activate)
  ioflo/base/building.py   buildTimeout (`go next if elapsed >= float(abs(v))`),
                           buildRepeat  (`go next if recurred >= int(abs(v))`), makeFramerNeed
  ioflo/base/needing.py    Need.Check with tolerance 0
  ioflo/base/skedding.py   Skedder.run: `self.stamp += self.period` once per tick, from 0.0

One framer; frames may be nested (`frame F in G`): the transitions in effect are those of the active
frame's outline, top down (every taken transition changes the outline: `enters` is never empty,
forced re-entry `go me` included).  Generic over the number type `τ`: `Int` (exact time in
units of a quantum) for the theorems, `Float` (IEEE binary64 = CPython float) in the driver.
`Framer.updateTimer`'s `except TypeError` branch (store stamp `None`) cannot be reached under the
Skedder, which stamps the store before the first tick; it is not modelled.
Core Lean only.
-/
namespace Ioflo.FloClock

/-- the two number conversions the builder applies to the literal of `timeout` / `repeat` -/
class Lit (τ : Type) where
  abs : τ → τ            -- `abs(v)`
  trunc : τ → Nat        -- `int(abs(v))`

instance : Lit Int := ⟨fun x => (x.natAbs : Int), Int.natAbs⟩
instance : Lit Float := ⟨Float.abs, fun x => (Float.floor (Float.abs x)).toUInt64.toNat⟩

inductive Cmp where
  | ge | gt | le | lt | eq | ne
deriving DecidableEq, Repr

section generic
variable {τ : Type} [Add τ] [Sub τ] [LE τ] [LT τ] [DecidableLE τ] [DecidableLT τ]

/-- `Need.Check(state, comparison, goal, tolerance=0)`; `==` is
`(goal - 0) <= state <= (goal + 0)`. -/
def check {α : Type} [LE α] [LT α] [DecidableLE α] [DecidableLT α] (state : α) (c : Cmp) (goal : α) : Bool :=
  match c with
  | .ge => decide (goal ≤ state)
  | .gt => decide (goal < state)
  | .le => decide (state ≤ goal)
  | .lt => decide (state < goal)
  | .eq => decide (goal ≤ state) && decide (state ≤ goal)
  | .ne => !(decide (goal ≤ state) && decide (state ≤ goal))

/-- a framer need: `elapsed cmp goal` or `recurred cmp goal` (integer goal) -/
inductive Need (τ : Type) where
  | elapsed (c : Cmp) (goal : τ)
  | recurred (c : Cmp) (goal : Nat)
deriving Repr

structure Trans (τ : Type) where
  needs : List (Need τ)
  far : Nat
deriving Repr

/-- far frame of a `go` as written -/
inductive Far where
  | next | me | idx (i : Nat)
deriving DecidableEq, Repr

/-- transition verbs of a frame as written in FloScript -/
inductive Verb (τ : Type) where
  | timeout (v : τ)                           -- `timeout v`
  | rep (v : τ)                               -- `repeat v`
  | go (far : Far) (needs : List (Need τ))    -- `go far [if need and need …]`
deriving Repr

/-- a frame as written: `frame Fi [in Fover]` and its transition verbs in order -/
structure FrameSrc (τ : Type) where
  over : Option Nat
  verbs : List (Verb τ)
deriving Repr

abbrev Program (τ : Type) := List (FrameSrc τ)      -- frames in lexical order

/-- a resolved frame -/
structure RFrame (τ : Type) where
  over : Option Nat
  trans : List (Trans τ)
deriving Repr

inductive ResolveErr where
  | badNext | badFar
deriving DecidableEq, Repr

def resolveFar (n home : Nat) : Far → Except ResolveErr Nat
  | .me => .ok home
  | .next => if home + 1 < n then .ok (home + 1) else .error .badNext
  | .idx i => if i < n then .ok i else .error .badFar

/-- `buildTimeout`, `buildRepeat`, `buildGo` + `Transiter._resolve` of the far link -/
def resolveVerb [Lit τ] (n home : Nat) : Verb τ → Except ResolveErr (Trans τ)
  | .timeout v => do
    let far ← resolveFar n home .next
    return ⟨[.elapsed .ge (Lit.abs v)], far⟩
  | .rep v => do
    let far ← resolveFar n home .next
    return ⟨[.recurred .ge (Lit.trunc v)], far⟩
  | .go far needs => do
    let far ← resolveFar n home far
    return ⟨needs, far⟩

def resolveFrames [Lit τ] (n : Nat) : Nat → Program τ → Except ResolveErr (List (RFrame τ))
  | _, [] => .ok []
  | i, f :: fs => do
    let ts ← f.verbs.mapM (resolveVerb n i)
    let rest ← resolveFrames n (i + 1) fs
    return ⟨f.over, ts⟩ :: rest

def resolve [Lit τ] (p : Program τ) : Except ResolveErr (List (RFrame τ)) :=
  resolveFrames p.length 0 p

/-! ### outlines (`Frame.traceOutline`): the over frames down to the frame, then its primary
(first declared) under frames -/

def overOf (fr : List (RFrame τ)) (i : Nat) : Option Nat := (fr[i]?).bind (·.over)

/-- root … `i` (fuel = number of frames bounds the climb; a well formed forest needs less) -/
def headOf (fr : List (RFrame τ)) : Nat → Nat → List Nat
  | 0, i => [i]
  | fuel + 1, i =>
    match overOf fr i with
    | some o => headOf fr fuel o ++ [i]
    | none => [i]

/-- `frame.under`: the first frame (in declaration order) whose over is `i` -/
def firstUnder (fr : List (RFrame τ)) (i : Nat) : Option Nat :=
  (List.range fr.length).find? (fun j => overOf fr j == some i)

def tailOf (fr : List (RFrame τ)) : Nat → Nat → List Nat
  | 0, _ => []
  | fuel + 1, i =>
    match firstUnder fr i with
    | some u => u :: tailOf fr fuel u
    | none => []

def outline (fr : List (RFrame τ)) (i : Nat) : List Nat :=
  headOf fr fr.length i ++ tailOf fr fr.length i

/-- `Framer.segue`: `for frame in self.actives: if frame.precur(): return` — the transitions in effect
when `i` is the active frame are those of its outline, top down, each frame's in order -/
def transOf (fr : List (RFrame τ)) (i : Nat) : List (Trans τ) :=
  (outline fr i).flatMap (fun j => ((fr[j]?).map (·.trans)).getD [])

/-- no over link points at itself through the chain within the fuel (the real builder does not
terminate on such input, defect D6; the driver refuses it) -/
def acyclic (fr : List (RFrame τ)) : Bool :=
  (List.range fr.length).all (fun i => (headOf fr fr.length i).length ≤ fr.length)

/-- the framer's clock state -/
structure St (τ : Type) where
  active : Nat
  stamp : τ          -- Framer.stamp: store time of the last outline change
  elapsed : τ        -- Framer.elapsed / the elapsed share
  recurred : Nat     -- Framer.recurred / the recurred share
deriving Repr

def evalNeed (s : St τ) : Need τ → Bool
  | .elapsed c g => check s.elapsed c g
  | .recurred c g => check s.recurred c g

/-- `Frame.precur`: the first transition whose needs all hold -/
def firstTrans (s : St τ) : List (Trans τ) → Option (Trans τ)
  | [] => none
  | t :: ts => if t.needs.all (evalNeed s) then some t else firstTrans s ts

/-- `Framer.enter(enters)` with non-empty `enters` + `activate`: restartTimer, restartCounter -/
def enter [OfNat τ 0] (now : τ) (far : Nat) : St τ :=
  { active := far, stamp := now, elapsed := 0, recurred := 0 }

/-- what one tick shows: the values the needs saw (`eval*`, absent in the start tick), whether the
outline changed, the state afterwards -/
structure Obs (τ : Type) where
  now : τ
  evalElapsed : Option τ
  evalRecurred : Option Nat
  entered : Bool
  after : St τ
deriving Repr

/-- `Framer.segue`: updateTimer, updateCounter, then the transitions in effect for the active frame
(`tr a` = `transOf frames a`) -/
def segue [OfNat τ 0] (tr : Nat → List (Trans τ)) (now : τ) (s : St τ) : Obs τ :=
  let s1 : St τ := { s with elapsed := now - s.stamp, recurred := s.recurred + 1 }
  match firstTrans s1 (tr s.active) with
  | some t => ⟨now, some s1.elapsed, some s1.recurred, true, enter now t.far⟩
  | none => ⟨now, some s1.elapsed, some s1.recurred, false, s1⟩

/-- ticks after the start tick -/
def runFrom [OfNat τ 0] (tr : Nat → List (Trans τ)) (s : St τ) : List τ → List (Obs τ)
  | [] => []
  | now :: rest => let o := segue tr now s; o :: runFrom tr o.after rest

/-- the whole run over the store stamps `nows` (first element = the START tick: `enterAll`) -/
def run [OfNat τ 0] (tr : Nat → List (Trans τ)) : List τ → List (Obs τ)
  | [] => []
  | now :: rest =>
    let s0 := enter now 0
    ⟨now, none, none, true, s0⟩ :: runFrom tr s0 rest

/-- `Skedder.run`: the store stamp of tick `n` is `0 + P + … + P` (n additions, in this order) -/
def stampAt [OfNat τ 0] (P : τ) : Nat → τ
  | 0 => 0
  | n + 1 => stampAt P n + P

def stamps [OfNat τ 0] (P : τ) (n : Nat) : List τ := (List.range n).map (stampAt P)

/-- the stamps an instance sees that is started at tick `s` and runs for `n` ticks (an auxiliary framer
or a clone is entered when its main frame is entered, not necessarily at tick 0) -/
def stampsFrom [OfNat τ 0] (P : τ) (s n : Nat) : List τ := (stamps P (s + n)).drop s

end generic

end Ioflo.FloClock
