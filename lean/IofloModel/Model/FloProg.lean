import IofloModel.Model.Flo
/-
The FloScript subset interpreted on top of `Model/Flo.lean`  (core Lean only).

* store = integer valued shares `v0, v1, …` (field `value`), each with its time stamp (`Share.stamp`, `None`
          until an action of a running framer updates the share) and its marks (`Share.marks[key]`:
          `storing.Mark` with slots stamp / used / data)
* store actions  — `put`/`set` (PokeDirect, GoalDirect), `inc … with` (IncDirect), `inc … from` (IncIndirect),
                   `copy` (PokeIndirect), the harness' recorder deed `rec` (returns its `ret` parameter)
* marker acts    — `MarkerUpdate` (as transit act: also sets `used`; as enact of the marked frame), `MarkerChange`;
                   `NeedMarker._resolve` adds one transit marker act per `is updated` / `is changed` need to the
                   need's transition or conditional-aux clause, and with `in frame …` one enact inserted first
                   in the marked frame (the harness lays the acts out; the key of a mark is the number of the
                   marked frame)
* needs          — `v is updated [in frame f]` (NeedUpdate), `v is changed [in frame f]` (NeedChange),
                   `if v OP n`, `if v OP w`, `if v` (NeedDirect, NeedIndirect, NeedBoolean, `Need.Check` with
                   tolerance 0), `elapsed OP t`, `recurred OP n` of a framer (the shares
                   `framer.<name>.state.elapsed/recurred`), `<tasker> is done` (NeedDone),
                   `<tasker> is <status>` (NeedStatus), each optionally negated (`Nact`)
* a declared program (`Decl…`) is turned into a `Prog` by resolving each framer's frame links with
  `Outline.resolveLinks` and tracing heads and outlines (`Framer.resolve` → `traceOutlines`).
-/
namespace Ioflo.Flo
open Ioflo.Outline (Fid)

inductive Cmp | eq | ne | lt | le | ge | gt
  deriving DecidableEq, Repr

/-- `Need.Check(state, comparison, goal, tolerance = 0)` on integers -/
def Cmp.holds (op : Cmp) (state goal : Int) : Bool :=
  match op with
  | .eq => decide (goal ≤ state ∧ state ≤ goal)
  | .ne => !decide (goal ≤ state ∧ state ≤ goal)
  | .lt => decide (state < goal)
  | .le => decide (state ≤ goal)
  | .ge => decide (state ≥ goal)
  | .gt => decide (state > goal)

inductive CAct
  | record (tag : Nat) (ret : Bool)
  | put (dst : Nat) (v : Int)
  | inc (dst : Nat) (v : Int)
  | incFrom (dst src : Nat)
  | copy (src dst : Nat)
  | markU (sh key : Nat) (transit : Bool)   -- MarkerUpdate; `transit`: the act's context is the transit sub-context
  | markC (sh key : Nat)                     -- MarkerChange
  deriving Repr

inductive CNeed
  | always
  | cmpD (sh : Nat) (op : Cmp) (v : Int)
  | cmpI (a : Nat) (op : Cmp) (b : Nat)
  | bool (sh : Nat)
  | elapsed (fr : Frid) (op : Cmp) (t : Nat)
  | recurred (fr : Frid) (op : Cmp) (n : Nat)
  | done (fr : Frid)
  | status (fr : Frid) (st : Status)
  | auxAny (f : Fid)                 -- `any [in frame f] is done`  (NeedDoneAux over `frame.auxes`)
  | auxAll (f : Fid)                 -- `all [in frame f] is done`: `frame.auxes and all(…)` — falsy for no auxes
  | auxNamed (f : Fid) (x : Frid)    -- `x in frame f is done`: `x in frame.auxes` and `x.done`
  | updated (sh key : Nat)           -- NeedUpdate
  | changed (sh key : Nat)           -- NeedChange
  deriving Repr

structure NeedC where
  neg : Bool
  need : CNeed
  deriving Repr

/-- `storing.Mark`: the three slots start as `None` -/
structure MarkSt where
  stamp : Option Nat := none
  used : Option Nat := none
  data : Option Int := none
  deriving Repr, Inhabited, DecidableEq

structure World where
  val : Nat → Int
  stamp : Nat → Option Nat := fun _ => none          -- `share.stamp`
  mark : Nat → Nat → MarkSt := fun _ _ => {}         -- `share.marks[key]`

/-- `share.update(value=v)`: the value, then `stamp = store.stamp` -/
def World.set (w : World) (i : Nat) (v : Int) (now : Nat) : World :=
  { w with val := fun j => if j = i then v else w.val j,
           stamp := fun j => if j = i then some now else w.stamp j }

def World.setMark (w : World) (sh key : Nat) (m : MarkSt) : World :=
  { w with mark := fun a b => if a = sh ∧ b = key then m else w.mark a b }

def CAct.run (a : CAct) (now : Nat) (w : World) : World × Bool :=
  match a with
  | .record _ ret => (w, ret)
  | .put dst v => (w.set dst v now, false)
  | .inc dst v => (w.set dst (w.val dst + v) now, false)
  | .incFrom dst src => (w.set dst (w.val dst + w.val src) now, false)
  | .copy src dst => (w.set dst (w.val src) now, false)
  | .markU sh key transit =>
    -- `mark.stamp = self.store.stamp; if context == transit: mark.used = mark.stamp`
    let m := w.mark sh key
    (w.setMark sh key { m with stamp := some now, used := if transit then some now else m.used }, false)
  | .markC sh key =>
    -- `mark.data = storing.Data(share.items())`
    (w.setMark sh key { w.mark sh key with data := some (w.val sh) }, false)

/-- `NeedUpdate.action` -/
def updatedNeed (w : World) (sh key : Nat) : Bool :=
  match w.stamp sh with
  | none => false                           -- `share.stamp is not None` fails
  | some st =>
    let m := w.mark sh key
    match m.stamp with
    | none => true
    | some ms => decide (st > ms) || (st == ms && m.used != some ms)

/-- `NeedChange.action` (the share has the one field `value`) -/
def changedNeed (w : World) (sh key : Nat) : Bool :=
  match (w.mark sh key).data with
  | none => true
  | some d => d != w.val sh

def CNeed.eval (auxOf : Fid → List Frid) (n : CNeed) (frs : Frid → FramerSt) (w : World) : Bool :=
  match n with
  | .auxAny f => (auxOf f).any (fun x => (frs x).done)
  | .auxAll f => !(auxOf f).isEmpty && (auxOf f).all (fun x => (frs x).done)
  | .auxNamed f x => (auxOf f).contains x && (frs x).done
  | .always => true
  | .cmpD sh op v => op.holds (w.val sh) v
  | .cmpI a op b => op.holds (w.val a) (w.val b)
  | .bool sh => w.val sh != 0
  | .updated sh key => updatedNeed w sh key
  | .changed sh key => changedNeed w sh key
  | .elapsed fr op t => op.holds (Int.ofNat (frs fr).elapsed) (Int.ofNat t)
  | .recurred fr op n => op.holds (Int.ofNat (frs fr).recurred) (Int.ofNat n)
  | .done fr => (frs fr).done
  | .status fr st => (frs fr).status == st

def NeedC.eval (auxOf : Fid → List Frid) (n : NeedC) (frs : Frid → FramerSt) (w : World) : Bool :=
  if n.neg then !n.need.eval auxOf frs w else n.need.eval auxOf frs w

/-- the concrete semantics: ids index the two tables -/
def concreteSem (acts : List CAct) (needs : List NeedC) (auxOf : Fid → List Frid) : Sem World :=
  { act := fun id _ now w => match acts[id]? with
                             | some a => a.run now w
                             | none => (w, false),
    need := fun id frs _ w => match needs[id]? with
                              | some n => n.eval auxOf frs w
                              | none => false }

/-! ### declared programs -/

/-- one frame as declared: links by *local* frame number within its framer -/
structure DeclFrame where
  over : Option Nat
  unders : List Nat
  beacts : List NeedId
  enacts : List Act
  renacts : List Act
  reacts : List Act
  exacts : List Act
  rexacts : List Act
  preacts : List Preact
  auxes : List Frid
  deriving Repr

structure DeclFramer where
  first : Nat                 -- local number of the first frame
  frames : List DeclFrame
  original : Bool := true     -- false: a clone of a moot framer (`aux <moot> as <name>`), `clone.original = False`
  deriving Repr

def emptyFrame : FrameDef :=
  { framer := 0, outline := [], head := [], beacts := [], enacts := [], renacts := [], reacts := [],
    exacts := [], rexacts := [], preacts := [], auxes := [] }

/-- frames of one framer with global numbers `base, base+1, …` -/
def buildFramer (fr : Frid) (base : Nat) (d : DeclFramer) : Except Outline.ResolveErr (List FrameDef) :=
  let n := d.frames.length
  let D : Outline.Decls :=
    { n := n, over := fun f => (d.frames[f]?).bind (·.over),
      unders := fun f => match d.frames[f]? with | some x => x.unders | none => [] }
  match Outline.resolveLinks D with
  | .error e => .error e
  | .ok F =>
    if !F.traceable then .error .diverge else
    .ok ((List.range n).map fun f =>
      match d.frames[f]? with
      | none => emptyFrame
      | some x =>
        { framer := fr,
          outline := ((Outline.traceOutline F f).getD []).map (· + base),
          head := ((Outline.traceHead F f).getD []).map (· + base),
          beacts := x.beacts, enacts := x.enacts, renacts := x.renacts, reacts := x.reacts,
          exacts := x.exacts, rexacts := x.rexacts, preacts := x.preacts, auxes := x.auxes })

def buildAll : Frid → Nat → List DeclFramer → Except Outline.ResolveErr (List FrameDef × List FramerDef)
  | _, _, [] => .ok ([], [])
  | fr, base, d :: rest =>
    match buildFramer fr base d with
    | .error e => .error e
    | .ok fs =>
      match buildAll (fr + 1) (base + d.frames.length) rest with
      | .error e => .error e
      | .ok (fs', ds') => .ok (fs ++ fs', { first := base + d.first, original := d.original } :: ds')

def mkProg (frames : List FrameDef) (framers : List FramerDef) : Prog :=
  { frame := fun f => (frames[f]?).getD emptyFrame,
    framer := fun i => (framers[i]?).getD { first := 0 },
    frames := fun i => (List.range frames.length).filter (fun f => ((frames[f]?).getD emptyFrame).framer == i) }

/-- is some auxiliary framer referenced by more than one `aux` clause (plain or conditional) of the program?
(the negation of `WF.unique`/`WF.nodup`, on the finite program) -/
def sharedAux (frames : List FrameDef) : Bool :=
  Outline.hasDup (frames.flatMap (fun fd => fd.auxes ++ suspAuxes fd.preacts))

/-- does some frame name the same auxiliary both in a plain `aux x` and in a conditional `aux x if …` clause?
(region predicate of finding D3e; excluded by `WF.nodup`) -/
def plainAndCond (frames : List FrameDef) : Bool :=
  frames.any (fun fd => fd.auxes.any (fun a => (suspAuxes fd.preacts).contains a))

def initSt (w : World) : St World :=
  { frs := fun _ => {}, world := w, now := 0, trace := [] }

end Ioflo.Flo
