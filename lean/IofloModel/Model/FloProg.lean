import IofloModel.Model.Flo
/-
The FloScript subset interpreted on top of `Model/Flo.lean`  (core Lean only).

* store = integer valued shares `v0, v1, …` (field `value`)
* store actions  — `put`/`set` (PokeDirect, GoalDirect), `inc … with` (IncDirect), `inc … from` (IncIndirect),
                   `copy` (PokeIndirect), the harness' recorder deed `rec` (returns its `ret` parameter)
* needs          — `if v OP n`, `if v OP w`, `if v` (NeedDirect, NeedIndirect, NeedBoolean, `Need.Check` with
                   tolerance 0), `elapsed OP t`, `recurred OP n` of a framer (the shares
                   `framer.<name>.state.elapsed/recurred`), `<tasker> is done` (NeedDone),
                   `<tasker> is <status>` (NeedStatus), each optionally negated (`Nact`)
* a declared program (`Decl…`) is turned into a `Prog` by resolving each framer's frame links with
  `Outline.resolveLinks` and tracing heads and outlines (`Framer.resolve` → `traceOutlines`).
-/
namespace Ioflo.Flo
open Ioflo.Outline (Fid)

inductive Cmp | eq | ne | lt | le | ge | gt
  deriving DecidableEq, Repr

/-- `Need.Check(state, comparison, goal, tolerance = 0)` on integers -/
def Cmp.holds (op : Cmp) (state goal : Int) : Bool :=
  match op with
  | .eq => decide (goal ≤ state ∧ state ≤ goal)
  | .ne => !decide (goal ≤ state ∧ state ≤ goal)
  | .lt => decide (state < goal)
  | .le => decide (state ≤ goal)
  | .ge => decide (state ≥ goal)
  | .gt => decide (state > goal)

inductive CAct
  | record (tag : Nat) (ret : Bool)
  | put (dst : Nat) (v : Int)
  | inc (dst : Nat) (v : Int)
  | incFrom (dst src : Nat)
  | copy (src dst : Nat)
  deriving Repr

inductive CNeed
  | always
  | cmpD (sh : Nat) (op : Cmp) (v : Int)
  | cmpI (a : Nat) (op : Cmp) (b : Nat)
  | bool (sh : Nat)
  | elapsed (fr : Frid) (op : Cmp) (t : Nat)
  | recurred (fr : Frid) (op : Cmp) (n : Nat)
  | done (fr : Frid)
  | status (fr : Frid) (st : Status)
  | auxAny (f : Fid)                 -- `any [in frame f] is done`  (NeedDoneAux over `frame.auxes`)
  | auxAll (f : Fid)                 -- `all [in frame f] is done`: `frame.auxes and all(…)` — falsy for no auxes
  | auxNamed (f : Fid) (x : Frid)    -- `x in frame f is done`: `x in frame.auxes` and `x.done`
  deriving Repr

structure NeedC where
  neg : Bool
  need : CNeed
  deriving Repr

abbrev World := Nat → Int

def World.set (w : World) (i : Nat) (v : Int) : World := fun j => if j = i then v else w j

def CAct.run (a : CAct) (w : World) : World × Bool :=
  match a with
  | .record _ ret => (w, ret)
  | .put dst v => (w.set dst v, false)
  | .inc dst v => (w.set dst (w dst + v), false)
  | .incFrom dst src => (w.set dst (w dst + w src), false)
  | .copy src dst => (w.set dst (w src), false)

def CNeed.eval (auxOf : Fid → List Frid) (n : CNeed) (frs : Frid → FramerSt) (w : World) : Bool :=
  match n with
  | .auxAny f => (auxOf f).any (fun x => (frs x).done)
  | .auxAll f => !(auxOf f).isEmpty && (auxOf f).all (fun x => (frs x).done)
  | .auxNamed f x => (auxOf f).contains x && (frs x).done
  | .always => true
  | .cmpD sh op v => op.holds (w sh) v
  | .cmpI a op b => op.holds (w a) (w b)
  | .bool sh => w sh != 0
  | .elapsed fr op t => op.holds (Int.ofNat (frs fr).elapsed) (Int.ofNat t)
  | .recurred fr op n => op.holds (Int.ofNat (frs fr).recurred) (Int.ofNat n)
  | .done fr => (frs fr).done
  | .status fr st => (frs fr).status == st

def NeedC.eval (auxOf : Fid → List Frid) (n : NeedC) (frs : Frid → FramerSt) (w : World) : Bool :=
  if n.neg then !n.need.eval auxOf frs w else n.need.eval auxOf frs w

/-- the concrete semantics: ids index the two tables -/
def concreteSem (acts : List CAct) (needs : List NeedC) (auxOf : Fid → List Frid) : Sem World :=
  { act := fun id _ _ w => match acts[id]? with
                           | some a => a.run w
                           | none => (w, false),
    need := fun id frs _ w => match needs[id]? with
                              | some n => n.eval auxOf frs w
                              | none => false }

/-! ### declared programs -/

/-- one frame as declared: links by *local* frame number within its framer -/
structure DeclFrame where
  over : Option Nat
  unders : List Nat
  beacts : List NeedId
  enacts : List Act
  renacts : List Act
  reacts : List Act
  exacts : List Act
  rexacts : List Act
  preacts : List Preact
  auxes : List Frid
  deriving Repr

structure DeclFramer where
  first : Nat                 -- local number of the first frame
  frames : List DeclFrame
  deriving Repr

def emptyFrame : FrameDef :=
  { framer := 0, outline := [], head := [], beacts := [], enacts := [], renacts := [], reacts := [],
    exacts := [], rexacts := [], preacts := [], auxes := [] }

/-- frames of one framer with global numbers `base, base+1, …` -/
def buildFramer (fr : Frid) (base : Nat) (d : DeclFramer) : Except Outline.ResolveErr (List FrameDef) :=
  let n := d.frames.length
  let D : Outline.Decls :=
    { n := n, over := fun f => (d.frames[f]?).bind (·.over),
      unders := fun f => match d.frames[f]? with | some x => x.unders | none => [] }
  match Outline.resolveLinks D with
  | .error e => .error e
  | .ok F =>
    if !F.traceable then .error .diverge else
    .ok ((List.range n).map fun f =>
      match d.frames[f]? with
      | none => emptyFrame
      | some x =>
        { framer := fr,
          outline := ((Outline.traceOutline F f).getD []).map (· + base),
          head := ((Outline.traceHead F f).getD []).map (· + base),
          beacts := x.beacts, enacts := x.enacts, renacts := x.renacts, reacts := x.reacts,
          exacts := x.exacts, rexacts := x.rexacts, preacts := x.preacts, auxes := x.auxes })

def buildAll : Frid → Nat → List DeclFramer → Except Outline.ResolveErr (List FrameDef × List FramerDef)
  | _, _, [] => .ok ([], [])
  | fr, base, d :: rest =>
    match buildFramer fr base d with
    | .error e => .error e
    | .ok fs =>
      match buildAll (fr + 1) (base + d.frames.length) rest with
      | .error e => .error e
      | .ok (fs', ds') => .ok (fs ++ fs', { first := base + d.first } :: ds')

def mkProg (frames : List FrameDef) (framers : List FramerDef) : Prog :=
  { frame := fun f => (frames[f]?).getD emptyFrame,
    framer := fun i => (framers[i]?).getD { first := 0 },
    frames := fun i => (List.range frames.length).filter (fun f => ((frames[f]?).getD emptyFrame).framer == i) }

/-- is some auxiliary framer referenced by more than one `aux` clause (plain or conditional) of the program?
(the negation of `WF.unique`/`WF.nodup`, on the finite program) -/
def sharedAux (frames : List FrameDef) : Bool :=
  Outline.hasDup (frames.flatMap (fun fd => fd.auxes ++ suspAuxes fd.preacts))

def initSt (w : World) : St World :=
  { frs := fun _ => {}, world := w, now := 0, trace := [] }

end Ioflo.Flo
