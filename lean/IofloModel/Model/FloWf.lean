import IofloModel.Model.FloProg
/-
Decidable well-formedness of a finite program (core Lean only): the Boolean counterpart of the hypotheses
`WF` / `WFE` of the invariant theorems (Lemmas/Flo.lean, Lemmas/FloTrace.lean), evaluated by the driver on
every generated program so that the evidence can say how many of the runs lie inside the theorems' domain.
(It is a report, not a proof obligation: `wfCheck = true → WF …` is not proved.)
-/
namespace Ioflo.Flo
open Ioflo.Outline (Fid)

def kidsOf (fd : FrameDef) : List Frid := fd.auxes ++ suspAuxes fd.preacts

def actDoneOnly (k : Frid) : Act → Bool
  | .done frs => frs.all (· == k)
  | _ => true

def preactDoneOnly (k : Frid) : Preact → Bool
  | .act a => actDoneOnly k a
  | .transit _ _ tr => tr.all (actDoneOnly k)
  | .suspend _ _ tr => tr.all (actDoneOnly k)

/-- one relaxation round of "rank = 1 + max rank of the auxiliaries of my frames" -/
def rankStep (frames : List FrameDef) (nfr : Nat) (rank : List Nat) : List Nat :=
  (List.range nfr).map fun i =>
    (frames.filter (·.framer == i)).foldl
      (fun m fd => (kidsOf fd).foldl (fun m y => max m ((rank[y]?).getD 0 + 1)) m) 0

def rankIter (frames : List FrameDef) (nfr : Nat) : Nat → List Nat → List Nat
  | 0, r => r
  | k + 1, r => rankIter frames nfr k (rankStep frames nfr r)

/-- the auxiliary references are acyclic: the rank computation is stable after `nfr` rounds -/
def acyclicAux (frames : List FrameDef) (nfr : Nat) : Bool :=
  let r := rankIter frames nfr nfr (List.replicate nfr 0)
  rankStep frames nfr r == r

def frameOk (frames : List FrameDef) (framers : List FramerDef) (g : Fid) (fd : FrameDef) : Bool :=
  let own (l : List Fid) := l.all fun f => ((frames[f]?).map (·.framer)) == some fd.framer
  fd.head.getLast? == some g &&
  fd.outline.contains g &&
  own fd.outline && own fd.head &&
  !Outline.hasDup fd.outline &&
  fd.enacts.all (actDoneOnly fd.framer) && fd.renacts.all (actDoneOnly fd.framer) &&
  fd.reacts.all (actDoneOnly fd.framer) && fd.exacts.all (actDoneOnly fd.framer) &&
  fd.rexacts.all (actDoneOnly fd.framer) && fd.preacts.all (preactDoneOnly fd.framer) &&
  fd.preacts.all (fun p => match p with
    | .transit _ far _ => ((frames[far]?).map (·.framer)) == some fd.framer
    | _ => true) &&
  (kidsOf fd).all (fun y => y < framers.length)

/-- Boolean counterpart of `WF ∧ WFE` on the finite program -/
def wfCheck (frames : List FrameDef) (framers : List FramerDef) : Bool :=
  !sharedAux frames &&
  acyclicAux frames framers.length &&
  ((List.range frames.length).all fun g => match frames[g]? with
    | some fd => frameOk frames framers g fd
    | none => false) &&
  ((List.range framers.length).all fun i => match framers[i]? with
    | some fr => ((frames[fr.first]?).map (·.framer)) == some i
    | none => false)

end Ioflo.Flo
