/-
Model of the transmit side of `ioflo/aio/proto/stacking.py` `GramStack` / `UdpStack`
(`transmit`, `message`, `serviceTxMsgs`, `_serviceOneTxPkt(laters, blockeds)`,
`serviceTxPkts`, `serviceTxPktsOnce`, `serviceAllTx`, `close`, `reopen`).

Transcribed statement by statement.  A packet object is a `Pkt` (an id standing for the
object / its packed bytes, and its destination ha).  The socket is the environment: each
`handler.send(pkt.packed, ha)` consumes one `Outcome` from the script of the service call
(an exhausted script means "the send succeeds": a script `l` denotes the stream `l ++ ok ok ok …`).

`Variant.asIs` is the loop of the unchanged tree (`if not again: break`);
`Variant.repaired` is the loop after `fixes/D20-gramstack-break-reorders.patch`
(the `break` removed).  Core Lean only.
-/
namespace Ioflo.Gram

/-- A `(pkt, ha)` duple of `.txPkts` (or a `(msg, remote)` duple of `.txMsgs`). -/
structure Pkt where
  id : Nat
  dst : Nat
deriving DecidableEq, Repr

/-- Answer of the socket to one `handler.send`. `err e` = `socket.error` with `args[0] = e`. -/
inductive Outcome where
  | ok
  | err (e : Nat)
deriving DecidableEq, Repr

/-- The errno tuple of `GramStack._serviceOneTxPkt` (Linux numbers):
ECONNREFUSED ECONNRESET ENETRESET ENETUNREACH EHOSTUNREACH ENETDOWN EHOSTDOWN ETIMEDOUT ETIME -/
def transientErrnos : List Nat := [111, 104, 102, 101, 113, 100, 112, 110, 62]

/-- What the socket double / the caller observes. -/
inductive Event where
  | sent (p : Pkt)               -- `handler.send` returned: the datagram went out
  | failed (p : Pkt) (e : Nat)   -- `handler.send` raised `socket.error(e)`
  | raised (e : Nat)             -- the exception escaped the service call
deriving DecidableEq, Repr

inductive Variant where
  | asIs
  | repaired
deriving DecidableEq, Repr

/-- next answer of the socket; an exhausted script answers `ok` -/
def nextOutcome : List Outcome → Outcome × List Outcome
  | [] => (.ok, [])
  | o :: r => (o, r)

/-- Result of `_serviceOneTxPkt(laters, blockeds)` after `pkt, ha = self.txPkts.popleft()`. -/
inductive One where
  | ret (again : Bool) (laters : List Pkt) (blockeds : List Nat) (env : List Outcome) (ev : List Event)
  | exc (e : Nat) (env : List Outcome) (ev : List Event)

def oneTxPkt (p : Pkt) (laters : List Pkt) (blockeds : List Nat) (env : List Outcome) : One :=
  if p.dst ∈ blockeds then
    .ret false (laters ++ [p]) blockeds env []            -- laters.append((pkt, ha)); return False
  else
    match nextOutcome env with
    | (.ok, env') => .ret true laters blockeds env' [.sent p]
    | (.err e, env') =>
      if e ∈ transientErrnos then
        .ret true (laters ++ [p]) (blockeds ++ [p.dst]) env' [.failed p e]
      else
        .exc e env' [.failed p e]                          -- `raise`: the popped duple is gone

/-- What a service call leaves behind. -/
structure PassOut where
  txPkts : List Pkt
  env : List Outcome
  events : List Event
  raised : Option Nat
deriving DecidableEq, Repr

/-- `while self.txPkts: again = self._serviceOneTxPkt(laters, blockeds); if not again: break`
followed by `while laters: self.txPkts.append(laters.popleft())`.
First argument: what is still on `.txPkts`. -/
def txLoop (v : Variant) : List Pkt → List Pkt → List Nat → List Outcome → PassOut
  | [], laters, _, env => ⟨laters, env, [], none⟩
  | p :: rest, laters, blockeds, env =>
    match oneTxPkt p laters blockeds env with
    | .ret again laters' blockeds' env' ev =>
      if !again && v == .asIs then
        ⟨rest ++ laters', env', ev, none⟩                 -- break; laters go behind the unvisited rest
      else
        let r := txLoop v rest laters' blockeds' env'
        { r with events := ev ++ r.events }
    | .exc e env' ev => ⟨rest, env', ev ++ [.raised e], some e⟩   -- laters is a local: lost

structure State where
  opened : Bool
  txMsgs : List Pkt
  txPkts : List Pkt
deriving DecidableEq, Repr

/-- a stack whose handler has been opened by `Stack.__init__` -/
def init : State := ⟨true, [], []⟩

inductive Op where
  | transmit (p : Pkt)                       -- `stack.transmit(pkt, ha)`
  | message (p : Pkt)                        -- `stack.message(msg, remote)`
  | serviceTxMsgs
  | serviceTxPkts (env : List Outcome)
  | serviceTxPktsOnce (env : List Outcome)
  | serviceAllTx (env : List Outcome)        -- `serviceTxMsgs(); serviceTxPkts()`
  | close
  | reopen
deriving DecidableEq, Repr

def serviceTxPkts (v : Variant) (s : State) (env : List Outcome) : State × List Event :=
  if s.opened then
    let r := txLoop v s.txPkts [] [] env
    ({ s with txPkts := r.txPkts }, r.events)
  else (s, [])

def serviceTxPktsOnce (s : State) (env : List Outcome) : State × List Event :=
  if s.opened then
    match s.txPkts with
    | [] => (s, [])
    | p :: rest =>
      match oneTxPkt p [] [] env with
      | .ret _ laters _ _ ev => ({ s with txPkts := rest ++ laters }, ev)
      | .exc e _ ev => ({ s with txPkts := rest }, ev ++ [.raised e])
  else (s, [])

/-- `while self.txMsgs: self._serviceOneTxMsg()`; `packetize` of the base `Packet` never fails -/
def serviceTxMsgs (s : State) : State :=
  { s with txPkts := s.txPkts ++ s.txMsgs, txMsgs := [] }

def step (v : Variant) (s : State) : Op → State × List Event
  | .transmit p => ({ s with txPkts := s.txPkts ++ [p] }, [])
  | .message p => ({ s with txMsgs := s.txMsgs ++ [p] }, [])
  | .serviceTxMsgs => (serviceTxMsgs s, [])
  | .serviceTxPkts env => serviceTxPkts v s env
  | .serviceTxPktsOnce env => serviceTxPktsOnce s env
  | .serviceAllTx env => serviceTxPkts v (serviceTxMsgs s) env
  | .close => ({ s with opened := false }, [])
  | .reopen => ({ s with opened := true }, [])

/-- a history; an exception that escapes a call is caught by the caller, who goes on -/
def run (v : Variant) : State → List Op → State × List Event
  | s, [] => (s, [])
  | s, op :: ops =>
    let (s', ev) := step v s op
    let (s'', evs) := run v s' ops
    (s'', ev ++ evs)

/-! ### observation helpers (used by the theorems, the driver and the region predicate) -/

def sentPkts : List Event → List Pkt
  | [] => []
  | .sent p :: r => p :: sentPkts r
  | _ :: r => sentPkts r

def failedDsts : List Event → List Nat
  | [] => []
  | .failed p _ :: r => p.dst :: failedDsts r
  | _ :: r => failedDsts r

/-- packets to destination `d` -/
def toDst (d : Nat) (l : List Pkt) : List Pkt := l.filter (fun p => p.dst == d)

def Outcome.transientOnly : Outcome → Bool
  | .ok => true
  | .err e => transientErrnos.contains e

def envOf : Op → List Outcome
  | .serviceTxPkts env => env
  | .serviceTxPktsOnce env => env
  | .serviceAllTx env => env
  | _ => []

/-- every scripted failure of the history is one of the transient errnos -/
def transientOnlyOps (ops : List Op) : Bool :=
  ops.all (fun op => (envOf op).all Outcome.transientOnly)

/-- the order in which packets enter `.txPkts` (pure function of the calls made;
`pending` = what is on `.txMsgs`) -/
def entered : List Pkt → List Op → List Pkt
  | _, [] => []
  | pending, .transmit p :: ops => p :: entered pending ops
  | pending, .message p :: ops => entered (pending ++ [p]) ops
  | pending, .serviceTxMsgs :: ops => pending ++ entered [] ops
  | pending, .serviceAllTx _ :: ops => pending ++ entered [] ops
  | pending, _ :: ops => entered pending ops

/-- Region of the known finding D20b: some `serviceTxPktsOnce` call has its send fail
transiently while another packet for the same destination is waiting behind it
(the failed packet is then re-queued at the tail, behind its successor). -/
def onceReorders (v : Variant) : State → List Op → Bool
  | _, [] => false
  | s, op :: ops =>
    (match op with
     | .serviceTxPktsOnce env =>
       s.opened &&
       (match s.txPkts with
        | [] => false
        | p :: rest =>
          (match nextOutcome env with
           | (.err e, _) => transientErrnos.contains e && rest.any (fun q => q.dst == p.dst)
           | _ => false))
     | _ => false)
    || onceReorders v (step v s op).1 ops

def usesOnce : List Op → Bool
  | [] => false
  | .serviceTxPktsOnce _ :: _ => true
  | _ :: ops => usesOnce ops

/-! ## receive side (`GramStack._serviceOneReceived`, `Stack.serviceReceives` / `serviceReceivesOnce`,
`UdpStack._serviceOneRxPkt` / `messagize`, `serviceRxPkts`, `RemoteDevice.receive`) -/

/-- answer of the socket to one `handler.receive()` (`SocketUdpNb.receive` over `recvfrom`) -/
inductive Recv where
  | dgram (p : Pkt)        -- a datagram with a non-empty payload `p.id` from source `p.dst`
  | empty (src : Nat)      -- a zero-length datagram: `(b'', sa)`
  | nothing                -- EAGAIN / EWOULDBLOCK: `(b'', None)`
  | err (e : Nat)          -- any other socket.error
deriving DecidableEq, Repr

structure RxState where
  opened : Bool
  remotes : List Nat       -- source addresses with a remote device (`.haRemotes`)
  rxPkts : List Pkt        -- `(packet, ha)` duples
  rxMsgs : List Pkt        -- messages handed to `.rxMsgs` by `remote.receive`
  taken : List Pkt         -- history variable: non-empty datagrams the socket handed over, in order
  popped : List Pkt        -- history variable: packets taken off `.rxPkts` by `serviceRxPkts`
deriving DecidableEq, Repr

def RxState.init : RxState := ⟨true, [], [], [], [], []⟩

/-- `while self.handler.opened: if not self._serviceOneReceived(): break`; an exhausted script answers
"nothing".  Result: state, escaped errno. -/
def rxLoop : List Recv → RxState → RxState × Option Nat
  | [], s => (s, none)
  | r :: rest, s =>
    match r with
    | .dgram p => rxLoop rest { s with rxPkts := s.rxPkts ++ [p], taken := s.taken ++ [p] }
    | .empty _ => (s, none)                    -- `if not raw: return False`
    | .nothing => (s, none)
    | .err e => if e ∈ transientErrnos then (s, none) else (s, some e)

def serviceReceives (s : RxState) (env : List Recv) : RxState × Option Nat :=
  if s.opened then rxLoop env s else (s, none)

/-- `serviceReceivesOnce`: one `_serviceOneReceived` -/
def serviceReceivesOnce (s : RxState) (env : List Recv) : RxState × Option Nat :=
  if s.opened then
    match env with
    | [] => (s, none)
    | r :: _ => rxLoop [r] s
  else (s, none)

/-- `while self.rxPkts: self._serviceOneRxPkt()`: a packet from a source without a remote is dropped -/
def serviceRxPkts (s : RxState) : RxState :=
  { s with rxPkts := [], popped := s.popped ++ s.rxPkts,
           rxMsgs := s.rxMsgs ++ s.rxPkts.filter (fun p => s.remotes.contains p.dst) }

inductive ROp where
  | addRemote (src : Nat)
  | serviceReceives (env : List Recv)
  | serviceReceivesOnce (env : List Recv)
  | serviceRxPkts
  | close
  | reopen
deriving DecidableEq, Repr

def rstep (s : RxState) : ROp → RxState × Option Nat
  | .addRemote src => ({ s with remotes := if s.remotes.contains src then s.remotes else s.remotes ++ [src] }, none)
  | .serviceReceives env => serviceReceives s env
  | .serviceReceivesOnce env => serviceReceivesOnce s env
  | .serviceRxPkts => (serviceRxPkts s, none)
  | .close => ({ s with opened := false }, none)
  | .reopen => ({ s with opened := true }, none)

def rrun : RxState → List ROp → RxState × List (Option Nat)
  | s, [] => (s, [])
  | s, op :: ops =>
    let (s', e) := rstep s op
    let (s'', es) := rrun s' ops
    (s'', e :: es)


end Ioflo.Gram
