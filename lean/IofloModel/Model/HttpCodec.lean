/-!
# Model of the HTTP message codecs of `ioflo/aio/http` (C30)

Byte-level transcription of

* `httping.packChunk` / `parseChunk`, `packHeader` / `parseLeader`, `parseLine`,
  `parseRequestLine`, `parseStatusLine`, `updateQargsQuery` (httping.py),
* `Requester.build` (clienting.py) and `Requestant.parseHead/parseBody`,
  `Valet.buildEnviron` (serving.py): the request direction,
* `Responder.start/build/write/service` (serving.py) and
  `Respondent.parseHead/parseBody` (clienting.py): the response direction.

The parsers are generators over a growing `bytearray`; here each is a function of the
buffer content that answers `need` (the generator would yield `None`: more bytes wanted),
an exception, or the parsed value together with the unconsumed rest.  (That the answer
does not depend on how the bytes arrive is C29's subject, not modelled here.)

Bytes are `Nat`s below 256, text is `List Char` (Python `str`).  `urllib.parse` and `json`
are parameters (`Std`).  Core Lean only.
-/
namespace Ioflo.HttpCodec

abbrev Bytes := List Nat
abbrev Str := List Char

def CR : Nat := 13
def LF : Nat := 10
def crlf : Bytes := [13, 10]
def MAX_LINE_SIZE : Nat := 65536
def MAX_HEADERS : Nat := 100

inductive Err
  | lineTooLong            -- httping.LineTooLong (an HTTPException)
  | tooManyHeaders         -- HTTPException("Too many headers")
  | valueError             -- ValueError (bad chunk size, chunk end garbage, header without ": ", …)
  | unicodeError           -- UnicodeEncodeError / UnicodeDecodeError
  | badRequestLine | unknownProtocol | badMethod | badStatusLine
  | invalidBody            -- HTTPException("Invalid body, content-length not provided!")
  | invalidHeader          -- HTTPException("Invalid header line"): no colon
  | prematureClosure
  | assertionError         -- WSGI protocol misuse by the application
  | outOfModel             -- input outside what the model transcribes
  deriving DecidableEq, Repr

/-- answer of a parser: wants more bytes, raised, or done with the unconsumed rest -/
inductive Res (α : Type)
  | need
  | fail (e : Err)
  | done (a : α) (rest : Bytes)
  deriving DecidableEq

/-! ## bytes and text -/

def asciiLowerN (b : Nat) : Nat := if 65 ≤ b ∧ b ≤ 90 then b + 32 else b
def asciiUpperN (b : Nat) : Nat := if 97 ≤ b ∧ b ≤ 122 then b - 32 else b
def isAlphaN (b : Nat) : Bool := (65 ≤ b && b ≤ 90) || (97 ≤ b && b ≤ 122)

/-- `bytes.title()`: a cased byte is upper-cased when the previous byte is not cased, else lower-cased -/
def titleAux : Bool → Bytes → Bytes
  | _, [] => []
  | prevCased, b :: bs =>
    (if isAlphaN b then (if prevCased then asciiLowerN b else asciiUpperN b) else b) :: titleAux (isAlphaN b) bs

def title (bs : Bytes) : Bytes := titleAux false bs

/-- `str.lower()` of one character below U+0100 (ASCII and the Latin-1 capitals À–Þ except ×); others unchanged -/
def lowerC (c : Char) : Char :=
  if 'A' ≤ c ∧ c ≤ 'Z' then Char.ofNat (c.toNat + 32)
  else if 192 ≤ c.toNat ∧ c.toNat ≤ 222 ∧ c.toNat ≠ 215 then Char.ofNat (c.toNat + 32)
  else c
def upperC (c : Char) : Char := if 'a' ≤ c ∧ c ≤ 'z' then Char.ofNat (c.toNat - 32) else c
/-- `str.lower()` on text below U+0100 (what the parsers decode); `str.upper()` on ASCII -/
def lower (s : Str) : Str := s.map lowerC
def upper (s : Str) : Str := s.map upperC

/-- `str.encode('ascii')` -/
def encodeAscii (s : Str) : Except Err Bytes :=
  if s.all (fun c => c.toNat < 128) then .ok (s.map Char.toNat) else .error .unicodeError

/-- `str.encode('iso-8859-1')` -/
def encodeLatin1 (s : Str) : Except Err Bytes :=
  if s.all (fun c => c.toNat < 256) then .ok (s.map Char.toNat) else .error .unicodeError

/-- `bytes.decode('iso-8859-1')` (total) -/
def decodeLatin1 (bs : Bytes) : Str := bs.map Char.ofNat

def utf8 (s : Str) : Bytes := (String.ofList s).toUTF8.toList.map (·.toNat)

/-- `str(n)` for a non-negative `int`: decimal digits -/
def natStr (n : Nat) : Str :=
  if _h : n < 10 then [Char.ofNat (48 + n)] else natStr (n / 10) ++ [Char.ofNat (48 + n % 10)]
termination_by n
decreasing_by omega

def isWsN (b : Nat) : Bool := b = 32 || b = 9 || b = 10 || b = 13 || b = 11 || b = 12

/-- `bytes.strip()` -/
def stripN (bs : Bytes) : Bytes := ((bs.dropWhile isWsN).reverse.dropWhile isWsN).reverse

def joinBytes (sep : Bytes) : List Bytes → Bytes
  | [] => []
  | [a] => a
  | a :: b :: rest => a ++ sep ++ joinBytes sep (b :: rest)

/-! ## lines -/

/-- text before the first CRLF and the rest after it -/
def splitCRLF : Bytes → Option (Bytes × Bytes)
  | [] => none
  | [_] => none
  | a :: b :: rest =>
    if a = 13 ∧ b = 10 then some ([], rest)
    else match splitCRLF (b :: rest) with
      | none => none
      | some (l, r) => some (a :: l, r)

/-- text before the first LF and the rest after it -/
def splitLF : Bytes → Option (Bytes × Bytes)
  | [] => none
  | a :: rest =>
    if a = 10 then some ([], rest)
    else match splitLF rest with
      | none => none
      | some (l, r) => some (a :: l, r)

/-- text before the earliest end of line (CRLF or a bare LF) and the rest after it -/
def splitEol : Bytes → Option (Bytes × Bytes)
  | [] => none
  | a :: rest =>
    if a = 10 then some ([], rest)
    else if a = 13 ∧ rest.head? = some 10 then some ([], rest.drop 1)
    else match splitEol rest with
      | none => none
      | some (l, r) => some (a :: l, r)

def lineRes (raw : Bytes) (hit : Option (Bytes × Bytes)) : Res Bytes :=
  match hit with
  | none => if raw.length > MAX_LINE_SIZE then .fail .lineTooLong else .need
  | some (l, r) => if l.length > MAX_LINE_SIZE then .fail .lineTooLong else .done l r

/-- one step of `parseLine(raw, eols)`: the **earliest** eol ends the line.  `crlfOnly` = `eols=(CRLF,)`, else
`(CRLF, LF)` (the three-eol form with a bare CR is used for event streams only, C33) -/
def parseLine (crlfOnly : Bool) (raw : Bytes) : Res Bytes :=
  lineRes raw (if crlfOnly then splitCRLF raw else splitEol raw)

/-- the eol search inside `parseLeader` (its own loop, `eols=(CRLF, LF)`): the first *kind* that occurs anywhere
wins — a CRLF anywhere in the buffer before a bare LF — then its first occurrence -/
def leaderLine (raw : Bytes) : Res Bytes :=
  lineRes raw (match splitCRLF raw with
    | some r => some r
    | none => splitLF raw)

/-! ## header lines -/

/-- lower-case keyed ordered dict (`lodict`): set replaces in place or appends -/
def odSet {β : Type} (d : List (Str × β)) (k : Str) (v : β) : List (Str × β) :=
  match d with
  | [] => [(k, v)]
  | (k', v') :: rest => if k' = k then (k, v) :: rest else (k', v') :: odSet rest k v

def odGet {β : Type} (d : List (Str × β)) (k : Str) : Option β :=
  match d with
  | [] => none
  | (k', v) :: rest => if k' = k then some v else odGet rest k

/-- `lodict.__setitem__` -/
def loSet (d : List (Str × Str)) (k v : Str) : List (Str × Str) := odSet d (lower k) v

/-- `lodict(pairs)` / `lodict.update(pairs)`: an intermediate odict with lower-cased keys, then update -/
def loUpdate (d : List (Str × Str)) (pairs : List (Str × Str)) : List (Str × Str) :=
  let tmp := pairs.foldl (fun acc kv => odSet acc (lower kv.1) kv.2) []
  tmp.foldl (fun acc kv => odSet acc kv.1 kv.2) d

/-- a header value as `packHeader` accepts it -/
inductive HVal
  | str (s : Str)
  | bytes (b : Bytes)
  | int (n : Nat)
  deriving DecidableEq

def encodeHVal : HVal → Except Err Bytes
  | .str s => encodeLatin1 s
  | .bytes b => .ok b
  | .int n => .ok ((natStr n).map Char.toNat)

def encodeHVals : List HVal → Except Err (List Bytes)
  | [] => .ok []
  | v :: vs =>
    match encodeHVal v, encodeHVals vs with
    | .ok b, .ok bs => .ok (b :: bs)
    | .error e, _ => .error e
    | _, .error e => .error e

/-- `packHeader(name, *values)` for a `str` name -/
def packHeader (name : Str) (values : List HVal) : Except Err Bytes :=
  match encodeAscii name, encodeHVals values with
  | .ok n, .ok vs => .ok (title n ++ [58, 32] ++ joinBytes [44, 32] vs)
  | .error e, _ => .error e
  | _, .error e => .error e

def partitionN (c : Nat) : Bytes → Bytes × Bool × Bytes
  | [] => ([], false, [])
  | x :: xs =>
    if x = c then ([], true, xs)
    else let r := partitionN c xs; (x :: r.1, r.2.1, r.2.2)

/-- `str.isspace()` for code points below 256 (what `str.strip()` / `str.split()` treat as blank after a latin-1 decode) -/
def isSpaceC (c : Char) : Bool :=
  let n := c.toNat
  (9 ≤ n && n ≤ 13) || (28 ≤ n && n ≤ 32) || n = 133 || n = 160

/-- `str.strip()` -/
def stripC (s : Str) : Str := ((s.dropWhile isSpaceC).reverse.dropWhile isSpaceC).reverse

/-- `parseLeader(raw, eols=(CRLF, LF))` started on `headers`: header lines up to and including the empty
line; each line is split at its first `:` and the value stripped.  `fuel` bounds the number of lines looked at
(every line consumes at least its terminator). -/
def parseLeaderAux : Nat → List (Str × Str) → Bytes → Res (List (Str × Str))
  | 0, _, _ => .fail .outOfModel
  | fuel + 1, headers, raw =>
    match leaderLine raw with
    | .need => .need
    | .fail e => .fail e
    | .done line rest =>
      if line.isEmpty then
        if headers.length > MAX_HEADERS then .fail .tooManyHeaders else .done headers rest
      else
        let pr := partitionN 58 line
        if !pr.2.1 then .fail .invalidHeader       -- HTTPException("Invalid header line")
        else
          let headers := loSet headers (decodeLatin1 pr.1) (stripC (decodeLatin1 pr.2.2))
          if headers.length > MAX_HEADERS then .fail .tooManyHeaders
          else parseLeaderAux fuel headers rest

def parseLeader (raw : Bytes) : Res (List (Str × Str)) := parseLeaderAux (raw.length + 1) [] raw

/-! ## chunks -/

def hexDigitN (d : Nat) : Nat := if d < 10 then 48 + d else 87 + d

/-- `"{0:x}".format(n)` -/
def toHex (n : Nat) : Bytes :=
  if _h : n < 16 then [hexDigitN n] else toHex (n / 16) ++ [hexDigitN (n % 16)]
termination_by n
decreasing_by omega

/-- `packChunk(msg)` -/
def packChunk (msg : Bytes) : Bytes := toHex msg.length ++ crlf ++ msg ++ crlf

def hexVal? (b : Nat) : Option Nat :=
  if 48 ≤ b ∧ b ≤ 57 then some (b - 48)
  else if 97 ≤ b ∧ b ≤ 102 then some (b - 87)
  else if 65 ≤ b ∧ b ≤ 70 then some (b - 55)
  else none

def hexDigits? : Bytes → Nat → Option Nat
  | [], acc => some acc
  | b :: bs, acc => match hexVal? b with
    | some v => hexDigits? bs (acc * 16 + v)
    | none => none

def splitOnN (c : Nat) : Bytes → List Bytes
  | [] => [[]]
  | x :: xs =>
    if x = c then [] :: splitOnN c xs
    else match splitOnN c xs with
      | [] => [[x]]
      | h :: t => (x :: h) :: t

/-- `int(size.strip().decode('ascii'), 16)`: `bytes.strip()`, then Python's integer literal syntax for base 16 —
surrounding ASCII white space (the same six characters `bytes.strip()` removes), an optional sign, an optional `0x` / `0X` prefix (after which one underscore may follow),
hex digits with single underscores between them.  Anything else is a `ValueError`; non-ASCII bytes a
`UnicodeDecodeError`.  A negative size (`-1f`; the code then slices from the end of the buffer) is outside the model. -/
def pyIntHex (bs : Bytes) : Except Err Nat :=
  let t := stripN bs
  if t.any (fun b => b ≥ 128) then .error .unicodeError
  else match hexDigits? t 0 with
    | some n => if t.isEmpty then .error .valueError else .ok n
    | none =>
      let u := t
      let neg := match u with | 45 :: _ => true | _ => false
      let t1 := match u with | 43 :: r => r | 45 :: r => r | r => r
      let t2 := match t1 with
        | 48 :: 120 :: 95 :: r => r | 48 :: 88 :: 95 :: r => r
        | 48 :: 120 :: r => r | 48 :: 88 :: r => r
        | r => r
      let groups := splitOnN 95 t2
      if groups.all (fun g => !g.isEmpty && g.all (fun b => (hexVal? b).isSome)) then
        match hexDigits? groups.flatten 0 with
        | some n => if neg && n ≠ 0 then .error .outOfModel else .ok n
        | none => .error .valueError
      else .error .valueError

/-- chunk extension parameters: `name.strip() -> value.strip() or None`, latin-1 decoded, insertion ordered -/
def parseExts (exts : Bytes) : List (Str × Option Str) :=
  if exts.isEmpty then []
  else (splitOnN 59 exts).foldl (fun acc ext =>
    let r := partitionN 61 (stripN ext)
    let k := decodeLatin1 (stripN r.1)
    let v := decodeLatin1 (stripN r.2.2)
    let v' := if v.isEmpty then none else some v
    if acc.any (fun kv => kv.1 = k) then acc.map (fun kv => if kv.1 = k then (k, v') else kv)
    else acc ++ [(k, v')]) []

structure Chunk where
  size : Nat
  parms : List (Str × Option Str)
  trails : List (Str × Str)
  data : Bytes
  deriving DecidableEq

/-- `parseChunk(raw)` -/
def parseChunk (raw : Bytes) : Res Chunk :=
  match parseLine true raw with
  | .need => .need
  | .fail e => .fail e
  | .done line rest =>
    let pr := partitionN 59 line
    match pyIntHex pr.1 with
    | .error e => .fail e
    | .ok size =>
      let parms := parseExts pr.2.2
      if size = 0 then
        match parseLeader rest with
        | .need => .need
        | .fail e => .fail e
        | .done trails rest' => .done ⟨0, parms, trails, []⟩ rest'
      else if rest.length < size then .need
      else
        match parseLine true (rest.drop size) with
        | .need => .need
        | .fail e => .fail e
        | .done l rest' =>
          if l.isEmpty then .done ⟨size, parms, [], rest.take size⟩ rest'
          else .fail .valueError

/-! ## standard-library parameters -/

/-- the members of `urllib.parse.SplitResult` that the code reads -/
structure Split where
  scheme : Str
  netloc : Str
  path : Str
  query : Str
  fragment : Str
  hostname : Option Str
  /-- `.port`: `none` = the property raised `ValueError` -/
  port : Option (Option Nat)
  geturl : Str
  deriving DecidableEq

structure Std where
  urlsplit : Str → Split
  quote : Str → Str            -- `quote(path)`
  unquote : Str → Str
  quotePlus : Str → Str        -- `quote_plus(text)`
  unquotePlus : Str → Str

/-! ## `httping.updateQargsQuery` (text level) -/

def partitionC (c : Char) : Str → Str × Bool × Str
  | [] => ([], false, [])
  | x :: xs =>
    if x = c then ([], true, xs)
    else let r := partitionC c xs; (x :: r.1, r.2.1, r.2.2)

def splitOnC (c : Char) : Str → List Str
  | [] => [[]]
  | x :: xs =>
    if x = c then [] :: splitOnC c xs
    else match splitOnC c xs with
      | [] => [[x]]
      | h :: t => (x :: h) :: t

def joinStr (sep : Str) : List Str → Str
  | [] => []
  | [a] => a
  | a :: b :: rest => a ++ sep ++ joinStr sep (b :: rest)

def queryParts (query : Str) : List Str :=
  if query.isEmpty then []
  else if query.contains ';' then splitOnC ';' query
  else if query.contains '&' then splitOnC '&' query
  else [query]

def addPart (S : Std) (d : List (Str × Str)) (part : Str) : List (Str × Str) :=
  if part.isEmpty then d
  else if part.contains '=' then
    let r := partitionC '=' part
    odSet d r.1 (S.unquotePlus r.2.2)
  else odSet d part "true".toList

def renderQuery (S : Std) (d : List (Str × Str)) : Str :=
  joinStr ['&'] (d.map (fun kv => kv.1 ++ ['='] ++ S.quotePlus kv.2))

def updateQargsQuery (S : Std) (qargs : List (Str × Str)) (query : Str) : List (Str × Str) × Str :=
  let d := (queryParts query).foldl (addPart S) qargs
  (d, renderQuery S d)

/-! ## `Requester.build` -/

structure Requester where
  hostname : Str
  port : Int
  scheme : Str
  method : Str
  path : Str
  qargs : List (Str × Str)
  fragment : Str
  headers : List (Str × HVal)          -- `lodict`: keys lower case
  body : Bytes
  /-- `json.dumps(self.data, separators=(',', ':'))` when `.data is not None` (the serialisation itself is stdlib) -/
  data : Option Str
  fargs : Option (List (Str × Str))
  deriving DecidableEq

def hset (d : List (Str × HVal)) (k : Str) (v : HVal) : List (Str × HVal) := odSet d (lower k) v
def hhas (d : List (Str × HVal)) (k : Str) : Bool := (odGet d (lower k)).isSome

def sGET : Str := "GET".toList

def hostValue (hostname : Str) (port : Int) : Str :=
  (if hostname.contains ':' then ['['] ++ hostname ++ [']'] else hostname) ++ [':'] ++ (toString port).toList

def startsWith (pre s : Str) : Bool := pre.isPrefixOf s

/-- the form body (as repaired by fixes/D30a): `&`-joined `quote_plus(key)=quote_plus(val)` -/
def formBody (S : Std) (fargs : List (Str × Str)) : Str :=
  joinStr ['&'] (fargs.map (fun kv => S.quotePlus kv.1 ++ ['='] ++ S.quotePlus kv.2))

def packAll : List (Str × HVal) → Except Err (List Bytes)
  | [] => .ok []
  | (k, v) :: rest =>
    match packHeader k [v], packAll rest with
    | .ok l, .ok ls => .ok (l :: ls)
    | .error e, _ => .error e
    | _, .error e => .error e

/-- what `Requester.build` decides before a byte is written: the request target, the header entries in the order
they are written (Host, Accept-Encoding, Content-Length as far as generated, then the request's own headers), the
body, and the requester as `build` leaves it -/
structure Parts where
  target : Str
  entries : List (Str × HVal)
  body : Bytes
  req : Requester
  deriving DecidableEq

def buildParts (S : Std) (r : Requester) : Except Err Parts :=
  let ps := S.urlsplit r.path
  let path := ps.path
  let qpath := S.quote path
  if !ps.scheme.isEmpty && ps.scheme ≠ r.scheme then .error .valueError else
  match ps.port with
  | none => .error .valueError
  | some pp =>
    if (match pp with | some n => n != 0 && (n : Int) != r.port | none => false) then .error .valueError else
    if (match ps.hostname with | some h => !h.isEmpty && h != r.hostname | none => false) then .error .valueError else
    let uq := updateQargsQuery S r.qargs ps.query
    let fragment := if ps.fragment.isEmpty then r.fragment else ps.fragment
    let combine := (S.urlsplit (qpath ++ ['?'] ++ uq.2 ++ ['#'])).geturl
    -- Host
    let hostE : Except Err (List (Str × HVal)) :=
      if hhas r.headers "host".toList then .ok []
      else match encodeAscii (hostValue r.hostname r.port) with
        | .error _ => .error .outOfModel    -- idna
        | .ok v => .ok [("Host".toList, .bytes v)]
    let aeE : List (Str × HVal) :=
      if hhas r.headers "accept-encoding".toList then [] else [("Accept-Encoding".toList, .str "identity".toList)]
    -- body
    let bh : Except Err (Bytes × List (Str × HVal)) :=
      if r.method = sGET then .ok ([], r.headers)
      else match r.data with
        | some js =>
          (match encodeLatin1 js with
           | .ok b => .ok (b, hset r.headers "content-type".toList (.str "application/json; charset=utf-8".toList))
           | .error e => .error e)
        | none =>
          match r.fargs with
          | some fa =>
            let multipart := match odGet r.headers "content-type".toList with
              | some (.str ct) => startsWith "multipart/form-data".toList ct
              | some _ => true        -- a bytes/int content-type: `.startswith(str)` raises; not modelled (see below)
              | none => false
            if multipart then .error .outOfModel     -- random boundary (or a non-str content-type)
            else .ok (utf8 (formBody S fa),
                      hset r.headers "content-type".toList (.str "application/x-www-form-urlencoded; charset=utf-8".toList))
          | none => .ok (r.body, r.headers)
    match hostE, bh with
    | .ok hl, .ok (body, headers) =>
      let clE : List (Str × HVal) :=
        if !body.isEmpty && !hhas headers "content-length".toList then [("Content-Length".toList, .str (natStr body.length))]
        else []
      .ok { target := combine, entries := hl ++ aeE ++ clE ++ headers, body := body,
            req := { r with path := path, qargs := uq.1, fragment := fragment, headers := headers } }
    | .error e, _ => .error e
    | _, .error e => .error e

/-- start line, one `packHeader` line per entry, empty line, body -/
def assemble (method target : Str) (entries : List (Str × HVal)) (body : Bytes) : Except Err Bytes :=
  match encodeAscii (method ++ [' '] ++ target ++ " HTTP/1.1".toList) with
  | .error _ => .error .outOfModel        -- the `.encode('idna')` fallback
  | .ok startLine =>
    match packAll entries with
    | .error e => .error e
    | .ok lines => .ok (joinBytes crlf ([startLine] ++ lines ++ [[], []]) ++ body)

/-- `Requester.build()`: the message bytes (and the requester as `build` leaves it) -/
def build (S : Std) (r : Requester) : Except Err (Requester × Bytes) :=
  match buildParts S r with
  | .error e => .error e
  | .ok p =>
    match assemble r.method p.target p.entries p.body with
    | .error e => .error e
    | .ok msg => .ok (p.req, msg)

/-! ## `Requestant` (server side request parser) -/

/-- `str.split()` -/
def splitWsGo : Str → Str → List Str
  | [], cur => if cur.isEmpty then [] else [cur.reverse]
  | c :: cs, cur =>
    if isSpaceC c then (if cur.isEmpty then splitWsGo cs [] else cur.reverse :: splitWsGo cs [])
    else splitWsGo cs (c :: cur)

def splitWs (s : Str) : List Str := splitWsGo s []


def METHODS : List Str :=
  ["GET", "HEAD", "PUT", "PATCH", "POST", "DELETE", "OPTIONS", "TRACE", "CONNECT"].map String.toList

/-- `parseRequestLine(line)` -/
def parseRequestLine (line : Bytes) : Except Err (Str × Str × Str) :=
  let text := decodeLatin1 line
  if text.isEmpty then .error .badRequestLine else
  let ws := splitWs text
  let method := ws.getD 0 []
  let path := ws.getD 1 []
  let version := ws.getD 2 []
  if !startsWith "HTTP/".toList version then .error .unknownProtocol
  else if !METHODS.contains method then .error .badMethod
  else .ok (method, path, version)

def digitsVal : Str → Nat → Option Nat
  | [], acc => some acc
  | c :: cs, acc => if '0' ≤ c ∧ c ≤ '9' then digitsVal cs (acc * 10 + (c.toNat - 48)) else none

/-- an optional sign: (negative?, rest) -/
def signSplit : Str → Bool × Str
  | '-' :: r => (true, r)
  | '+' :: r => (false, r)
  | r => (false, r)

/-- `int(text)` for `ws* [+-]? digit+ ws*`; `none` = `ValueError`; `_` between digits and text beyond
Latin-1 (further Unicode digits and blanks) are outside the model; below U+0100 the blanks are those of `isSpaceC` and
there are no further decimal digits -/
def pyIntDec (s : Str) : Except Err (Option Int) :=
  if s.any (fun c => c.toNat ≥ 256) then
    -- digits / blanks beyond Latin-1 could make this a number: outside the model, unless another character rules it out
    (if s.all (fun c => c.toNat ≥ 256 || ('0' ≤ c ∧ c ≤ '9') || c = '+' || c = '-' || c = '_' || isSpaceC c)
     then .error .outOfModel else .ok none)
  else
  let sd := signSplit (stripC s)
  let d := sd.2
  if d.isEmpty then .ok none else
  match digitsVal d 0 with
  | some n => .ok (some (if sd.1 then - (n : Int) else n))
  | none =>
    if (splitOnC '_' d).all (fun g => !g.isEmpty && g.all (fun c => '0' ≤ c ∧ c ≤ '9')) then .error .outOfModel
    else .ok none

/-- the `Content-Length` rule shared by both parsers: `none` = unknown length -/
def contentLength (v : Option Str) : Except Err (Option Nat) :=
  match v with
  | none => .ok none
  | some t =>
    if t.isEmpty then .ok none else
    match pyIntDec t with
    | .error e => .error e
    | .ok none => .ok none
    | .ok (some i) => if i < 0 then .ok none else .ok (some i.toNat)

def containsSubC (pat : Str) : Str → Bool
  | [] => pat.isEmpty
  | c :: cs => pat.isPrefixOf (c :: cs) || containsSubC pat cs

structure Request where
  method : Str
  url : Str
  version : Nat × Nat
  path : Str
  scheme : Str
  hostname : Option Str
  port : Option Nat
  query : Str
  fragment : Str
  headers : List (Str × Str)
  chunked : Bool
  body : Bytes
  parms : List (Str × Option Str)
  trails : List (Str × Str)
  jsoned : Option Bool
  persisted : Bool
  deriving DecidableEq

/-- all chunks of a chunked body; `fuel` bounds their number -/
def parseChunks : Nat → Bytes → List (Str × Option Str) → Bytes →
    Res (Bytes × List (Str × Option Str) × List (Str × Str))
  | 0, _, _, _ => .fail .outOfModel
  | fuel + 1, body, parms, raw =>
    match parseChunk raw with
    | .need => .need
    | .fail e => .fail e
    | .done c rest =>
      let parms := c.parms.foldl (fun acc kv =>
        if acc.any (fun x => x.1 = kv.1) then acc.map (fun x => if x.1 = kv.1 then kv else x) else acc ++ [kv]) parms
      if c.size = 0 then .done (body, parms, c.trails) rest
      else parseChunks fuel (body ++ c.data) parms rest

/-- `Requestant.parseMessage` on the buffer `raw` (connection open): head then body -/
def parseRequest (S : Std) (raw : Bytes) : Res Request :=
  if raw.isEmpty then .need else
  match parseLine false raw with
  | .need => .need
  | .fail e => .fail e
  | .done line rest =>
    match parseRequestLine line with
    | .error e => .fail e
    | .ok (method, url0, versionText) =>
      let url := stripC url0
      if !startsWith "HTTP/1.".toList versionText then .fail .unknownProtocol else
      let version : Nat × Nat := if startsWith "HTTP/1.0".toList versionText then (1, 0) else (1, 1)
      let sp := S.urlsplit url
      match sp.port with
      | none => .fail .valueError
      | some port =>
        match parseLeader rest with
        | .need => .need
        | .fail e => .fail e
        | .done headers rest =>
          let te := odGet headers "transfer-encoding".toList
          let chunked := match te with | some v => decide (lower v = "chunked".toList) | none => false
          match contentLength (odGet headers "content-length".toList) with
          | .error e => .fail e
          | .ok cl =>
            -- length: chunked → None; content-length present (non-empty text) → parsed or None; absent → 0
            let length : Option Nat :=
              if chunked then none
              else match odGet headers "content-length".toList with
                | some t => if t.isEmpty then some 0 else cl
                | none => some 0
            let ct := odGet headers "content-type".toList
            let jsoned : Option Bool := match ct with
              | some t => if t.isEmpty then none else
                  let t' := if t.contains ';' then (t.reverse.dropWhile (· ≠ ';')).drop 1 |>.reverse else t
                  some (containsSubC "application/json".toList (lower t'))
              | none => none
            let conn := odGet headers "connection".toList
            let persisted : Bool :=
              if version = (1, 1) then
                (match conn with
                 | some c => if !c.isEmpty && containsSubC "close".toList (lower c) then false
                             else !( !chunked && length.isNone)
                 | none => !( !chunked && length.isNone))
              else
                (match conn with
                 | some c => !c.isEmpty && containsSubC "keep-alive".toList (lower c)
                 | none => false)
            let mk (body : Bytes) (parms : List (Str × Option Str)) (trails : List (Str × Str)) : Request :=
              { method := method, url := url, version := version, path := S.unquote sp.path, scheme := sp.scheme,
                hostname := sp.hostname, port := port, query := sp.query, fragment := sp.fragment,
                headers := headers, chunked := chunked, body := body, parms := parms, trails := trails,
                jsoned := jsoned, persisted := persisted }
            if chunked then
              match parseChunks (rest.length + 1) [] [] rest with
              | .need => .need
              | .fail e => .fail e
              | .done (body, parms, trails) rest' => .done (mk body parms trails) rest'
            else match length with
              | some n => if rest.length < n then .need else .done (mk (rest.take n) [] []) (rest.drop n)
              | none => .fail .invalidBody

/-! ## `Valet.buildEnviron` (the entries that depend on the request) -/

inductive EVal
  | str (s : Str)
  | bytes (b : Bytes)
  deriving DecidableEq

def replaceC (a b : Char) (s : Str) : Str := s.map (fun c => if c = a then b else c)

def buildEnviron (scheme : Str) (q : Request) : List (Str × EVal) :=
  let base : List (Str × EVal) :=
    [("wsgi.url_scheme".toList, .str scheme),
     ("wsgi.input".toList, .bytes q.body),
     ("REQUEST_METHOD".toList, .str q.method),
     ("SERVER_PROTOCOL".toList, .str ("HTTP/".toList ++ natStr q.version.1 ++ ['.'] ++ natStr q.version.2)),
     ("SCRIPT_NAME".toList, .str []),
     ("PATH_INFO".toList, .str q.path),
     ("QUERY_STRING".toList, .str q.query),
     ("CONTENT_TYPE".toList, .str ((odGet q.headers "content-type".toList).getD [])),
     ("CONTENT_LENGTH".toList, .str (natStr q.body.length))]
  q.headers.foldl (fun env kv => odSet env ("HTTP_".toList ++ upper (replaceC '-' '_' kv.1)) (.str kv.2)) base

/-! ## `Valet.__init__` / `Porter.__init__`: scheme, TLS and default port of the server -/

/-- the scheme decision both server constructors make.  `servant` = the caller-supplied transport if any
(`some true` a `ServerTls`, `some false` a plain `Server`); `scheme` the `scheme=` argument (default `''`).
A supplied servant dictates scheme and TLS, and a different scheme is refused with `ValueError`; without one
`'https'` means TLS and everything else — also no scheme — plain http.  Result: (scheme, secured, default port). -/
def serverScheme (servant : Option Bool) (scheme : Str) : Except Err (Str × Bool × Nat) :=
  match servant with
  | some true => if !scheme.isEmpty && scheme ≠ "https".toList then .error .valueError else .ok ("https".toList, true, 443)
  | some false => if !scheme.isEmpty && scheme ≠ "http".toList then .error .valueError else .ok ("http".toList, false, 80)
  | none => if scheme = "https".toList then .ok ("https".toList, true, 443) else .ok ("http".toList, false, 80)

/-- `port = port or defaultPort` -/
def serverPort (port : Option Nat) (defaultPort : Nat) : Nat :=
  match port with
  | some n => if n = 0 then defaultPort else n
  | none => defaultPort

/-- the environment a `Valet` constructed with `servant=` / `scheme=` hands to the application for a request -/
def valetEnviron (servant : Option Bool) (scheme : Str) (q : Request) : Except Err (List (Str × EVal)) :=
  match serverScheme servant scheme with
  | .error e => .error e
  | .ok (sch, _, _) => .ok (buildEnviron sch q)

/-! ## the requests of one keep-alive connection (`Valet.serviceReqs`) -/

/-- what `Valet.serviceReqs` keeps per connection between requests: the `environ` of the connection's `Responder`.
For every parsed request it builds a **new** environment with `buildEnviron` and either creates the Responder with it
or hands it to `Responder.reset(environ=…)`, which replaces the old one; nothing of the old dict is consulted. -/
def serveRequest (scheme : Str) (_held : Option (List (Str × EVal))) (q : Request) : Option (List (Str × EVal)) :=
  some (buildEnviron scheme q)

/-- the environment the connection's Responder holds after the requests `qs` (oldest first) -/
def serveConnection (scheme : Str) (qs : List Request) : Option (List (Str × EVal)) :=
  qs.foldl (serveRequest scheme) none

/-! ## `Responder` (WSGI response writer) -/

structure Responder where
  chunkable : Bool
  started : Bool := false
  headed : Bool := false
  chunked : Bool := false
  ended : Bool := false
  status : Str := "200 OK".toList
  headers : List (Str × Str) := []
  length : Option Nat := none
  size : Nat := 0
  evented : Bool := false
  deriving DecidableEq

/-- what the application's iterator does on one `next()` -/
inductive AppItem
  | yield (msg : Bytes)
  | stop (value : Bytes)                       -- `return value` (StopIteration.value); `[]` = plain end
  | httpError (status : Nat) (reason title detail : Str) (fault : Option Int) (headers : List (Str × Str))
  | otherError                                 -- any other exception raised by the application
  deriving DecidableEq

/-- a WSGI application as far as the responder can tell: its `start_response(status, headers)` call (made
before its first item) and what its iterator does -/
structure App where
  start : Option (Str × List (Str × Str))
  items : List AppItem
  deriving DecidableEq

def hasKey (d : List (Str × Str)) (k : Str) : Bool := (odGet d (lower k)).isSome

/-- the header dict `Responder.build` completes: Server and Date added if absent -/
def Responder.baseHeaders (date : Str) (r : Responder) : List (Str × Str) :=
  let h := if hasKey r.headers "server".toList then r.headers else loSet r.headers "server".toList "Ioflo WSGI Server".toList
  if hasKey h "date".toList then h else loSet h "date".toList date

/-- `if self.chunkable and 'transfer-encoding' not in self.headers` -/
def Responder.willChunk (date : Str) (r : Responder) : Bool :=
  r.chunkable && !hasKey (r.baseHeaders date) "transfer-encoding".toList

def Responder.finalHeaders (date : Str) (r : Responder) : List (Str × Str) :=
  if r.willChunk date then loSet (r.baseHeaders date) "transfer-encoding".toList "chunked".toList else r.baseHeaders date

/-- `Responder.build()`: head bytes; sets `.chunked` and completes `.headers` -/
def Responder.build (date : Str) (r : Responder) : Except Err (Responder × Bytes) :=
  match encodeAscii ("HTTP/1.1 ".toList ++ r.status) with
  | .error _ => .error .outOfModel     -- idna fallback
  | .ok startLine =>
    match packAll ((r.finalHeaders date).map (fun kv => (kv.1, HVal.str kv.2))) with
    | .error e => .error e
    | .ok lines =>
      .ok ({ r with headers := r.finalHeaders date, chunked := r.chunked || r.willChunk date },
           joinBytes crlf ([startLine] ++ lines ++ [[], []]))

/-- `Responder.write(msg)`: returns what is queued on the connection, in order -/
def Responder.write (date : Str) (r : Responder) (msg : Bytes) : Except Err (Responder × List Bytes) :=
  if !r.started then .error .assertionError else
  let hd : Except Err (Responder × List Bytes) :=
    if r.headed then .ok (r, [])
    else match r.build date with
      | .error e => .error e
      | .ok (r', head) => .ok ({ r' with headed := true }, [head])
  match hd with
  | .error e => .error e
  | .ok (r, txs) =>
    let msg := if r.chunked then packChunk msg else msg
    let (r, msg) := match r.length with
      | none => (r, msg)
      | some L =>
        let size := r.size + msg.length
        let msg := if size > L then msg.take (msg.length - (size - L)) else msg
        ({ r with size := r.size + msg.length }, msg)
    .ok (r, if msg.isEmpty then txs else txs ++ [msg])

/-- `Responder.start(status, response_headers, exc_info)` -/
def Responder.start (r : Responder) (status : Str) (headers : List (Str × Str)) (excInfo : Bool) :
    Except Err Responder :=
  if excInfo && r.headed then .error .outOfModel        -- re-raises the application's exception
  else if !excInfo && r.started then .error .assertionError
  else
    let h := loUpdate [] headers
    match odGet h "content-length".toList with
    | some v =>
      (match pyIntDec v with
       | .error e => .error e
       | .ok none => .error .valueError
       | .ok (some i) =>
         if i < 0 then .error .outOfModel
         else .ok { r with status := status, headers := h, length := some i.toNat, chunkable := false, started := true })
    | none =>
      let ev := match odGet h "content-type".toList with
        | some ct => startsWith "text/event-stream".toList ct
        | none => false
      .ok { r with status := status, headers := h, length := none, evented := r.evented || ev, started := true }

/-- `HTTPError.render()` (plain text form) -/
def renderError (status : Nat) (reason title detail : Str) (fault : Option Int) : Except Err Bytes :=
  encodeLatin1 (natStr status ++ [' '] ++ reason ++ ['\n'] ++ title ++ ['\n'] ++ detail ++ ['\n'] ++
    (match fault with | some f => (toString f).toList | none => []))

/-- one `Responder.service()` call.  `appStarted`: the application's own `start_response` call has been made. -/
def Responder.service (date : Str) (r : Responder) (app : App) (appStarted : Bool) :
    Except Err (Responder × App × Bool × List Bytes) :=
  if r.ended then .ok (r, app, appStarted, []) else
  -- running the generator up to its first item makes the `start_response` call
  let r0 : Except Err Responder :=
    if appStarted then .ok r
    else match app.start with
      | some (st, hs) => r.start st hs false
      | none => .ok r
  match r0 with
  | .error e => .error e
  | .ok r =>
    let item := match app.items with | [] => AppItem.stop [] | i :: _ => i
    let app' : App := { app with items := app.items.drop 1 }
    match item with
    | .yield msg =>
      if msg.isEmpty then .ok (r, app', true, [])
      else match r.write date msg with
        | .error e => .error e
        | .ok (r, txs) =>
          let ended := match r.length with | some L => decide (r.size ≥ L) | none => false
          .ok ({ r with ended := r.ended || ended }, app', true, txs)
    | .stop value =>
      let w1 : Except Err (Responder × List Bytes) := if value.isEmpty then .ok (r, []) else r.write date value
      (match w1 with
       | .error e => .error e
       | .ok (r, t1) =>
         match r.write date [] with
         | .error e => .error e
         | .ok (r, t2) => .ok ({ r with ended := true }, app', true, t1 ++ t2))
    | .httpError status reason title detail fault headers =>
      if r.headed then .ok (r, { app with items := [] }, true, [])       -- logged only; the generator is finished
      else
        let h := loUpdate [] headers
        let h := if hasKey h "content-type".toList then h else loSet h "content-type".toList "text/plain".toList
        (match renderError status reason title detail fault with
         | .error e => .error e
         | .ok msg =>
           let h := loSet h "content-length".toList (natStr msg.length)
           match r.start (natStr status ++ [' '] ++ reason) h true with
           | .error e => .error e
           | .ok r =>
             match r.write date msg with
             | .error e => .error e
             | .ok (r, txs) => .ok ({ r with ended := true }, app', true, txs))
    | .otherError => .ok (r, { app with items := [] }, true, [])         -- logged only; the generator is finished

/-- service until the response has ended (at most `fuel` calls): everything queued, concatenated -/
def Responder.run (date : Str) : Nat → Responder → App → Bool → Bytes → Except Err (Responder × Bytes)
  | 0, r, _, _, acc => .ok (r, acc)
  | fuel + 1, r, app, started, acc =>
    if r.ended then .ok (r, acc) else
    match r.service date app started with
    | .error e => .error e
    | .ok (r, app, started, txs) => Responder.run date fuel r app started (acc ++ txs.foldl (· ++ ·) [])

/-! ## `Respondent` (client side response parser) -/

structure Response where
  version : Nat × Nat
  status : Nat
  reason : Str
  headers : List (Str × Str)
  chunked : Bool
  body : Bytes
  parms : List (Str × Option Str)
  trails : List (Str × Str)
  jsoned : Option Bool
  persisted : Bool
  redirectant : Bool
  deriving DecidableEq

/-- `parseStatusLine(line)` -/
def parseStatusLine (line : Bytes) : Except Err (Str × Nat × Str) :=
  let text := decodeLatin1 line
  if text.isEmpty then .error .badStatusLine else
  let ws := splitWs text
  let version := ws.getD 0 []
  let status := ws.getD 1 []
  let reason := joinStr [' '] (ws.drop 2)
  if !startsWith "HTTP/".toList version then .error .badStatusLine else
  match pyIntDec status with
  | .error e => .error e
  | .ok none => .error .badStatusLine
  | .ok (some i) => if i < 100 ∨ i > 999 then .error .badStatusLine else .ok (version, i.toNat, reason)

/-- a `need` of the response parser: with the connection closed and nothing buffered it is `PrematureClosure` -/
def needOr (closed : Bool) (raw : Bytes) {α : Type} : Res α :=
  if closed && raw.isEmpty then .fail .prematureClosure else .need

/-- status line, skipping `100 Continue` blocks; `fuel` bounds their number -/
def parseStatus : Nat → Bool → Bytes → Res (Str × Nat × Str)
  | 0, _, _ => .fail .outOfModel
  | fuel + 1, closed, raw =>
    match parseLine false raw with
    | .need => needOr closed raw
    | .fail e => .fail e
    | .done line rest =>
      match parseStatusLine line with
      | .error e => .fail e
      | .ok (v, st, rs) =>
        if st ≠ 100 then .done (v, st, rs) rest
        else match parseLeader rest with
          | .need => needOr closed rest
          | .fail e => .fail e
          | .done _ rest' => parseStatus fuel closed rest'

/-- the media type part of `Content-Type` (text before the last `;`), lower-cased; `none` when absent or empty -/
def ctMainOf (headers : List (Str × Str)) : Option Str :=
  match odGet headers "content-type".toList with
  | some t => if t.isEmpty then none else
      some (lower (if t.contains ';' then (t.reverse.dropWhile (· ≠ ';')).drop 1 |>.reverse else t))
  | none => none

def isEventStream (headers : List (Str × Str)) : Bool :=
  match ctMainOf headers with
  | some t => containsSubC "text/event-stream".toList t
  | none => false

/-- `Respondent.parseMessage` on the buffer `raw`; `closed` = the connection has been closed by the server -/
def parseResponse (method : Str) (closed : Bool) (raw : Bytes) : Res Response :=
  if raw.isEmpty then .need else
  match parseStatus (raw.length + 1) closed raw with
  | .need => .need
  | .fail e => .fail e
  | .done (vtext, status, reason) rest =>
    let version? : Option (Nat × Nat) :=
      if vtext = "HTTP/1.0".toList ∨ vtext = "HTTP/0.9".toList then some (1, 0)
      else if startsWith "HTTP/1.".toList vtext then some (1, 1) else none
    match version? with
    | none => .fail .unknownProtocol
    | some version =>
      match parseLeader rest with
      | .need => needOr closed rest
      | .fail e => .fail e
      | .done headers rest =>
        let te := odGet headers "transfer-encoding".toList
        let chunked := match te with | some v => decide (lower v = "chunked".toList) | none => false
        match contentLength (odGet headers "content-length".toList) with
        | .error e => .fail e
        | .ok cl =>
          let length : Option Nat := if chunked then none else cl
          let length := if status = 204 ∨ status = 304 ∨ (100 ≤ status ∧ status < 200) ∨ method = "HEAD".toList
            then some 0 else length
          if isEventStream headers then .fail .outOfModel       -- server sent events: C33
          else
          let jsoned := (ctMainOf headers).map (containsSubC "application/json".toList)
          let conn := odGet headers "connection".toList
          let persisted : Bool :=
            if version = (1, 1) then
              (match conn with
               | some c => if !c.isEmpty && containsSubC "close".toList (lower c) then false
                           else !( !chunked && length.isNone)
               | none => !( !chunked && length.isNone))
            else
              ((match odGet headers "keep-alive".toList with | some v => !v.isEmpty | none => false)
               || (match conn with | some c => !c.isEmpty && containsSubC "keep-alive".toList (lower c) | none => false)
               || (match odGet headers "proxy-connection".toList with
                   | some v => !v.isEmpty && containsSubC "keep-alive".toList (lower v) | none => false))
          let redirectant := status = 300 || status = 301 || status = 302 || status = 303 || status = 307
          let mk (body : Bytes) (parms : List (Str × Option Str)) (trails : List (Str × Str)) : Response :=
            { version := version, status := status, reason := stripC reason, headers := headers, chunked := chunked,
              body := body, parms := parms, trails := trails, jsoned := jsoned, persisted := persisted,
              redirectant := redirectant }
          if chunked then
            if closed then .fail .outOfModel      -- chunked body cut short by a close: not modelled
            else match parseChunks (rest.length + 1) [] [] rest with
              | .need => .need
              | .fail e => .fail e
              | .done (body, parms, trails) rest' => .done (mk body parms trails) rest'
          else match length with
            | some n => if rest.length < n then needOr closed rest else .done (mk (rest.take n) [] []) (rest.drop n)
            | none => if closed then .done (mk rest [] []) [] else .need

end Ioflo.HttpCodec
