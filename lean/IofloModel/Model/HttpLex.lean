/-
Lexical layer of the HTTP parsers of ioflo/aio/http/httping.py, transcribed:

* `parseLine(raw, eols)` for the two eol tuples HTTP uses — `(CRLF, LF)` (start lines) and
  `(CRLF,)` (chunk size / chunk end lines) — as repaired by fixes/D19-parseline-earliest-eol.patch
  (earliest eol; the `skip` flag of that patch is never set when CR is not in `eols`);
* the line search of `parseLeader` (its own loop: the first CRLF *anywhere*, else the first LF);
* the str / bytes primitives the parsers apply to a line: `str.split()`, `str.strip()`,
  `bytes.strip()`, `str.lower()` on iso-8859-1 text, `partition`, `in`, `startswith`,
  `int(str)`, `int(str, 16)`;
* `parseRequestLine`, `parseStatusLine`, the header line of `parseLeader` (as repaired by
  fixes/D16-parseleader-colon.patch), the chunk size line of `parseChunk` (extensions as repaired
  by fixes/D29a-chunk-ext-unhashable.patch).

Text is iso-8859-1 decoded bytes, i.e. code point = byte: `Bytes` stands for both.
An exception is a constructor of the result (`Exc`), never a default.  Core Lean only.
-/
namespace Ioflo.Http

abbrev Bytes := List Nat

/-! ### exceptions -/

/-- `httping.HTTPException` and its subclasses (caught by `Parsent.parseMessage`) versus everything
else (escapes `parse()`) -/
inductive Exc
  | lineTooLong | badStatusLine | badRequestLine | unknownProtocol | badMethod | prematureClosure
  | tooManyHeaders | invalidHeader | invalidBody | badChunk     -- HTTPException family
  | valueError | unicodeDecodeError                               -- ValueError family
  | runtimeError                                                   -- neither (generator raised StopIteration)
  deriving DecidableEq, Repr

/-- `ValueError` and its subclass `UnicodeDecodeError` -/
def Exc.isVE : Exc → Bool
  | .valueError | .unicodeDecodeError => true
  | _ => false

def Exc.isHttp : Exc → Bool
  | .valueError | .unicodeDecodeError | .runtimeError => false
  | _ => true

/-! ### searching -/

/-- `raw.find(b"\r\n")` as (before, after) -/
def splitCRLF : Bytes → Option (Bytes × Bytes)
  | [] => none
  | [_] => none
  | a :: b :: r =>
    if a = 13 ∧ b = 10 then some ([], r)
    else match splitCRLF (b :: r) with
      | none => none
      | some (l, r') => some (a :: l, r')

/-- `raw.find(bytes([c]))` as (before, after) -/
def splitByte (c : Nat) : Bytes → Option (Bytes × Bytes)
  | [] => none
  | a :: r =>
    if a = c then some ([], r)
    else match splitByte c r with
      | none => none
      | some (l, r') => some (a :: l, r')

/-- repaired `parseLine`: earliest of CRLF and (when `lf`) LF -/
def earliest (lf : Bool) : Bytes → Option (Bytes × Bytes)
  | [] => none
  | a :: r =>
    match r with
    | b :: r' =>
      if a = 13 ∧ b = 10 then some ([], r')
      else if lf = true ∧ a = 10 then some ([], r)
      else match earliest lf r with
        | none => none
        | some (l, r'') => some (a :: l, r'')
    | [] => if lf = true ∧ a = 10 then some ([], []) else none

/-- `parseLeader`'s own search: the first CRLF anywhere, else the first LF -/
def leaderSearch (raw : Bytes) : Option (Bytes × Bytes) :=
  match splitCRLF raw with
  | some x => some x
  | none => splitByte 10 raw

inductive LineRes
  | wait                           -- `yield None`
  | tooLong                        -- `raise LineTooLong`
  | line (l rest : Bytes)
  deriving DecidableEq, Repr

/-- the part common to `parseLine` and `parseLeader` after the search -/
def lineRes (max : Nat) (raw : Bytes) : Option (Bytes × Bytes) → LineRes
  | none => if raw.length > max then .tooLong else .wait
  | some (l, r) => if l.length > max then .tooLong else .line l r

def lineTry (max : Nat) (lf : Bool) (raw : Bytes) : LineRes := lineRes max raw (earliest lf raw)
def leaderTry (max : Nat) (raw : Bytes) : LineRes := lineRes max raw (leaderSearch raw)

/-! ### text primitives -/

/-- `str.isspace()` for code points below 256 -/
def isWs (b : Nat) : Bool := (9 ≤ b && b ≤ 13) || (28 ≤ b && b ≤ 32) || b = 0x85 || b = 0xA0

/-- whitespace of `bytes.strip()` and of C `isspace` -/
def isAsciiWs (b : Nat) : Bool := (9 ≤ b && b ≤ 13) || b = 32

def stripWith (p : Nat → Bool) (s : Bytes) : Bytes := ((s.dropWhile p).reverse.dropWhile p).reverse

/-- `str.strip()` -/
def strip (s : Bytes) : Bytes := stripWith isWs s
/-- `bytes.strip()` -/
def bstrip (s : Bytes) : Bytes := stripWith isAsciiWs s

/-- `str.split()`: maximal runs of non-whitespace; `cur` is the current word reversed -/
def splitWsAux : Bytes → Bytes → List Bytes
  | [], cur => if cur = [] then [] else [cur.reverse]
  | b :: r, cur =>
    if isWs b then (if cur = [] then splitWsAux r [] else cur.reverse :: splitWsAux r [])
    else splitWsAux r (b :: cur)

def splitWs (s : Bytes) : List Bytes := splitWsAux s []

/-- `str.lower()` for code points below 256 -/
def lowerB (b : Nat) : Nat :=
  if (65 ≤ b ∧ b ≤ 90) ∨ (0xC0 ≤ b ∧ b ≤ 0xDE ∧ b ≠ 0xD7) then b + 32 else b

def lower (s : Bytes) : Bytes := s.map lowerB

/-- `s.partition(sep)` for a one byte separator: (head, found, tail) -/
def partition (sep : Nat) : Bytes → Bytes × Bool × Bytes
  | [] => ([], false, [])
  | b :: r =>
    if b = sep then ([], true, r)
    else let p := partition sep r; (b :: p.1, p.2.1, p.2.2)

/-- `s.split(sep)` for a one byte separator -/
def splitOn (sep : Nat) : Bytes → List Bytes
  | [] => [[]]
  | b :: r =>
    if b = sep then [] :: splitOn sep r
    else match splitOn sep r with
      | [] => [[b]]
      | w :: ws => (b :: w) :: ws

def startsWith (pre : Bytes) (s : Bytes) : Bool := pre.isPrefixOf s

/-- `needle in hay` -/
def contains (needle : Bytes) : Bytes → Bool
  | [] => needle.isEmpty
  | b :: r => needle.isPrefixOf (b :: r) || contains needle r

/-- `u" ".join(words)` -/
def joinSp : List Bytes → Bytes
  | [] => []
  | [w] => w
  | w :: v :: r => w ++ 32 :: joinSp (v :: r)

/-! ### integers -/

def isDigit (b : Nat) : Bool := 48 ≤ b && b ≤ 57

def hexVal (b : Nat) : Option Nat :=
  if 48 ≤ b ∧ b ≤ 57 then some (b - 48)
  else if 97 ≤ b ∧ b ≤ 102 then some (b - 87)
  else if 65 ≤ b ∧ b ≤ 70 then some (b - 55)
  else none

def digitVal (base : Nat) (b : Nat) : Option Nat :=
  match hexVal b with
  | some d => if d < base then some d else none
  | none => none

/-- digits with single underscores between digits: (value, number of digits).
`prev` = the previous byte was an underscore, `cnt` = digits so far -/
def digitsB (base : Nat) : Bytes → Nat → Nat → Bool → Option (Nat × Nat)
  | [], acc, cnt, prev => if prev ∨ cnt = 0 then none else some (acc, cnt)
  | b :: r, acc, cnt, prev =>
    match digitVal base b with
    | some d => digitsB base r (acc * base + d) (cnt + 1) false
    | none => if b = 95 ∧ ¬ prev ∧ cnt > 0 then digitsB base r acc cnt true else none

/-- `sys.get_int_max_str_digits()` default, applies to bases that are not powers of two -/
def maxStrDigits : Nat := 4300

/-- `0x` / `0X` and the one underscore that may follow it -/
def dropHexPrefix : Bytes → Bytes
  | a :: b :: r =>
    if a = 48 ∧ (b = 120 ∨ b = 88) then
      (match r with
       | u :: r' => if u = 95 then r' else u :: r'
       | [] => [])
    else a :: b :: r
  | r => r

/-- the sign of an int literal: (negative, rest) -/
def takeSign : Bytes → Bool × Bytes
  | a :: r => if a = 45 then (true, r) else if a = 43 then (false, r) else (false, a :: r)
  | [] => (false, [])

/-- `int(s)` for an iso-8859-1 decoded `str`: `none` = ValueError.
(CPython maps the non-ASCII spaces U+0085, U+00A0 to a blank first; any other non-ASCII
character of this range is not a decimal digit.) -/
def pyInt (s : Bytes) : Option Int :=
  let s := s.map (fun b => if b = 0x85 ∨ b = 0xA0 then 32 else b)
  let s := stripWith isAsciiWs s
  let (neg, body) := takeSign s
  match digitsB 10 body 0 0 false with
  | none => none
  | some (n, cnt) => if cnt > maxStrDigits then none else some (if neg then - (n : Int) else n)

/-- `int(s, 16)` for an ASCII `str`: optional sign, optional `0x`/`0X` (one underscore may
follow it), digits with single underscores -/
def pyIntHex (s : Bytes) : Option Int :=
  let s := stripWith isAsciiWs s
  let (neg, body) := takeSign s
  let body := dropHexPrefix body
  match digitsB 16 body 0 0 false with
  | none => none
  | some (n, _) => some (if neg then - (n : Int) else n)

/-! ### start lines -/

def sHTTP : Bytes := [72, 84, 84, 80, 47]                     -- "HTTP/"
def sHTTP1 : Bytes := [72, 84, 84, 80, 47, 49, 46]            -- "HTTP/1."
def sHTTP10 : Bytes := [72, 84, 84, 80, 47, 49, 46, 48]       -- "HTTP/1.0"
def sHTTP09 : Bytes := [72, 84, 84, 80, 47, 48, 46, 57]       -- "HTTP/0.9"

/-- `METHODS` -/
def methods : List Bytes :=
  [[71, 69, 84], [72, 69, 65, 68], [80, 85, 84], [80, 65, 84, 67, 72], [80, 79, 83, 84],
   [68, 69, 76, 69, 84, 69], [79, 80, 84, 73, 79, 78, 83], [84, 82, 65, 67, 69],
   [67, 79, 78, 78, 69, 67, 84]]

/-- `aiding.repack(n, seq, default=u'')`: element `i < n-1` or the default -/
def nth (ws : List Bytes) (i : Nat) : Bytes := (ws[i]?).getD []

/-- `parseRequestLine(line)` : (method, path, version) -/
def parseRequestLine (line : Bytes) : Except Exc (Bytes × Bytes × Bytes) :=
  if line = [] then .error .badRequestLine else
  let ws := splitWs line
  let method := nth ws 0
  let path := nth ws 1
  let version := nth ws 2
  if ¬ startsWith sHTTP version then .error .unknownProtocol
  else if ¬ methods.contains method then .error .badMethod
  else .ok (method, path, version)

/-- `parseStatusLine(line)` : (version, status, reason) -/
def parseStatusLine (line : Bytes) : Except Exc (Bytes × Nat × Bytes) :=
  if line = [] then .error .badStatusLine else
  let ws := splitWs line
  let version := nth ws 0
  let status := nth ws 1
  let reason := joinSp (ws.drop 2)
  if ¬ startsWith sHTTP version then .error .badStatusLine
  else match pyInt status with
    | none => .error .badStatusLine
    | some i => if i < 100 ∨ i > 999 then .error .badStatusLine else .ok (version, i.toNat, reason)

/-! ### header lines (`parseLeader`) -/

/-- an ordered dict with lower-cased `str` keys: `lodict` -/
abbrev Hdrs := List (Bytes × Bytes)

/-- `odict.__setitem__`: replace in place, else append -/
def setKey {β : Type} (k : Bytes) (v : β) : List (Bytes × β) → List (Bytes × β)
  | [] => [(k, v)]
  | (k', v') :: r => if k' = k then (k, v) :: r else (k', v') :: setKey k v r

/-- `lodict.__setitem__` -/
def Hdrs.set (h : Hdrs) (k v : Bytes) : Hdrs := setKey (lower k) v h

/-- `lodict.get(key)` with a lower case literal key -/
def Hdrs.get (h : Hdrs) (k : Bytes) : Option Bytes :=
  match h.find? (fun p => p.1 = k) with
  | some p => some p.2
  | none => none

def MAX_HEADERS : Nat := 100

/-- one non-empty line of the leader: `key, sep, value = line.partition(':')`, no colon is an
`HTTPException`, `headers[key] = value.strip()`, then the `MAX_HEADERS` check -/
def headerLine (h : Hdrs) (line : Bytes) : Except Exc Hdrs :=
  let p := partition 58 line
  if ¬ p.2.1 then .error .invalidHeader
  else
    let h := h.set p.1 (strip p.2.2)
    if h.length > MAX_HEADERS then .error .tooManyHeaders else .ok h

/-! ### chunk size line (`parseChunk`) -/

abbrev Parms := List (Bytes × Option Bytes)

/-- `for ext in exts.split(b';')`: `name, sep, value = ext.strip().partition(b'=')`,
`parms[name.strip()] = value.strip() or None` -/
def parseExts (exts : Bytes) : Parms :=
  (splitOn 59 exts).foldl (fun pm ext =>
    let p := partition 61 (bstrip ext)
    let v := bstrip p.2.2
    setKey (bstrip p.1) (if v = [] then none else some v) pm) []

/-- the chunk size line: `size, sep, exts = line.partition(b';')`,
`int(size.strip().decode('ascii'), 16)` -/
def chunkLine (line : Bytes) : Except Exc (Int × Parms) :=
  let p := partition 59 line
  let s := bstrip p.1
  if s.any (fun b => 128 ≤ b) then .error .unicodeDecodeError
  else match pyIntHex s with
    | none => .error .valueError
    | some n => .ok (n, if p.2.2 = [] then [] else parseExts p.2.2)

end Ioflo.Http
