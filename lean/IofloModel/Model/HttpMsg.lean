import IofloModel.Model.HttpLex
import IofloModel.Model.Sse
/-
Model of the HTTP message parsers: `httping.Parsent.parseMessage / parse / close / makeParser`,
`serving.Requestant.parseHead / parseBody / checkPersisted`,
`clienting.Respondent.parseHead / parseBody / checkPersisted`, `httping.parseChunk`.

The generators are an explicit position `Gen` (with the generator locals that survive a
`yield`) inside `Core`; `stepOn` runs the code from one position up to the next place where it
either needs bytes (`Res.stop`, the `yield None` that reaches the caller of `parse()`), ends
(`Res.stop` with `gen = .none`), dies (`gen = .dead`) or moves to the next position (`Res.cont`).
`pump` iterates `stepOn`; `feed` is `msg.extend(b); parse()`.

* An `HTTPException` — and, as repaired by fixes/D18-parsemessage-valueerror.patch, a `ValueError`
  (`int()`, `.decode('ascii')`, `urlsplit`, the chunk end test) — raised in `parseHead`/`parseBody`
  is caught by `parseMessage`: `errored = True`, `ended = True`.  With `catchVE = false` (the
  unrepaired tree) a `ValueError` leaves `parse()`: `gen = .dead`, `escaped = some e`; the next
  `parse()` raises `StopIteration`.
* The `if self.closed …: raise PrematureClosure` tests sit in the `while True:` loops that drive the
  sub-generators, so they run when such a loop is entered and every time `parse()` resumes it
  (`resumeCheck`), not once per header line.
* A response with `Content-Type: text/event-stream` hands its body to an `EventSource`: the model of
  `Model/Sse.lean` (`Core.es`), whose buffer `.raw` IS `Respondent.body` (the same bytearray), parsed after
  every data chunk / every pass of a body read until close; `.events` is the deque the event sources
  share, `.retry` / `.leid` follow the event source.  As repaired by
  fixes/D32f-respondent-evented-per-message.patch `evented` is decided per response.
* `urlsplit(self.url)` / `.port` of the Requestant are standard library; `urlCheck` reproduces when
  they raise `ValueError` (bad port) and declares targets whose netloc has brackets or non-ASCII
  characters outside the model.  The split results (`path`, `query`, …) are not modelled.
Core Lean only.
-/
namespace Ioflo.Http

inductive Kind | req | rsp
  deriving DecidableEq, Repr

/-- position of the `parseMessage` generator and of the sub-generators it drives -/
inductive Gen
  | none                                  -- `.parser is None`: message done
  | fresh                                 -- generator made by `makeParser`, not started
  | waitStart                             -- `while not self.started`
  | startLine
  | contHdrs (h : Hdrs)                   -- Respondent: leader after `100 Continue`
  | hdrs (h : Hdrs)                       -- `parseLeader` of the head, headers so far
  | chunkSize                             -- `parseChunk`: size line
  | chunkTrailer (pm : Parms) (h : Hdrs)  -- `parseChunk`, size 0: trailer leader
  | chunkData (size : Int) (pm : Parms)
  | chunkEnd (pm : Parms) (chunk : Bytes)
  | bodyLength
  | bodyClose
  | dead                                  -- an exception other than HTTPException left `parse()`
  | unmodelled
  deriving DecidableEq, Repr

def sGET : Bytes := [71, 69, 84]
def sHEAD : Bytes := [72, 69, 65, 68]

structure Core where
  kind : Kind
  max : Nat := 65536                      -- `MAX_LINE_SIZE`
  catchVE : Bool := true                  -- `except (HTTPException, ValueError)` (fixes/D18-…); false = the unrepaired `except HTTPException`
  resetPT : Bool := true                  -- `parseMessage` resets `.parms`, `.trails` (fixes/D29c-…); false = they survive a reused parser
  version : Option (Nat × Nat) := none
  length : Option Nat := none
  chunked : Option Bool := none
  persisted : Option Bool := none
  started : Bool := false
  ended : Option Bool := none
  closed : Bool := false
  errored : Bool := false
  headers : Option Hdrs := none
  parms : Option Parms := none
  trails : Option Hdrs := none
  body : Bytes := []
  method : Bytes := sGET
  url : Bytes := []
  status : Option Nat := none
  reason : Option Bytes := none
  evented : Option Bool := none            -- `Respondent.evented`
  es : Option Sse.St := none              -- `Respondent.eventSource` (its `.raw` is `body`)
  events : List Sse.Event := []           -- `Respondent.events`, shared with the event sources
  retry : Int := 100                      -- `Respondent.retry` (class default `Retry = 100`)
  leid : Option Bytes := none             -- `Respondent.leid`
  gen : Gen := .fresh
  escaped : Option Exc := none
  stopIter : Bool := false                -- a `parse()` on the dead generator raised StopIteration
  deriving DecidableEq, Repr

structure St where
  core : Core
  msg : Bytes := []
  deriving DecidableEq, Repr

def init (kind : Kind) (method : Bytes) (max : Nat) : St :=
  { core := { kind := kind, method := method, max := max } }

inductive Res
  | stop (c : Core) (buf : Bytes)
  | cont (c : Core) (buf : Bytes)
  deriving DecidableEq, Repr

/-! ### ends of the generator -/

/-- `except HTTPException: self.errored = True`; `self.ended = True; self.started = False; yield True` -/
def httpFail (c : Core) (buf : Bytes) : Res :=
  .stop { c with errored := true, ended := some true, started := false, gen := .none } buf

def escape (c : Core) (e : Exc) (buf : Bytes) : Res :=
  .stop { c with gen := .dead, escaped := some e } buf

/-- `raise` inside `parseHead`/`parseBody`: caught by `parseMessage` when it is an `HTTPException`
or (repaired tree) a `ValueError`; `UnicodeDecodeError` is a `ValueError` -/
def raise (c : Core) (e : Exc) (buf : Bytes) : Res :=
  if e.isHttp || c.catchVE then httpFail c buf else escape c e buf

/-- end of `parseBody` (`self.length = len(self.body)`) and of `parseMessage` -/
def finishBody (c : Core) (buf : Bytes) : Res :=
  .stop { c with length := some c.body.length, ended := some true, started := false, gen := .none } buf

/-- the test that guards the driving loops: Requestant `if self.closed`, Respondent
`if self.closed and not self.msg` -/
def closedCond (c : Core) (buf : Bytes) : Bool :=
  match c.kind with
  | .req => c.closed
  | .rsp => c.closed && buf.isEmpty

/-! ### head interpretation -/

def sTE : Bytes := [116, 114, 97, 110, 115, 102, 101, 114, 45, 101, 110, 99, 111, 100, 105, 110, 103]
def sChunked : Bytes := [99, 104, 117, 110, 107, 101, 100]
def sCL : Bytes := [99, 111, 110, 116, 101, 110, 116, 45, 108, 101, 110, 103, 116, 104]
def sCT : Bytes := [99, 111, 110, 116, 101, 110, 116, 45, 116, 121, 112, 101]
def sConnection : Bytes := [99, 111, 110, 110, 101, 99, 116, 105, 111, 110]
def sClose : Bytes := [99, 108, 111, 115, 101]
def sKeepAlive : Bytes := [107, 101, 101, 112, 45, 97, 108, 105, 118, 101]
def sProxyConnection : Bytes :=
  [112, 114, 111, 120, 121, 45, 99, 111, 110, 110, 101, 99, 116, 105, 111, 110]
def sEventStream : Bytes :=
  [116, 101, 120, 116, 47, 101, 118, 101, 110, 116, 45, 115, 116, 114, 101, 97, 109]

/-- truthy `str` value of a header -/
def hget (h : Hdrs) (k : Bytes) : Option Bytes :=
  match h.get k with
  | some v => if v = [] then none else some v
  | none => none

def isChunked (h : Hdrs) : Bool :=
  match hget h sTE with
  | some v => lower v = sChunked
  | none => false

/-- `int(contentLength)`, `ValueError` or negative → `None` -/
def lengthOf (v : Bytes) : Option Nat :=
  match pyInt v with
  | some i => if i < 0 then none else some i.toNat
  | none => none

def connHas (h : Hdrs) (k : Bytes) (word : Bytes) : Bool :=
  match hget h k with
  | some v => contains word (lower v)
  | none => false

/-- `Requestant.checkPersisted` -/
def reqPersisted (version : Option (Nat × Nat)) (h : Hdrs) (chunked : Bool) (length : Option Nat) :
    Option Bool :=
  if version = some (1, 1) then
    if connHas h sConnection sClose then some false
    else if ¬ chunked ∧ length = none then some false
    else some true
  else if version = some (1, 0) then
    if connHas h sConnection sKeepAlive then some true else some false
  else none

/-- `Respondent.checkPersisted` -/
def rspPersisted (version : Option (Nat × Nat)) (h : Hdrs) (chunked : Bool) (length : Option Nat)
    (evented : Bool := false) : Option Bool :=
  if version = some (1, 1) then
    if connHas h sConnection sClose then some false
    else if ¬ chunked ∧ length = none then some false
    else some true
  else if version = some (1, 0) then
    if evented then some true
    else if (hget h sKeepAlive).isSome then some true
    else if connHas h sConnection sKeepAlive then some true
    else if connHas h sProxyConnection sKeepAlive then some true
    else some false
  else none

/-- the part of `contentType` before the last `;` (`rpartition`), the whole when there is none -/
def beforeLastSemi (s : Bytes) : Bytes :=
  match (partition 59 s.reverse) with
  | (_, true, t) => t.reverse
  | (_, false, _) => s

def isEvented (h : Hdrs) : Bool :=
  match hget h sCT with
  | some ct => contains sEventStream (lower (beforeLastSemi ct))
  | none => false

/-! ### `urlsplit(self.url)` and `.port`: when they raise -/

inductive UrlCheck | ok | valueError | outside
  deriving DecidableEq, Repr

def isSchemeChar (b : Nat) : Bool :=
  (97 ≤ b && b ≤ 122) || (65 ≤ b && b ≤ 90) || (48 ≤ b && b ≤ 57) || b = 43 || b = 45 || b = 46

def isAlpha (b : Nat) : Bool := (97 ≤ b && b ≤ 122) || (65 ≤ b && b ≤ 90)

/-- up to the first of `/ ? #` -/
def takeNetloc : Bytes → Bytes
  | [] => []
  | b :: r => if b = 47 ∨ b = 63 ∨ b = 35 then [] else b :: takeNetloc r

/-- after the last `@` -/
def afterLastAt (s : Bytes) : Bytes :=
  match partition 64 s.reverse with
  | (h, true, _) => h.reverse
  | (_, false, _) => s

def urlCheck (url : Bytes) : UrlCheck :=
  let url := url.dropWhile (fun b => b ≤ 32)      -- `url.lstrip(_WHATWG_C0_CONTROL_OR_SPACE)`
  -- scheme
  let p := partition 58 url
  let rest :=
    if p.2.1 && (match p.1 with | b :: _ => isAlpha b | [] => false) && p.1.all isSchemeChar
    then p.2.2 else url
  match rest with
  | 47 :: 47 :: r =>
    let netloc := takeNetloc r
    if netloc.any (fun b => b = 91 ∨ b = 93 ∨ b ≥ 128) then .outside else
    let hostinfo := afterLastAt netloc
    let q := partition 58 hostinfo
    let port := q.2.2
    if port = [] then .ok
    else if port.length > 4000 then .outside
    else if ¬ port.all isDigit then .valueError
    else match pyInt port with
      | some i => if i ≤ 65535 then .ok else .valueError
      | none => .outside
  | _ => .ok

/-! ### one position of the generators -/

inductive LeaderIter
  | wait
  | err (e : Exc) (rest : Bytes)
  | more (h : Hdrs) (rest : Bytes)
  | done (h : Hdrs) (rest : Bytes)
  deriving DecidableEq, Repr

/-- one iteration of `parseLeader`'s loop -/
def leaderIter (max : Nat) (h : Hdrs) (buf : Bytes) : LeaderIter :=
  match leaderTry max buf with
  | .wait => .wait
  | .tooLong => .err .lineTooLong buf
  | .line l rest =>
    if l ≠ [] then
      match headerLine h l with
      | .error e => .err e rest
      | .ok h' => .more h' rest
    else if h.length > MAX_HEADERS then .err .tooManyHeaders rest
    else .done h rest

/-- `self.parms.update(parms)` -/
def updParms (cur : Option Parms) (pm : Parms) : Option Parms :=
  if pm = [] then cur else some (pm.foldl (fun acc p => setKey p.1 p.2 acc) (cur.getD []))

/-- start of `parseBody` once the head is interpreted -/
def startBody (c : Core) (buf : Bytes) : Res :=
  let c := { c with body := [] }
  if c.chunked = some true then
    let c := { c with parms := some [] }
    if closedCond c buf then raise c .prematureClosure buf
    else .cont { c with gen := .chunkSize } buf
  else if c.length ≠ none then .cont { c with gen := .bodyLength } buf
  else match c.kind with
    | .req => raise c .invalidBody buf
    | .rsp => .cont { c with gen := .bodyClose } buf

/-- `Requestant`: the body length the head announces when the body is not chunked:
`int(contentLength)` (`None` when that fails or is negative), 0 without a Content-Length -/
def reqLen (H : Hdrs) : Option Nat :=
  match hget H sCL with
  | some v => lengthOf v
  | none => some 0

/-- the fields `Requestant.parseHead` assigns after the leader -/
def reqHeadCore (c : Core) (H : Hdrs) : Core :=
  { c with headers := some H, chunked := some (isChunked H),
           length := if isChunked H then none else reqLen H,
           persisted := reqPersisted c.version H (isChunked H) (if isChunked H then none else reqLen H) }

/-- rest of `Requestant.parseHead` after the leader -/
def reqHeadDone (c : Core) (h : Hdrs) (buf : Bytes) : Res := startBody (reqHeadCore c h) buf

/-- `Respondent`: the body length the head announces: 0 for 204, 304, 1xx and answers to HEAD,
else `int(contentLength)` when not chunked -/
def rspLen (c : Core) (H : Hdrs) : Option Nat :=
  let st := c.status.getD 0
  if st = 204 ∨ st = 304 ∨ (100 ≤ st ∧ st < 200) ∨ c.method = sHEAD then some 0
  else match hget H sCL with
    | some v => if isChunked H then none else lengthOf v
    | none => none

/-- the fields `Respondent.parseHead` assigns after the leader (before `checkPersisted`) -/
def rspHeadCore (c : Core) (H : Hdrs) : Core :=
  { c with headers := some H, chunked := some (isChunked H), length := rspLen c H, evented := some (isEvented H) }

/-- `self.eventSource = EventSource(raw=self.body, events=self.events, …)`: a new event source on the
shared deque -/
def newEs (c : Core) : Core :=
  { c with es := some { raw := [], skip := false, ev := { events := c.events } } }

/-- rest of `Respondent.parseHead` after the leader -/
def rspHeadDone (c : Core) (h : Hdrs) (buf : Bytes) : Res :=
  let c := rspHeadCore c h
  if isEvented h then
    startBody (newEs { c with persisted := rspPersisted c.version h (isChunked h) c.length true }) buf
  else startBody { c with persisted := rspPersisted c.version h (isChunked h) c.length } buf

/-- rest of `parseHead` after the leader, for either parser -/
def headDone (c : Core) (H : Hdrs) (buf : Bytes) : Res :=
  match c.kind with
  | .req => reqHeadDone c H buf
  | .rsp => rspHeadDone c H buf

/-- entering a loop that drives a leader: the closed test, then the position -/
def enterLeader (c : Core) (g : Gen) (buf : Bytes) : Res :=
  if closedCond c buf then raise c .prematureClosure buf else .cont { c with gen := g } buf

/-- does this message hand its body to an event source -/
def usesEs (c : Core) : Bool :=
  match c.kind with
  | .req => false
  | .rsp => c.evented == some true

inductive EsOut | ok | exc (e : Exc) | outside
  deriving DecidableEq, Repr

/-- `self.eventSource.parse()` on the body so far, then `.retry` / `.leid` follow the event source
(not when `parse()` raised) -/
def evParse (c : Core) : Core × EsOut :=
  match c.es with
  | none => (c, .ok)
  | some st =>
    let st' := Sse.feed c.max { st with raw := c.body } []
    let c' := { c with body := st'.raw, es := some st', events := st'.ev.events }
    -- an event source whose generator died is not kept: the response fails here, and (fixes/D32f) the
    -- next response decides anew whether it is evented and then gets a new event source
    let cx := { c' with es := none }
    match Sse.raised st st' with
    | .err .lineTooLong => (cx, .exc .lineTooLong)
    | .err .unicodeDecode => (cx, .exc .unicodeDecodeError)
    | .stopIteration => (cx, .exc .runtimeError)
    | .none =>
      if st'.ev.status = .unmodelled then (c', .outside)
      else ({ c' with retry := st'.ev.retry.getD c'.retry,
                      leid := match st'.ev.leid with | some l => some l | none => c'.leid }, .ok)

/-- the event-stream part of a body step, then the rest `k` of the step -/
def esStep (c : Core) (buf : Bytes) (k : Core → Res) : Res :=
  if usesEs c then
    match evParse c with
    | (c', .ok) => k c'
    | (c', .exc e) => if e = .runtimeError then escape c' e buf else raise c' e buf
    | (c', .outside) => .stop { c' with gen := .unmodelled } buf
  else k c

/-- a chunk is complete: `self.parms.update(parms)`, `self.body.extend(chunk)`, the events, the closed test -/
def chunkDone (c : Core) (pm : Parms) (chunk : Bytes) (buf : Bytes) : Res :=
  esStep { c with parms := updParms c.parms pm, body := c.body ++ chunk } buf (fun c =>
    if closedCond c buf then finishBody c buf else .cont { c with gen := .chunkSize } buf)

/-- `self.parms = None` / `self.trails = None` at the start of `parseMessage` (repaired tree) -/
def resetOf {α : Type} (flag : Bool) (old : Option α) : Option α := if flag then none else old

/-- `Requestant`: `(1, 0)` for `HTTP/1.0…`, else `(1, 1)` -/
def reqVersion (v : Bytes) : Option (Nat × Nat) :=
  if startsWith sHTTP10 v then some (1, 0) else some (1, 1)

/-- `if trails: self.trails = trails` -/
def trailsOf (old : Option Hdrs) (h : Hdrs) : Option Hdrs := if h = [] then old else some h

/-- Python `raw[:size]` / `del raw[:size]` for an int `size` of either sign -/
def sliceTo (raw : Bytes) (size : Int) : Bytes × Bytes :=
  if size ≥ 0 then (raw.take size.toNat, raw.drop size.toNat)
  else
    let k := raw.length - (-size).toNat
    (raw.take k, raw.drop k)

def stepOn (c : Core) (buf : Bytes) : Res :=
  match c.gen with
  | .none => .stop c buf
  | .dead => .stop { c with stopIter := true } buf
  | .unmodelled => .stop c buf
  | .fresh =>
    .cont { c with ended := some false, closed := false, errored := false,
                   parms := resetOf c.resetPT c.parms,
                   trails := resetOf c.resetPT c.trails, gen := .waitStart } buf
  | .waitStart =>
    if ¬ c.started ∧ buf = [] then .stop c buf
    else .cont { c with started := true, headers := some [], gen := .startLine } buf
  | .startLine =>
    if closedCond c buf then raise c .prematureClosure buf else
    match lineTry c.max true buf with
    | .wait => .stop c buf
    | .tooLong => raise c .lineTooLong buf
    | .line l rest =>
      match c.kind with
      | .req =>
        match parseRequestLine l with
        | .error e => raise c e rest
        | .ok (m, url, ver) =>
          let c := { c with method := m, url := strip url }
          if ¬ startsWith sHTTP1 ver then raise c .unknownProtocol rest else
          let c := { c with version := reqVersion ver }
          match urlCheck c.url with
          | .valueError => raise c .valueError rest
          | .outside => .stop { c with gen := .unmodelled } rest
          | .ok => enterLeader c (.hdrs []) rest
      | .rsp =>
        match parseStatusLine l with
        | .error e => raise c e rest
        | .ok (ver, status, reason) =>
          if status = 100 then enterLeader c (.contHdrs []) rest else
          let c := { c with status := some status, reason := some (strip reason) }
          if ver = sHTTP10 ∨ ver = sHTTP09 then
            enterLeader { c with version := some (1, 0) } (.hdrs []) rest
          else if startsWith sHTTP1 ver then
            enterLeader { c with version := some (1, 1) } (.hdrs []) rest
          else raise c .unknownProtocol rest
  | .contHdrs h =>
    match leaderIter c.max h buf with
    | .wait => .stop c buf
    | .err e rest => raise c e rest
    | .more h' rest => .cont { c with gen := .contHdrs h' } rest
    | .done _ rest => .cont { c with gen := .startLine } rest
  | .hdrs h =>
    match leaderIter c.max h buf with
    | .wait => .stop c buf
    | .err e rest => raise c e rest
    | .more h' rest => .cont { c with gen := .hdrs h' } rest
    | .done h rest => headDone c h rest
  | .chunkSize =>
    match lineTry c.max false buf with
    | .wait => .stop c buf
    | .tooLong => raise c .lineTooLong buf
    | .line l rest =>
      match chunkLine l with
      | .error e => raise c e rest
      | .ok (size, pm) =>
        if size = 0 then .cont { c with gen := .chunkTrailer pm [] } rest
        else .cont { c with gen := .chunkData size pm } rest
  | .chunkTrailer pm h =>
    match leaderIter c.max h buf with
    | .wait => .stop c buf
    | .err e rest => raise c e rest
    | .more h' rest => .cont { c with gen := .chunkTrailer pm h' } rest
    | .done h rest =>
      let c := { c with parms := updParms c.parms pm, trails := trailsOf c.trails h }
      finishBody c rest
  | .chunkData size pm =>
    if (buf.length : Int) < size then .stop c buf
    else
      let p := sliceTo buf size
      .cont { c with gen := .chunkEnd pm p.1 } p.2
  | .chunkEnd pm chunk =>
    match lineTry c.max false buf with
    | .wait => .stop c buf
    | .tooLong => raise c .lineTooLong buf
    | .line l rest =>
      if l ≠ [] then raise c .valueError rest
      else chunkDone c pm chunk rest
  | .bodyLength =>
    let n := c.length.getD 0
    if buf.length < n then
      (if closedCond c buf then raise c .prematureClosure buf else .stop c buf)
    else finishBody { c with body := buf.take n } (buf.drop n)
  | .bodyClose =>
    esStep { c with body := c.body ++ buf } [] (fun c =>
      if c.closed then finishBody c [] else .stop c [])

/-- `next(self.parser)` resumed inside a loop that drives a leader or (Respondent) a chunk parser:
the closed test at the top of that loop -/
def resumeCheck (c : Core) (buf : Bytes) : Bool :=
  match c.gen with
  | .contHdrs _ | .hdrs _ => closedCond c buf
  | .chunkSize | .chunkTrailer _ _ | .chunkData _ _ | .chunkEnd _ _ =>
    (match c.kind with | .rsp => closedCond c buf | .req => false)
  | _ => false

def pump : Nat → Core → Bytes → St
  | 0, c, buf => { core := c, msg := buf }
  | n + 1, c, buf =>
    match stepOn c buf with
    | .stop c' buf' => { core := c', msg := buf' }
    | .cont c' buf' => pump n c' buf'

/-- fuel that `pump` cannot exhaust (see `Lemmas/HttpMsg.lean`) -/
def fuelFor (buf : Bytes) : Nat := 8 * buf.length + 16

/-- `parse()` -/
def parse (s : St) : St :=
  if resumeCheck s.core s.msg then
    (match raise s.core .prematureClosure s.msg with
     | .stop c b => { core := c, msg := b }
     | .cont c b => { core := c, msg := b })
  else pump (fuelFor s.msg) s.core s.msg

/-- `msg.extend(b); parse()` -/
def feed (s : St) (b : Bytes) : St := parse { s with msg := s.msg ++ b }

/-- `close()` -/
def close (s : St) : St :=
  { s with core := { s.core with closed := true,
                                  es := match s.core.kind with
                                    | .rsp => s.core.es.map Sse.close     -- `Respondent.close` closes its event source
                                    | .req => s.core.es } }

/-- `makeParser()` -/
def makeParser (s : St) : St := { s with core := { s.core with gen := .fresh } }

def feedAll (s : St) (pieces : List Bytes) : St := pieces.foldl feed s

end Ioflo.Http
