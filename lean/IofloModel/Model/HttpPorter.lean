import IofloModel.Model.HttpValet
/-
Model of `serving.Porter.serviceStewards` (the non-WSGI server) over the same connection table as
the Valet model, as repaired by fixes/D32b-porter-errored-request.patch: a request that ended with
an error closes its own connection; otherwise the Steward answers at once (`respond()`, the
`CustomResponder` ends in the same call) and the connection is kept (`makeParser()`) when the
request is persistent, else closed.  Core Lean only.
-/
namespace Ioflo.Http

/-- the body of a connection-table loop for one connection, applied to the table:
`none` = `closeConnection(ca)`; the flag = an exception left the loop -/
def Valet.stepWith (f : Conn → Option Conn × Bool) (v : Valet) (ca : Nat) : Valet :=
  if v.raised then v else
  match lookup ca v.conns with
  | none => v
  | some c =>
    match f c with
    | (some c', r) => { conns := setConn ca c' v.conns, raised := r }
    | (none, r) => { conns := erase ca v.conns, raised := r }

/-- the body of the loop of `Porter.serviceStewards` for one connection (a Steward is never left
waiting by the `CustomResponder`) -/
def stewardStepConn (c : Conn) : Option Conn × Bool :=
  let s' := parse c.req
  if parseRaises c.req s' then (some { c with req := s' }, true)
  else if s'.core.ended = some true then
    if s'.core.errored then (none, false)                               -- closeConnection(ca)
    else if s'.core.persisted = some true then
      (some { c with req := makeParser s', served := c.served + 1 }, false)
    else (none, false)                                                   -- answered, then closeConnection(ca)
  else (some { c with req := s' }, false)

/-- `Porter.serviceStewards` -/
def Valet.serviceStewards (v : Valet) : Valet :=
  (v.conns.map (·.1)).foldl (Valet.stepWith stewardStepConn) v

end Ioflo.Http
