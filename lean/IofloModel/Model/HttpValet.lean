import IofloModel.Model.HttpMsg
/-
Model of the connection bookkeeping of `serving.Valet` (`serviceConnects`, `serviceReqs`,
`serviceReps`, `closeConnection`, `serviceAll`) over several connections, and of
`clienting.Patron.serviceResponse` for one.

Each connection `ca` has its `Requestant` (`Http.St`: parser + `ix.rxbs`), maybe a `Responder`
(`reps[ca]`), and its incomer (`ixes[ca]`); the three dictionaries are one association list here,
`closeConnection(ca)` removes the entry.  The WSGI application is taken to answer every request in
one `service()` call with a length-delimited body (what the correspondence harness installs); its
output is not modelled, only that it ran (`served`) and that bytes are queued (`txPending`).

The loops iterate over `odict.items()`, a list copy made before the loop: `serviceReqs` is a fold
over the keys present at the start, each step looking its connection up again.  An exception that
is not caught inside the loop body leaves `serviceReqs` — and `serviceAll` — at once: `raised`
(the remaining connections are not serviced in that call).
Core Lean only.
-/
namespace Ioflo.Http

structure Conn where
  req : St                          -- `reqs[ca]`, `.msg` is `ixes[ca].rxbs`
  rep : Option Bool := none         -- `reps[ca]`: `some ended`
  served : Nat := 0                 -- requests handed to the application
  txPending : Bool := false         -- `ixes[ca].txes` not empty
  stalled : Bool := false           -- the peer is not reading: the socket accepts no bytes
  deriving DecidableEq, Repr

structure Valet where
  conns : List (Nat × Conn) := []
  raised : Bool := false            -- an exception left a service method
  deriving DecidableEq, Repr

def lookup (ca : Nat) : List (Nat × Conn) → Option Conn
  | [] => none
  | (k, c) :: r => if k = ca then some c else lookup ca r

def setConn (ca : Nat) (c : Conn) : List (Nat × Conn) → List (Nat × Conn)
  | [] => []
  | (k, c') :: r => if k = ca then (k, c) :: r else (k, c') :: setConn ca c r

/-- `closeConnection(ca)` -/
def erase (ca : Nat) : List (Nat × Conn) → List (Nat × Conn)
  | [] => []
  | (k, c') :: r => if k = ca then r else (k, c') :: erase ca r

/-- a new incoming connection and, in `serviceConnects`, its `Requestant(msg=ix.rxbs, incomer=ix)` -/
def Valet.connect (v : Valet) (ca : Nat) (max : Nat) (catchVE : Bool) : Valet :=
  match lookup ca v.conns with
  | some _ => v
  | none =>
    let s := init .req sGET max
    { v with conns := v.conns ++ [(ca, { req := { s with core := { s.core with catchVE := catchVE } } })] }

/-- bytes received on connection `ca` (`ix.rxbs.extend`) -/
def Valet.recv (v : Valet) (ca : Nat) (b : Bytes) : Valet :=
  match lookup ca v.conns with
  | some c => { v with conns := setConn ca { c with req := { c.req with msg := c.req.msg ++ b } } v.conns }
  | none => v

/-- does `parse()` raise: the generator is dead already (`StopIteration`) or dies in this call -/
def parseRaises (before after : St) : Bool :=
  before.core.gen = .dead || after.core.gen = .dead

/-- the body of the loop of `serviceReqs` for one connection: `none` = the connection is closed
and removed; the flag = an exception left the loop -/
def reqStepConn (c : Conn) : Option Conn × Bool :=
  if c.req.core.gen = .none then (some c, false)            -- `if requestant.parser:` is false
  else
    let s' := parse c.req
    if parseRaises c.req s' then (some { c with req := s' }, true)
    else if s'.core.ended = some true then
      if s'.core.errored then (none, false)                  -- `closeConnection(ca)`
      else (some { c with req := s', rep := some false, served := c.served + 1 }, false)
    else (some { c with req := s' }, false)

def Valet.reqStep (v : Valet) (ca : Nat) : Valet :=
  if v.raised then v else
  match lookup ca v.conns with
  | none => v
  | some c =>
    match reqStepConn c with
    | (some c', r) => { conns := setConn ca c' v.conns, raised := r }
    | (none, r) => { conns := erase ca v.conns, raised := r }

/-- `serviceReqs` -/
def Valet.serviceReqs (v : Valet) : Valet :=
  (v.conns.map (·.1)).foldl Valet.reqStep v

/-- the body of the loop of `serviceReps` for one connection -/
def repStepConn (c : Conn) : Option Conn :=
  match c.rep with
  | none => some c
  | some ended =>
    -- `if not responder.ended: responder.service()`: the application answers at once
    let c := if ended then c else { c with rep := some true, txPending := true }
    if c.req.core.persisted = some true then
      (if c.req.core.gen = .none then some { c with req := makeParser c.req } else some c)
    else if c.txPending then some c
    else none                                                 -- `closeConnection(ca)`

def Valet.repStep (v : Valet) (ca : Nat) : Valet :=
  if v.raised then v else
  match lookup ca v.conns with
  | none => v
  | some c =>
    match repStepConn c with
    | some c' => { v with conns := setConn ca c' v.conns }
    | none => { v with conns := erase ca v.conns }

/-- `serviceReps` -/
def Valet.serviceReps (v : Valet) : Valet :=
  ((v.conns.filter (fun p => p.2.rep.isSome)).map (·.1)).foldl Valet.repStep v

/-- the peer of connection `ca` stops / resumes reading (its socket accepts nothing / everything) -/
def Valet.stall (v : Valet) (ca : Nat) (b : Bool) : Valet :=
  match lookup ca v.conns with
  | some c => { v with conns := setConn ca { c with stalled := b } v.conns }
  | none => v

/-- `servant.serviceTxesAllIx()` with the harness' incomers: everything queued is sent on the
connections whose peer is reading, nothing on the others -/
def Valet.drain (v : Valet) : Valet :=
  if v.raised then v else
    { v with conns := v.conns.map (fun p => (p.1, { p.2 with txPending := p.2.txPending && p.2.stalled })) }

/-- `serviceAll` (no new connections, nothing received inside the call) -/
def Valet.serviceAll (v : Valet) : Valet := (v.serviceReqs.serviceReps).drain

/-! ### the client: `Patron.serviceResponse` for the request in flight -/

structure Client where
  rsp : St                          -- the `Respondent`, `.msg` is `connector.rxbs`
  waited : Bool := true             -- a request has been sent, its response is awaited
  responses : List Bool := []       -- `responses`: the `errored` flag of each recorded response
  raised : Bool := false            -- an exception left `serviceResponse`
  deriving DecidableEq, Repr

/-- bytes arrive (`connector.serviceReceives()`), then the body of `serviceResponse`
(not redirectable; an event-stream response delivers events, it is not recorded as a response): `if self.waited: parse()`; when `ended` the response is
recorded with its `errored` flag and `makeParser()` prepares the next one -/
def Client.recv (c : Client) (b : Bytes) : Client :=
  if c.raised then c else
  let s : St := { c.rsp with msg := c.rsp.msg ++ b }
  if ¬ c.waited then { c with rsp := s } else
  let s' := parse s
  if parseRaises s s' then { c with rsp := s', raised := true }
  else if s'.core.ended = some true then
    if s'.core.evented = some true then { c with rsp := makeParser s' }   -- `if not self.respondent.evented:` no response recorded
    else { c with rsp := makeParser s', waited := false, responses := c.responses ++ [s'.core.errored] }
  else { c with rsp := s' }

/-- `connector.cutoff`: `respondent.close()` in `serviceAll`, then `serviceResponse` -/
def Client.closed (c : Client) : Client :=
  if c.raised then c else Client.recv { c with rsp := close c.rsp } []

end Ioflo.Http
