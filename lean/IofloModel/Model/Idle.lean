/-
Model of the idle timeout of server-side HTTP connections (C28).

Transcribed from
  ioflo/aio/tcp/serving.py   Incomer.__init__ (timer = StoreTimer(store, duration=timeout)), Incomer.refresh,
                             Incomer.receive / send (`if self.refreshable: self.refresh()` when bytes moved),
                             IncomerTls.receive / send (no refresh in the code as found: D15)
  ioflo/aid/timing.py        StoreTimer.restart (`stop = start + duration`), .expired (`stamp >= stop`)
  ioflo/aio/http/serving.py  Valet.serviceConnects / Porter.serviceConnects (cutoff and timeout checks),
                             closeConnection, Requestant.checkPersisted (`incomer.timeout = 0.0`)

Time is exact: `Nat` ticks of a quantum (the correspondence runs use a dyadic quantum, so CPython's float
arithmetic on the store stamp is exact too).  Every arrival comes from a fresh peer address (repeated
addresses are property C26).  `last` and `closedLog` are history variables: the time of the last byte
moved on a connection, and what was closed when.

Two versions (D15): `orig` = IncomerTls never refreshes; `fixed` = with fixes/D15-*.patch.
Core Lean only.
-/
namespace Ioflo.Idle

inductive Version | orig | fixed
  deriving DecidableEq, Repr

/-- which HTTP server sits on the TCP server -/
inductive Front | valet | porter
  deriving DecidableEq, Repr

/-- HTTP version of a parsed request head, as `checkPersisted` distinguishes them -/
inductive HttpVer | v10 | v11 | other
  deriving DecidableEq, Repr

structure Conn where
  id : Nat
  /-- `ix.timeout`; 0 = the idle check is off -/
  timeout : Nat
  /-- `ix.timer.duration` -/
  duration : Nat
  /-- `ix.timer.stop` -/
  stop : Nat
  cutoff : Bool := false
  /-- `requestant.persisted` (`None` until a head has been parsed) -/
  persisted : Option Bool := none
  /-- history: time of accept, or of the last byte received or sent -/
  last : Nat
  deriving DecidableEq, Repr

structure Closed where
  id : Nat
  at_ : Nat
  /-- the connection's cutoff flag when it was closed -/
  cutoff : Bool
  /-- history values at the time of closing -/
  last : Nat
  persisted : Option Bool
  timeout : Nat
  deriving DecidableEq, Repr

structure State where
  v : Version
  tls : Bool
  front : Front
  /-- the server's `timeout` (ticks), given to every Incomer -/
  T : Nat
  /-- `servant.store.stamp`: the clock of the TCP server, which every incomer's timer reads -/
  now : Nat := 0
  /-- the HTTP server's own `.store.stamp` when it was handed a ready servant with another store;
  no timer reads it -/
  appNow : Nat := 0
  /-- connections waiting in the listen socket's accept queue -/
  pending : List Nat := []
  nextId : Nat := 0
  /-- `servant.ixes` in insertion order -/
  conns : List Conn := []
  closedLog : List Closed := []
  deriving Repr

def init (v : Version) (tls : Bool) (front : Front) (T : Nat) : State :=
  { v := v, tls := tls, front := front, T := T }

/-- does `receive` / `send` of this server's incomers restart the timer?
`Incomer`: yes (`refreshable` defaults to True); `IncomerTls`: only with the D15 repair -/
def refreshes (s : State) : Bool := !s.tls || s.v == .fixed

/-- `Incomer.refresh()` = `timer.restart()`: `start = store.stamp; stop = start + duration` -/
def Conn.refresh (c : Conn) (now : Nat) : Conn := { c with stop := now + c.duration }

/-- bytes moved on the connection at time `now` (n > 0): the double saw them; the timer is restarted
if this kind of incomer refreshes -/
def Conn.moved (c : Conn) (refr : Bool) (now : Nat) : Conn :=
  let c := { c with last := now }
  if refr then c.refresh now else c

/-- `Incomer(..., store=self.store, timeout=self.timeout)` at accept time -/
def newConn (T now id : Nat) : Conn :=
  { id := id, timeout := T, duration := T, stop := now + T, last := now }

/-- what `serviceConnects` decides for one entry of the table:
Valet: `if ix.cutoff: close; continue` then `if ix.timeout > 0.0 and ix.timer.expired: close`;
Porter: only the second test. -/
def closes (front : Front) (now : Nat) (c : Conn) : Bool :=
  (front == .valet && c.cutoff) || (decide (0 < c.timeout) && decide (c.stop ≤ now))

def Conn.toClosed (c : Conn) (now : Nat) : Closed :=
  { id := c.id, at_ := now, cutoff := c.cutoff, last := c.last, persisted := c.persisted, timeout := c.timeout }

/-- `serviceConnects`: accept everything pending (timers start now), then walk the table.
`closeConnection(ca)` touches only the entry of `ca`, so the walk over the snapshot is a filter. -/
def serviceConnects (s : State) : State :=
  let conns := s.conns ++ s.pending.map (newConn s.T s.now)
  { s with pending := [],
           conns := conns.filter (fun c => !closes s.front s.now c),
           closedLog := s.closedLog ++ (conns.filter (closes s.front s.now)).map (·.toClosed s.now) }

/-- apply `f` to the connection with this id, if it is in the table -/
def onConn (s : State) (id : Nat) (f : Conn → Conn) : State :=
  { s with conns := s.conns.map (fun c => if c.id = id then f c else c) }

/-- `Requestant.checkPersisted`:
```
if self.version == (1, 1):
    self.persisted = True
    if connection and "close" in connection.lower(): self.persisted = False
    elif (not self.chunked and self.length is None): self.persisted = False
elif self.version == (1, 0):
    self.persisted = False
    if connection and "keep-alive" in connection.lower(): self.persisted = True
if self.persisted: self.incomer.timeout = 0.0
``` -/
def persistRule (old : Option Bool) (ver : HttpVer) (hasClose hasKeepAlive chunked hasLength : Bool) :
    Option Bool :=
  match ver with
  | .v11 => if hasClose then some false else if !chunked && !hasLength then some false else some true
  | .v10 => if hasKeepAlive then some true else some false
  | .other => old

def checkPersisted (c : Conn) (ver : HttpVer) (hasClose hasKeepAlive chunked hasLength : Bool) : Conn :=
  if persistRule c.persisted ver hasClose hasKeepAlive chunked hasLength = some true then
    { c with persisted := some true, timeout := 0 }
  else
    { c with persisted := persistRule c.persisted ver hasClose hasKeepAlive chunked hasLength }

inductive Op
  | tick (d : Nat)                 -- the servant's store stamp advances
  | tickApp (d : Nat)              -- the HTTP server's own store advances (a different store)
  | arrive                         -- environment: a new peer connects
  | serviceConnects
  | rx (id n : Nat)                -- `ix.serviceReceives()` with n bytes ready (0 = would block)
  | eof (id : Nat)                 -- recv returns b'': `.cutoff = True`
  | tx (id n : Nat)                -- `ix.tx(n bytes); ix.serviceTxes()`, the socket takes them all
  | txBlocked (id n : Nat)         -- the same, the socket would block: nothing moves
  | checkPersisted (id : Nat) (ver : HttpVer) (hasClose hasKeepAlive chunked hasLength : Bool)
  /-- a whole request head arrives (n bytes) and is parsed in the same pass:
  `ix.serviceReceives(); requestant.parse()` → `parseHead` → `checkPersisted` -/
  | request (id n : Nat) (ver : HttpVer) (hasClose hasKeepAlive chunked hasLength : Bool)
  deriving Repr

def step (s : State) : Op → State
  | .tick d => { s with now := s.now + d }
  | .tickApp d => { s with appNow := s.appNow + d }      -- `ix.timer.expired` reads the incomer's store
  | .arrive => { s with pending := s.pending ++ [s.nextId], nextId := s.nextId + 1 }
  | .serviceConnects => serviceConnects s
  | .rx id n =>
    -- `while not self.cutoff: data = self.receive() …`
    onConn s id (fun c => if c.cutoff || n == 0 then c else c.moved (refreshes s) s.now)
  | .eof id => onConn s id (fun c => { c with cutoff := true })
  | .tx id n =>
    -- `while self.txes and not self.cutoff: … count = self.send(data)`; `if result: … refresh`
    onConn s id (fun c => if c.cutoff || n == 0 then c else c.moved (refreshes s) s.now)
  | .txBlocked _ _ => s
  | .checkPersisted id ver cl ka ch ln => onConn s id (fun c => checkPersisted c ver cl ka ch ln)
  | .request id n ver cl ka ch ln =>
    onConn s id (fun c => if c.cutoff || n == 0 then c
                          else checkPersisted (c.moved (refreshes s) s.now) ver cl ka ch ln)

def run (s : State) : List Op → State
  | [] => s
  | op :: ops => run (step s op) ops

end Ioflo.Idle
