/-!
# E-imports — CPython's import protocol over a generated import graph (property C01)

Hand-written interpreter.  The data it runs on (`Graph`) is produced by
`harness/translate/imports.py` from the source tree under test (`Generated/ImportGraph.lean`).

What is transcribed (CPython 3.12, `importlib/_bootstrap.py`, `ceval` IMPORT_NAME / IMPORT_FROM /
`import_all_from`):

* `sys.modules` as a per-module `Status` (`absent`, `init` = present but still executing its body,
  `done`), and one namespace per module (`ns`, an association list name ↦ `Val` with unique keys);
* `_find_and_load`: a module found in `sys.modules` is returned as it is, even half initialised;
  otherwise the parent package is imported first, the module is looked for again ("crazy side effects"),
  the parent must have `__path__`, the module must exist, its body is executed with the module already
  entered in `sys.modules`; when the body raises the module is removed again (what it imported stays);
  when it succeeds the module is bound as an attribute of its parent;
* `import a.b.c` binds `a`; `import a.b.c as x` binds `x` to `a.b.c`;
* `from m import n`: `_handle_fromlist` (for packages: names that are not attributes are tried as
  sub-modules, "no such module" is swallowed, any other error propagates), then per name: attribute,
  else `sys.modules["m.n"]` (circular-import fallback), else `ImportError`;
* `from m import *`: `__all__` if bound (a missing name is an `AttributeError`), else every name bound
  *so far* that does not start with an underscore;
* evaluating a name or an attribute chain rooted at a name at import time: `NameError` when the root is
  neither bound nor a builtin, `AttributeError` when a module on the chain lacks the attribute;
* `try` / `except` with the exception classes that matter here.

Exceptions are values (`Err`), never defaults.  Recursion is on an explicit fuel (nesting depth of imports
and `try` blocks); running out of fuel is the error `outOfFuel`, which no handler catches.
Core Lean only.
-/
namespace Ioflo.Imports

abbrev Mod := Nat
abbrev Name := Nat

inductive Exc where
  | moduleNotFound (m : Mod)
  | importError
  | attributeError
  | nameError
  | other
  | outOfFuel
  | unknown
  deriving DecidableEq, Repr

inductive Catch where
  | importError | moduleNotFound | attributeError | nameError | all
  deriving DecidableEq, Repr

/-- what a name is bound to: an opaque object, a module, or (for `__all__`) a literal list of names -/
inductive Val where
  | obj
  | mod (m : Mod)
  | names (l : List Name)
  deriving DecidableEq, Repr

/-- import-time events of a module body, in execution order -/
inductive Ev where
  | imp (line : Nat) (target : Mod) (bind : Option Name) (asTarget : Bool)
  | from_ (line : Nat) (target : Mod) (items : List (Name × Option Name × Mod))
  | star (line : Nat) (target : Mod)
  | use (line : Nat) (root : Name) (path : List Name)
  | def_ (n : Name)
  | defMod (n : Name) (m : Mod)
  | defAll (l : List Name)
  | del_ (line : Nat) (n : Name)
  | ext (loads : List Mod)
  | raise_ (line : Nat) (exc : Exc)
  | try_ (body : List Ev) (handlers : List (List Catch × List Ev)) (orelse : List Ev) (final : List Ev)
  | unknown (line : Nat)

structure Node where
  parent : Option Mod
  /-- proper ancestors, nearest first -/
  anc : List Mod
  /-- last component of the dotted name: the attribute name under the parent -/
  last : Name
  /-- a finder locates it (source file, package directory, stdlib module, …) -/
  exists_ : Bool
  isPkg : Bool
  /-- a module of the tree under test -/
  ioflo : Bool
  /-- names the loader binds before the body runs (`__name__`, `__file__`, …, `__path__` for packages);
  empty for non-ioflo modules, whose measured bodies list all their names -/
  init : List Name
  body : List Ev

structure Graph where
  nodes : List Node
  /-- present in `sys.modules` of a newly started interpreter -/
  preloaded : List Mod
  builtins : List Name
  /-- identifier ids below this start with an underscore -/
  nPrivate : Nat
  pathName : Name
  allName : Name
  /-- the modules the property quantifies over -/
  domain : List Mod

inductive Status where
  | absent | init | done
  deriving DecidableEq, Repr

abbrev Ns := List (Name × Val)

structure MSt where
  status : Status
  ns : Ns
  deriving DecidableEq

/-- the interpreter state: one entry per module id -/
abbrev State := List MSt

structure Err where
  exc : Exc
  /-- module whose body was executing the statement that raised -/
  mod : Mod
  line : Nat
  deriving DecidableEq, Repr

abbrev Res := State × Option Err

/-! ## namespaces -/

def nsGet : Ns → Name → Option Val
  | [], _ => none
  | (k, v) :: rest, n => if k = n then some v else nsGet rest n

/-- bind `n`: replace an existing entry in place, else append -/
def nsSet : Ns → Name → Val → Ns
  | [], n, v => [(n, v)]
  | (k, w) :: rest, n, v => if k = n then (k, v) :: rest else (k, w) :: nsSet rest n v

def nsDel : Ns → Name → Ns
  | [], _ => []
  | (k, w) :: rest, n => if k = n then rest else (k, w) :: nsDel rest n

/-! ## state access -/

def absentSt : MSt := ⟨.absent, []⟩

def State.get (s : State) (m : Mod) : MSt :=
  match s[m]? with
  | some x => x
  | none => absentSt

def State.present (s : State) (m : Mod) : Bool := (s.get m).status ≠ .absent

def State.put (s : State) (m : Mod) (x : MSt) : State := s.set m x

/-- `setattr(module, n, v)` / a store into the module's globals -/
def State.bind (s : State) (m : Mod) (n : Name) (v : Val) : State :=
  let x := s.get m
  s.put m ⟨x.status, nsSet x.ns n v⟩

def State.attr (s : State) (m : Mod) (n : Name) : Option Val := nsGet (s.get m).ns n

/-! ## the graph -/

def Graph.node? (g : Graph) (m : Mod) : Option Node := g.nodes[m]?

def Graph.anc (g : Graph) (m : Mod) : List Mod :=
  match g.node? m with
  | some nd => nd.anc
  | none => []

/-- the top-level package of a dotted name -/
def Graph.top (g : Graph) (m : Mod) : Mod :=
  match (g.anc m).getLast? with
  | some t => t
  | none => m

/-- the pseudo module id of the importing host program (`python -c "import m"`) -/
def Graph.main (g : Graph) : Mod := g.nodes.length

/-- the names a module body binds itself (used for non-ioflo modules, whose bodies are measured) -/
def ownNs (allName : Name) : List Ev → Ns → Ns
  | [], ns => ns
  | .def_ n :: es, ns => ownNs allName es (nsSet ns n .obj)
  | .defMod n m :: es, ns => ownNs allName es (nsSet ns n (.mod m))
  | .defAll l :: es, ns => ownNs allName es (nsSet ns allName (.names l))
  | _ :: es, ns => ownNs allName es ns

/-- namespace of a module before its first statement runs -/
def initNs (nd : Node) : Ns := nd.init.foldl (fun ns n => nsSet ns n .obj) []

/-- modules made present by the C or python body of a non-ioflo module (or by interpreter start-up):
each one that is absent becomes `done` with its own measured names and is bound on its parent -/
def extLoad (g : Graph) : State → List Mod → State
  | s, [] => s
  | s, y :: ys =>
    if s.present y then extLoad g s ys else
    match g.node? y with
    | none => extLoad g s ys
    | some nd =>
      let s := s.put y ⟨.done, ownNs g.allName nd.body []⟩
      let s := match nd.parent with
        | some p => if s.present p then s.bind p nd.last (.mod y) else s
        | none => s
      extLoad g s ys

def emptyState (g : Graph) : State := g.nodes.map (fun _ => absentSt)

/-- `sys.modules` of a newly started interpreter -/
def fresh (g : Graph) : State := extLoad g (emptyState g) g.preloaded

/-! ## exceptions -/

def Exc.catchable : Exc → Bool
  | .outOfFuel => false
  | .unknown => false
  | _ => true

def Catch.matches : Catch → Exc → Bool
  | .all, _ => true
  | .importError, .importError => true
  | .importError, .moduleNotFound _ => true
  | .moduleNotFound, .moduleNotFound _ => true
  | .attributeError, .attributeError => true
  | .nameError, .nameError => true
  | _, _ => false

def handles (cs : List Catch) (e : Exc) : Bool := e.catchable && cs.any (·.matches e)

/-! ## the import machinery -/

/-- run a list of events with a step function, stopping at the first error -/
def runEvs (step : State → Ev → Res) : State → List Ev → Res
  | s, [] => (s, none)
  | s, e :: es =>
    match step s e with
    | (s', none) => runEvs step s' es
    | r => r

/-- `_load_unlocked` + the `setattr` on the parent: `m` is absent, found by a finder, and its parent (if any) is present -/
def loadOne (g : Graph) (run : State → Mod → List Ev → Res) (s : State) (m : Mod) (nd : Node) : Res :=
  let s1 := s.put m ⟨.init, initNs nd⟩
  match run s1 m nd.body with
  | (s2, some err) => (s2.put m absentSt, some err)
  | (s2, none) =>
    let s3 := s2.put m ⟨.done, (s2.get m).ns⟩
    match nd.parent with
    | some p => (s3.bind p nd.last (.mod m), none)
    | none => (s3, none)

/-- `_find_and_load(name)`; the list is `name :: proper ancestors (nearest first)`.
`cur`/`line` locate the import statement (for the error record). -/
def findAndLoad (g : Graph) (run : State → Mod → List Ev → Res) (cur : Mod) (line : Nat) :
    State → List Mod → Res
  | s, [] => (s, none)
  | s, m :: anc =>
    if s.present m then (s, none) else
    let r : Res := match anc with
      | [] => (s, none)
      | p :: _ => if s.present p then (s, none) else findAndLoad g run cur line s anc
    match r with
    | (s, some err) => (s, some err)
    | (s, none) =>
      if s.present m then (s, none) else
      let pathOk : Bool := match anc with
        | [] => true
        | p :: _ => (s.attr p g.pathName).isSome
      if !pathOk then (s, some ⟨.moduleNotFound m, cur, line⟩) else
      match g.node? m with
      | none => (s, some ⟨.moduleNotFound m, cur, line⟩)
      | some nd =>
        if !nd.exists_ then (s, some ⟨.moduleNotFound m, cur, line⟩) else
        loadOne g run s m nd

/-- `_handle_fromlist` for a package: names that are not attributes are tried as sub-modules -/
def fromlist (g : Graph) (run : State → Mod → List Ev → Res) (cur : Mod) (line : Nat) (t : Mod) :
    State → List (Name × Option Name × Mod) → Res
  | s, [] => (s, none)
  | s, (n, _, cand) :: rest =>
    if (s.attr t n).isSome then fromlist g run cur line t s rest else
    match findAndLoad g run cur line s (cand :: t :: g.anc t) with
    | (s', none) => fromlist g run cur line t s' rest
    | (s', some err) =>
      if err.exc = .moduleNotFound cand then fromlist g run cur line t s' rest else (s', some err)

/-- IMPORT_FROM + STORE_NAME for every item -/
def importFrom (cur : Mod) (line : Nat) (t : Mod) : State → List (Name × Option Name × Mod) → Res
  | s, [] => (s, none)
  | s, (n, b, cand) :: rest =>
    let v? : Option Val := match s.attr t n with
      | some v => some v
      | none => if s.present cand then some (.mod cand) else none
    match v? with
    | none => (s, some ⟨.importError, cur, line⟩)
    | some v =>
      match b with
      | some b => importFrom cur line t (s.bind cur b v) rest
      | none => importFrom cur line t s rest

/-- `import_all_from` with an `__all__` list -/
def copyAll (cur : Mod) (line : Nat) (t : Mod) : State → List Name → Res
  | s, [] => (s, none)
  | s, n :: rest =>
    match s.attr t n with
    | none => (s, some ⟨.attributeError, cur, line⟩)
    | some v => copyAll cur line t (s.bind cur n v) rest

/-- `import_all_from` without `__all__`: every public name bound so far -/
def copyPublic (g : Graph) (cur : Mod) : State → Ns → State
  | s, [] => s
  | s, (n, v) :: rest =>
    if n < g.nPrivate then copyPublic g cur s rest else copyPublic g cur (s.bind cur n v) rest

/-- evaluate `.a.b.c` on a value -/
def walkAttrs (s : State) : Val → List Name → Bool
  | .mod m, p :: rest =>
    match s.attr m p with
    | none => false
    | some v => walkAttrs s v rest
  | _, _ => true

def execEv (g : Graph) : Nat → Mod → State → Ev → Res
  | 0, cur, s, _ => (s, some ⟨.outOfFuel, cur, 0⟩)
  | f + 1, cur, s, ev =>
    let run : State → Mod → List Ev → Res := fun s m body => runEvs (execEv g f m) s body
    match ev with
    | .imp line t bind asT =>
      match findAndLoad g run cur line s (t :: g.anc t) with
      | (s, some err) => (s, some err)
      | (s, none) =>
        match bind with
        | none => (s, none)
        | some b => (s.bind cur b (.mod (if asT then t else g.top t)), none)
    | .from_ line t items =>
      match findAndLoad g run cur line s (t :: g.anc t) with
      | (s, some err) => (s, some err)
      | (s, none) =>
        let r : Res := if (s.attr t g.pathName).isSome then fromlist g run cur line t s items else (s, none)
        match r with
        | (s, some err) => (s, some err)
        | (s, none) => importFrom cur line t s items
    | .star line t =>
      match findAndLoad g run cur line s (t :: g.anc t) with
      | (s, some err) => (s, some err)
      | (s, none) =>
        match s.attr t g.allName with
        | some (.names l) =>
          if (s.attr t g.pathName).isSome then (s, some ⟨.unknown, cur, line⟩) else copyAll cur line t s l
        | some _ => (s, some ⟨.unknown, cur, line⟩)
        | none => (copyPublic g cur s (s.get t).ns, none)
    | .use line root path =>
      match s.attr cur root with
      | none => if g.builtins.contains root then (s, none) else (s, some ⟨.nameError, cur, line⟩)
      | some v => if walkAttrs s v path then (s, none) else (s, some ⟨.attributeError, cur, line⟩)
    | .def_ n => (s.bind cur n .obj, none)
    | .defMod n m => (s.bind cur n (.mod m), none)
    | .defAll l => (s.bind cur g.allName (.names l), none)
    | .del_ line n =>
      match s.attr cur n with
      | none => (s, some ⟨.nameError, cur, line⟩)
      | some _ => (s.put cur ⟨(s.get cur).status, nsDel (s.get cur).ns n⟩, none)
    | .ext loads => (extLoad g s loads, none)
    | .raise_ line exc => (s, some ⟨exc, cur, line⟩)
    | .unknown line => (s, some ⟨.unknown, cur, line⟩)
    | .try_ body hs orelse fin =>
      let r : Res := match runEvs (execEv g f cur) s body with
        | (s1, none) => runEvs (execEv g f cur) s1 orelse
        | (s1, some err) =>
          match hs.find? (fun h => handles h.1 err.exc) with
          | some h => runEvs (execEv g f cur) s1 h.2
          | none => (s1, some err)
      match runEvs (execEv g f cur) r.1 fin with
      | (s3, some err) => (s3, some err)
      | (s3, none) => (s3, r.2)

/-- enough for any nesting of imports over this graph plus nested `try` blocks -/
def Graph.fuel (g : Graph) : Nat := g.nodes.length + 16

/-- run a module body -/
def runBody (g : Graph) (s : State) (m : Mod) (body : List Ev) : Res :=
  runEvs (execEv g g.fuel m) s body

/-- the host program executes `import m` -/
def importModule (g : Graph) (s : State) (m : Mod) : Res :=
  findAndLoad g (runBody g) g.main 0 s (m :: g.anc m)

/-- import a list of modules one after the other; a failing import does not stop the host program
(`try: import m except Exception`): the outcomes are collected -/
def importAll (g : Graph) : State → List Mod → State × List (Option Err)
  | s, [] => (s, [])
  | s, m :: ms =>
    let r := importModule g s m
    let rest := importAll g r.1 ms
    (rest.1, r.2 :: rest.2)

def cold (g : Graph) (m : Mod) : Res := importModule g (fresh g) m

/-! ## region predicate of known finding D01c (a `from` import of a name that exists nowhere) -/

/-- may this (top-level) event bind `n` in the module it belongs to? (`star` and `try` count as "maybe") -/
def bindsName (n : Name) : Ev → Bool
  | .imp _ _ (some b) _ => b = n
  | .from_ _ _ items => items.any (fun it => it.2.1 = some n)
  | .star _ _ => true
  | .def_ k => k = n
  | .defMod k _ => k = n
  | .try_ _ _ _ _ => true
  | _ => false

/-- `from t import n` where `t` is a module of the tree under test that never binds `n` and has no sub-module `n` -/
def staleItem (g : Graph) (t : Mod) (it : Name × Option Name × Mod) : Bool :=
  match g.node? t, g.node? it.2.2 with
  | some nt, some nc => nt.ioflo && nt.exists_ && !nc.exists_ && !(nt.body.any (bindsName it.1))
  | _, _ => false

/-- the module's own top-level code contains such an import -/
def staleFrom (g : Graph) (m : Mod) : Bool :=
  match g.node? m with
  | none => false
  | some nd => nd.body.any (fun e => match e with
      | .from_ _ t items => items.any (staleItem g t)
      | _ => false)

end Ioflo.Imports
