/-!
# E-imports — CPython's import protocol over a generated import graph (property C01)

Hand-written interpreter.  The data it runs on (`Graph`) is produced by
`harness/translate/imports.py` from the source tree under test (`Generated/ImportGraph.lean`).

What is transcribed (CPython 3.12, `importlib/_bootstrap.py`, `ceval` IMPORT_NAME / IMPORT_FROM /
`import_all_from`):

* `sys.modules`: a module is *absent*, *present but still executing its body*, or *done*;
  one namespace per module (which names are bound, and for names bound to a module: which module);
* `_find_and_load`: a module found in `sys.modules` is returned as it is, even half initialised;
  otherwise the parent package is imported first, the module is looked for again ("crazy side effects"),
  the parent must have `__path__`, the module must exist, its body is executed with the module already
  entered in `sys.modules`; when the body raises the module is removed again (what it imported stays);
  when it succeeds the module is bound as an attribute of its parent;
* `import a.b.c` binds `a`; `import a.b.c as x` binds `x` to `a.b.c`;
* `from m import n`: `_handle_fromlist` (for packages: names that are not attributes are tried as
  sub-modules, "no such module" is swallowed, any other error propagates), then per name: attribute,
  else `sys.modules["m.n"]` (circular-import fallback), else `ImportError`;
* `from m import *`: `__all__` if bound (a missing name is an `AttributeError`), else every name bound
  *so far* that does not start with an underscore;
* evaluating a name or an attribute chain rooted at a name at import time: `NameError` when the root is
  neither bound nor a builtin, `AttributeError` when a module on the chain lacks the attribute;
* `try` / `except` with the exception classes that matter here.

Exceptions are values (`Err`), never defaults.  Recursion is on an explicit fuel (nesting depth of imports
and `try` blocks); running out of fuel is the error `outOfFuel`, which no handler catches.

## Representation

The table theorems of `Props/C01.lean` run this interpreter inside the Lean kernel (`decide +kernel`), which
evaluates list programs at roughly 10⁴ steps per second but has GMP arithmetic on `Nat` literals.  The state is
therefore a handful of bit matrices held in natural numbers (row = module id, column = identifier id):
`lo`/`hi` say which names are bound (identifiers below `nRel` are the ones some event of the graph looks up;
the others live in `hi`, which the kernel never has to force), `isMod` marks names bound to a module and `vals`
holds which module (12 bit fields).  `Mat.get/set/row/orRow/…` are the only functions that touch bits.
Core Lean only.
-/
namespace Ioflo.Imports

abbrev Mod := Nat
abbrev Name := Nat

inductive Exc where
  | moduleNotFound (m : Mod)
  | importError
  | attributeError
  | nameError
  /-- any other exception; `cls` numbers the builtin exception classes (0 = not known) -/
  | other (cls : Nat)
  | outOfFuel
  | unknown
  deriving DecidableEq, Repr

inductive Catch where
  | importError | moduleNotFound | attributeError | nameError | all
  /-- a handler for the builtin exception class numbered `cls` (the translator lists every subclass) -/
  | named (cls : Nat)
  deriving DecidableEq, Repr

/-- what a name is bound to: an opaque object or a module -/
inductive Val where
  | obj
  | mod (m : Mod)
  deriving DecidableEq, Repr

/-- import-time events of a module body, in execution order.  `chain` = target module :: its proper
ancestors, nearest first.  `defs rel other`: plain bindings (assignments, `def`, `class`) of consecutive
statements; `rel` are the names some event of the graph looks up, `other` the rest. -/
inductive Ev where
  | imp (line : Nat) (chain : List Mod) (bind : Option Name) (asTarget : Bool)
  | from_ (line : Nat) (chain : List Mod) (items : List (Name × Option Name × Mod))
  | star (line : Nat) (chain : List Mod)
  | use (line : Nat) (root : Name) (path : List Name)
  | defs (rel : List Name) (other : List Name)
  | defMod (n : Name) (m : Mod)
  /-- `__all__ = [...]` (a literal list of strings); each name comes with the id of the sub-module of that name
  (which may not exist), for `from package import *` -/
  | defAll (l : List (Name × Mod))
  | del_ (line : Nat) (n : Name)
  | ext (loads : List Mod)
  | raise_ (line : Nat) (exc : Exc)
  | try_ (body : List Ev) (handlers : List (List Catch × List Ev)) (orelse : List Ev) (final : List Ev)
  | unknown (line : Nat)

structure Node where
  parent : Option Mod
  /-- last component of the dotted name: the attribute name under the parent -/
  last : Name
  /-- a finder locates it (source file, package directory, stdlib module, …) -/
  exists_ : Bool
  /-- a module of the tree under test -/
  ioflo : Bool
  /-- names the loader binds before the body runs (`__name__`, `__file__`, …, `__path__` for packages), split like
  `Ev.defs` into looked-up and other names; empty for non-ioflo modules, whose measured bodies list all their names -/
  init : List Name
  initOther : List Name
  body : List Ev

structure Graph where
  /-- node table in chunks of `chunk` consecutive ids -/
  nodes : List (List Node)
  chunk : Nat
  nNodes : Nat
  /-- present in `sys.modules` of a newly started interpreter -/
  preloaded : List Mod
  /-- bit n: identifier n is a builtin -/
  builtins : Nat
  /-- identifiers below `nMN` may be bound to modules; below `nRel` are looked up by some event -/
  nMN : Nat
  nRel : Nat
  /-- number of identifiers from `nRel` on -/
  nHi : Nat
  /-- bit n: identifier n (< nRel) does not start with an underscore; likewise for identifier `nRel + n` -/
  publicLo : Nat
  publicHi : Nat
  pathName : Name
  allName : Name
  /-- the modules the property quantifies over -/
  domain : List Mod
  /-- a node that replaces the table entry of one module id (`none` in the generated graph): used to describe the
  same tree on a host where an optional third-party module is absent / importable / broken (`Graph.withOpt`) -/
  override : Option (Mod × Node)

structure Err where
  exc : Exc
  /-- module whose body was executing the statement that raised -/
  mod : Mod
  line : Nat
  deriving DecidableEq, Repr

/-! ## bit matrices -/

/-- all-ones mask of `w` bits -/
def ones (w : Nat) : Nat := 2 ^ w - 1

namespace Mat

/-- entry (m, n) of a matrix with `w` columns -/
def get (M w m n : Nat) : Bool := n < w && M.testBit (m * w + n)

def set (M w m n : Nat) : Nat := if n < w then M ||| (1 <<< (m * w + n)) else M

/-- row m as a `w` bit mask -/
def row (M w m : Nat) : Nat := (M >>> (m * w)) &&& ones w

/-- clear the entries of row m selected by `mask` -/
def clearMask (M w m mask : Nat) : Nat := M ^^^ ((row M w m &&& mask) <<< (m * w))

def clear (M w m n : Nat) : Nat := if n < w then clearMask M w m (1 <<< n) else M

def clearRow (M w m : Nat) : Nat := M ^^^ (row M w m <<< (m * w))

/-- set the entries of row m selected by `mask` -/
def orRow (M w m mask : Nat) : Nat := M ||| ((mask &&& ones w) <<< (m * w))

end Mat

/-- bit mask of a list of column indices shifted down by `off` (indices below `off` are ignored) -/
def maskOf (off : Nat) : List Name → Nat → Nat
  | [], acc => acc
  | n :: ns, acc => maskOf off ns (if off ≤ n then acc ||| (1 <<< (n - off)) else acc)

/-! ## state -/

/-- width of a `vals` field -/
def valBits : Nat := 12

structure State where
  /-- bit m: module m is in `sys.modules` -/
  present : Nat
  /-- bit m: its body has finished -/
  done : Nat
  /-- bound names, identifiers `< nRel`: `nRel` columns -/
  lo : Nat
  /-- bound names, identifiers `≥ nRel`: `nHi` columns -/
  hi : Nat
  /-- bound to a module, identifiers `< nMN`: `nMN` columns -/
  isMod : Nat
  /-- which module: field (m * nMN + n) of `valBits` bits (meaningful where `isMod` is set) -/
  vals : Nat
  /-- literal `__all__` lists -/
  alls : List (Mod × List (Name × Mod))

abbrev Res := State × Option Err

def State.isPresent (s : State) (m : Mod) : Bool := s.present.testBit m

def State.isDone (s : State) (m : Mod) : Bool := s.done.testBit m

/-- is name `n` bound in module `m`? -/
def State.bound (g : Graph) (s : State) (m : Mod) (n : Name) : Bool :=
  if n < g.nRel then Mat.get s.lo g.nRel m n else Mat.get s.hi g.nHi m (n - g.nRel)

def State.field (g : Graph) (s : State) (m : Mod) (n : Name) : Nat :=
  (s.vals >>> ((m * g.nMN + n) * valBits)) &&& ones valBits

/-- `getattr(module m, n)` / a load of global `n` in module `m` -/
def State.val (g : Graph) (s : State) (m : Mod) (n : Name) : Option Val :=
  if s.bound g m n then
    if Mat.get s.isMod g.nMN m n then some (.mod (s.field g m n)) else some .obj
  else none

/-- bind `n` to an opaque object in module `m` -/
def State.bindObj (g : Graph) (s : State) (m : Mod) (n : Name) : State :=
  if n < g.nRel then
    { s with lo := Mat.set s.lo g.nRel m n,
             isMod := if Mat.get s.isMod g.nMN m n then Mat.clear s.isMod g.nMN m n else s.isMod }
  else { s with hi := Mat.set s.hi g.nHi m (n - g.nRel) }

/-- can `n ↦ module t` be represented? (the translator numbers identifiers so that it always can) -/
def Graph.modBindable (g : Graph) (n : Name) (t : Mod) : Bool := n < g.nMN && n < g.nRel && t < 2 ^ valBits

/-- bind `n` to module `t` in module `m` (callers check `modBindable`) -/
def State.bindMod (g : Graph) (s : State) (m : Mod) (n : Name) (t : Mod) : State :=
  let off := (m * g.nMN + n) * valBits
  { s with lo := Mat.set s.lo g.nRel m n,
           isMod := Mat.set s.isMod g.nMN m n,
           vals := (s.vals ^^^ (s.field g m n <<< off)) ||| (t <<< off) }

/-- `setattr(module m, n, v)`; `none` when the value cannot be represented -/
def State.bind (g : Graph) (s : State) (m : Mod) (n : Name) : Val → Option State
  | .obj => some (s.bindObj g m n)
  | .mod t => if g.modBindable n t then some (s.bindMod g m n t) else none

def State.unbind (g : Graph) (s : State) (m : Mod) (n : Name) : State :=
  if n < g.nRel then
    { s with lo := Mat.clear s.lo g.nRel m n,
             isMod := if Mat.get s.isMod g.nMN m n then Mat.clear s.isMod g.nMN m n else s.isMod }
  else { s with hi := Mat.clear s.hi g.nHi m (n - g.nRel) }

/-- bind all `rel` and `other` names to objects in module `m` -/
def State.bindObjs (g : Graph) (s : State) (m : Mod) (rel other : List Name) : State :=
  let mlo := maskOf 0 rel 0
  { s with lo := Mat.orRow s.lo g.nRel m mlo,
           hi := Mat.orRow s.hi g.nHi m (maskOf g.nRel other 0),
           isMod := Mat.clearMask s.isMod g.nMN m (mlo &&& ones g.nMN) }

def State.allOf (s : State) (m : Mod) : Option (List (Name × Mod)) :=
  match s.alls.find? (fun p => p.1 == m) with
  | some p => some p.2
  | none => none

/-- enter `m` into `sys.modules` with an empty namespace -/
def State.enter (s : State) (m : Mod) : State := { s with present := s.present ||| (1 <<< m) }

def State.finish (s : State) (m : Mod) : State := { s with done := s.done ||| (1 <<< m) }

/-- `del sys.modules[m]`: the failed module and its namespace disappear -/
def State.remove (g : Graph) (s : State) (m : Mod) : State :=
  { present := if s.present.testBit m then s.present ^^^ (1 <<< m) else s.present,
    done := if s.done.testBit m then s.done ^^^ (1 <<< m) else s.done,
    lo := Mat.clearRow s.lo g.nRel m,
    hi := Mat.clearRow s.hi g.nHi m,
    isMod := Mat.clearRow s.isMod g.nMN m,
    vals := s.vals,
    alls := s.alls.filter (fun p => p.1 != m) }

/-! ## the graph -/

def Graph.baseNode? (g : Graph) (m : Mod) : Option Node :=
  if g.chunk = 0 then none else
  match g.nodes[m / g.chunk]? with
  | some c => c[m % g.chunk]?
  | none => none

def Graph.node? (g : Graph) (m : Mod) : Option Node :=
  match g.override with
  | some (x, nd) => if m = x then some nd else g.baseNode? m
  | none => g.baseNode? m

/-- how an optional third-party module may present itself on a host -/
inductive OptKind where
  /-- not installed: no finder locates it -/
  | absent
  /-- installed, imports fine (binds nothing the tree looks at) -/
  | stub
  /-- installed but broken: its import raises ImportError (wrong ABI, missing shared library) -/
  | importError
  /-- installed, but one of ITS dependencies is missing: ModuleNotFoundError naming another module -/
  | notFoundOther
  deriving DecidableEq, Repr

/-- the same tree on a host where module `x` presents itself as `k` -/
def Graph.withOpt (g : Graph) (x : Mod) (k : OptKind) : Graph :=
  let (par, last) := match g.baseNode? x with
    | some nd => (nd.parent, nd.last)
    | none => (none, 0)
  let body : List Ev := match k with
    | .absent => []
    | .stub => []
    | .importError => [.raise_ 0 .importError]
    | .notFoundOther => [.raise_ 0 (.moduleNotFound g.nNodes)]
  { g with override := some (x, { parent := par, last := last, exists_ := k != .absent, ioflo := false,
                                   init := [], initOther := [], body := body }) }

/-- the pseudo module id of the importing host program (`python -c "import m"`) -/
def Graph.main (g : Graph) : Mod := g.nNodes

/-- the plain bindings of a module body (non-ioflo modules: their measured names) -/
def applyDefs (g : Graph) (m : Mod) : State → List Ev → Option State
  | s, [] => some s
  | s, .defs rel other :: es => applyDefs g m (s.bindObjs g m rel other) es
  | s, .defMod n t :: es =>
    if g.modBindable n t then applyDefs g m (s.bindMod g m n t) es else none
  | s, .defAll l :: es =>
    applyDefs g m { s.bindObj g m g.allName with alls := (m, l) :: s.alls.filter (fun p => p.1 != m) } es
  | s, _ :: es => applyDefs g m s es

/-- modules made present by the C or python body of a non-ioflo module (or by interpreter start-up):
each one that is absent becomes `done` with its own measured names and is bound on its parent.
`none`: a binding that cannot be represented. -/
def extLoad (g : Graph) : State → List Mod → Option State
  | s, [] => some s
  | s, y :: ys =>
    if s.isPresent y then extLoad g s ys else
    match g.node? y with
    | none => extLoad g s ys
    | some nd =>
      match applyDefs g y ((s.enter y).finish y) nd.body with
      | none => none
      | some s =>
        match nd.parent with
        | some p =>
          if s.isPresent p then
            if g.modBindable nd.last y then extLoad g (s.bindMod g p nd.last y) ys else none
          else extLoad g s ys
        | none => extLoad g s ys

def emptyState : State := ⟨0, 0, 0, 0, 0, 0, []⟩

/-- `sys.modules` of a newly started interpreter (`none`: the generated data is not representable) -/
def fresh? (g : Graph) : Option State := extLoad g emptyState g.preloaded

def fresh (g : Graph) : State :=
  match fresh? g with
  | some s => s
  | none => emptyState

/-! ## exceptions -/

def Exc.catchable : Exc → Bool
  | .outOfFuel => false
  | .unknown => false
  | _ => true

def Catch.matches : Catch → Exc → Bool
  | .all, _ => true
  | .importError, .importError => true
  | .importError, .moduleNotFound _ => true
  | .moduleNotFound, .moduleNotFound _ => true
  | .attributeError, .attributeError => true
  | .nameError, .nameError => true
  | .named k, .other c => k != 0 && k == c
  | _, _ => false

def handles (cs : List Catch) (e : Exc) : Bool := e.catchable && cs.any (·.matches e)

/-! ## the import machinery -/

/-- run a list of events with a step function, stopping at the first error -/
def runEvs (step : State → Ev → Res) : State → List Ev → Res
  | s, [] => (s, none)
  | s, e :: es =>
    match step s e with
    | (s', none) => runEvs step s' es
    | r => r

/-- `_load_unlocked` + the `setattr` on the parent: `m` is absent, found by a finder, and its parent (if any) is present -/
def loadOne (g : Graph) (run : State → Mod → List Ev → Res) (cur : Mod) (line : Nat)
    (s : State) (m : Mod) (nd : Node) : Res :=
  let s1 := (s.enter m).bindObjs g m nd.init nd.initOther
  match run s1 m nd.body with
  | (s2, some err) => (s2.remove g m, some err)
  | (s2, none) =>
    let s3 := s2.finish m
    match nd.parent with
    | some p =>
      if g.modBindable nd.last m then (s3.bindMod g p nd.last m, none)
      else (s3, some ⟨.unknown, cur, line⟩)
    | none => (s3, none)

/-- `_find_and_load(name)`; the list is `name :: proper ancestors (nearest first)`.
`cur`/`line` locate the import statement (for the error record). -/
def findAndLoad (g : Graph) (run : State → Mod → List Ev → Res) (cur : Mod) (line : Nat) :
    State → List Mod → Res
  | s, [] => (s, none)
  | s, m :: anc =>
    if s.isPresent m then (s, none) else
    let r : Res := match anc with
      | [] => (s, none)
      | p :: _ => if s.isPresent p then (s, none) else findAndLoad g run cur line s anc
    match r with
    | (s, some err) => (s, some err)
    | (s, none) =>
      if s.isPresent m then (s, none) else
      let pathOk : Bool := match anc with
        | [] => true
        | p :: _ => s.bound g p g.pathName
      if !pathOk then (s, some ⟨.moduleNotFound m, cur, line⟩) else
      match g.node? m with
      | none => (s, some ⟨.moduleNotFound m, cur, line⟩)
      | some nd =>
        if !nd.exists_ then (s, some ⟨.moduleNotFound m, cur, line⟩) else
        loadOne g run cur line s m nd

/-- `_handle_fromlist` for a package `t` (`tchain` = t :: ancestors): names that are not attributes are
tried as sub-modules -/
def fromlist (g : Graph) (run : State → Mod → List Ev → Res) (cur : Mod) (line : Nat) (t : Mod)
    (tchain : List Mod) : State → List (Name × Option Name × Mod) → Res
  | s, [] => (s, none)
  | s, (n, _, cand) :: rest =>
    if s.bound g t n then fromlist g run cur line t tchain s rest else
    match findAndLoad g run cur line s (cand :: tchain) with
    | (s', none) => fromlist g run cur line t tchain s' rest
    | (s', some err) =>
      if err.exc = .moduleNotFound cand then fromlist g run cur line t tchain s' rest else (s', some err)

/-- IMPORT_FROM + STORE_NAME for every item -/
def importFrom (g : Graph) (cur : Mod) (line : Nat) (t : Mod) :
    State → List (Name × Option Name × Mod) → Res
  | s, [] => (s, none)
  | s, (n, b, cand) :: rest =>
    let v? : Option Val := match s.val g t n with
      | some v => some v
      | none => if s.isPresent cand then some (.mod cand) else none
    match v? with
    | none => (s, some ⟨.importError, cur, line⟩)
    | some v =>
      match b with
      | none => importFrom g cur line t s rest
      | some b =>
        match s.bind g cur b v with
        | some s' => importFrom g cur line t s' rest
        | none => (s, some ⟨.unknown, cur, line⟩)

/-- `import_all_from` with an `__all__` list -/
def copyAll (g : Graph) (cur : Mod) (line : Nat) (t : Mod) : State → List Name → Res
  | s, [] => (s, none)
  | s, n :: rest =>
    match s.val g t n with
    | none => (s, some ⟨.attributeError, cur, line⟩)
    | some v =>
      match s.bind g cur n v with
      | some s' => copyAll g cur line t s' rest
      | none => (s, some ⟨.unknown, cur, line⟩)

/-- copy the `vals` fields of the columns in `mask` from row `t` to row `cur` (highest column first) -/
def copyVals (g : Graph) (t cur : Mod) : Nat → State → Nat → State
  | 0, s, _ => s
  | f + 1, s, mask =>
    if mask = 0 then s else
    let n := mask.log2
    let off := (cur * g.nMN + n) * valBits
    copyVals g t cur f
      { s with vals := (s.vals ^^^ (s.field g cur n <<< off)) ||| (s.field g t n <<< off) }
      (mask ^^^ (1 <<< n))

/-- `import_all_from` without `__all__`: every public name bound so far, with its value -/
def copyPublic (g : Graph) (cur t : Mod) (s : State) : State :=
  let rlo := Mat.row s.lo g.nRel t &&& g.publicLo
  let rhi := Mat.row s.hi g.nHi t &&& g.publicHi
  let mods := Mat.row s.isMod g.nMN t &&& rlo
  let s1 : State :=
    { s with lo := Mat.orRow s.lo g.nRel cur rlo,
             hi := Mat.orRow s.hi g.nHi cur rhi,
             isMod := Mat.orRow (Mat.clearMask s.isMod g.nMN cur (rlo &&& ones g.nMN)) g.nMN cur mods }
  copyVals g t cur g.nMN s1 mods

/-- evaluate `.a.b.c` on a value -/
def walkAttrs (g : Graph) (s : State) : Val → List Name → Bool
  | .mod m, p :: rest =>
    match s.val g m p with
    | none => false
    | some v => walkAttrs g s v rest
  | _, _ => true

def chainTop : List Mod → Mod
  | [] => 0
  | [t] => t
  | _ :: rest => chainTop rest

def execEv (g : Graph) : Nat → Mod → State → Ev → Res
  | 0, cur, s, _ => (s, some ⟨.outOfFuel, cur, 0⟩)
  | f + 1, cur, s, ev =>
    let run : State → Mod → List Ev → Res := fun s m body => runEvs (execEv g f m) s body
    match ev with
    | .imp line chain bind asT =>
      match findAndLoad g run cur line s chain with
      | (s, some err) => (s, some err)
      | (s, none) =>
        match bind with
        | none => (s, none)
        | some b =>
          let t := if asT then chain.headD 0 else chainTop chain
          if g.modBindable b t then (s.bindMod g cur b t, none) else (s, some ⟨.unknown, cur, line⟩)
    | .from_ line chain items =>
      match findAndLoad g run cur line s chain with
      | (s, some err) => (s, some err)
      | (s, none) =>
        let t := chain.headD 0
        let r : Res := if s.bound g t g.pathName then fromlist g run cur line t chain s items else (s, none)
        match r with
        | (s, some err) => (s, some err)
        | (s, none) => importFrom g cur line t s items
    | .star line chain =>
      match findAndLoad g run cur line s chain with
      | (s, some err) => (s, some err)
      | (s, none) =>
        let t := chain.headD 0
        if s.bound g t g.allName then
          match s.allOf t with
          | some l =>
            -- `_handle_fromlist` with `__all__` of a package: names that are not attributes are tried as sub-modules
            let r : Res := if s.bound g t g.pathName then
                fromlist g run cur line t chain s (l.map fun p => (p.1, none, p.2)) else (s, none)
            match r with
            | (s, some err) => (s, some err)
            | (s, none) => copyAll g cur line t s (l.map (·.1))
          | none => (s, some ⟨.unknown, cur, line⟩)
        else (copyPublic g cur t s, none)
    | .use line root path =>
      match s.val g cur root with
      | none => if g.builtins.testBit root then (s, none) else (s, some ⟨.nameError, cur, line⟩)
      | some v => if walkAttrs g s v path then (s, none) else (s, some ⟨.attributeError, cur, line⟩)
    | .defs rel other => (s.bindObjs g cur rel other, none)
    | .defMod n t =>
      if g.modBindable n t then (s.bindMod g cur n t, none) else (s, some ⟨.unknown, cur, 0⟩)
    | .defAll l =>
      ({ s.bindObj g cur g.allName with alls := (cur, l) :: s.alls.filter (fun p => p.1 != cur) }, none)
    | .del_ line n =>
      if s.bound g cur n then (s.unbind g cur n, none) else (s, some ⟨.nameError, cur, line⟩)
    | .ext loads =>
      match extLoad g s loads with
      | some s' => (s', none)
      | none => (s, some ⟨.unknown, cur, 0⟩)
    | .raise_ line exc => (s, some ⟨exc, cur, line⟩)
    | .unknown line => (s, some ⟨.unknown, cur, line⟩)
    | .try_ body hs orelse fin =>
      let r : Res := match runEvs (execEv g f cur) s body with
        | (s1, none) => runEvs (execEv g f cur) s1 orelse
        | (s1, some err) =>
          match hs.find? (fun h => handles h.1 err.exc) with
          | some h => runEvs (execEv g f cur) s1 h.2
          | none => (s1, some err)
      match runEvs (execEv g f cur) r.1 fin with
      | (s3, some err) => (s3, some err)
      | (s3, none) => (s3, r.2)

/-- enough for any nesting of imports over this graph plus nested `try` blocks -/
def Graph.fuel (g : Graph) : Nat := g.nNodes + 16

/-- run a module body -/
def runBody (g : Graph) (s : State) (m : Mod) (body : List Ev) : Res :=
  runEvs (execEv g g.fuel m) s body

/-- the host program executes `import m`, `chain` = m :: its ancestors -/
def importChain (g : Graph) (s : State) (chain : List Mod) : Res :=
  findAndLoad g (runBody g) g.main 0 s chain

/-- `m :: proper ancestors`, following the parent pointers of the node table -/
def Graph.chainOf (g : Graph) : Nat → Mod → List Mod
  | 0, m => [m]
  | f + 1, m =>
    match g.node? m with
    | some nd =>
      match nd.parent with
      | some p => m :: g.chainOf f p
      | none => [m]
    | none => [m]

def Graph.chain (g : Graph) (m : Mod) : List Mod := g.chainOf 32 m

def importModule (g : Graph) (s : State) (m : Mod) : Res := importChain g s (g.chain m)

/-- import a list of modules one after the other; a failing import does not stop the host program
(`try: import m except Exception`): the outcomes are collected -/
def importAll (g : Graph) : State → List Mod → State × List (Option Err)
  | s, [] => (s, [])
  | s, m :: ms =>
    let r := importModule g s m
    let rest := importAll g r.1 ms
    (rest.1, r.2 :: rest.2)

def cold (g : Graph) (m : Mod) : Res := importModule g (fresh g) m

/-! ## region predicate of known finding D01c (a `from` import of a name that exists nowhere) -/

/-- may this (top-level) event bind `n` in the module it belongs to? (`star` and `try` count as "maybe") -/
def bindsName (n : Name) : Ev → Bool
  | .imp _ _ (some b) _ => b = n
  | .from_ _ _ items => items.any (fun it => it.2.1 = some n)
  | .star _ _ => true
  | .defs rel other => rel.contains n || other.contains n
  | .defMod k _ => k = n
  | .try_ _ _ _ _ => true
  | _ => false

/-- `from t import n` where `t` is a module of the tree under test that never binds `n` and has no sub-module `n` -/
def staleItem (g : Graph) (t : Mod) (it : Name × Option Name × Mod) : Bool :=
  match g.node? t, g.node? it.2.2 with
  | some nt, some nc => nt.ioflo && nt.exists_ && !nc.exists_ && !(nt.body.any (bindsName it.1))
  | _, _ => false

/-- the module's own top-level code contains such an import -/
def staleFrom (g : Graph) (m : Mod) : Bool :=
  match g.node? m with
  | none => false
  | some nd => nd.body.any (fun e => match e with
      | .from_ _ chain items => items.any (staleItem g (chain.headD 0))
      | _ => false)

end Ioflo.Imports
