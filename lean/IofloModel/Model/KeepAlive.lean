/-!
# Model of an HTTP keep-alive connection between `Patron` and `Valet` (C31)

Message-level model of one persistent HTTP/1.1 connection:

* client — `Patron.serviceAll` (clienting.py): `.requests` deque, `.waited`, `.latest`, `.responses`;
  `serviceRequests` (one request on the wire at a time), `connector.serviceTxes`, `serviceResponse`
  (the `Respondent` parser reduced to how a response is *delimited*: by length, by chunks, or only by the close
  of the connection);
* server — `Valet.serviceAll` (serving.py): `serviceConnects`, `serviceReceivesAllIx`, `serviceReqs` (the
  `Requestant` is reused: its parser is re-armed only after the previous response has ended; the `Responder` is
  created for the first request and `reset` for the following ones — as repaired by fixes/D17 the reset recomputes
  `chunkable` from the request), `serviceReps` (one `Responder.service()` call per round: `start`, `build`,
  `write`, the Content-Length accounting and the terminating empty chunk), `serviceTxesAllIx`;
* the wire — two FIFO queues; a *schedule* says whose `serviceAll` runs next, in any order.

Bytes of bodies are real (`List Nat`); heads are abstracted to `Item.head tag framing`; chunk framing to one
`Item.data` per written chunk and `Item.term` for the empty chunk.  Core Lean only.
-/
namespace Ioflo.KeepAlive

abbrev Bytes := List Nat

/-- a request: its identity (the application echoes it in the response, so that matching is observable) and whether
its method is HEAD -/
structure Req where
  id : Nat
  head : Bool := false
  /-- the request carries `Connection: close` (used by the pipeline-level model at the end of this file only) -/
  close : Bool := false
  deriving DecidableEq, Repr

/-- what labels a response head: the identity of the request it answers, and whether the client will treat the
response as body-less whatever its headers say (status 204 / 304, or the answer to a HEAD request) -/
abbrev Tag := Nat × Bool

/-- what the WSGI application does for one request: the `Content-Length` header it passes to `start_response`
(if any) and its successive yields -/
structure AppResp where
  cl : Option Nat
  pieces : List Bytes
  /-- the status it passes is 204 or 304 -/
  bodyless : Bool := false
  deriving DecidableEq

/-- how the end of a response body can be recognised by the receiver -/
inductive Framing
  | length (n : Nat)
  | chunked
  | untilClose
  deriving DecidableEq, Repr

/-- what travels from server to client -/
inductive Item
  | head (tag : Tag) (f : Framing)
  | data (b : Bytes)
  | term
  deriving DecidableEq

/-! ## server -/

structure Responder where
  chunkable : Bool
  started : Bool := false
  headed : Bool := false
  chunked : Bool := false
  ended : Bool := false
  length : Option Nat := none
  size : Nat := 0
  deriving DecidableEq

structure Server where
  pending : Bool := false            -- a connection waits to be accepted
  accepted : Bool := false           -- `ixes[ca]` / `reqs[ca]` exist
  rx : List Req := []                -- complete requests in `ix.rxbs`
  parsing : Bool := false            -- `requestant.parser is not None`
  resp : Option Responder := none    -- `reps[ca]`
  cl : Option Nat := none            -- the running application's Content-Length
  script : List Bytes := []          -- the running application's remaining yields
  appStarted : Bool := false         -- its `start_response` call has been made
  tag : Tag := (0, false)            -- identity of the request being answered; is its response body-less for the client
  tx : List Item := []               -- `ix.txes`
  heads : List Framing := []         -- ghost: framing of every head written so far
  served : Nat := 0                  -- ghost: number of requests handed to the application
  deriving DecidableEq

/-- `Responder.write(msg)`: the items queued and the responder afterwards; `tag` labels the head -/
def Responder.write (r : Responder) (tag : Tag) (msg : Bytes) : Responder × List Item × List Framing :=
  -- head first (`build`): chunked iff chunkable (no Transfer-Encoding header from these applications)
  let f : Framing := match r.length with
    | some n => .length n
    | none => if r.chunkable then .chunked else .untilClose
  let (r, pre, hs) := if r.headed then (r, [], []) else
    ({ r with headed := true, chunked := r.chunked || r.chunkable }, [Item.head tag f], [f])
  if r.chunked then (r, pre ++ [if msg.isEmpty then Item.term else Item.data msg], hs)
  else
    let (r, msg) := match r.length with
      | none => (r, msg)
      | some L =>
        let size := r.size + msg.length
        let msg := if size > L then msg.take (msg.length - (size - L)) else msg
        ({ r with size := r.size + msg.length }, msg)
    (r, if msg.isEmpty then pre else pre ++ [Item.data msg], hs)

/-- `Valet.serviceReqs` for the one connection -/
def Server.serviceReqs (app : Req → AppResp) (s : Server) : Server :=
  if s.accepted && s.parsing then
    match s.rx with
    | [] => s
    | q :: rest =>
      -- new Responder, or `reset(environ, chunkable)`: either way a fresh HTTP/1.1 responder state
      { s with rx := rest, parsing := false, resp := some { chunkable := true },
               cl := (app q).cl, script := (app q).pieces, appStarted := false, tag := (q.id, q.head || (app q).bodyless),
               served := s.served + 1 }
  else s

/-- the `start_response(status, headers)` call of the application, made when its generator first runs -/
def Responder.start (r : Responder) (cl : Option Nat) : Responder :=
  match cl with
  | some n => { r with length := some n, chunkable := false, started := true }
  | none => { r with length := none, started := true }

/-- one `next()` of the application's iterator inside `Responder.service()` (the responder has been started):
the responder afterwards, the remaining yields, the items queued, the head framings written -/
def Responder.serviceOnce (r : Responder) (tag : Tag) : List Bytes → Responder × List Bytes × List Item × List Framing
  | [] =>
    -- StopIteration: `write(b'')`, ended
    let w := r.write tag []
    ({ w.1 with ended := true }, [], w.2.1, w.2.2)
  | p :: ps =>
    if p.isEmpty then (r, ps, [], [])     -- empty yields are skipped without a write
    else
      let w := r.write tag p
      let ended := match w.1.length with | some L => decide (w.1.size ≥ L) | none => false
      ({ w.1 with ended := w.1.ended || ended }, ps, w.2.1, w.2.2)

/-- first half of `Valet.serviceReps` for the one connection: `if not responder.ended: responder.service()` -/
def Server.serviceRun (s : Server) : Server :=
  match s.resp with
  | none => s
  | some r =>
    if r.ended then s
    else
      let r := if s.appStarted then r else r.start s.cl
      let o := r.serviceOnce s.tag s.script
      { s with resp := some o.1, script := o.2.1, tx := s.tx ++ o.2.2.1, heads := s.heads ++ o.2.2.2, appStarted := true }

/-- second half: once the response has ended the (persistent) connection's request parser is re-armed -/
def Server.rearm (s : Server) : Server :=
  match s.resp with
  | some r => if r.ended && !s.parsing then { s with parsing := true } else s
  | none => s

/-- `Valet.serviceReps` for the one connection -/
def Server.serviceReps (s : Server) : Server := s.serviceRun.rearm

/-! ## client -/

/-- a delivered response: the request it is attributed to (`.latest`), the tag the application put into it, its body -/
structure Delivered where
  req : Nat
  tag : Nat
  body : Bytes
  deriving DecidableEq

structure Client where
  connected : Bool := false
  queue : List Req := []             -- `.requests`
  waited : Bool := false
  latest : Option Req := none
  tx : List Req := []                -- `connector.txes`
  rx : List Item := []               -- `connector.rxbs`, not yet parsed
  cur : Option (Nat × Framing × Bytes) := none   -- response being parsed: tag, framing, body so far
  stuck : Bool := false              -- the parser met bytes it cannot interpret (outside the model)
  responses : List Delivered := []
  deriving DecidableEq

/-- outcome of running the response parser over buffered items -/
inductive Outcome
  | more (cur : Option (Nat × Framing × Bytes))              -- everything consumed, more bytes wanted
  | done (tag : Nat) (body : Bytes) (rest : List Item)       -- one response complete, `rest` left in the buffer
  | stuck                                                    -- bytes the parser cannot interpret (outside the model)
  deriving DecidableEq

/-- how the client delimits a response whose head announces `f`: for a body-less response (204 / 304 / answer to
HEAD) `parseHead` forces the length to 0 — but chunked transfer coding, checked first in `parseBody`, still applies -/
def effective (f : Framing) (bodyless : Bool) : Framing :=
  if bodyless then (match f with | .chunked => .chunked | _ => .length 0) else f

/-- the `Respondent` parser, reduced to how a response is delimited, over the buffered items -/
def feed : Option (Nat × Framing × Bytes) → List Item → Outcome
  | cur, [] => .more cur
  | none, Item.head t f :: rest =>
    (match effective f t.2 with
     | .length 0 => .done t.1 [] rest
     | f' => feed (some (t.1, f', [])) rest)
  | none, _ :: _ => .stuck
  | some (t, .length n, acc), Item.data b :: rest =>
    if (acc ++ b).length ≥ n then
      .done t ((acc ++ b).take n) (if ((acc ++ b).drop n).isEmpty then rest else Item.data ((acc ++ b).drop n) :: rest)
    else feed (some (t, .length n, acc ++ b)) rest
  | some (_, .length _, _), _ :: _ => .stuck
  | some (t, .chunked, acc), Item.data b :: rest => feed (some (t, .chunked, acc ++ b)) rest
  | some (t, .chunked, acc), Item.term :: rest => .done t acc rest
  | some (_, .chunked, _), Item.head _ _ :: _ => .stuck
  -- neither length nor chunks: everything that arrives is body; the response ends only when the connection closes
  | some (t, .untilClose, acc), Item.data b :: rest => feed (some (t, .untilClose, acc ++ b)) rest
  | some (t, .untilClose, acc), _ :: rest => feed (some (t, .untilClose, acc)) rest

/-! ## the connection -/

structure Sys where
  c : Client
  s : Server := {}
  c2s : List Req := []
  s2c : List Item := []
  deriving DecidableEq

inductive Who | client | server
  deriving DecidableEq, Repr

/-- the connecting part of `Patron.serviceAll()`: `connector.serviceConnect()` succeeds at once and leaves a
connection for the server to accept -/
def connect (y : Sys) : Client × Server :=
  if y.c.connected then (y.c, y.s) else ({ y.c with connected := true }, { y.s with pending := true })

/-- `Patron.serviceRequests()`: one request at a time -/
def Client.serviceRequests (c : Client) : Client :=
  if !c.waited then
    match c.queue with
    | [] => c
    | q :: rest => { c with queue := rest, latest := some q, tx := c.tx ++ [q], waited := true }
  else c

/-- `Patron.serviceResponse()`: receive what has arrived, parse while a response is awaited -/
def Client.serviceResponse (c : Client) (arrived : List Item) : Client :=
  let c := { c with rx := c.rx ++ arrived }
  if c.waited && !c.stuck then
    match feed c.cur c.rx with
    | .done tag body rest =>
      { c with cur := none, rx := rest, waited := false, latest := none,
               responses := c.responses ++ [{ req := (c.latest.map (·.id)).getD 0, tag := tag, body := body }] }
    | .more cur => { c with cur := cur, rx := [] }
    | .stuck => { c with stuck := true }
  else c

/-- `Patron.serviceAll()` -/
def stepClient (y : Sys) : Sys :=
  let c := (connect y).1.serviceRequests
  -- connector.serviceTxes
  { c := ({ c with tx := [] } : Client).serviceResponse y.s2c, s := (connect y).2, c2s := y.c2s ++ c.tx, s2c := [] }

/-- `Valet.serviceConnects()` -/
def Server.accept (s : Server) : Server :=
  if s.pending then { s with pending := false, accepted := true, parsing := true } else s

/-- `servant.serviceReceivesAllIx()`: only an accepted connection is read -/
def Server.receive (s : Server) (wire : List Req) : Server × List Req :=
  if s.accepted then ({ s with rx := s.rx ++ wire }, []) else (s, wire)

/-- `Valet.serviceAll()` -/
def stepServer (app : Req → AppResp) (y : Sys) : Sys :=
  let sw := y.s.accept.receive y.c2s
  let s := (sw.1.serviceReqs app).serviceReps
  -- serviceTxesAllIx
  { y with s := { s with tx := [] }, c2s := sw.2, s2c := y.s2c ++ s.tx }

def step (app : Req → AppResp) (y : Sys) : Who → Sys
  | .client => stepClient y
  | .server => stepServer app y

def run (app : Req → AppResp) (y : Sys) (sch : List Who) : Sys := sch.foldl (step app) y

/-- a Patron with `reqs` queued, nothing else yet -/
def initSys (reqs : List Req) : Sys := { c := { queue := reqs } }

/-! ## `Connection: close` inside a pipeline (pipeline level)

What happens with the requests of one `Patron`, one after the other, when some of them carry `Connection: close`, at
the level of whole requests (`Patron` has one request outstanding at a time, so the order of the service calls does
not enter — that independence is proved for pipelines without close requests in the step model above and exercised by
the correspondence runs for the others):

* `Requestant.checkPersisted`: a request with `Connection: close` is not persistent; `Valet.serviceReps`, once its
  response has ended and been sent, closes the connection (`closeConnection`);
* the requests the client has not sent by then are never handled by the server, so never answered (the client's later
  send on the closed connection is a transport matter: C25);
* a response the client cannot complete (an application that yields fewer bytes than the Content-Length it
  announced — outside the property's quantifier, observed only) leaves the client waiting: it sends nothing further.
-/

/-- everything the server writes for one request: `Responder.service()` called until the response has ended -/
def serveItems (r : Responder) (tag : Tag) : List Bytes → List Item
  | [] => (r.serviceOnce tag []).2.2.1
  | p :: ps =>
    (r.serviceOnce tag (p :: ps)).2.2.1 ++
      (if (r.serviceOnce tag (p :: ps)).1.ended then [] else serveItems (r.serviceOnce tag (p :: ps)).1 tag ps)

/-- one request served: the items the server writes for it and whether it then closes the connection -/
def serveOne (a : AppResp) (q : Req) : List Item × Bool :=
  (serveItems (({ chunkable := true } : Responder).start a.cl) (q.id, q.head || a.bodyless) a.pieces, q.close)

/-- `Patron.serviceResponse` over everything the server wrote for request `q`: the response delivered, if complete -/
def clientTake (q : Req) (items : List Item) : Option Delivered :=
  match feed none items with
  | .done tag body _ => some ⟨q.id, tag, body⟩
  | _ => none

/-- the requests of one connection, one after the other: for each request the server handled, what the client
delivered for it (if anything); `true` = the server has not closed the connection.  The pipeline ends with the first
request that carries `Connection: close`, or whose response the client cannot complete. -/
def pipeline (app : Req → AppResp) : List Req → List (Req × Option Delivered) × Bool
  | [] => ([], true)
  | q :: rest =>
    let o := serveOne (app q) q
    let d := clientTake q o.1
    if o.2 || d.isNone then ([(q, d)], !o.2)
    else
      let t := pipeline app rest
      ((q, d) :: t.1, t.2)

end Ioflo.KeepAlive
