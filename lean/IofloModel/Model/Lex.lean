/-
Model of the FloScript reader in ioflo/base/building.py:

* `REO_Chunks = re.compile(r"""#.*|[^ "']+|"[^"]*"|'[^']*'""")`  (globaling.py)  → `chunks`
* `Builder.tokenize`  (backslash-newline runs, rstrip/strip, comment cut)        → `gather`, `tokenize`
* the command reading loop of `Builder.build` (connective look-ahead)             → `contLoop`, `mainLoop`, `commands`
* text-mode `open(...).readline()` (universal newlines)                           → `univNl`, `splitLines`, `fileLines`

and, for the statement of C16, the space of layouts of a program (`Layout`, `render`, `erase`).

Strings are `List Char`.  Core Lean only (the driver links this file).

`tokenize` is the REPAIRED one of fixes/D50-tokenize-last-line-strip.patch (the last physical line of a
backslash run is `strip()`ed like the others); `tokenizeOld` is the code as found, kept for the
counterexample theorem in Props/C16.lean.
-/
set_option linter.unusedVariables false
namespace Ioflo.Lex

abbrev Str := List Char

/-! ### Python `str` whitespace, `rstrip`, `strip`, `endswith` -/

/-- `Py_UNICODE_ISSPACE` (what `str.strip()` / `str.rstrip()` remove). -/
def isPySpace (c : Char) : Bool :=
  let n := c.toNat
  (9 ≤ n && n ≤ 13) || (28 ≤ n && n ≤ 32) || n == 0x85 || n == 0xa0 || n == 0x1680 ||
  (0x2000 ≤ n && n ≤ 0x200a) || n == 0x2028 || n == 0x2029 || n == 0x202f || n == 0x205f ||
  n == 0x3000

/-- `s.rstrip(<chars satisfying p>)` -/
def rstripBy (p : Char → Bool) : Str → Str
  | [] => []
  | c :: cs => if (rstripBy p cs).isEmpty && p c then [] else c :: rstripBy p cs

def rstrip (s : Str) : Str := rstripBy isPySpace s
def lstrip (s : Str) : Str := s.dropWhile isPySpace
/-- `s.strip()` -/
def strip (s : Str) : Str := lstrip (rstrip s)
/-- `s.rstrip('\\')` -/
def rstripBs (s : Str) : Str := rstripBy (· == '\\') s

/-- `line.endswith('\\\n')` -/
def endsBsNl (s : Str) : Bool := ['\\', '\n'].isSuffixOf s

/-! ### `REO_Chunks.findall` as a scanner -/

/-- a character of `[^ "']` -/
def isPlain (c : Char) : Bool := c != ' ' && c != '"' && c != '\''

/-- `[^q]*q` from the position after an opening quote `q`:
`some (inside, rest after the closing quote)`, or `none` when there is no closing quote. -/
def closeQuote (q : Char) : Str → Option (Str × Str)
  | [] => none
  | c :: cs =>
    if c == q then some ([], cs)
    else match closeQuote q cs with
      | some (ins, aft) => some (c :: ins, aft)
      | none => none

theorem closeQuote_length {q : Char} {s ins aft : Str} (h : closeQuote q s = some (ins, aft)) :
    aft.length < s.length := by
  induction s generalizing ins aft with
  | nil => simp [closeQuote] at h
  | cons c cs ih =>
    unfold closeQuote at h
    split at h
    · cases h; simp
    · split at h
      · rename_i i a hq; cases h; have := ih hq; simp; omega
      · cases h

/-- `REO_Chunks.findall(s)`.  At each position the alternatives are tried in the order of the
pattern: `#.*` (`.` does not match a newline), `[^ "']+`, `"[^"]*"`, `'[^']*'`; where none matches
(a space, or a quote without a partner) the scan moves one character on. -/
def chunks : Str → List Str
  | [] => []
  | c :: cs =>
    if c == '#' then
      (c :: cs.takeWhile (· != '\n')) :: chunks (cs.dropWhile (· != '\n'))
    else if c == '"' || c == '\'' then
      match h : closeQuote c cs with
      | some (ins, aft) => (c :: (ins ++ [c])) :: chunks aft
      | none => chunks cs
    else if c == ' ' then chunks cs
    else (c :: cs.takeWhile isPlain) :: chunks (cs.dropWhile isPlain)
termination_by s => s.length
decreasing_by
  · have := (List.dropWhile_sublist (l := cs) (fun x => x != '\n')).length_le; simp; omega
  · have := closeQuote_length h; simp; omega
  · simp
  · simp
  · have := (List.dropWhile_sublist (l := cs) isPlain).length_le; simp; omega

/-- the `for chunk in chunks: if chunk[0] == '#': break` loop -/
def cutComment : List Str → List Str
  | [] => []
  | ch :: rest => if ch.head? == some '#' then [] else ch :: cutComment rest

/-- `" ".join(saveLines)` -/
def joinSp : List Str → Str
  | [] => []
  | [s] => s
  | s :: t :: rest => s ++ ' ' :: joinSp (t :: rest)

/-- from the joined line to the token list: `strip`, `findall`, comment cut -/
def tokensOf (joined : Str) : List Str := cutComment (chunks (strip joined))

/-! ### `Builder.tokenize` -/

/-- The `while line.endswith('\\\n')` loop of `tokenize` followed by the handling of the last line
read.  `file` is the list of lines that `currentFile.readline()` will still return (`[]`: end of file,
`readline()` returns `""`).  Result: `saveLines` and the lines left unread.
`fix = true`: the last line is `strip()`ed (repaired code); `fix = false`: only `rstrip()`ed (as found). -/
def gather (fix : Bool) (line : Str) (file : List Str) : List Str × List Str :=
  if endsBsNl line then
    let seg := strip (rstripBs (rstrip line))
    match file with
    | [] => ([seg, if fix then strip [] else rstrip []], [])
    | l :: rest => let r := gather fix l rest; (seg :: r.1, r.2)
  else ([if fix then strip line else rstrip line], file)

theorem gather_length (fix : Bool) (line : Str) (file : List Str) :
    (gather fix line file).2.length ≤ file.length := by
  induction file generalizing line with
  | nil => unfold gather; split <;> simp
  | cons l rest ih =>
    unfold gather; split
    · have := ih l; simp; omega
    · simp

def tokenizeG (fix : Bool) (line : Str) (file : List Str) : List Str × List Str :=
  let r := gather fix line file
  (tokensOf (joinSp r.1), r.2)

/-- `Builder.tokenize` (repaired) -/
def tokenize := tokenizeG true
/-- `Builder.tokenize` as found in the repository -/
def tokenizeOld := tokenizeG false

theorem tokenizeG_length (fix : Bool) (line : Str) (file : List Str) :
    (tokenizeG fix line file).2.length ≤ file.length := gather_length fix line file

/-! ### the reading loop of `Builder.build` -/

def Comparisons : List Str := ["==", "<", "<=", ">=", ">", "!="].map String.toList
def Connectives : List Str :=
  ["to", "by", "with", "from", "per", "for", "cum", "qua", "via",
   "as", "at", "in", "of", "on", "re", "is",
   "if", "be", "into", "and", "not", "+-"].map String.toList
def Reserved : List Str := Connectives ++ Comparisons

def isReserved (t : Str) : Bool := Reserved.contains t

/-- Python `t in s` for strings -/
def isSubstr (t : Str) : Str → Bool
  | [] => t.isEmpty
  | c :: cs => t.isPrefixOf (c :: cs) || isSubstr t cs

/-- `tokens[0] not in ('load')` is a SUBSTRING test (`('load')` is a string, not a tuple):
no connective continuation for a first token that is a substring of "load". -/
def inLoad (t : Str) : Bool := isSubstr t "load".toList

/-- The `while True:` connective-continuation loop.  Result: `(tokens, nextTokens, file)`.
On entry `nextTokens == []` always holds in the Python code. -/
def contLoop (fix : Bool) (tokens : List Str) (file : List Str) : List Str × List Str × List Str :=
  match file with
  | [] => (tokens, [], [])                         -- `if not line: break`
  | line :: rest =>
    match h : tokenizeG fix line rest with
    | ([], file') => contLoop fix tokens file'     -- blank / comment line: keep looking
    | (t :: ts, file') =>
      if isReserved t then contLoop fix (tokens ++ t :: ts) file'   -- `tokens.extend(nextTokens)`
      else (tokens, t :: ts, file')                -- parsed ahead, not a continuation
termination_by file.length
decreasing_by
  all_goals
    have := tokenizeG_length fix line rest
    rw [h] at this; simp at this ⊢; omega

theorem contLoop_length (fix : Bool) (tokens : List Str) (file : List Str) :
    (contLoop fix tokens file).2.2.length ≤ file.length ∧
    ((contLoop fix tokens file).2.1 = [] ∨ (contLoop fix tokens file).2.2.length < file.length) := by
  fun_induction contLoop fix tokens file with
  | case1 => simp
  | case2 tokens line rest file' h ih =>
    have := tokenizeG_length fix line rest; rw [h] at this; simp at this ⊢
    rcases ih with ⟨a, b⟩; constructor; omega; rcases b with b | b; exact Or.inl b; right; omega
  | case3 tokens line rest t ts file' h hr ih =>
    have := tokenizeG_length fix line rest; rw [h] at this; simp at this ⊢
    rcases ih with ⟨a, b⟩; constructor; omega; rcases b with b | b; exact Or.inl b; right; omega
  | case4 tokens line rest t ts file' h hr =>
    have := tokenizeG_length fix line rest; rw [h] at this; simp at this ⊢; omega

/-- The `while (line):` loop of `Builder.build` for one file, with `dispatch` replaced by recording
its argument.  `pending` is `nextTokens` (tokens parsed ahead that did not continue the previous
command); when it is empty the loop is at a point where `line = readline()` has just been executed,
i.e. the next line is the head of `file`.  (The Python variable `line` is only tested for truth and
passed to `tokenize`; both uses are covered by `file`.)  Which file `load` switches to is outside
this model: a `load` command is recorded like any other. -/
def mainLoop (fix : Bool) (pending : List Str) (file : List Str) : List (List Str) :=
  match pending with
  | t :: ts =>
    if inLoad t then (t :: ts) :: mainLoop fix [] file
    else
      match h : contLoop fix (t :: ts) file with
      | (tokens, next, file') => tokens :: mainLoop fix next file'
  | [] =>
    match file with
    | [] => []
    | line :: rest =>
      match h : tokenizeG fix line rest with
      | ([], file') => mainLoop fix [] file'
      | (t :: ts, file') => mainLoop fix (t :: ts) file'
termination_by 2 * file.length + (if pending = [] then 0 else 1)
decreasing_by
  · simp
  · have := contLoop_length fix (t :: ts) file
    rw [h] at this; simp at this ⊢
    rcases this with ⟨a, b | b⟩
    · simp [b]; omega
    · split <;> omega
  · have := tokenizeG_length fix line rest
    rw [h] at this; simp at this ⊢; omega
  · have := tokenizeG_length fix line rest
    rw [h] at this; simp at this ⊢; omega

/-! ### reading the file -/

/-- universal newlines of text mode `open(name, "r")`: `\r\n` and `\r` become `\n` -/
def univNlAux : Bool → Str → Str
  | _, [] => []
  | prevCR, c :: cs =>
    if c == '\r' then '\n' :: univNlAux true cs          -- `\r` (alone or before `\n`) gives one `\n`
    else if c == '\n' && prevCR then univNlAux false cs  -- the `\n` of `\r\n` is swallowed
    else c :: univNlAux false cs

def univNl (s : Str) : Str := univNlAux false s

/-- successive results of `readline()` on a text: every line keeps its `\n`; the last may lack it -/
def splitLines : Str → List Str
  | [] => []
  | c :: cs =>
    if c == '\n' then [c] :: splitLines cs
    else match splitLines cs with
      | [] => [[c]]
      | l :: ls => (c :: l) :: ls

def fileLines (text : Str) : List Str := splitLines (univNl text)

/-- the token lists handed to `Builder.dispatch`, in order, for a script text -/
def commandsG (fix : Bool) (text : Str) : List (List Str) := mainLoop fix [] (fileLines text)
def commands := commandsG true
def commandsOld := commandsG false

/-! ### Layouts (the quantifier of C16)

A `Layout` is a program together with everything a formatter may choose: indentation and trailing
white space of every physical line, the number of spaces between tokens, backslash breaks (with any
number of backslashes) at token boundaries, newline breaks, blank and comment lines, trailing comments.
`erase` forgets the choices; `render` produces the script text. -/

/-- tokens of one physical line: `(extra spaces before the token, token)`; the count of the first
token is ignored (the line's `lead` does that job), the others are separated by `n+1` spaces. -/
def body : List (Nat × Str) → Str
  | [] => []
  | [(_, t)] => t
  | (_, t) :: (n, u) :: rest => t ++ (List.replicate (n + 1) ' ' ++ body ((n, u) :: rest))

/-- one physical line without its end -/
structure Seg where
  lead : Str
  toks : List (Nat × Str)
  trail : Str

/-- how the last physical line of a run ends -/
inductive Ending where
  | plain                                   -- nothing after the segment's trailing white space
  | comment (gap : Nat) (text : Str)        -- `gap` spaces, `#`, text   (replaces `trail`)

/-- one logical line = what a single `tokenize` call reads: physical lines ending in `k+1`
backslashes, then a last physical line. -/
structure Run where
  mids : List (Seg × Nat)
  last : Seg
  ending : Ending

/-- a command: the run that starts it, then continuation runs (each starting with a reserved word)
and filler runs (blank lines, comment lines) in any mixture. -/
structure Cmd where
  head : Run
  conts : List Run

structure Layout where
  pre : List Run       -- filler before the first command
  cmds : List Cmd

def Seg.tokens (s : Seg) : List Str := s.toks.map (·.2)
def Run.tokens (r : Run) : List Str := (r.mids.flatMap (·.1.tokens)) ++ r.last.tokens
def Cmd.tokens (c : Cmd) : List Str := c.head.tokens ++ c.conts.flatMap Run.tokens
/-- the program of a layout: one token list per command -/
def Layout.erase (L : Layout) : List (List Str) := L.cmds.map Cmd.tokens

def Seg.text (s : Seg) : Str := s.lead ++ (body s.toks ++ s.trail)
def midLine (p : Seg × Nat) : Str := p.1.text ++ (List.replicate (p.2 + 1) '\\' ++ ['\n'])
def Run.lastText (r : Run) : Str :=
  match r.ending with
  | .plain => r.last.text
  | .comment gap text => r.last.lead ++ (body r.last.toks ++ (List.replicate gap ' ' ++ '#' :: text))
def Run.lines (r : Run) : List Str := r.mids.map midLine ++ [r.lastText ++ ['\n']]
def Cmd.lines (c : Cmd) : List Str := c.head.lines ++ c.conts.flatMap Run.lines
def Layout.lines (L : Layout) : List Str := L.pre.flatMap Run.lines ++ L.cmds.flatMap Cmd.lines
/-- the script text of a layout -/
def Layout.render (L : Layout) : Str := L.lines.flatten
/-- the same text without the newline at the very end of the file -/
def Layout.renderNoEol (L : Layout) : Str := L.render.dropLast

/-! well-formedness (all decidable) -/

/-- indentation / trailing white space: Python white space other than the two line ends -/
def isIndent (c : Char) : Bool := isPySpace c && c != '\n' && c != '\r'

/-- an unquoted token: non-empty, no space, quote or other white space, not starting with `#`,
not ending with a backslash -/
def plainOK (t : Str) : Bool :=
  !t.isEmpty && t.all (fun c => isPlain c && !isPySpace c) && t.head? != some '#' &&
  t.getLast? != some '\\'

/-- a quoted token: `q … q` with no `q`, newline or carriage return inside -/
def quotedOK (t : Str) : Bool :=
  match t with
  | q :: rest =>
    (q == '"' || q == '\'') && rest.getLast? == some q &&
    rest.dropLast.all (fun c => c != q && c != '\n' && c != '\r')
  | [] => false

def tokOK (t : Str) : Bool := plainOK t || quotedOK t

def Seg.ok (s : Seg) : Bool :=
  s.lead.all isIndent && s.trail.all isIndent && s.toks.all (fun p => tokOK p.2)

def Ending.ok : Ending → Bool
  | .plain => true
  | .comment _ text => text.all (fun c => c != '\n' && c != '\r') && text.getLast? != some '\\'

/-- a comment after tokens needs at least one space before the `#` -/
def Run.gapOK (r : Run) : Bool :=
  match r.ending with
  | .plain => true
  | .comment gap _ => r.last.toks.isEmpty || gap != 0

def Run.ok (r : Run) : Bool := r.mids.all (·.1.ok) && r.last.ok && r.ending.ok && r.gapOK

/-- a run that starts a command: has tokens, the first is not reserved -/
def Run.isHead (r : Run) : Bool :=
  match r.tokens with
  | [] => false
  | t :: _ => !isReserved t

/-- a run inside a command after its head: filler, or starts with a reserved word -/
def Run.isCont (r : Run) : Bool :=
  match r.tokens with
  | [] => true
  | t :: _ => isReserved t

def Run.isFiller (r : Run) : Bool := r.tokens.isEmpty

def Cmd.ok (c : Cmd) : Bool :=
  c.head.ok && c.head.isHead && c.conts.all Run.ok &&
  (match c.head.tokens with
   | t :: _ => if inLoad t then c.conts.all Run.isFiller else c.conts.all Run.isCont
   | [] => false)

def Layout.ok (L : Layout) : Bool :=
  L.pre.all (fun r => r.ok && r.isFiller) && L.cmds.all Cmd.ok

/-- Region of defect D50 (complement): the last physical line of every backslash run is indented
with spaces only.  The code as found `rstrip()`s that line but does not `strip()` it, so a tab (or any
other white space that is not a space) in its indentation becomes part of a token. -/
def Run.spaceLead (r : Run) : Bool := r.mids.isEmpty || r.last.lead.all (· == ' ')
def Cmd.spaceLead (c : Cmd) : Bool := c.head.spaceLead && c.conts.all Run.spaceLead
def Layout.spaceLead (L : Layout) : Bool := L.pre.all Run.spaceLead && L.cmds.all Cmd.spaceLead

end Ioflo.Lex
