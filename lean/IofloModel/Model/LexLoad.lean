import IofloModel.Model.Lex
/-!
`load`: file inclusion in `Builder.build` (ioflo/base/building.py, the read loop and `buildLoad`).

`Builder.build` keeps a stack of open files.  Dispatching `load <name>` pushes the current file and
continues reading from the named one; at its end of file the reader pops back:

    while self.currentFile:
        line = self.currentFile.readline(); nextTokens = []
        while (line): … dispatch(tokens) …          # `load` replaces self.currentFile inside dispatch
        self.currentFile.close()
        if self.files: self.currentFile = self.files.pop() … else: self.currentFile = None

`treeLoop` is that loop with the stack written as recursion: the loaded file is read by a nested call (budget
`depth` for the nesting), then the loop goes on with the rest of the parent file and `nextTokens = []`
(the assignment at the top of the outer `while`).  `dispatch` is a recorder, except that `load` really
switches files (`buildLoad`).  File names are looked up in `fs` as written (one directory).
Core Lean only.
-/
namespace Ioflo.Lex

/-- how reading ended -/
inductive Stop where
  | done            -- end of the top file: `build` goes on to resolve
  | ioError         -- `open(name)` failed in `buildLoad`: `except IOError: return False`
  | parseError      -- `load` without a name / with extra tokens
  | depth           -- nesting budget of the model exhausted (a file that loads itself)
deriving DecidableEq, Repr

/-- what dispatching a command means for the reader -/
inductive Disp (α : Type) where
  | plain                   -- recorded, same file
  | load (content : α)      -- `buildLoad` opened the file
  | stop (s : Stop)

/-- `dispatch(tokens)` as far as the reader is concerned: only the verb `load` matters (`buildLoad`:
`name = tokens[index]` — IndexError → ParseError; `open(name)`; then `if index != len(tokens)`: ParseError) -/
def dispatchLoad {α : Type} (look : Str → Option α) (c : List Str) : Disp α :=
  match c with
  | v :: args =>
    if v == "load".toList then
      match args with
      | [] => .stop .parseError
      | n :: more =>
        match look n with
        | none => .stop .ioError
        | some t => if more.isEmpty then .load t else .stop .parseError
    else .plain
  | [] => .plain

/-- the read loop over a tree of files.  `pending` is `nextTokens`; see `mainLoop` for the single file. -/
def treeLoop (fix : Bool) (fs : Str → Option Str) (depth : Nat) (pending : List Str) (file : List Str) :
    List (List Str) × Stop :=
  match pending with
  | t :: ts =>
    if inLoad t then
      -- no connective continuation; this is the only place a command with verb `load` can be dispatched
      match dispatchLoad fs (t :: ts) with
      | .plain => let r := treeLoop fix fs depth [] file; ((t :: ts) :: r.1, r.2)
      | .stop s => ([t :: ts], s)
      | .load text =>
        match depth with
        | 0 => ([t :: ts], .depth)
        | d + 1 =>
          let r := treeLoop fix fs d [] (fileLines text)       -- the loaded file, to its end
          if r.2 = .done then
            let r2 := treeLoop fix fs (d + 1) [] file          -- pop: back in the parent, `nextTokens = []`
            ((t :: ts) :: r.1 ++ r2.1, r2.2)
          else ((t :: ts) :: r.1, r.2)
    else
      match h : contLoop fix (t :: ts) file with
      | (tokens, next, file') => let r := treeLoop fix fs depth next file'; (tokens :: r.1, r.2)
  | [] =>
    match file with
    | [] => ([], .done)
    | line :: rest =>
      match h : tokenizeG fix line rest with
      | ([], file') => treeLoop fix fs depth [] file'
      | (t :: ts, file') => treeLoop fix fs depth (t :: ts) file'
termination_by (depth, 2 * file.length + (if pending = [] then 0 else 1))
decreasing_by
  · apply Prod.Lex.right; simp
  · apply Prod.Lex.left; omega
  · apply Prod.Lex.right; simp
  · apply Prod.Lex.right
    have := contLoop_length fix (t :: ts) file
    rw [h] at this; simp at this ⊢
    rcases this with ⟨a, b | b⟩
    · simp [b]; omega
    · split <;> omega
  · apply Prod.Lex.right
    have := tokenizeG_length fix line rest
    rw [h] at this; simp at this ⊢; omega
  · apply Prod.Lex.right
    have := tokenizeG_length fix line rest
    rw [h] at this; simp at this ⊢; omega

/-- `Builder.build` reading the file tree `fs` from the text of the top file -/
def readTreeG (fix : Bool) (fs : Str → Option Str) (depth : Nat) (text : Str) : List (List Str) × Stop :=
  treeLoop fix fs depth [] (fileLines text)

def readTree := readTreeG true

/-- one level of the specification below: `rec` expands a loaded program (`none`: nesting budget exhausted) -/
def expandWith (look : Str → Option (List (List Str))) (rec : Option (List (List Str) → List (List Str) × Stop)) :
    List (List Str) → List (List Str) × Stop
  | [] => ([], .done)
  | c :: cs =>
    match dispatchLoad look c with
    | .plain => let r := expandWith look rec cs; (c :: r.1, r.2)
    | .stop s => ([c], s)
    | .load p =>
      match rec with
      | none => ([c], .depth)
      | some f =>
        let r := f p
        if r.2 = .done then
          let r2 := expandWith look rec cs
          (c :: r.1 ++ r2.1, r2.2)
        else (c :: r.1, r.2)

/-- the specification: `load` expanded on PROGRAMS (lists of commands), no text involved.  `look n` is the
program held by file `n`; a `load` command is followed by the expansion of that program, then the rest of the
loading program goes on; reading stops at a `load` that fails. -/
def expand (look : Str → Option (List (List Str))) : Nat → List (List Str) → List (List Str) × Stop
  | 0 => expandWith look none
  | d + 1 => expandWith look (some (expand look d))

/-- a file system given as a list of (name, text) pairs -/
def filesOf (l : List (Str × Str)) (n : Str) : Option Str := (l.find? (fun p => p.1 == n)).map (·.2)

end Ioflo.Lex
