/-
Model of the literal converters of ioflo/base/building.py (`Convert2Num` … `Convert2StrBoolPathCoordPointNum`,
`StripQuotes`) and of the regular expressions of ioflo/base/globaling.py they use (`REO_Quoted`,
`REO_QuotedSingle`, `REO_PathNode`, `REO_LatLonNE/SW`, the six `REO_Point*`), together with the CPython
text-to-number functions they call: `int(text, 10)`, `int(text, 16)`, `float(text)`, `complex(text)`
(grammar transcribed from CPython 3.12: `PyLong_FromString`, `_Py_string_to_number_with_underscores`,
`_PyOS_ascii_strtod`/`_Py_parse_inf_or_nan`, `complex_from_string_inner`).

Scope: ASCII text (`\d`, `\w`, `str.lower`, `int()` digits are modelled for ASCII only; white space is the
full `str.isspace` set).  Decimal numerals denote exact decimals `(-1)^neg * mant * 10^exp`: binary rounding
is outside the model (the harness rounds the exact decimal with CPython's `float`).  Strings are `List Char`.
Core Lean only.
-/
set_option linter.unusedVariables false
namespace Ioflo.Literal

abbrev Str := List Char

/-! ### values -/

/-- an exact decimal: `(-1)^neg * mant * 10^exp` (keeps the sign of zero, like `float('-0')`) -/
structure Dec where
  neg : Bool
  mant : Nat
  exp : Int
deriving DecidableEq, Repr

inductive FloatV where
  | fin (d : Dec)
  | inf (neg : Bool)
  | nan
deriving DecidableEq, Repr

inductive PointKind where
  | xy | ne | fs | xyz | ned | fsb
deriving DecidableEq, Repr

/-- what a converter returns -/
inductive Val where
  | none
  | bool (b : Bool)
  | str (s : Str)
  | int (i : Int)
  | float (f : FloatV)
  | complex (re im : FloatV)
  | coord (neg : Bool) (deg min : FloatV)      -- `±(float(deg) + float(min)/60.0)`
  | point (k : PointKind) (cs : List FloatV)   -- `Pxy(x=float(..), y=float(..))` …
deriving DecidableEq, Repr

/-- `ok v`, or the `ValueError` the converter raises -/
abbrev Res := Except Unit Val
def valueError : Res := .error ()

instance : DecidableEq Res := fun a b =>
  match a, b with
  | .ok x, .ok y => if h : x = y then isTrue (by rw [h]) else isFalse (by intro e; cases e; exact h rfl)
  | .error (), .error () => isTrue rfl
  | .ok _, .error _ => isFalse (by intro e; cases e)
  | .error _, .ok _ => isFalse (by intro e; cases e)

/-! ### characters -/

-- character classes are written on code points (`'0'` = 48, `'A'` = 65, `'a'` = 97, `'_'` = 95)
def isDigit (c : Char) : Bool := 48 ≤ c.toNat && c.toNat ≤ 57
def isLetter_ (c : Char) : Bool :=
  (97 ≤ c.toNat && c.toNat ≤ 122) || (65 ≤ c.toNat && c.toNat ≤ 90) || c.toNat == 95
def isWord (c : Char) : Bool := isLetter_ c || isDigit c          -- `\w` (ASCII)
def digitVal (c : Char) : Nat := c.toNat - 48
def hexVal? (c : Char) : Option Nat :=
  if isDigit c then some (c.toNat - 48)
  else if 97 ≤ c.toNat && c.toNat ≤ 102 then some (c.toNat - 97 + 10)
  else if 65 ≤ c.toNat && c.toNat ≤ 70 then some (c.toNat - 65 + 10)
  else none
def lowerC (c : Char) : Char := if 65 ≤ c.toNat && c.toNat ≤ 90 then Char.ofNat (c.toNat + 32) else c
/-- `text.lower()` (ASCII) -/
def lower (s : Str) : Str := s.map lowerC

/-- `Py_UNICODE_ISSPACE` -/
def isPySpace (c : Char) : Bool :=
  let n := c.toNat
  (9 ≤ n && n ≤ 13) || (28 ≤ n && n ≤ 32) || n == 0x85 || n == 0xa0 || n == 0x1680 ||
  (0x2000 ≤ n && n ≤ 0x200a) || n == 0x2028 || n == 0x2029 || n == 0x202f || n == 0x205f ||
  n == 0x3000

/-- `Py_ISSPACE` -/
def isCSpace (c : Char) : Bool := (9 ≤ c.toNat && c.toNat ≤ 13) || c == ' '

/-- White space for `int()`, `float()`, `complex()` of a `str`: CPython first maps the text to ASCII
(`_PyUnicode_TransformDecimalAndSpaceToASCII`: ASCII characters are kept as they are, a non-ASCII
`Py_UNICODE_ISSPACE` character becomes a space) and then skips `Py_ISSPACE` characters.  So `\x1c`–`\x1f`,
which `str.strip()` removes, are NOT white space for the number parsers, while U+00A0, U+2003 … are.
(The `text` argument is not used; it is kept so that the callers read like the Python.) -/
def numSpace (text : Str) (c : Char) : Bool :=
  if c.toNat < 128 then isCSpace c else isPySpace c

def rstripBy (p : Char → Bool) : Str → Str
  | [] => []
  | c :: cs => if (rstripBy p cs).isEmpty && p c then [] else c :: rstripBy p cs
/-- `s.strip(chars)` for a character predicate -/
def stripBy (p : Char → Bool) (s : Str) : Str := (rstripBy p s).dropWhile p

/-- `$` of a pattern compiled without MULTILINE: the end, or just before a final newline -/
def dollar (s : Str) : Bool := s == [] || s == ['\n']

/-! ### the regular expressions -/

/-- `^q[^q]*q$` (`REO_Quoted` for `"`, `REO_QuotedSingle` for `'`) -/
def quotedBy (q : Char) (t : Str) : Bool :=
  match t with
  | c :: rest =>
    c == q &&
    (match rest.dropWhile (· != q) with
     | _ :: tail => dollar tail
     | [] => false)
  | [] => false

/-- states of the recogniser for `REO_PathNode` -/
inductive PathSt where
  | start      -- nothing read
  | dot0       -- a leading `.` read, a segment must follow
  | ident      -- inside a segment `[a-zA-Z_]\w*`
  | dot        -- a `.` after a segment (a trailing dot is allowed)
  | nl         -- the final newline that `$` tolerates has been read
  | fail
deriving DecidableEq

def pathStep : PathSt → Char → PathSt
  | .start, c => if isLetter_ c then .ident else if c == '.' then .dot0 else .fail
  | .dot0, c => if isLetter_ c then .ident else .fail
  | .ident, c => if isWord c then .ident else if c == '.' then .dot else if c == '\n' then .nl else .fail
  | .dot, c => if isLetter_ c then .ident else if c == '\n' then .nl else .fail
  | .nl, _ => .fail
  | .fail, _ => .fail

/-- `REO_PathNode.match(t)`: `ident(.ident)*[.]` or `(.ident)+[.]` -/
def pathNode (t : Str) : Bool :=
  match t.foldl pathStep .start with
  | .ident | .dot | .nl => true
  | _ => false

/-- `\d+` at the front: `(digits, rest)`, `none` when there is no digit -/
def digits1 (s : Str) : Option (Str × Str) :=
  let d := s.takeWhile isDigit
  if d.isEmpty then none else some (d, s.dropWhile isDigit)

def natOfDigits (ds : Str) : Nat := ds.foldl (fun n c => n * 10 + digitVal c) 0

/-- `float(text)` for a text of the shape `[-+]?\d+(\.\d*)?` / `\d+\.\d+`: sign, integer digits, fraction digits -/
def decOf (neg : Bool) (ip fp : Str) : FloatV :=
  .fin { neg := neg, mant := natOfDigits (ip ++ fp), exp := - (fp.length : Int) }

/-- `^(\d+)[<seps>](\d+\.\d+)$` — `REO_LatLonNE` with `seps = "NEne,"`, `REO_LatLonSW` with `"SWsw,"`;
result: `(float(deg), float(min))` -/
def latLon (seps : Str) (t : Str) : Option (FloatV × FloatV) :=
  match digits1 t with
  | some (deg, c :: r) =>
    if seps.contains c then
      match digits1 r with
      | some (mi, '.' :: r2) =>
        match digits1 r2 with
        | some (mf, r3) => if dollar r3 then some (decOf false deg [], decOf false mi mf) else none
        | none => none
      | _ => none
    else none
  | _ => none

/-- an optional sign: `(is it '-', rest)` -/
def splitSign (s : Str) : Bool × Str :=
  match s with
  | '-' :: r => (true, r)
  | '+' :: r => (false, r)
  | _ => (false, s)

/-- `([-+]?\d+\.\d*|[-+]?\d+)` at the front: `float` of the captured text, and the rest -/
def numTok (s : Str) : Option (FloatV × Str) :=
  let (neg, s1) := splitSign s
  match digits1 s1 with
  | some (ip, '.' :: r) => some (decOf neg ip (r.takeWhile isDigit), r.dropWhile isDigit)
  | some (ip, r) => some (decOf neg ip [], r)
  | none => none

/-- `^(num)<s1>(num)<s2>$` with the first number optional when `opt` (only `REO_PointXY` has that `?`).
`some none`: the pattern matches but `float('')` raises `ValueError`. -/
def point2 (opt : Bool) (s1 s2 : Str) (t : Str) : Option (Option (List FloatV)) :=
  let first : Option (Option FloatV × Str) :=
    match numTok t with
    | some (a, r) => some (some a, r)
    | none => if opt then some (none, t) else none
  match first with
  | some (a, c1 :: r1) =>
    if s1.contains c1 then
      match numTok r1 with
      | some (b, c2 :: r2) =>
        if s2.contains c2 && dollar r2 then
          some (match a with | some a => some [a, b] | none => none)
        else none
      | _ => none
    else none
  | _ => none

/-- `^(num)<s1>(num)<s2>(num)<s3>$` -/
def point3 (s1 s2 s3 : Str) (t : Str) : Option (List FloatV) :=
  match numTok t with
  | some (a, c1 :: r1) =>
    if s1.contains c1 then
      match numTok r1 with
      | some (b, c2 :: r2) =>
        if s2.contains c2 then
          match numTok r2 with
          | some (c, c3 :: r3) => if s3.contains c3 && dollar r3 then some [a, b, c] else none
          | _ => none
        else none
      | _ => none
    else none
  | _ => none

/-! ### CPython: `int(text, base)` -/

/-- digits of `base` with single underscores between them (`long_from_string_base`):
value, or `none` when malformed.  `prevUnderscore`: the previous character was `_`. -/
def intDigits (base : Nat) : Str → Nat → Bool → Bool → Option Nat
  | [], acc, prevU, any => if prevU || !any then none else some acc
  | c :: cs, acc, prevU, any =>
    if c == '_' then (if prevU || !any then none else intDigits base cs acc true any)
    else match hexVal? c with
      | some v => if v < base then intDigits base cs (acc * base + v) false true else none
      | none => none

/-- the `0x`/`0X` prefix, accepted only for base 16: `(rest, was there a prefix)` -/
def stripPrefix16 (base : Nat) (s : Str) : Str × Bool :=
  match s with
  | '0' :: x :: r => if base == 16 && (x == 'x' || x == 'X') then (r, true) else (s, false)
  | _ => (s, false)

/-- "one underscore allowed here": directly after the prefix -/
def skipOneUnderscore (pre : Bool) (s : Str) : Str :=
  match s with
  | '_' :: r => if pre then r else s
  | _ => s

/-- the digits; "may not start with underscores" -/
def intBody (base : Nat) (s : Str) : Option Nat :=
  match s with
  | '_' :: _ => none
  | _ => intDigits base s 0 false false

/-- after white space and sign -/
def pyIntAbs (base : Nat) (s : Str) : Option Nat :=
  let p := stripPrefix16 base s
  intBody base (skipOneUnderscore p.2 p.1)

/-- `int(text, base)` for `base` 10 or 16 -/
def pyInt (base : Nat) (text : Str) : Option Int :=
  let p := splitSign (stripBy (numSpace text) text)
  (pyIntAbs base p.2).map (fun n => if p.1 then - (n : Int) else (n : Int))

/-! ### CPython: `float(text)`, `complex(text)` -/

/-- `_Py_string_to_number_with_underscores`: drop underscores that stand between two digits,
`none` for any other underscore -/
def dropUnderscores : Str → Char → Option Str
  | [], prev => if prev == '_' then none else some []
  | c :: cs, prev =>
    if c == '_' then (if isDigit prev then dropUnderscores cs c else none)
    else if prev == '_' && !isDigit c then none
    else (dropUnderscores cs c).map (c :: ·)

/-- case-insensitive prefix test -/
def ciPrefix (p : Str) (s : Str) : Option Str :=
  if (lower (s.take p.length)) == p then some (s.drop p.length) else none

/-- `strtod`-like longest float prefix (`_PyOS_ascii_strtod`): sign, then `inf`/`infinity`/`nan`
or `digits[.digits][e[sign]digits]` with at least one mantissa digit -/
def floatPrefix (s : Str) : Option (FloatV × Str) :=
  let (neg, s1) := splitSign s
  match ciPrefix "inf".toList s1 with
  | some r =>
    (match ciPrefix "inity".toList r with
     | some r2 => some (.inf neg, r2)
     | none => some (.inf neg, r))
  | none =>
  match ciPrefix "nan".toList s1 with
  | some r => some (.nan, r)
  | none =>
    let ip := s1.takeWhile isDigit
    let r := s1.dropWhile isDigit
    let (fp, r) := match r with
      | '.' :: r' => (r'.takeWhile isDigit, r'.dropWhile isDigit)
      | _ => ([], r)
    -- a lone "." or no digit at all is not a number (a "." without digits on either side is given back)
    if ip.isEmpty && fp.isEmpty then none
    else
      let m := natOfDigits (ip ++ fp)
      let e0 : Int := - (fp.length : Int)
      -- exponent: only when at least one digit follows
      let (e, r) := match r with
        | c :: r' =>
          if c == 'e' || c == 'E' then
            let (eneg, r'') := match r' with
              | '-' :: q => (true, q)
              | '+' :: q => (false, q)
              | _ => (false, r')
            let ed := r''.takeWhile isDigit
            if ed.isEmpty then (e0, r)
            else ((if eneg then e0 - (natOfDigits ed : Int) else e0 + (natOfDigits ed : Int)), r''.dropWhile isDigit)
          else (e0, r)
        | [] => (e0, r)
      some (.fin { neg := neg, mant := m, exp := e }, r)

/-- `float(text)` -/
def pyFloat (text : Str) : Option FloatV :=
  match dropUnderscores (stripBy (numSpace text) text) 'x' with
  | some s =>
    match floatPrefix s with
    | some (v, []) => some v
    | _ => none
  | none => none

def one (neg : Bool) : FloatV := .fin { neg := neg, mant := 1, exp := 0 }
def zero : FloatV := .fin { neg := false, mant := 0, exp := 0 }

def isJ (c : Char) : Bool := c == 'j' || c == 'J'

/-- `complex_from_string_inner` after the optional opening parenthesis: `(re, im, rest)` -/
def complexBody (s : Str) : Option (FloatV × FloatV × Str) :=
  match floatPrefix s with
  | some (z, r) =>
    (match r with
     | c :: r' =>
       if c == '+' || c == '-' then
         -- <float><signed-float>j | <float><sign>j
         match floatPrefix r with
         | some (y, r2) =>
           (match r2 with
            | j :: r3 => if isJ j then some (z, y, r3) else none
            | [] => none)
         | none =>
           (match r' with
            | j :: r3 => if isJ j then some (z, one (c == '-'), r3) else none
            | [] => none)
       else if isJ c then some (zero, z, r')      -- <float>j
       else some (z, zero, r)                      -- <float>
     | [] => some (z, zero, []))
  | none =>
    -- <sign>j | j
    let (neg, r) := splitSign s
    match r with
    | j :: r2 => if isJ j then some (zero, one neg, r2) else none
    | [] => none

/-- `complex(text)` -/
def pyComplex (text : Str) : Option (FloatV × FloatV) :=
  match dropUnderscores (stripBy (numSpace text) text) 'x' with
  | some s =>
    let (br, s) := match s with
      | '(' :: r => (true, r.dropWhile (numSpace text))
      | _ => (false, s)
    (match complexBody s with
     | some (re, im, r) =>
       let r := r.dropWhile (numSpace text)
       if br then
         (match r with
          | ')' :: r2 => if (r2.dropWhile (numSpace text)).isEmpty then some (re, im) else none
          | _ => none)
       else if r.isEmpty then some (re, im) else none
     | none => none)
  | none => none

/-! ### the converters, function by function as in building.py -/

/-- `try: return f(text)  except ValueError: raise ValueError("Expected … got …")` -/
def reraise (r : Res) : Res :=
  match r with
  | .ok v => .ok v
  | .error _ => valueError

def convert2Num (t : Str) : Res :=
  match pyInt 10 t with
  | some i => .ok (.int i)
  | none =>
  match pyInt 16 t with
  | some i => .ok (.int i)
  | none =>
  match pyFloat t with
  | some f => .ok (.float f)
  | none =>
  match pyComplex t with
  | some (re, im) => .ok (.complex re im)
  | none => valueError

def sepNE : Str := "NEne,".toList      -- the character class `[N,E,n,e]` contains the comma
def sepSW : Str := "SWsw,".toList

def convert2CoordNum (t : Str) : Res :=
  match latLon sepNE t with
  | some (d, m) => .ok (.coord false d m)
  | none =>
  match latLon sepSW t with
  | some (d, m) => .ok (.coord true d m)
  | none =>
  reraise (convert2Num t)

def isNone (t : Str) : Bool := lower t == "none".toList
def isTrue (t : Str) : Bool := lower t == "true".toList || lower t == "yes".toList
def isFalse (t : Str) : Bool := lower t == "false".toList || lower t == "no".toList

def convert2BoolCoordNum (t : Str) : Res :=
  if isNone t then .ok .none
  else if isTrue t then .ok (.bool true)
  else if isFalse t then .ok (.bool false)
  else reraise (convert2CoordNum t)

def convert2StrBoolCoordNum (t : Str) : Res :=
  if quotedBy '"' t then .ok (.str (stripBy (· == '"') t))
  else if quotedBy '\'' t then .ok (.str (stripBy (· == '\'') t))
  else reraise (convert2BoolCoordNum t)

def sX : Str := "Xx,".toList
def sY : Str := "Yy,".toList
def sZ : Str := "Zz,".toList
def sN : Str := "Nn,".toList
def sE : Str := "Ee,".toList
def sD : Str := "Dd,".toList
def sF : Str := "Ff,".toList
def sS : Str := "Ss,".toList
def sB : Str := "Bb,".toList

def convert2PointNum (t : Str) : Res :=
  match point2 true sX sY t with
  | some (some cs) => .ok (.point .xy cs)
  | some none => valueError                         -- `float('')`
  | none =>
  match point2 false sN sE t with
  | some (some cs) => .ok (.point .ne cs)
  | some none => valueError
  | none =>
  match point2 false sF sS t with
  | some (some cs) => .ok (.point .fs cs)
  | some none => valueError
  | none =>
  match point3 sX sY sZ t with
  | some cs => .ok (.point .xyz cs)
  | none =>
  match point3 sN sE sD t with
  | some cs => .ok (.point .ned cs)
  | none =>
  match point3 sF sS sB t with
  | some cs => .ok (.point .fsb cs)
  | none =>
  reraise (convert2Num t)

def convert2CoordPointNum (t : Str) : Res :=
  match latLon sepNE t with
  | some (d, m) => .ok (.coord false d m)
  | none =>
  match latLon sepSW t with
  | some (d, m) => .ok (.coord true d m)
  | none =>
  reraise (convert2PointNum t)

def convert2BoolCoordPointNum (t : Str) : Res :=
  if isNone t then .ok .none
  else if isTrue t then .ok (.bool true)
  else if isFalse t then .ok (.bool false)
  else reraise (convert2CoordPointNum t)

def convert2PathCoordPointNum (t : Str) : Res :=
  if pathNode t then .ok (.str t)
  else reraise (convert2CoordPointNum t)

def convert2BoolPathCoordPointNum (t : Str) : Res :=
  if isNone t then .ok .none
  else if isTrue t then .ok (.bool true)
  else if isFalse t then .ok (.bool false)
  else reraise (convert2PathCoordPointNum t)

def convert2StrBoolPathCoordPointNum (t : Str) : Res :=
  if quotedBy '"' t then .ok (.str (stripBy (· == '"') t))
  else if quotedBy '\'' t then .ok (.str (stripBy (· == '\'') t))
  else reraise (convert2BoolPathCoordPointNum t)

/-- `StripQuotes` -/
def stripQuotes (t : Str) : Str :=
  if quotedBy '"' t then stripBy (· == '"') t
  else if quotedBy '\'' t then stripBy (· == '\'') t
  else t

/-! ### the documented order, flat -/

/-- a recogniser: `none` = "not mine", `some r` = decides the result -/
abbrev Recog := Str → Option Res

def rQuoted (q : Char) : Recog := fun t => if quotedBy q t then some (.ok (.str (stripBy (· == q) t))) else none
def rNone : Recog := fun t => if isNone t then some (.ok .none) else none
def rTrue : Recog := fun t => if isTrue t then some (.ok (.bool true)) else none
def rFalse : Recog := fun t => if isFalse t then some (.ok (.bool false)) else none
def rPath : Recog := fun t => if pathNode t then some (.ok (.str t)) else none
def rLatLon (neg : Bool) (seps : Str) : Recog := fun t => (latLon seps t).map (fun p => .ok (.coord neg p.1 p.2))
def rPoint2 (k : PointKind) (opt : Bool) (s1 s2 : Str) : Recog := fun t =>
  (point2 opt s1 s2 t).map (fun o => match o with | some cs => .ok (.point k cs) | none => valueError)
def rPoint3 (k : PointKind) (s1 s2 s3 : Str) : Recog := fun t => (point3 s1 s2 s3 t).map (fun cs => .ok (.point k cs))
def rInt (base : Nat) : Recog := fun t => (pyInt base t).map (fun i => .ok (.int i))
def rFloat : Recog := fun t => (pyFloat t).map (fun f => .ok (.float f))
def rComplex : Recog := fun t => (pyComplex t).map (fun p => .ok (.complex p.1 p.2))

/-- the first recogniser that accepts decides; nobody accepts: `ValueError` -/
def firstOf : List Recog → Str → Res
  | [], _ => valueError
  | r :: rs, t => match r t with
    | some x => x
    | none => firstOf rs t

def ordStr : List Recog := [rQuoted '"', rQuoted '\'']
def ordBool : List Recog := [rNone, rTrue, rFalse]
def ordPath : List Recog := [rPath]
def ordCoord : List Recog := [rLatLon false sepNE, rLatLon true sepSW]
def ordPoint : List Recog :=
  [rPoint2 .xy true sX sY, rPoint2 .ne false sN sE, rPoint2 .fs false sF sS,
   rPoint3 .xyz sX sY sZ, rPoint3 .ned sN sE sD, rPoint3 .fsb sF sS sB]
def ordNum : List Recog := [rInt 10, rInt 16, rFloat, rComplex]

/-- direct data (`put set init inc`, `do … with/per/cum`, `server … per`): quoted string, none/true/yes/
false/no, path text, lat/lon, typed points, decimal int, hex int, float, complex -/
def orderDirect : List Recog := ordStr ++ ordBool ++ ordPath ++ ordCoord ++ ordPoint ++ ordNum
/-- need goals: no path, no points -/
def orderGoal : List Recog := ordStr ++ ordBool ++ ordCoord ++ ordNum
/-- periods, timeouts, tolerances -/
def orderNum : List Recog := ordNum

/-! ### literal writers (for the round-trip statements) -/

def digitChar (n : Nat) : Char := Char.ofNat (48 + n % 10)

/-- decimal digits of a natural number, most significant first -/
def showNat (n : Nat) : Str :=
  if h : n < 10 then [digitChar n] else showNat (n / 10) ++ [digitChar (n % 10)]
termination_by n
decreasing_by omega

def showInt (i : Int) : Str :=
  match i with
  | .ofNat n => showNat n
  | .negSucc n => '-' :: showNat (n + 1)

end Ioflo.Literal
