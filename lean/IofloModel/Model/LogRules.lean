/-!
# E-log / LogRules — model of `ioflo/base/logging.py` `Log` rules and the `Logger` runner

Transcription (oddities included) of

* `Log.reopen / close / prepare / buildHeader / log / logStreak / logDeck`
* `Log.never / once / always / update / change / streak / deck`
* `Logger.reopen / prepare / log / close` and the START / RUN / STOP / READY / ABORT branches of
  `Logger.makeRunner`

for loggers that do not rotate (`keep = 0`; rotation and flushing are `Model/Rotate.lean`, C23).

Conventions
* store / share / log stamps are `Option Int` (`none` = Python `None`); the driver and the
  harness use units of 1/8 s so that every stamp is an exactly representable float.
* share data are association lists in insertion order (`odict`); deleting a field is not an
  operation of the histories (the property speaks of share writes).
* values are atoms, tuples of atoms, lists (of atoms, tuples, lists) and string-keyed mappings of
  atoms; Python `!=` is `Val.pyEq` (`True == 1`, mappings compare without order).
  Lists are held *by value*.  This is the behaviour of the code **with the fix patches**
  `fixes/D52-log-change-alias.patch` (the change rule keeps `copy.copy` of the last value instead of
  an alias of the share's list object), `fixes/D51-log-change-restart.patch` (`prepare` rebuilds
  `.lasts` only before the first record), D53 (`reopen` treats an existing empty file as new) and
  D54 (`fmt % (value, )`: a tuple-valued field is one value, as `logStreak` always did for its elements).  Without them the change rule misses in-place mutations
  and changes made while the logger is stopped.
* a Python exception is never a defaulted value: every transcribed method returns the state
  reached when the exception was raised together with `some err`.
-/
namespace Ioflo.LogRules

/-! ## Python values -/

inductive Atom where
  | none
  | bool (b : Bool)
  | int (i : Int)
  | str (s : String)
deriving DecidableEq, Repr, Inhabited

/-- what a list (queue) holds: an atom, a tuple of atoms or a list of atoms -/
inductive Elem where
  | atom (a : Atom)
  | tuple (l : List Atom)
  | list (l : List Atom)
deriving DecidableEq, Repr, Inhabited

/-- a field value: an atom, a tuple of atoms, a list of elements (nested lists, lists of tuples),
or a mapping from strings to atoms (`dict`, or ioflo's `odict` when `ordered`; the two differ only
in how they print) -/
inductive Val where
  | atom (a : Atom)
  | tuple (l : List Atom)
  /-- a `list`, or a `collections.deque` when `dq` (the two differ in how they print and never compare equal) -/
  | list (dq : Bool) (l : List Elem)
  | dict (ordered : Bool) (d : List (String × Atom))
deriving DecidableEq, Repr, Inhabited

/-- an element as a value of its own (what `'%s' % (element,)` prints) -/
def Elem.toVal : Elem → Val
  | .atom a => .atom a
  | .tuple l => .tuple l
  | .list l => .list false (l.map .atom)

/-- numeric reading of an atom (`True == 1`, `False == 0`) -/
def Atom.num : Atom → Option Int
  | .bool b => some (if b then 1 else 0)
  | .int i => some i
  | _ => Option.none

/-- Python `a == b` on atoms -/
def Atom.pyEq (a b : Atom) : Bool :=
  match a.num, b.num with
  | some x, some y => x == y
  | Option.none, Option.none => a == b
  | _, _ => false

def pyEqList : List Atom → List Atom → Bool
  | [], [] => true
  | a :: as, b :: bs => a.pyEq b && pyEqList as bs
  | _, _ => false

def Elem.pyEq : Elem → Elem → Bool
  | .atom a, .atom b => a.pyEq b
  | .tuple a, .tuple b => pyEqList a b
  | .list a, .list b => pyEqList a b
  | _, _ => false

def pyEqElems : List Elem → List Elem → Bool
  | [], [] => true
  | a :: as, b :: bs => a.pyEq b && pyEqElems as bs
  | _, _ => false

/-! ## ordered dictionaries -/

abbrev Dict (α : Type) := List (String × α)

def dget {α : Type} : Dict α → String → Option α
  | [], _ => none
  | (k, v) :: rest, key => if k = key then some v else dget rest key

/-- `d[key] = v`: replace in place, or append at the end -/
def dset {α : Type} : Dict α → String → α → Dict α
  | [], key, v => [(key, v)]
  | (k, x) :: rest, key, v => if k = key then (k, v) :: rest else (k, x) :: dset rest key v

def dkeys {α : Type} (d : Dict α) : List String := d.map (·.1)

/-- every key of `a` is a key of `b` with an equal value -/
def dictLe (a b : Dict Atom) : Bool :=
  (dkeys a).all fun k =>
    match dget a k, dget b k with
    | some x, some y => x.pyEq y
    | _, _ => false

/-- Python `a == b` on mappings: the same keys with equal values, in any order
(`odict == dict` compares as `dict`) -/
def pyEqDict (a b : Dict Atom) : Bool := dictLe a b && dictLe b a

/-- Python `a == b` on the modelled values (values of different kinds are never equal) -/
def Val.pyEq : Val → Val → Bool
  | .atom a, .atom b => a.pyEq b
  | .tuple a, .tuple b => pyEqList a b
  | .list x a, .list y b => x == y && pyEqElems a b
  | .dict _ a, .dict _ b => pyEqDict a b
  | _, _ => false

/-! ## store and shares -/

/-- a deck entry: a mapping (logged) or anything else (dropped by `logDeck`) -/
inductive Entry where
  | map (m : Dict Val)
  | other (e : Elem)
deriving DecidableEq, Repr, Inhabited

structure Share where
  stamp : Option Int := none
  data : Dict Val := []
  deck : List Entry := []
deriving Repr, Inhabited

/-- a reference to a container object that a producer took once (`queue = share[f]`) and keeps
using.  Values are modelled by value; object identity is modelled by `orphan`: the reference is
*live* (the object IS the field's value) while `orphan = none`; when the field is rebound to
another object (`share[f] = v`) the reference keeps the old object, whose contents the logger can
no longer see. -/
structure Held where
  sid : Nat
  f : String
  /-- `some contents` once the field has been rebound -/
  orphan : Option Val := none
  /-- which orphaned object: references that were live on the same field when it was rebound name
  the same object (meaningful only with `orphan = some _`) -/
  grp : Nat := 0
  /-- the field held no list / mapping when the reference was taken: it is never used -/
  void : Bool := false
deriving DecidableEq, Repr, Inhabited

def Held.live (h : Held) : Bool := !h.void && h.orphan.isNone

structure World where
  stamp : Option Int := none
  shares : Nat → Share := fun _ => {}
  /-- the references producers hold, in the order they were taken -/
  held : List Held := []
  /-- number of objects orphaned so far (names the next one) -/
  nobj : Nat := 0

def World.setShare (w : World) (i : Nat) (s : Share) : World :=
  { w with shares := fun j => if j = i then s else w.shares j }

/-- writer-side operations of a history -/
inductive WOp where
  /-- `store.changeStamp(t)` -/
  | setStamp (t : Option Int)
  /-- `store.advanceStamp(d)`; with a `None` stamp nothing changes (the `TypeError` goes to the writer) -/
  | advance (d : Nat)
  /-- `share.update(f=v)`: sets the field and stamps the share with the store stamp -/
  | write (s : Nat) (f : String) (v : Val)
  /-- `share.change(f=v)` / `share[f] = v`: sets the field, no stamp -/
  | poke (s : Nat) (f : String) (v : Val)
  /-- `share[f].append(e)` when the field holds a list (otherwise the writer does nothing) -/
  | append (s : Nat) (f : String) (e : Elem)
  /-- `share[f][k] = a` when the field holds a mapping (otherwise the writer does nothing) -/
  | setitem (s : Nat) (f : String) (k : String) (a : Atom)
  /-- `share.push(e)` onto the share's deck -/
  | push (s : Nat) (e : Entry)
  /-- `ref = share[f]`: the producer takes the container object once -/
  | hold (s : Nat) (f : String)
  /-- `ref.append(e)` through the `i`-th held reference -/
  | happend (i : Nat) (e : Elem)
  /-- `ref[k] = a` through the `i`-th held reference -/
  | hsetitem (i : Nat) (k : String) (a : Atom)
  /-- `dk.append(e)` through a held `dk = share.deck` (nothing ever rebinds `.deck`, so this is `push`) -/
  | hpush (s : Nat) (e : Entry)
deriving Repr

/-- field `f` of share `s` is bound to another object: the live references to the old object keep it -/
def World.rebind (w : World) (s : Nat) (f : String) : World :=
  { w with nobj := w.nobj + 1,
           held := w.held.map fun h =>
      if h.sid = s ∧ h.f = f ∧ h.live = true then
        { h with orphan := some ((dget (w.shares s).data f).getD (.atom .none)), grp := w.nobj }
      else h }

/-- in-place `share[f].append(e)` (a list in the field; otherwise nothing) -/
def World.appendTo (w : World) (s : Nat) (f : String) (e : Elem) : World :=
  let sh := w.shares s
  match dget sh.data f with
  | some (.list dq l) => w.setShare s { sh with data := dset sh.data f (.list dq (l ++ [e])) }
  | _ => w

/-- in-place `share[f][k] = a` (a mapping in the field; otherwise nothing) -/
def World.setitemTo (w : World) (s : Nat) (f : String) (k : String) (a : Atom) : World :=
  let sh := w.shares s
  match dget sh.data f with
  | some (.dict o d) => w.setShare s { sh with data := dset sh.data f (.dict o (dset d k a)) }
  | _ => w

/-- a mutation through the `i`-th held reference: on the field's own value while the reference is
live, on the orphaned object otherwise -/
def World.viaHeld (w : World) (i : Nat) (live : Held → World) (dead : Val → Val) : World :=
  match w.held[i]? with
  | none => w
  | some h =>
    if h.void then w else
    match h.orphan with
    | none => live h
    | some v =>     -- every reference to that orphaned object sees the mutation
      { w with held := w.held.map fun h' =>
          if h'.orphan.isSome ∧ h'.grp = h.grp then { h' with orphan := some (dead v) } else h' }

def World.apply (w : World) : WOp → World
  | .setStamp t => { w with stamp := t }
  | .advance d => { w with stamp := w.stamp.map (· + (d : Int)) }
  | .write s f v =>
    let sh := w.shares s
    (w.rebind s f).setShare s { sh with data := dset sh.data f v, stamp := w.stamp }
  | .poke s f v =>
    let sh := w.shares s
    (w.rebind s f).setShare s { sh with data := dset sh.data f v }
  | .append s f e => w.appendTo s f e
  | .setitem s f k a => w.setitemTo s f k a
  | .push s e =>
    let sh := w.shares s
    w.setShare s { sh with deck := sh.deck ++ [e] }
  | .hold s f =>
    match dget (w.shares s).data f with
    | some (.list _ _) => { w with held := w.held ++ [{ sid := s, f := f }] }
    | some (.dict _ _) => { w with held := w.held ++ [{ sid := s, f := f }] }
    | _ => { w with held := w.held ++ [{ sid := s, f := f, void := true }] }
  | .happend i e =>
    w.viaHeld i (fun h => w.appendTo h.sid h.f e)
      fun v => match v with | .list dq l => .list dq (l ++ [e]) | v => v
  | .hsetitem i k a =>
    w.viaHeld i (fun h => w.setitemTo h.sid h.f k a)
      fun v => match v with | .dict o d => .dict o (dset d k a) | v => v
  | .hpush s e =>
    let sh := w.shares s
    w.setShare s { sh with deck := sh.deck ++ [e] }

/-! ## log files -/

inductive Rule where
  | never | once | always | update | change | streak | deck
deriving DecidableEq, Repr, Inhabited

/-- one record line: the stamp and one cell per logged column (`none` = field absent: bare tab) -/
structure Rec where
  stamp : Option Int
  cells : List (Option Val)
deriving DecidableEq, Repr, Inhabited

inductive Line where
  /-- the two header lines `kind rule base` / `_time col …` -/
  | header (rule : Rule) (base : String) (cols : List String)
  | record (r : Rec)
  /-- a line that was in the file before this logger opened it -/
  | raw (s : String)
deriving DecidableEq, Repr, Inhabited

inductive Err where
  | attributeError   -- `self.file.write` with `self.file = None`
  | keyError         -- a dict lookup that the code does not guard
  | valueError       -- deck rule without field list
  | indexError       -- `self.loggees.items()[0]` on an empty odict
  | stopIteration    -- `runner.send` after the generator finished
deriving DecidableEq, Repr, Inhabited

structure Log where
  rule : Rule
  base : String := "log"
  /-- `.loggees`: tag ↦ share id -/
  loggees : Dict Nat := []
  /-- `.fields`: tag ↦ field names (mutated by `prepare`) -/
  fields : Dict (List String) := []
  /-- `.formats` without the `_time` entry: tag ↦ field names (every format string is `'\t%s'`) -/
  formats : Dict (List String) := []
  /-- `'_time' in self.formats` (set by `prepare`) -/
  timeFmt : Bool := false
  /-- `.lasts`: tag ↦ Data of last values (change rule) -/
  lasts : Dict (Dict Val) := []
  /-- `.stamp`: `None` until logged, then the store stamp of the last log -/
  stamp : Option Int := none
  first : Bool := true
  /-- `.header` as columns; `none` = the empty string of `__init__` -/
  header : Option (List String) := none
  /-- `.file is not None` -/
  isOpen : Bool := false
  /-- the file at `.path`: `none` = does not exist -/
  disk : Option (List Line) := none
deriving Repr, Inhabited

/-- `self.file.write(lines)`; `self.file is None` → `AttributeError` -/
def Log.write (l : Log) (ls : List Line) : Log × Option Err :=
  if l.isOpen then
    match l.disk with
    | some c => ({ l with disk := some (c ++ ls) }, none)
    | none => ({ l with disk := some ls }, none)   -- unreachable: an open file exists
  else (l, some .attributeError)

/-- `Log.reopen`: close, note whether the path exists *and is not empty* (fix D53: an existing but
still empty file is treated as new and gets its header), open for append (creating it) -/
def Log.reopen (l : Log) : Log :=
  match l.disk with
  | some (x :: c) => { l with first := false, isOpen := true, disk := some (x :: c) }
  | some [] => { l with isOpen := true, disk := some [] }
  | none => { l with isOpen := true, disk := some [] }

def Log.close (l : Log) : Log := { l with isOpen := false }

/-- columns of the second header line (`buildHeader`) -/
def headerCols (fields : Dict (List String)) : List String :=
  fields.flatMap fun (tag, fs) =>
    match fs with
    | _ :: _ :: _ => fs.map fun f => tag ++ "." ++ f
    | _ => [tag]

/-- default field lists: `if tag not in self.fields or not self.fields[tag]: all fields of loggee` -/
def defaultFields (w : World) : Dict Nat → Dict (List String) → Dict (List String)
  | [], fields => fields
  | (tag, sid) :: rest, fields =>
    let fields' :=
      match dget fields tag with
      | some (_ :: _) => fields
      | _ => dset fields tag (dkeys (w.shares sid).data)
    defaultFields w rest fields'

/-- `[(key, loggee[key]) for key in fields if key in loggee]` into a `Data` -/
def lastsOf (data : Dict Val) : List String → Dict Val
  | [] => []
  | f :: fs =>
    match dget data f with
    | some v => dset (lastsOf data fs) f v   -- order is irrelevant: `Data` is only read by key
    | none => lastsOf data fs

/-- `self.lasts` of `prepare` for the change rule; `self.loggees[tag]` may raise `KeyError` -/
def buildLasts (w : World) (loggees : Dict Nat) : Dict (List String) → Dict (Dict Val) × Option Err
  | [] => ([], none)
  | (tag, fs) :: rest =>
    match dget loggees tag with
    | none => ([], some .keyError)
    | some sid =>
      let (ls, e) := buildLasts w loggees rest
      (dset ls tag (lastsOf (w.shares sid).data fs), e)

/-- `Log.prepare` -/
def Log.prepare (w : World) (l : Log) : Log × Option Err :=
  -- deck rule: first loggee needs a field list
  let deckErr : Option Err :=
    if l.rule = .deck then
      match l.loggees with
      | [] => some .indexError
      | (tag, _) :: _ =>
        match dget l.fields tag with
        | some (_ :: _) => none
        | _ => some .valueError
    else none
  match deckErr with
  | some e => (l, some e)
  | none =>
  -- field lists
  let fieldsE : Dict (List String) × Option Err :=
    if l.rule = .streak then
      match l.loggees with
      | [] => (l.fields, some .indexError)
      | (tag, sid) :: _ =>
        match dget l.fields tag with
        | some (f :: _) => (dset l.fields tag [f], none)
        | _ => (dset l.fields tag ((dkeys (w.shares sid).data).take 1), none)
    else (defaultFields w l.loggees l.fields, none)
  match fieldsE with
  | (_, some e) => (l, some e)
  | (fields, none) =>
  let l := { l with fields := fields, formats := fields, timeFmt := true }
  -- last values for the change rule
  -- (fix D51: only before the first record, so that a restart keeps the last logged values)
  let lastsE : Dict (Dict Val) × Option Err :=
    if l.rule = .change ∧ (l.stamp = none ∨ l.lasts.isEmpty = true) then buildLasts w l.loggees fields
    else (l.lasts, none)
  match lastsE with
  | (_, some e) => (l, some e)
  | (lasts, none) =>
  let cols := headerCols fields
  let l := { l with lasts := lasts, header := some cols }
  if l.stamp = none ∧ l.first = true then l.write [.header l.rule l.base cols] else (l, none)

/-- cells of one tag in `Log.log`: `value` if `field in loggee` else a bare tab -/
def cellsOf (data : Dict Val) (fs : List String) : List (Option Val) := fs.map (dget data)

/-- the cells of a record of `Log.log`; `self.formats[tag]` may raise `KeyError` -/
def recCells (w : World) (formats : Dict (List String)) : Dict Nat → List (Option Val) × Option Err
  | [] => ([], none)
  | (tag, sid) :: rest =>
    match dget formats tag with
    | none => ([], some .keyError)
    | some fs =>
      let (cs, e) := recCells w formats rest
      (cellsOf (w.shares sid).data fs ++ cs, e)

/-- `Log.log`: one record of all loggees at the store stamp -/
def Log.log (w : World) (l : Log) : Log × Option Err :=
  let l := { l with stamp := w.stamp }
  if !l.timeFmt then (l, some .keyError) else     -- `self.formats['_time']`
  match recCells w l.formats l.loggees with
  | (_, some e) => (l, some e)
  | (cells, none) => l.write [.record ⟨w.stamp, cells⟩]

/-- `Log.update`'s loop: `loggee.stamp is not None and loggee.stamp > self.stamp` -/
def anyNewer (w : World) (ls : Int) (loggees : Dict Nat) : Bool :=
  loggees.any fun (_, sid) =>
    match (w.shares sid).stamp with
    | some t => decide (t > ls)
    | none => false

/-- the inner `for field in fields` of `Log.change` for one tag.  Returns `(change, last)`;
a `KeyError` (`loggee[field]` of a field that `last` has and the share lacks) abandons the
remaining fields of the tag and is swallowed. -/
def changeFields (data : Dict Val) : Dict Val → List String → Bool × Dict Val
  | last, [] => (false, last)
  | last, f :: fs =>
    match dget last f with
    | none =>
      match dget data f with
      | some v => (true, (changeFields data (dset last f v) fs).2)
      | none => changeFields data last fs
    | some lv =>
      match dget data f with
      | none => (false, last)
      | some v =>
        if v.pyEq lv then changeFields data last fs
        else (true, (changeFields data (dset last f v) fs).2)

/-- the outer `for tag, fields in self.fields.items()` of `Log.change` -/
def changeTags (w : World) (loggees : Dict Nat) :
    Dict (Dict Val) → Dict (List String) → Bool × Dict (Dict Val) × Option Err
  | lasts, [] => (false, lasts, none)
  | lasts, (tag, fs) :: rest =>
    match dget lasts tag with
    | none => (false, lasts, some .keyError)
    | some last =>
      match dget loggees tag with
      | none => (false, lasts, some .keyError)
      | some sid =>
        let (c, last') := changeFields (w.shares sid).data last fs
        let (c', lasts', e) := changeTags w loggees (dset lasts tag last') rest
        (c || c', lasts', e)

/-- records of `logStreak` for a drained list: one per element, `fmt % (element, )` -/
def streakRecs (stamp : Option Int) (q : List Elem) : List Line :=
  q.map fun e => .record ⟨stamp, [some e.toVal]⟩

/-- what `popitem()` until empty + `appendleft` leaves in the deque: the `(key, value)` tuples in
insertion order -/
def dictItems (d : Dict Atom) : List Elem := d.map fun (k, v) => .tuple [.str k, v]

/-- `Log.logStreak` -/
def Log.logStreak (w : World) (l : Log) : World × Log × Option Err :=
  let l := { l with stamp := w.stamp }
  match l.loggees with
  | [] => (w, l, none)
  | (tag, sid) :: _ =>
    let sh := w.shares sid
    match sh.data with
    | [] => (w, l, none)                     -- `if loggee:` false
    | (k0, _) :: _ =>
      match dget l.fields tag with
      | none => (w, l, some .keyError)
      | some fs =>
        let fieldE : String × Option Err :=
          match fs with
          | [] => (k0, none)
          | f :: _ =>
            match dget l.formats tag with
            | none => (f, some .keyError)
            | some ffs => if f ∈ ffs then (f, none) else (f, some .keyError)
        match fieldE with
        | (_, some e) => (w, l, some e)
        | (field, none) =>
          match dget sh.data field with
          | none => (w, l, none)
          | some (.list dq q) =>            -- `MutableSequence` (list, deque): drained with `pop()`
            let w' := w.setShare sid { sh with data := dset sh.data field (.list dq []) }
            if !l.timeFmt && !q.isEmpty then (w', l, some .keyError) else   -- `self.formats['_time']`
            let (l', e) := l.write (streakRecs w.stamp q)
            (w', l', e)
          | some (.dict o d) =>                 -- `MutableMapping`: drained with `popitem()`
            let w' := w.setShare sid { sh with data := dset sh.data field (.dict o []) }
            if !l.timeFmt && !d.isEmpty then (w', l, some .keyError) else
            let (l', e) := l.write (streakRecs w.stamp (dictItems d))
            (w', l', e)
          | some v =>                           -- not a mutable sequence or mapping: logged as it is
            if !l.timeFmt then (w, l, some .keyError) else
            let (l', e) := l.write [.record ⟨w.stamp, [some v]⟩]
            (w, l', e)

/-- records of `logDeck` for the entries pulled from the deck (non-mappings are dropped) -/
def deckRecs (stamp : Option Int) (fs : List String) : List Entry → List Line
  | [] => []
  | .map m :: rest => .record ⟨stamp, fs.map fun f => dget m f⟩ :: deckRecs stamp fs rest
  | .other _ :: rest => deckRecs stamp fs rest

/-- `Log.logDeck` -/
def Log.logDeck (w : World) (l : Log) : World × Log × Option Err :=
  let l := { l with stamp := w.stamp }
  match l.loggees with
  | [] => (w, l, none)
  | (tag, sid) :: _ =>
    match dget l.fields tag with
    | none => (w, l, some .keyError)
    | some fs =>
      let sh := w.shares sid
      match sh.deck with
      | [] => (w, l, none)
      | d =>
        let w' := w.setShare sid { sh with deck := [] }
        -- `self.formats[tag][field]` is looked up only for a field present in a mapping entry
        let hasFmt : String → Bool := fun f =>
          match dget l.formats tag with
          | some ffs => decide (f ∈ ffs)
          | none => false
        let fmtOk : Bool := d.all fun e =>
          match e with
          | .map m => l.timeFmt && fs.all fun f => (dget m f).isNone || hasFmt f
          | .other _ => true
        if fmtOk then
          let (l', e) := l.write (deckRecs w.stamp fs d)
          (w', l', e)
        else (w', l, some .keyError)

/-- `Log.__call__`: the action assigned by `assignRuleAction` -/
def Log.act (w : World) (l : Log) : World × Log × Option Err :=
  match l.rule with
  | .never => (w, l, none)
  | .once =>
    if l.stamp = none then let (l', e) := l.log w; (w, l', e) else (w, l, none)
  | .always => let (l', e) := l.log w; (w, l', e)
  | .update =>
    match l.stamp with
    | none => let (l', e) := l.log w; (w, l', e)
    | some ls =>
      if anyNewer w ls l.loggees then let (l', e) := l.log w; (w, l', e) else (w, l, none)
  | .change =>
    if l.stamp = none then let (l', e) := l.log w; (w, l', e)
    else
      match changeTags w l.loggees l.lasts l.fields with
      | (_, lasts, some e) => (w, { l with lasts := lasts }, some e)
      | (c, lasts, none) =>
        let l := { l with lasts := lasts }
        if c then let (l', e) := l.log w; (w, l', e) else (w, l, none)
  | .streak => l.logStreak w
  | .deck => l.logDeck w

/-! ## the logger and its runner -/

inductive Status where
  | stopped | readied | started | running | aborted
deriving DecidableEq, Repr, Inhabited

inductive Ctl where
  | ready | start | run | stop | abort
deriving DecidableEq, Repr, Inhabited

inductive Op where
  | w (o : WOp)
  | ctl (c : Ctl)
deriving Repr

structure Sys where
  world : World := {}
  logs : List Log := []
  status : Status := .stopped
  /-- the runner generator has not finished -/
  alive : Bool := true

/-- `for log in self.logs: log()` — stops at the first exception, keeping what was done -/
def actAll : World → List Log → World × List Log × Option Err
  | w, [] => (w, [], none)
  | w, l :: ls =>
    match l.act w with
    | (w1, l1, some e) => (w1, l1 :: ls, some e)
    | (w1, l1, none) =>
      let (w2, ls2, e) := actAll w1 ls
      (w2, l1 :: ls2, e)

/-- `for log in self.logs: log.prepare()` -/
def prepareAll (w : World) : List Log → List Log × Option Err
  | [] => ([], none)
  | l :: ls =>
    match l.prepare w with
    | (l1, some e) => (l1 :: ls, some e)
    | (l1, none) =>
      let (ls2, e) := prepareAll w ls
      (l1 :: ls2, e)

/-- the `finally:` of the runner -/
def Sys.die (s : Sys) : Sys :=
  { s with logs := s.logs.map Log.close, status := .aborted, alive := false }

inductive Out where
  | ok
  | err (e : Err)
deriving DecidableEq, Repr, Inhabited

/-- `Logger.log` (without the flush / cycle timers, which do not change file contents when `keep = 0`) -/
def Sys.logAll (s : Sys) : Sys × Option Err :=
  let (w, ls, e) := actAll s.world s.logs
  ({ s with world := w, logs := ls }, e)

/-- `logger.runner.send(control)` -/
def Sys.send (s : Sys) (c : Ctl) : Sys × Out :=
  if !s.alive then (s, .err .stopIteration) else
  match c with
  | .run =>
    match s.logAll with
    | (s1, some e) => (s1.die, .err e)
    | (s1, none) => ({ s1 with status := .running }, .ok)
  | .ready => ({ s with status := .readied }, .ok)
  | .start =>
    let s0 := { s with logs := s.logs.map Log.reopen }
    match prepareAll s0.world s0.logs with
    | (ls, some e) => (({ s0 with logs := ls } : Sys).die, .err e)
    | (ls, none) =>
      match ({ s0 with logs := ls } : Sys).logAll with
      | (s1, some e) => (s1.die, .err e)
      | (s1, none) => ({ s1 with status := .started }, .ok)
  | .stop =>
    if s.status = .stopped then (s, .ok) else
    match s.logAll with
    | (s1, some e) => (s1.die, .err e)
    | (s1, none) => ({ s1 with logs := s1.logs.map Log.close, status := .stopped }, .ok)
  | .abort => ({ s with logs := s.logs.map Log.close, status := .aborted }, .ok)

def Sys.step (s : Sys) : Op → Sys × Out
  | .w o => ({ s with world := s.world.apply o }, .ok)
  | .ctl c => s.send c

def Sys.exec (s : Sys) : List Op → Sys
  | [] => s
  | op :: rest => Sys.exec (s.step op).1 rest

/-- the record lines of a file -/
def recsOf : List Line → List Rec
  | [] => []
  | .record r :: rest => r :: recsOf rest
  | _ :: rest => recsOf rest

/-! ## region of the known finding D12 -/

/-- this operation is a stamped write to a loggee of an update-rule log that has already logged
at the current store stamp ("late write": the update gets `share.stamp = log.stamp`) -/
def lateWriteOp (s : Sys) : Op → Bool
  | .w (.write sid _ _) =>
    s.logs.any fun l =>
      l.rule = .update && l.stamp.isSome && l.stamp == s.world.stamp && l.loggees.any (·.2 == sid)
  | _ => false

/-- the history contains a late write -/
def lateWrite : Sys → List Op → Bool
  | _, [] => false
  | s, op :: rest => lateWriteOp s op || lateWrite (s.step op).1 rest

/-! ## a logger with exactly one log

`S1` is `Sys` specialised to `logs = [log]` (`C22_single_log_refines` proves that `Sys.step` on
such a system is `S1.step`); the per-rule theorems are stated on it. -/

structure S1 where
  world : World := {}
  log : Log
  status : Status := .stopped
  alive : Bool := true

def S1.toSys (s : S1) : Sys := { world := s.world, logs := [s.log], status := s.status, alive := s.alive }

def S1.die (s : S1) : S1 := { s with log := s.log.close, status := .aborted, alive := false }

def S1.logRun (s : S1) : S1 × Option Err :=
  let (w, l, e) := s.log.act s.world
  ({ s with world := w, log := l }, e)

def S1.send (s : S1) (c : Ctl) : S1 × Out :=
  if !s.alive then (s, .err .stopIteration) else
  match c with
  | .run =>
    match s.logRun with
    | (s1, some e) => (s1.die, .err e)
    | (s1, none) => ({ s1 with status := .running }, .ok)
  | .ready => ({ s with status := .readied }, .ok)
  | .start =>
    match s.log.reopen.prepare s.world with
    | (l, some e) => (({ s with log := l } : S1).die, .err e)
    | (l, none) =>
      match ({ s with log := l } : S1).logRun with
      | (s1, some e) => (s1.die, .err e)
      | (s1, none) => ({ s1 with status := .started }, .ok)
  | .stop =>
    if s.status = .stopped then (s, .ok) else
    match s.logRun with
    | (s1, some e) => (s1.die, .err e)
    | (s1, none) => ({ s1 with log := s1.log.close, status := .stopped }, .ok)
  | .abort => ({ s with log := s.log.close, status := .aborted }, .ok)

def S1.step (s : S1) : Op → S1 × Out
  | .w o => ({ s with world := s.world.apply o }, .ok)
  | .ctl c => s.send c

def S1.exec (s : S1) : List Op → S1
  | [] => s
  | op :: rest => S1.exec (s.step op).1 rest

/-- lines of a file (`none`: the file does not exist) -/
def fileLines : Option (List Line) → List Line
  | none => []
  | some c => c

/-- the records in the log's file -/
def S1.recs (s : S1) : List Rec := recsOf (fileLines s.log.disk)

/-- static well-formedness of a log's configuration, as `Log.addLoggee` builds it: one field list
per loggee tag; streak and deck logs have a loggee, and the deck log's first loggee has a field
list (`prepare` raises `ValueError` otherwise). -/
def cfgOk (l : Log) : Bool :=
  dkeys l.fields == dkeys l.loggees &&
  (match l.rule with
   | .streak => !l.loggees.isEmpty
   | .deck =>
     match l.loggees with
     | [] => false
     | (tag, _) :: _ =>
       match dget l.fields tag with
       | some (_ :: _) => true
       | _ => false
   | _ => true)

/-! ## the runner protocol and the clock -/

/-- files are open in these states -/
def openSt (st : Status) : Bool := st == .started || st == .running

/-- RUN is sent only to a started / running logger, STOP only to a started / running / stopped one -/
def ctlOk (st : Status) : Ctl → Bool
  | .run => openSt st
  | .stop => openSt st || st == .stopped
  | _ => true

def nextSt (_st : Status) : Ctl → Status
  | .run => .running | .ready => .readied | .start => .started | .stop => .stopped | .abort => .aborted

/-- the history respects the runner protocol from status `st` -/
def proto : Status → List Op → Bool
  | _, [] => true
  | st, .w _ :: r => proto st r
  | st, .ctl c :: r => ctlOk st c && proto (nextSt st c) r

/-- does this control make the logger log (call every log's action)? -/
def isRun (st : Status) : Ctl → Bool
  | .run => true
  | .start => true
  | .stop => st != .stopped
  | _ => false

/-- number of logger runs in a history -/
def nRuns : Status → List Op → Nat
  | _, [] => 0
  | st, .w _ :: r => nRuns st r
  | st, .ctl c :: r => (if isRun st c then 1 else 0) + nRuns (nextSt st c) r

/-- the store stamp is numeric and never goes back: no `changeStamp` to `None` or to an earlier time -/
def timed : Option Int → List Op → Bool
  | none, _ => false
  | some _, [] => true
  | some t, .w (.setStamp (some t')) :: r => decide (t ≤ t') && timed (some t') r
  | some _, .w (.setStamp none) :: _ => false
  | some t, .w (.advance d) :: r => timed (some (t + d)) r
  | some t, _ :: r => timed (some t) r

/-! ## the idealised logger (specification of the update and change rules)

Same files, same `prepare`, same record format — but *when* to write a record is decided as the
property says it: with a dirty flag that every stamped write to a loggee sets (update), and by
comparing the logged fields with the values in the last record (change). -/

structure Ideal where
  s : S1
  /-- a record has been written -/
  logged : Bool := false
  /-- a loggee was updated after the last record -/
  dirty : Bool := false
  /-- the field values in the last record, by tag -/
  last : Dict (Dict Val) := []

/-- the logged fields of one tag with their current values (absent fields are left out) -/
def snapTag (data : Dict Val) : List String → Dict Val
  | [] => []
  | f :: fs =>
    match dget data f with
    | some v => dset (snapTag data fs) f v
    | none => snapTag data fs

/-- the values a record written now would show, by tag -/
def snapshot (w : World) (loggees : Dict Nat) : Dict (List String) → Dict (Dict Val)
  | [] => []
  | (tag, fs) :: rest =>
    match dget loggees tag with
    | some sid => dset (snapshot w loggees rest) tag (snapTag (w.shares sid).data fs)
    | none => snapshot w loggees rest

/-- two cells show different values (`None`-safe Python `!=`; an absent field differs from a present one) -/
def cellNe : Option Val → Option Val → Bool
  | none, none => false
  | some a, some b => !a.pyEq b
  | _, _ => true

def dgetD2 (d : Dict (Dict Val)) (tag f : String) : Option Val :=
  match dget d tag with
  | some m => dget m f
  | none => none

/-- the current cell of field `f` of the loggee at `tag` (`none`: no such field, or no such loggee) -/
def curCell (w : World) (loggees : Dict Nat) (tag f : String) : Option Val :=
  match dget loggees tag with
  | some sid => dget (w.shares sid).data f
  | none => none

/-- some logged field differs from its value in the last record -/
def differs (w : World) (loggees : Dict Nat) (last : Dict (Dict Val)) (fields : Dict (List String)) : Bool :=
  fields.any fun (tag, fs) => fs.any fun f => cellNe (curCell w loggees tag f) (dgetD2 last tag f)

/-- the ideal decision: write a record now? -/
def Ideal.wants (i : Ideal) : Bool :=
  match i.s.log.rule with
  | .update => !i.logged || i.dirty
  | .change => !i.logged || differs i.s.world i.s.log.loggees i.last i.s.log.fields
  | _ => false

/-- one run of the ideal log (update / change rules; the other rules run the code's action) -/
def Ideal.logRun (i : Ideal) : Ideal × Option Err :=
  match i.s.log.rule with
  | .update | .change =>
    if i.wants then
      let (l, e) := i.s.log.log i.s.world
      ({ i with s := { i.s with log := l }, logged := true, dirty := false,
                last := snapshot i.s.world i.s.log.loggees i.s.log.fields }, e)
    else (i, none)
  | _ =>
    let (s1, e) := i.s.logRun
    ({ i with s := s1 }, e)

def Ideal.die (i : Ideal) : Ideal := { i with s := i.s.die }

def Ideal.send (i : Ideal) (c : Ctl) : Ideal × Out :=
  if !i.s.alive then (i, .err .stopIteration) else
  match c with
  | .run =>
    match i.logRun with
    | (i1, some e) => (i1.die, .err e)
    | (i1, none) => ({ i1 with s := { i1.s with status := .running } }, .ok)
  | .ready => ({ i with s := { i.s with status := .readied } }, .ok)
  | .start =>
    match i.s.log.reopen.prepare i.s.world with
    | (l, some e) => (({ i with s := { i.s with log := l } } : Ideal).die, .err e)
    | (l, none) =>
      match ({ i with s := { i.s with log := l } } : Ideal).logRun with
      | (i1, some e) => (i1.die, .err e)
      | (i1, none) => ({ i1 with s := { i1.s with status := .started } }, .ok)
  | .stop =>
    if i.s.status = .stopped then (i, .ok) else
    match i.logRun with
    | (i1, some e) => (i1.die, .err e)
    | (i1, none) => ({ i1 with s := { i1.s with log := i1.s.log.close, status := .stopped } }, .ok)
  | .abort => ({ i with s := { i.s with log := i.s.log.close, status := .aborted } }, .ok)

/-- is this a stamped write to a loggee of the log? -/
def touches (l : Log) : WOp → Bool
  | .write sid _ _ => l.loggees.any (·.2 == sid)
  | _ => false

def Ideal.step (i : Ideal) : Op → Ideal × Out
  | .w o => ({ i with s := { i.s with world := i.s.world.apply o },
                      dirty := i.dirty || touches i.s.log o }, .ok)
  | .ctl c => i.send c

def Ideal.exec (i : Ideal) : List Op → Ideal
  | [] => i
  | op :: rest => Ideal.exec (i.step op).1 rest

/-- late write (region of D12) for a single log -/
def lateWrite1 (s : S1) : List Op → Bool := lateWrite s.toSys

/-! ## vocabulary of the streak / deck theorems -/

/-- the cells a deck log with field list `fs` writes for a queue of entries (non-mappings are dropped) -/
def entryCells (fs : List String) : List Entry → List (List (Option Val))
  | [] => []
  | .map m :: rest => (fs.map fun f => dget m f) :: entryCells fs rest
  | .other _ :: rest => entryCells fs rest

/-- the entries pushed onto the deck of share `sid` by a history, in order -/
def pushed (sid : Nat) : List Op → List Entry
  | [] => []
  | .w (.push s e) :: rest => if s = sid then e :: pushed sid rest else pushed sid rest
  | .w (.hpush s e) :: rest => if s = sid then e :: pushed sid rest else pushed sid rest
  | _ :: rest => pushed sid rest

/-- what one operation queues onto the list in field `q` of share `sid`: an `append` through the
share, or an `append` through a held reference that is live (the object it names is the field's
value) -/
def queuedBy (w : World) (sid : Nat) (q : String) : Op → List Elem
  | .w (.append s f e) => if s = sid ∧ f = q then [e] else []
  | .w (.happend i e) =>
    match w.held[i]? with
    | some h => if h.live = true ∧ h.sid = sid ∧ h.f = q then [e] else []
    | none => []
  | _ => []

/-- the elements queued by a history that starts in `s`, in order, through either path -/
def queued (s : S1) (sid : Nat) (q : String) : List Op → List Elem
  | [] => []
  | op :: rest => queuedBy s.world sid q op ++ queued (s.step op).1 sid q rest

/-- the item assignment one operation makes on the mapping in field `q` of share `sid`:
`share[q][k] = a` through the share, or `ref[k] = a` through a live reference to that mapping -/
def assignedBy (w : World) (sid : Nat) (q : String) : Op → Option (String × Atom)
  | .w (.setitem s f k a) => if s = sid ∧ f = q then some (k, a) else none
  | .w (.hsetitem i k a) =>
    match w.held[i]? with
    | some h => if h.live = true ∧ h.sid = sid ∧ h.f = q then some (k, a) else none
    | none => none
  | _ => none

/-- the mapping queue as the property sees it, over a history that starts in `s` with `d` waiting:
an item assignment queues the item behind the waiting ones (a new key) or replaces the value of a
waiting one in place; a logger run logs every waiting item in insertion order and leaves none.
Returns (the items logged, in order; the items still waiting). -/
def mapQueue (s : S1) (sid : Nat) (q : String) : Dict Atom → List Op → List Elem × Dict Atom
  | d, [] => ([], d)
  | d, .w o :: rest =>
    mapQueue (s.step (.w o)).1 sid q
      (match assignedBy s.world sid q (.w o) with | some (k, a) => dset d k a | none => d) rest
  | d, .ctl c :: rest =>
    if isRun s.status c then
      let r := mapQueue (s.step (.ctl c)).1 sid q [] rest
      (dictItems d ++ r.1, r.2)
    else mapQueue (s.step (.ctl c)).1 sid q d rest

/-- every (non-void) reference to field `q` of share `sid` is live: the object the producer holds
IS the field's value -/
def refsLive (w : World) (sid : Nat) (q : String) : Prop :=
  ∀ h ∈ w.held, h.sid = sid → h.f = q → h.orphan = none

/-- no operation of the history replaces field `q` of share `sid` (`write` / `poke`) -/
def noOverwrite (sid : Nat) (q : String) : List Op → Bool
  | [] => true
  | .w (.write s f _) :: rest => !(s == sid && f == q) && noOverwrite sid q rest
  | .w (.poke s f _) :: rest => !(s == sid && f == q) && noOverwrite sid q rest
  | _ :: rest => noOverwrite sid q rest

/-- the elements waiting in the queue field -/
def pending (w : World) (sid : Nat) (q : String) : List Elem :=
  match dget (w.shares sid).data q with
  | some (.list _ l) => l
  | _ => []

end Ioflo.LogRules
