/-
Model for C20 — `is updated` / `is changed` needs and their markers.

Transcribed from
  ioflo/base/storing.py   Mark (stamp, data, used), Share.update / Share.change (stamp or no stamp)
  ioflo/base/acting.py    MarkerUpdate.action, MarkerChange.action, Transiter.action (order: needs,
                          tracts, exits, enters, activate)
  ioflo/base/needing.py   NeedUpdate.action, NeedChange.action, NeedMarker._resolve (placement of the
                          marker acts: one tract per need on the need's transition, one de-duplicated
                          enact inserted FIRST in the named frame when an `in frame` clause is present)
  ioflo/base/framing.py   Framer.enterAll / segue / recur, Frame.enter / precur / exit
                          Framer.checkEnter / Frame.checkEnter (entry needs `let me if …`)
                          Frame.traceOutline, Framer.ExEn
                          (a single framer whose frames may be nested with `in`, no auxiliaries)

Time is the store stamp.  The code only ever compares stamps that were copied from `store.stamp`
(`>`, `==`, `!=`), so time is modelled by the tick index (`Nat`); the order is all that matters.
Core Lean only (the driver links this file).
-/
namespace Ioflo.Marks

/-! ## Python values that FloScript literals can put into a share field -/

/-- `flt m e` is the float `m / 2^e` (every finite binary64 is of this form). -/
inductive PyVal where
  | none
  | bool (b : Bool)
  | int (i : Int)
  | flt (m : Int) (e : Nat)
  | str (s : String)
deriving DecidableEq, Repr, Inhabited

/-- numeric view `m / 2^e` of `bool`, `int`, `float` (Python: `True == 1 == 1.0`). -/
def PyVal.num? : PyVal → Option (Int × Nat)
  | .bool b => some (if b then 1 else 0, 0)
  | .int i => some (i, 0)
  | .flt m e => some (m, e)
  | _ => Option.none

/-- Python `==` on these values (no NaN). -/
def pyEq (a b : PyVal) : Bool :=
  match a, b with
  | .none, .none => true
  | .str s, .str t => s == t
  | a, b =>
    match a.num?, b.num? with
    | some (m, e), some (n, f) => m * 2 ^ f == n * 2 ^ e
    | _, _ => false

/-- a share's data record: `odict` of field → value, insertion ordered. -/
abbrev Fields := List (String × PyVal)

/-- `setattr(data, k, v)`: existing key keeps its place, new key is appended. -/
def setField : Fields → String → PyVal → Fields
  | [], k, v => [(k, v)]
  | (k', v') :: r, k, v => if k' = k then (k', v) :: r else (k', v') :: setField r k v

/-- `for k, v in a.items(): setattr(self._data, k, v)` -/
def setFields (d : Fields) (fs : Fields) : Fields :=
  fs.foldl (fun d kv => setField d kv.1 kv.2) d

/-! ## Share, Mark, the two markers and the two needs -/

structure Share where
  stamp : Option Nat := none
  data : Fields := []
deriving DecidableEq, Repr, Inhabited

/-- `storing.Mark`: all three slots start as `None`. -/
structure Mark where
  stamp : Option Nat := none
  used : Option Nat := none
  data : Option Fields := none
deriving DecidableEq, Repr, Inhabited

/-- `Share.update(**fields)`: change the fields, then `stamp = store.stamp`. -/
def Share.update (sh : Share) (now : Nat) (fs : Fields) : Share :=
  { stamp := some now, data := setFields sh.data fs }

/-- `Share.change(**fields)`: change the fields, stamp untouched. -/
def Share.change (sh : Share) (fs : Fields) : Share :=
  { sh with data := setFields sh.data fs }

/-- `MarkerUpdate.action`: `mark.stamp = store.stamp`; in the transit sub-context also
`mark.used = mark.stamp`. -/
def markerUpdate (transit : Bool) (now : Nat) (m : Mark) : Mark :=
  let m := { m with stamp := some now }
  if transit then { m with used := m.stamp } else m

/-- `MarkerChange.action`: `mark.data = Data(share.items())`. -/
def markerChange (sh : Share) (m : Mark) : Mark :=
  { m with data := some sh.data }

/-- `NeedUpdate.action` once the mark was found. -/
def needUpdate (sh : Share) (m : Mark) : Bool :=
  match sh.stamp with
  | none => false                                   -- `share.stamp is not None` fails
  | some s =>
    match m.stamp with
    | none => true                                  -- `mark.stamp is None`
    | some ms => decide (s > ms) || (s == ms && m.used != some ms)

/-- `getattr(mark.data, field) != value`, `AttributeError` ⇒ changed. -/
def fieldChanged (snap : Fields) (kv : String × PyVal) : Bool :=
  match snap.lookup kv.1 with
  | none => true
  | some w => !(pyEq w kv.2)

/-- `NeedChange.action` once the mark was found. -/
def needChange (sh : Share) (m : Mark) : Bool :=
  match m.data with
  | none => true
  | some snap => sh.data.any (fieldChanged snap)

/-! ## Histories of one (share, mark) pair — the form in which the property is stated -/

/-- what can happen to the stamp side: the share is updated at `t`, the mark is set at `t` by the
enact marker of the named frame (`entry`) or by the tract marker of a taken transition (`transit`). -/
inductive UEv where
  | upd (t : Nat)
  | entry (t : Nat)
  | transit (t : Nat)
deriving DecidableEq, Repr

def UEv.time : UEv → Nat
  | .upd t => t | .entry t => t | .transit t => t

/-- the part of (share, mark) that `is updated` reads -/
structure UState where
  sstamp : Option Nat := none
  mstamp : Option Nat := none
  mused : Option Nat := none
deriving DecidableEq, Repr

def UState.share (u : UState) : Share := { stamp := u.sstamp }
def UState.mark (u : UState) : Mark := { stamp := u.mstamp, used := u.mused }

def ustep (u : UState) : UEv → UState
  | .upd t => { u with sstamp := some t }
  | .entry t => { u with mstamp := some t }
  | .transit t => { u with mstamp := some t, mused := some t }

def urun (h : List UEv) : UState := h.foldl ustep {}

/-- what `is updated` answers after history `h` -/
def updatedAfter (h : List UEv) : Bool := needUpdate (urun h).share (urun h).mark

/-- what can happen to the data side: fields are written (stamped or not — it does not matter),
or the mark takes a snapshot (either marker). -/
inductive CEv where
  | write (fs : Fields)
  | snap
deriving DecidableEq, Repr

structure CState where
  data : Fields := []
  snap : Option Fields := none
deriving DecidableEq, Repr

def cstep (c : CState) : CEv → CState
  | .write fs => { c with data := setFields c.data fs }
  | .snap => { c with snap := some c.data }

def crun (init : Fields) (h : List CEv) : CState := h.foldl cstep { data := init }

def changedAfter (init : Fields) (h : List CEv) : Bool :=
  needChange { data := (crun init h).data } { data := (crun init h).snap }

/-! ## Program: one reader framer with a flat list of frames -/

inductive Kind where
  | update | change
deriving DecidableEq, Repr

/-- identity of a marker act: actor kind, share, key of the Mark in `share.marks` -/
structure MarkRef where
  kind : Kind
  share : Nat
  key : String
deriving DecidableEq, Repr

/-- the optional `in frame [name]` clause of a marker need -/
inductive Clause where
  | absent                -- no clause: only the tract marker
  | me                    -- `in frame` / `in frame me`
  | named (f : String)
deriving DecidableEq, Repr

/-- a marker need as the builder leaves it (`makeMarkerNeed`) -/
structure NeedSrc where
  kind : Kind
  neg : Bool              -- `not` prefix (Nact)
  share : Nat
  clause : Clause
  by_ : String            -- `by marker`, "" when absent
deriving DecidableEq, Repr

/-- far frame of `go` -/
inductive Far where
  | next | me | named (f : String)
deriving DecidableEq, Repr

structure TransSrc where
  far : Far
  needs : List NeedSrc
deriving DecidableEq, Repr

inductive Write where
  | put (share : Nat) (fs : Fields)       -- `put … into share` → Share.update
  | chg (share : Nat) (fs : Fields)       -- Share.change (no stamp)
deriving DecidableEq, Repr

/-- an entry need `let me if [not] field in share` (NeedBoolean, possibly under Nact) -/
structure Guard where
  neg : Bool
  share : Nat
  field : String
deriving DecidableEq, Repr

structure FrameSrc where
  name : String
  over : Option String       -- `frame name in over`
  guards : List Guard        -- beacts (`let me if [not] field in share`), in order
  gneeds : List NeedSrc      -- beacts that are marker needs (`let me if share is updated|changed …`)
  enter : List Write
  recur : List Write
  exit : List Write
  trans : List TransSrc
deriving DecidableEq, Repr

abbrev Program := List FrameSrc

/-! ### resolve (`Frame.resolve` → `Transiter._resolve` → `NeedMarker._resolve`) -/

structure Need where
  kind : Kind
  neg : Bool
  share : Nat
  key : String
deriving DecidableEq, Repr

def Need.ref (n : Need) : MarkRef := ⟨n.kind, n.share, n.key⟩

structure Trans where
  far : Nat
  needs : List Need
deriving DecidableEq, Repr

structure Frame where
  name : String
  over : Option Nat
  guards : List Guard
  gneeds : List Need
  enter : List Write
  recur : List Write
  exit : List Write
  trans : List Trans
deriving DecidableEq, Repr

/-- index of a frame name (`Frame.Names[name]`) -/
def frameIdx? (names : List String) (f : String) : Option Nat :=
  let i := names.idxOf f
  if i < names.length then some i else none

/-- marker enacts per frame (front of a list = first enact), and the Mark keys created so far -/
structure Placement where
  enacts : List (List MarkRef)
  keys : List (Nat × String)
deriving DecidableEq, Repr

def addKey (ks : List (Nat × String)) (k : Nat × String) : List (Nat × String) :=
  if k ∈ ks then ks else ks ++ [k]

/-- `frame.insertEnact(markerAct)` at index 0 unless an equal marker enact is already there -/
def insertEnact (en : List (List MarkRef)) (i : Nat) (r : MarkRef) : List (List MarkRef) :=
  en.modify i (fun l => if r ∈ l then l else r :: l)

inductive ResolveErr where
  | badFar | badNext | badNeedFrame | badOver
deriving DecidableEq, Repr

/-- the frame a need names: its own frame for no clause / `me`, else the named frame -/
def needFrame (names : List String) (home : Nat) : Clause → Except ResolveErr Nat
  | .absent => .ok home
  | .me => .ok home
  | .named f =>
    if f = "me" then .ok home else
    match frameIdx? names f with
    | some i => .ok i
    | none => .error .badNeedFrame

/-- `NeedMarker._resolve` -/
def resolveNeed (names : List String) (home : Nat) (pl : Placement) (n : NeedSrc) :
    Except ResolveErr (Need × Placement) := do
  let fi ← needFrame names home n.clause
  let key := if n.by_ ≠ "" then n.by_ else names.getD fi ""
  let need : Need := ⟨n.kind, n.neg, n.share, key⟩
  let keys := addKey pl.keys (n.share, key)
  let enacted := n.clause ≠ .absent
  let enacts := if enacted then insertEnact pl.enacts fi need.ref else pl.enacts
  return (need, ⟨enacts, keys⟩)

def resolveNeeds (names : List String) (home : Nat) :
    Placement → List NeedSrc → Except ResolveErr (List Need × Placement)
  | pl, [] => .ok ([], pl)
  | pl, n :: ns => do
    let (n', pl) ← resolveNeed names home pl n
    let (ns', pl) ← resolveNeeds names home pl ns
    return (n' :: ns', pl)

def resolveFar (names : List String) (home : Nat) : Far → Except ResolveErr Nat
  | .me => .ok home
  | .next => if home + 1 < names.length then .ok (home + 1) else .error .badNext
  | .named f =>
    match frameIdx? names f with
    | some i => .ok i
    | none => .error .badFar

def resolveTranss (names : List String) (home : Nat) :
    Placement → List TransSrc → Except ResolveErr (List Trans × Placement)
  | pl, [] => .ok ([], pl)
  | pl, t :: ts => do
    let far ← resolveFar names home t.far
    let (ns, pl) ← resolveNeeds names home pl t.needs
    let (ts', pl) ← resolveTranss names home pl ts
    return (⟨far, ns⟩ :: ts', pl)

/-- `Frame.resolveOverLinks` -/
def resolveOver (names : List String) : Option String → Except ResolveErr (Option Nat)
  | none => .ok none
  | some o =>
    match frameIdx? names o with
    | some j => .ok (some j)
    | none => .error .badOver

def resolveFrames (names : List String) :
    Nat → Placement → List FrameSrc → Except ResolveErr (List Frame × Placement)
  | _, pl, [] => .ok ([], pl)
  | i, pl, f :: fs => do
    -- `Frame.resolve`: the beacts first.  A marker need that is an entry need resolves like any other
    -- (`NeedMarker._resolve`: Mark created, enact marker inserted in the named frame when it has an
    -- `in frame` clause) but its tract marker stays on the need: no Transiter collects it, it never runs
    let (gn, pl) ← resolveNeeds names i pl f.gneeds
    let (ts, pl) ← resolveTranss names i pl f.trans
    let ov ← resolveOver names f.over
    let (fs', pl) ← resolveFrames names (i + 1) pl fs
    return (⟨f.name, ov, f.guards, gn, f.enter, f.recur, f.exit, ts⟩ :: fs', pl)

structure Resolved where
  frames : List Frame
  enacts : List (List MarkRef)
  keys : List (Nat × String)
deriving DecidableEq, Repr

def resolve (p : Program) : Except ResolveErr Resolved := do
  let names := p.map (·.name)
  let (fs, pl) ← resolveFrames names 0 ⟨p.map (fun _ => []), []⟩ p
  return ⟨fs, pl.enacts, pl.keys⟩

/-! ### run time -/

structure World where
  shares : List Share
  marks : List ((Nat × String) × Mark)
deriving DecidableEq, Repr

/-- the things acts do to the world -/
inductive Act where
  | write (w : Write)
  | marker (transit : Bool) (r : MarkRef)
deriving DecidableEq, Repr

def modifyMark (ms : List ((Nat × String) × Mark)) (k : Nat × String) (f : Mark → Mark) :
    List ((Nat × String) × Mark) :=
  ms.map (fun km => if km.1 = k then (km.1, f km.2) else km)

/-- one act at store time `now` -/
def applyAct (now : Nat) (w : World) : Act → World
  | .write (.put s fs) => { w with shares := w.shares.modify s (fun sh => sh.update now fs) }
  | .write (.chg s fs) => { w with shares := w.shares.modify s (fun sh => sh.change fs) }
  | .marker transit r =>
    -- `mark = share.marks.get(marker); if mark: …`
    match r.kind with
    | .update => { w with marks := modifyMark w.marks (r.share, r.key) (markerUpdate transit now) }
    | .change =>
      match w.shares[r.share]? with
      | some sh => { w with marks := modifyMark w.marks (r.share, r.key) (markerChange sh) }
      | none => w

def applyActs (now : Nat) (w : World) (as : List Act) : World := as.foldl (applyAct now) w

/-- a marker need called as a transition condition; a missing mark gives the default `False` -/
def evalNeed (w : World) (n : Need) : Bool :=
  let r :=
    match w.shares[n.share]?, w.marks.lookup (n.share, n.key) with
    | some sh, some m =>
      match n.kind with
      | .update => needUpdate sh m
      | .change => needChange sh m
    | _, _ => false
  if n.neg then !r else r

/-- `for act in needs: if not act(): return None` -/
def evalNeeds (w : World) (ns : List Need) : Bool := ns.all (evalNeed w)

/-- Python truthiness of a field value (`if state[stateField]:`) -/
def truthy : PyVal → Bool
  | .none => false
  | .bool b => b
  | .int i => i != 0
  | .flt m _ => m != 0
  | .str s => s != ""

/-- an entry need: `NeedBoolean.action` (under `Nact` when negated).  The field always exists: the
need's `_resolve` creates it when missing and nothing removes fields. -/
def evalGuard (w : World) (g : Guard) : Bool :=
  let r :=
    match (w.shares[g.share]?).bind (fun sh => sh.data.lookup g.field) with
    | some v => truthy v
    | none => false
  if g.neg then !r else r

/-! #### outlines (`Frame.traceOutline`) and `Framer.ExEn` -/

def overOf (fr : List Frame) (i : Nat) : Option Nat := (fr[i]?).bind (·.over)

/-- root … `i` -/
def headOf (fr : List Frame) : Nat → Nat → List Nat
  | 0, i => [i]
  | fuel + 1, i =>
    match overOf fr i with
    | some o => headOf fr fuel o ++ [i]
    | none => [i]

/-- `frame.under`: the first declared frame whose over is `i` -/
def firstUnder (fr : List Frame) (i : Nat) : Option Nat :=
  (List.range fr.length).find? (fun j => overOf fr j == some i)

def tailOf (fr : List Frame) : Nat → Nat → List Nat
  | 0, _ => []
  | fuel + 1, i =>
    match firstUnder fr i with
    | some u => u :: tailOf fr fuel u
    | none => []

/-- the over frames down to `i`, then its primary under frames -/
def outline (fr : List Frame) (i : Nat) : List Nat := headOf fr fr.length i ++ tailOf fr fr.length i

def acyclic (fr : List Frame) : Bool :=
  (List.range fr.length).all (fun i => (headOf fr fr.length i).length ≤ fr.length)

/-- `Framer.ExEn(nears, far)`: from the first position where the active outline holds `far` itself or
differs from `far`'s outline: (exits of the active outline, enters of the far outline) -/
def exen : List Nat → List Nat → Nat → List Nat × List Nat
  | n :: ns, f :: fs, far => if n = far ∨ n ≠ f then (n :: ns, f :: fs) else exen ns fs far
  | _, _, _ => ([], [])

/-- `Framer.checkEnter(enters)`: not empty, and every entry need of every frame to enter holds -/
def enterOk (w : World) (frames : List Frame) (enters : List Nat) : Bool :=
  !enters.isEmpty && enters.all (fun j =>
    ((frames[j]?.map (·.guards)).getD []).all (evalGuard w) &&
    ((frames[j]?.map (·.gneeds)).getD []).all (evalNeed w))

/-- `Transiter.action` up to `checkEnter`: the needs hold and the frames to enter admit entry.  A
transition whose needs hold but which is refused returns `None` before its tract acts run: nothing
changes and the next transition is tried. -/
def admits (w : World) (frames : List Frame) (actives : List Nat) (t : Trans) : Bool :=
  evalNeeds w t.needs && enterOk w frames (exen actives (outline frames t.far) t.far).2

/-- `Frame.precur`: the first transition of one frame that is taken -/
def firstTrans (w : World) (frames : List Frame) (actives : List Nat) : List Trans → Option Trans
  | [] => none
  | t :: ts => if admits w frames actives t then some t else firstTrans w frames actives ts

/-- `Framer.segue`: `for frame in self.actives: if frame.precur(): return` -/
def firstOfOutline (w : World) (frames : List Frame) (actives : List Nat) : List Nat → Option Trans
  | [] => none
  | m :: ms =>
    match firstTrans w frames actives ((frames[m]?.map (·.trans)).getD []) with
    | some t => some t
    | none => firstOfOutline w frames actives ms

/-- `Frame.enter`: the enact markers (inserted first), then the frame's own enter acts -/
def enterActs (r : Resolved) (i : Nat) : List Act :=
  ((r.enacts.getD i []).map (Act.marker false)) ++
  ((r.frames[i]?.map (·.enter)).getD []).map Act.write

def exitActs (r : Resolved) (i : Nat) : List Act :=
  ((r.frames[i]?.map (·.exit)).getD []).map Act.write

def recurActs (r : Resolved) (actives : List Nat) : List Act :=
  actives.flatMap (fun i => ((r.frames[i]?.map (·.recur)).getD []).map Act.write)

/-- `Transiter.action` once it is taken: tracts, exits bottom-up, enters top-down -/
def fireActs (r : Resolved) (actives : List Nat) (t : Trans) : List Act :=
  let ee := exen actives (outline r.frames t.far) t.far
  (t.needs.map (fun n => Act.marker true n.ref)) ++ ee.1.reverse.flatMap (exitActs r) ++ ee.2.flatMap (enterActs r)

structure RState where
  world : World
  active : Nat
deriving DecidableEq, Repr

/-- acts of the reader framer in one tick and the frame it ends in; `entered` tells whether the
outline changed (forced re-entry included).  `first` = the START tick (`enterAll` then `recur`),
otherwise `segue` then `recur`. -/
def readerActs (r : Resolved) (first : Bool) (s : RState) : List Act × Nat × Bool :=
  if first then
    ((outline r.frames 0).flatMap (enterActs r) ++ recurActs r (outline r.frames 0), 0, true)
  else
    let actives := outline r.frames s.active
    match firstOfOutline s.world r.frames actives actives with
    | none => (recurActs r actives, s.active, false)
    | some t => (fireActs r actives t ++ recurActs r (outline r.frames t.far), t.far, true)

/-- one tick of the house at store time `now`: writer framer `wb` (before the reader in the tick
order), the reader, writer framer `wa` (after it).  Returns the new state, whether the reader
(re-)entered a frame, and the acts performed in order. -/
def tick (r : Resolved) (now : Nat) (first : Bool) (s : RState) (wb wa : List Write) :
    RState × Bool × List Act :=
  let w1 := applyActs now s.world (wb.map Act.write)
  let (ra, a, e) := readerActs r first { world := w1, active := s.active }
  let w2 := applyActs now w1 ra
  let w3 := applyActs now w2 (wa.map Act.write)
  ({ world := w3, active := a }, e, wb.map Act.write ++ ra ++ wa.map Act.write)

abbrev Schedule := List (List Write × List Write)

/-- the world when the skedder starts: shares hold their `init` data with stamp `None`
(the store stamp is `None` while building), every Mark created by resolve is fresh. -/
def initWorld (r : Resolved) (inits : List Fields) : World :=
  { shares := inits.map (fun d => { data := d }), marks := r.keys.map (fun k => (k, {})) }

/-- acts with the store time at which they ran -/
abbrev Log := List (Nat × Act)

def applyLog (w : World) (log : Log) : World := log.foldl (fun w ta => applyAct ta.1 w ta.2) w

/-- final state, observations per tick `(active frame, entered this tick)`, timed log of acts -/
def runTicks (r : Resolved) : Nat → Bool → RState → Schedule → RState × List (Nat × Bool) × Log
  | _, _, s, [] => (s, [], [])
  | now, first, s, (wb, wa) :: rest =>
    let (s', e, acts) := tick r now first s wb wa
    let (sf, obs, log) := runTicks r (now + 1) false s' rest
    (sf, (s'.active, e) :: obs, acts.map (fun a => (now, a)) ++ log)

def run (r : Resolved) (inits : List Fields) (sched : Schedule) : RState × List (Nat × Bool) × Log :=
  runTicks r 0 true { world := initWorld r inits, active := 0 } sched

end Ioflo.Marks
