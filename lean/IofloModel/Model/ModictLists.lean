import IofloModel.Model.Containers
/-
modict with its per-key value lists as OBJECTS: `lists` holds every list object created so far (identity =
index), a modict maps each key to the identity of its list.  Transcribes who creates a list and who appends to
which list in `modict.append` (`odict.setdefault(self, key, []).append(value)`), `replace`
(`odict.__setitem__(self, key, [value])`), `update(other modict)` / `copy()` / `modict(other)`
(`for k, v in other.iterallitems(): self.append(k, v)`), `del`, `pop*`, `clear`.  The value-level model
(`Model/Containers.lean` `MD`) cannot express two modicts sharing one list; this one can, and
`Props/C39.lean` proves they never do.  Core Lean only.
-/
namespace Ioflo.Containers.MLists

structure MH (K V : Type) where
  lists : List (List V)
  objs : List (List (K × Nat))
  deriving Repr

variable {K V : Type} [DecidableEq K]

def empty : MH K V := ⟨[], []⟩

/-- `lists[id].append(v)` -/
def pushTo (lists : List (List V)) (id : Nat) (v : V) : List (List V) :=
  match lists[id]? with
  | some l => lists.set id (l ++ [v])
  | none => lists

/-- `modict.append(key, value)` on object `i` -/
def append (h : MH K V) (i : Nat) (k : K) (v : V) : MH K V :=
  match h.objs[i]? with
  | none => h
  | some o =>
    match dget o k with
    | some id => { h with lists := pushTo h.lists id v }
    | none => { lists := h.lists ++ [[v]], objs := h.objs.set i (dset o k h.lists.length) }

/-- `modict.replace(key, value)`: a NEW one-element list is stored -/
def replace (h : MH K V) (i : Nat) (k : K) (v : V) : MH K V :=
  match h.objs[i]? with
  | none => h
  | some o => { lists := h.lists ++ [[v]], objs := h.objs.set i (dset o k h.lists.length) }

/-- `del m[key]` / `pop` / `poplist` / `popitem`: the key goes, the list object is left to its other holders -/
def remove (h : MH K V) (i : Nat) (k : K) : MH K V :=
  match h.objs[i]? with
  | none => h
  | some o => { h with objs := h.objs.set i (ddel o k) }

def clear (h : MH K V) (i : Nat) : MH K V :=
  match h.objs[i]? with
  | none => h
  | some _ => { h with objs := h.objs.set i [] }

/-- `other.iterallitems()` as a list -/
def allitems (h : MH K V) (j : Nat) : List (K × V) :=
  match h.objs[j]? with
  | none => []
  | some o => o.flatMap (fun p => match h.lists[p.2]? with | some l => l.map (fun v => (p.1, v)) | none => [])

/-- `self.update(pairs)`: `self.append(k, v)` for each -/
def update (h : MH K V) (i : Nat) (ps : List (K × V)) : MH K V := ps.foldl (fun h p => append h i p.1 p.2) h

/-- `m_i.update(m_j)` for another modict (`i ≠ j`; `m.update(m)` never returns) -/
def updateFrom (h : MH K V) (i j : Nat) : MH K V := if i = j then h else update h i (allitems h j)

/-- `modict(pairs)` -/
def new (h : MH K V) (ps : List (K × V)) : MH K V := update { h with objs := h.objs ++ [[]] } h.objs.length ps

/-- `m_j.copy()` / `modict(m_j)` / pickle round trip: a new modict filled by `append` from `m_j.iterallitems()` -/
def copy (h : MH K V) (j : Nat) : MH K V := new h (allitems h j)

/-- what modict `i` holds under `k` -/
def view (h : MH K V) (i : Nat) (k : K) : Option (List V) :=
  match h.objs[i]? with
  | none => none
  | some o => match dget o k with | some id => h.lists[id]? | none => none

def listitems (h : MH K V) (i : Nat) : List (K × List V) :=
  match h.objs[i]? with
  | none => []
  | some o => o.filterMap (fun p => (h.lists[p.2]?).map (fun l => (p.1, l)))

end Ioflo.Containers.MLists
