/-
Model of ioflo/base/needing.py `Need.Check`, `NeedDirect/NeedIndirect/NeedBoolean.action`,
ioflo/base/acting.py `Nact.__call__` (negation) and the need loop of `Transiter.action`
(conjunction), plus the way a frame re-evaluates its transitions every tick on the framer
clocks `elapsed` / `recurred`.

Python values (DESIGN §5.1): `None`, `bool`, numbers (int and float are one constructor — Python
compares and subtracts them by value).  Generic over the number type τ: exact rationals for the
theorems (DESIGN §5.2), Lean Float = IEEE binary64 = CPython float in the driver's second instantiation, `str` as its list of code
points (Python orders strings lexicographically by code point).  A `TypeError` that Python raises
is `none` of an `Option` inside `Check` (where the code catches it) and `Except.error` where it
propagates.

Core Lean only.
-/
namespace Ioflo.Need

inductive PyVal (τ : Type)
  | none
  | bool (b : Bool)
  | num (q : τ)
  | str (s : List Nat)
  deriving DecidableEq, Repr

inductive Err
  | typeError
  deriving DecidableEq, Repr

/-- the `comparison` string -/
inductive Cmp
  | eq | ne | lt | le | ge | gt
  | other          -- any other string
  deriving DecidableEq, Repr

section generic
variable {τ : Type} [Add τ] [Sub τ] [Neg τ] [Mul τ] [LT τ] [LE τ] [DecidableLT τ] [DecidableLE τ] [BEq τ]
  [OfNat τ 0] [OfNat τ 1]

/-- value of a Python number (`bool` is a subclass of `int`); `none` for `None` and `str` -/
def PyVal.toNum? : PyVal τ → Option τ
  | .bool b => some (if b then 1 else 0)
  | .num q => some q
  | _ => Option.none

/-- `abs(x)` -/
def qabs (x : τ) : τ := if x < 0 then -x else x

/-- lexicographic `<` on code point lists (Python `str.__lt__`) -/
def lexLt : List Nat → List Nat → Bool
  | [], [] => false
  | [], _ :: _ => true
  | _ :: _, [] => false
  | a :: as, b :: bs => if a < b then true else if b < a then false else lexLt as bs

/-- Python `a == b` on these values: never raises -/
def pyEq : PyVal τ → PyVal τ → Bool
  | .none, .none => true
  | .str a, .str b => decide (a = b)
  | a, b =>
    match a.toNum?, b.toNum? with
    | some x, some y => x == y
    | _, _ => false

/-- Python `a < b`: numbers with numbers, strings with strings, else `TypeError` -/
def pyLt? : PyVal τ → PyVal τ → Option Bool
  | .str a, .str b => some (lexLt a b)
  | a, b =>
    match a.toNum?, b.toNum? with
    | some x, some y => some (decide (x < y))
    | _, _ => Option.none

/-- Python `a <= b` -/
def pyLe? : PyVal τ → PyVal τ → Option Bool
  | .str a, .str b => some (!lexLt b a)
  | a, b =>
    match a.toNum?, b.toNum? with
    | some x, some y => some (decide (x ≤ y))
    | _, _ => Option.none

/-- the `try` body of `==`/`!=`:
`(goal - abs(tolerance)) <= state <= (goal + abs(tolerance))`; `none` = it raised `TypeError`
(`abs` of a non-number, `-` on a non-number goal, `<=` between a number and a non-number).
The chained comparison evaluates `goal + abs(tolerance)` only if the first half is true. -/
def window? (state goal tol : PyVal τ) : Option Bool :=
  match tol.toNum? with
  | Option.none => Option.none                -- abs(tolerance)
  | some t =>
    match goal.toNum? with
    | Option.none => Option.none              -- goal - …
    | some g =>
      match state.toNum? with
      | Option.none => Option.none            -- number <= str/None
      | some s =>
        if g - qabs t ≤ s then some (decide (s ≤ g + qabs t)) else some false

/-- `Need.Check(state, comparison, goal, tolerance)` -/
def check (state : PyVal τ) (c : Cmp) (goal tol : PyVal τ) : Except Err Bool :=
  match c with
  | .eq =>
    match window? state goal tol with
    | some r => .ok r
    | Option.none => .ok (pyEq goal state)          -- except TypeError: goal == state
  | .lt =>
    match pyLt? state goal with
    | some r => .ok r
    | Option.none => .error .typeError
  | .le =>
    match pyLe? state goal with
    | some r => .ok r
    | Option.none => .error .typeError
  | .ge =>                                        -- state >= goal  (Python reflects to goal <= state)
    match pyLe? goal state with
    | some r => .ok r
    | Option.none => .error .typeError
  | .gt =>
    match pyLt? goal state with
    | some r => .ok r
    | Option.none => .error .typeError
  | .ne =>
    match window? state goal tol with
    | some r => .ok (!r)
    | Option.none => .ok (!pyEq goal state)         -- except TypeError: goal != state
  | .other => .ok false

/-- `if state[stateField]:` -/
def truthy : PyVal τ → Bool
  | .none => false
  | .bool b => b
  | .num q => !(q == 0)
  | .str s => !s.isEmpty

/-! ### needs over a store -/

/-- the fields the needs read: key ↦ value.  Keys 0 and 1 are the framer clocks `elapsed`,
`recurred`. -/
abbrev Env (τ : Type) := List (Nat × PyVal τ)

/-- `share[field]`; `_resolve` creates a field that does not exist with `0.0` -/
def Env.get (e : Env τ) (k : Nat) : PyVal τ :=
  match e.lookup k with
  | some v => v
  | Option.none => .num 0

/-- a goal: a literal of the script (NeedDirect) or another share's field (NeedIndirect) -/
inductive Goal (τ : Type)
  | lit (v : PyVal τ)
  | ref (k : Nat)
  deriving DecidableEq, Repr

inductive Need (τ : Type)
  | boolean (state : Nat)                                   -- if state
  | compare (state : Nat) (c : Cmp) (goal : Goal τ) (tol : PyVal τ) -- if state <op> goal [+- tol]
  deriving DecidableEq, Repr

def Goal.val (e : Env τ) : Goal τ → PyVal τ
  | .lit v => v
  | .ref k => e.get k

/-- `actor.action(**parms)` -/
def Need.eval (e : Env τ) : Need τ → Except Err Bool
  | .boolean k => .ok (truthy (e.get k))
  | .compare k c g tol => check (e.get k) c (g.val e) tol

/-- `[not] need`: an `Act` or a `Nact` (`not actor(**parms)`) -/
structure Clause (τ : Type) where
  negate : Bool
  need : Need τ
  deriving DecidableEq, Repr

def Clause.eval (e : Env τ) (c : Clause τ) : Except Err Bool :=
  match c.need.eval e with
  | .ok r => .ok (if c.negate then !r else r)
  | .error x => .error x

/-- `for act in needs: if not act(): return None` … the transition is taken iff this is `true` -/
def evalAll (e : Env τ) : List (Clause τ) → Except Err Bool
  | [] => .ok true
  | c :: rest =>
    match c.eval e with
    | .error x => .error x
    | .ok false => .ok false
    | .ok true => evalAll e rest

/-! ### one frame, ticking -/

/-- outcome of sitting in a frame whose only conditional transition has needs `cs` -/
inductive Outcome
  | hit (tick : Nat)      -- transition taken at the `tick`-th evaluation (1-based)
  | miss                  -- not taken within the limit
  | raised (e : Err)
  deriving DecidableEq, Repr

/-- the clocks at the `j`-th evaluation after entering the frame -/
def natTo : Nat → τ
  | 0 => 0
  | n + 1 => natTo n + 1

def envAt (period : τ) (e : Env τ) (j : Nat) : Env τ :=
  (0, .num (period * natTo j)) :: (1, .num (natTo j)) :: e

/-- evaluations `j, j+1, …` while fuel lasts -/
def runFrom (period : τ) (e : Env τ) (cs : List (Clause τ)) : Nat → Nat → Outcome
  | 0, _ => .miss
  | fuel + 1, j =>
    match evalAll (envAt period e j) cs with
    | .error x => .raised x
    | .ok true => .hit j
    | .ok false => runFrom period e cs fuel (j + 1)

/-- evaluations 1 … limit -/
def runFrame (period : τ) (limit : Nat) (e : Env τ) (cs : List (Clause τ)) : Outcome :=
  runFrom period e cs limit 1

/-! ### an entry guard (`let [me] if …`) in front of a frame with one conditional transition -/

inductive GOutcome
  | blocked               -- the guard is false: the frame is never entered
  | hit | miss            -- entered; the transition's needs were true / false at its first evaluation
  | raised (e : Err)
  deriving DecidableEq, Repr

/-- `guard` = needs of `let me if …` (beacts, evaluated like a need list), `cs` = needs of the `go` -/
def runGuarded (e : Env τ) (guard cs : List (Clause τ)) : GOutcome :=
  match evalAll e guard with
  | .error x => .raised x
  | .ok false => .blocked
  | .ok true =>
    match evalAll e cs with
    | .error x => .raised x
    | .ok true => .hit
    | .ok false => .miss

end generic

end Ioflo.Need
