import IofloModel.Model.Containers
/-
Pointer-level model of ioflo/aid/osetting.py `oset`: the sentinel `end`, the cells `[key, prev, next]`
of the doubly linked list and the `map` from key to cell, exactly as `add`, `discard`, `__iter__`,
`__reversed__`, `pop`, `__len__`, `__contains__` manipulate them.  A cell is identified by its index in
`cells` (cell 0 is `end`); a cell that `discard` unlinks stays in `cells` as garbage, as an unreferenced
Python list would until collected.  `Model/Containers.lean` models an oset by the list of its keys in
link order; `Props/C39.lean` proves that this structure represents that list and that the methods agree.
Core Lean only.
-/
namespace Ioflo.Containers.Links

/-- one cell `[key, prev, next]`; the sentinel's key is `None` -/
structure Cell (K : Type) where
  key : Option K
  prev : Nat
  next : Nat
  deriving Repr, DecidableEq

structure LL (K : Type) where
  cells : List (Cell K)
  map : List (K × Nat)
  deriving Repr

variable {K : Type} [DecidableEq K]

/-- `oset()`: `end = []; end += [None, end, end]; map = {}` -/
def empty : LL K := ⟨[⟨none, 0, 0⟩], []⟩

def setNext (cells : List (Cell K)) (i n : Nat) : List (Cell K) :=
  match cells[i]? with
  | some c => cells.set i { c with next := n }
  | none => cells

def setPrev (cells : List (Cell K)) (i p : Nat) : List (Cell K) :=
  match cells[i]? with
  | some c => cells.set i { c with prev := p }
  | none => cells

/-- `oset.add`: `curr = end[1]; curr[2] = end[1] = self.map[key] = [key, curr, end]`
(the new cell is built first, then assigned left to right) -/
def add (s : LL K) (k : K) : LL K :=
  if dhas s.map k then s
  else
    match s.cells[0]? with
    | none => s
    | some e =>
      let curr := e.prev
      let n := s.cells.length
      let cells := s.cells ++ [⟨some k, curr, 0⟩]
      let cells := setNext cells curr n
      let cells := setPrev cells 0 n
      ⟨cells, dset s.map k n⟩

/-- `oset.discard`: `key, prev, next = self.map.pop(key); prev[2] = next; next[1] = prev` -/
def discard (s : LL K) (k : K) : LL K :=
  match dget s.map k with
  | none => s
  | some c =>
    match s.cells[c]? with
    | none => s
    | some cell =>
      let cells := setNext s.cells cell.prev cell.next
      let cells := setPrev cells cell.next cell.prev
      ⟨cells, ddel s.map k⟩

/-- `curr = end[2]; while curr is not end: yield curr[0]; curr = curr[2]`, at most `fuel` cells -/
def walkNext (cells : List (Cell K)) : Nat → Nat → List K
  | 0, _ => []
  | fuel + 1, curr =>
    if curr = 0 then []
    else
      match cells[curr]? with
      | none => []
      | some c => (match c.key with | some k => [k] | none => []) ++ walkNext cells fuel c.next

def walkPrev (cells : List (Cell K)) : Nat → Nat → List K
  | 0, _ => []
  | fuel + 1, curr =>
    if curr = 0 then []
    else
      match cells[curr]? with
      | none => []
      | some c => (match c.key with | some k => [k] | none => []) ++ walkPrev cells fuel c.prev

/-- `list(s)` -/
def iter (s : LL K) : List K :=
  match s.cells[0]? with
  | some e => walkNext s.cells s.cells.length e.next
  | none => []

/-- `list(reversed(s))` -/
def reversed (s : LL K) : List K :=
  match s.cells[0]? with
  | some e => walkPrev s.cells s.cells.length e.prev
  | none => []

def len (s : LL K) : Nat := s.map.length
def contains (s : LL K) (k : K) : Bool := dhas s.map k

/-- `oset.pop(last)`: `key = self.end[1][0] if last else self.end[2][0]` -/
def pop (s : LL K) (last : Bool) : Res (LL K) K :=
  if s.map.length = 0 then (s, .error .KeyError)
  else
    match s.cells[0]? with
    | none => (s, .error .IndexError)
    | some e =>
      match s.cells[if last then e.prev else e.next]? with
      | none => (s, .error .IndexError)
      | some c =>
        match c.key with
        | none => (s, .error .TypeError)      -- the sentinel's key None: cannot happen when map is not empty
        | some k => (discard s k, .ok k)

/-- `oset(iterable)`: `self |= iterable` -/
def init (it : List K) : LL K := it.foldl add empty

end Ioflo.Containers.Links
