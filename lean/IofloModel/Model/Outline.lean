/-
Model of the outline algebra of ioflo/base/framing.py  (core Lean only).

* `exEn`                — `Framer.ExEn(nears, far)` with `fars = far.outline`
* `Forest`, `climb`, `descendChk`, `traceHead`, `traceOutline(E)`
                        — `Frame.traceHead`, `Frame.traceOutline`, `Frame.getUnder`
* `resolveLinks`        — `Frame.resolveOverLinks` / `Frame.resolveUnderLinks` run over the frames of
                          one framer in declaration order (`Framer.resolve`), from the `over` name and
                          the `unders` name list that the builder left in each frame

Frames of one framer are numbered 0..n-1 in declaration order (the order of `Frame.Names`); a frame
name that is not declared is a number ≥ n.  Python loops that need not terminate (`while frame:` over
cyclic links) get a fuel argument; running out of fuel is the result `none` / `diverge`, never a value.
-/
namespace Ioflo.Outline

abbrev Fid := Nat

/-! ### Framer.ExEn -/

/-- `Framer.ExEn(nears, far)`, `fars = far.outline`.
```
l = min(len(nears), len(fars))
for i in range(l):
    if (nears[i] is far) or (nears[i] is not fars[i]):
        return (nears[i:], fars[i:], nears[:i])
return ([], [], nears[:])
```
Result is `(exits, enters, reexens)`. -/
def exEn (far : Fid) : List Fid → List Fid → List Fid × List Fid × List Fid
  | n :: ns, f :: fs =>
    if n = far ∨ n ≠ f then (n :: ns, f :: fs, [])
    else
      let r := exEn far ns fs
      (r.1, r.2.1, n :: r.2.2)
  | ns, _ => ([], [], ns)

/-- The loop index at which `ExEn` returns from inside the loop, if it does. -/
def stopIndex (far : Fid) : List Fid → List Fid → Option Nat
  | n :: ns, f :: fs =>
    if n = far ∨ n ≠ f then some 0 else (stopIndex far ns fs).map (· + 1)
  | _, _ => none

/-! ### Frames, links, outlines -/

/-- the resolved links of the frames of one framer -/
structure Forest where
  n : Nat
  over : Fid → Option Fid
  unders : Fid → List Fid

/-- `Frame.getUnder`: primary under = `unders[0]` or `None` -/
def Forest.under (F : Forest) (f : Fid) : Option Fid := (F.unders f).head?

/-- `while frame: acc.append(frame); frame = frame.over` — bottom-up list; `none` = fuel exhausted -/
def climb (F : Forest) : Nat → Option Fid → Option (List Fid)
  | _, none => some []
  | 0, some _ => none
  | k + 1, some f => (climb F k (F.over f)).map (f :: ·)

/-- `while frame: acc.append(frame); frame = frame.under` — top-down list -/
def descend (F : Forest) : Nat → Option Fid → Option (List Fid)
  | _, none => some []
  | 0, some _ => none
  | k + 1, some f => (descend F k (F.under f)).map (f :: ·)

/-- `Frame.traceHead` -/
def traceHead (F : Forest) (f : Fid) : Option (List Fid) :=
  (climb F F.n (some f)).map List.reverse

inductive TraceErr
  | diverge      -- a `while frame:` loop does not terminate
  | underLoop    -- "Outline unders create loop"
  deriving DecidableEq, Repr

/-- the trace-down loop of `Frame.traceOutline`:
`while frame: if frame in outline: raise ResolveError(…); outline.append(frame); frame = frame.under` -/
def descendChk (F : Forest) : Nat → List Fid → Option Fid → Except TraceErr (List Fid)
  | _, acc, none => .ok acc
  | 0, _, some _ => .error .diverge
  | k + 1, acc, some f =>
    if acc.contains f then .error .underLoop else descendChk F k (acc ++ [f]) (F.under f)

/-- `Frame.traceOutline` -/
def traceOutlineE (F : Forest) (f : Fid) : Except TraceErr (List Fid) :=
  match climb F F.n (some f) with
  | none => .error .diverge
  | some up => descendChk F (F.n + 1) up.reverse (F.under f)

def traceOutline (F : Forest) (f : Fid) : Option (List Fid) :=
  match traceOutlineE F f with
  | .ok l => some l
  | .error _ => none

/-- the first error `Framer.traceOutlines` runs into, frames in order -/
def traceError (F : Forest) : Option TraceErr :=
  (List.range F.n).findSome? fun f =>
    match traceOutlineE F f with
    | .error e => some e
    | .ok _ => if (traceHead F f).isSome then none else some .diverge

/-- all heads and outlines can be traced (what a returning `Framer.traceOutlines` establishes) -/
def Forest.traceable (F : Forest) : Bool :=
  (List.range F.n).all fun f => (traceHead F f).isSome && (traceOutline F f).isSome

/-! ### Link resolution (`Framer.resolve` → `Frame.resolve` for each frame in order) -/

inductive ResolveErr
  | badOver     -- "Bad over link in outline"
  | loop        -- "Outline overs create loop"
  | badUnder    -- resolveFrame: "Bad under Frame link name"
  | dupUnder    -- "Duplicate under"
  | diverge     -- the `while over:` loop does not terminate (cycle not through self)
  deriving DecidableEq, Repr

/-- a link is a frame *name* (`false`) until it is replaced by the frame *object* (`true`) -/
abbrev Link := Bool × Fid

structure RState where
  over : Fid → Option Link
  unders : Fid → List Link

def RState.setOver (s : RState) (f : Fid) (l : Option Link) : RState :=
  { s with over := fun g => if g = f then l else s.over g }

def RState.setUnders (s : RState) (f : Fid) (l : List Link) : RState :=
  { s with unders := fun g => if g = f then l else s.unders g }

/-- `if under.name in over.unders: over.unders[over.unders.index(under.name)] = under
    else: over.unders.append(under)` — a name only matches an entry that is still a name -/
def attach (under : Fid) : List Link → List Link
  | [] => [(true, under)]
  | (b, u) :: rest =>
    if b = false ∧ u = under then (true, under) :: rest else (b, u) :: attach under rest

/-- body of `Frame.resolveOverLinks(self)`; `under`/`over` are the loop variables, `climbed` the frames passed -/
def overLoop (n self : Fid) : Nat → RState → List Fid → Fid → Option Link → Except ResolveErr RState
  | _, s, _, _, none => .ok s
  | 0, _, _, _, some _ => .error .diverge
  | k + 1, s, climbed, under, some (false, g) =>
    if g ≥ n then .error .badOver
    else if g = self then .error .loop
    else
      let s := s.setUnders g (attach under (s.unders g))
      let s := s.setOver under (some (true, g))
      if climbed.contains g then .error .loop
      else overLoop n self k s (climbed ++ [g]) g (s.over g)
  | k + 1, s, climbed, _, some (true, g) =>
    if g = self then .error .loop
    else if climbed.contains g then .error .loop
    else overLoop n self k s (climbed ++ [g]) g (s.over g)

def resolveOverLinks (n : Nat) (s : RState) (self : Fid) : Except ResolveErr RState :=
  overLoop n self (n + 1) s [] self (s.over self)

def hasDup : List Fid → Bool
  | [] => false
  | x :: xs => xs.contains x || hasDup xs

/-- `Frame.resolveUnderLinks` -/
def resolveUnderLinks (n : Nat) (s : RState) (self : Fid) : Except ResolveErr RState :=
  let us := s.unders self
  if us.any (fun l => l.2 ≥ n) then .error .badUnder
  else
    let us' := us.map (fun l => (true, l.2))
    if hasDup (us'.map (·.2)) then .error .dupUnder
    else .ok (s.setUnders self us')

/-- the link part of `Frame.resolve` for the frames `k, k+1, …, n-1` in this order -/
def resolveFrom (n : Nat) : Nat → Fid → RState → Except ResolveErr RState
  | 0, _, s => .ok s
  | c + 1, f, s =>
    match resolveOverLinks n s f with
    | .error e => .error e
    | .ok s1 =>
      match resolveUnderLinks n s1 f with
      | .error e => .error e
      | .ok s2 => resolveFrom n c (f + 1) s2

/-- declared links of one framer: per frame the `over` name (from `in`/`over`) and the `unders`
names (from `under`), as the builder leaves them -/
structure Decls where
  n : Nat
  over : Fid → Option Fid
  unders : Fid → List Fid

def Decls.init (D : Decls) : RState :=
  { over := fun f => (D.over f).map (fun g => (false, g)),
    unders := fun f => (D.unders f).map (fun g => (false, g)) }

def resolveLinks (D : Decls) : Except ResolveErr Forest :=
  match resolveFrom D.n D.n 0 D.init with
  | .error e => .error e
  | .ok s => .ok { n := D.n,
                   over := fun f => (s.over f).map (·.2),
                   unders := fun f => (s.unders f).map (·.2) }

end Ioflo.Outline
