import IofloModel.Model.Wrap
/-
Model of ioflo/trim/interior/plain/controlling.py  ControllerPid.action  (with
DoerLapse.updateLapse of ioflo/base/doing.py, blend0 of ioflo/aid/blending.py and wrap2 of
ioflo/aid/navigating.py as they are called from it).

Numbers: `Num` = a Python float seen as a value: NaN, ±infinity or an exact rational.
Comparisons, `abs`, unary minus, `min`, `max` are exact in IEEE arithmetic and are modelled
as such (every comparison with NaN is false; Python's `max(a, b)` keeps `a` unless `b > a`,
`min(a, b)` keeps `a` unless `b < a`).  The rounding operations `+ - * / %` are a PARAMETER
(`Arith`): the step function is written once and instantiated with
  * `exactArith`  — IEEE rules for NaN/±inf, exact rationals otherwise (no rounding),
  * `floatArith`  — the same followed by rounding to the nearest binary64 (`Wrap.rn`).
A theorem stated for every `Arith` covers whatever the hardware computes.
`float / 0.0` and `float % 0.0` raise `ZeroDivisionError`: a constructor of the result.
Core Lean only.
-/
namespace Ioflo.Pid

inductive Num where
  | nan | ninf | pinf
  | fin (q : Rat)
  deriving DecidableEq

namespace Num

def zero : Num := .fin 0
def isNan : Num → Bool
  | .nan => true
  | _ => false

/-- IEEE `a < b` -/
def lt : Num → Num → Bool
  | .nan, _ => false
  | _, .nan => false
  | .ninf, .ninf => false
  | .ninf, _ => true
  | _, .ninf => false
  | .pinf, _ => false
  | .fin _, .pinf => true
  | .fin a, .fin b => decide (a < b)

/-- IEEE `a <= b` -/
def le (a b : Num) : Bool := !a.isNan && !b.isNan && !(lt b a)
/-- IEEE `a > b` -/
def gt (a b : Num) : Bool := lt b a
/-- IEEE `a >= b` -/
def ge (a b : Num) : Bool := le b a
/-- IEEE `a != b` (true when either is NaN) -/
def ne (a b : Num) : Bool := a.isNan || b.isNan || decide (a ≠ b)

def neg : Num → Num
  | .nan => .nan
  | .ninf => .pinf
  | .pinf => .ninf
  | .fin q => .fin (-q)

def abs : Num → Num
  | .nan => .nan
  | .ninf => .pinf
  | .pinf => .pinf
  | .fin q => .fin (Wrap.pabs q)

/-- Python `max(a, b)` -/
def pymax (a b : Num) : Num := if gt b a then b else a
/-- Python `min(a, b)` -/
def pymin (a b : Num) : Num := if lt b a then b else a

end Num
open Num

/-! ### arithmetic as a parameter -/

structure Arith where
  add : Num → Num → Num
  sub : Num → Num → Num
  mul : Num → Num → Num
  /-- only called with a divisor that is not `0.0` -/
  div : Num → Num → Num
  /-- Python float `%`; only called with a divisor that is not `0.0` -/
  mod : Num → Num → Num

def xadd : Num → Num → Num
  | .nan, _ => .nan
  | _, .nan => .nan
  | .pinf, .ninf => .nan
  | .ninf, .pinf => .nan
  | .pinf, _ => .pinf
  | _, .pinf => .pinf
  | .ninf, _ => .ninf
  | _, .ninf => .ninf
  | .fin a, .fin b => .fin (a + b)

def xsub (a b : Num) : Num := xadd a (neg b)

/-- sign of an infinite or finite non-NaN value: -1, 0, 1 -/
def sgn : Num → Int
  | .nan => 0
  | .ninf => -1
  | .pinf => 1
  | .fin q => if q < 0 then -1 else if 0 < q then 1 else 0

def ofSign (s : Int) : Num := if s < 0 then .ninf else if 0 < s then .pinf else .nan

def xmul : Num → Num → Num
  | .nan, _ => .nan
  | _, .nan => .nan
  | .fin a, .fin b => .fin (a * b)
  | a, b => ofSign (sgn a * sgn b)           -- an infinity is involved: inf*0 = nan, else signed inf

def xdiv : Num → Num → Num
  | .nan, _ => .nan
  | _, .nan => .nan
  | .fin a, .fin b => .fin (a / b)
  | .fin _, _ => .fin 0                       -- finite / ±inf
  | a, .fin b => ofSign (sgn a * sgn (.fin b))   -- ±inf / finite (non-zero)
  | _, _ => .nan                              -- inf / inf

/-- Python float `x % y`, `y ≠ 0`: C `fmod` then one addition of `y` when the signs differ -/
def xmod : Num → Num → Num
  | .nan, _ => .nan
  | _, .nan => .nan
  | .pinf, _ => .nan
  | .ninf, _ => .nan
  | .fin x, .pinf => if x < 0 then .pinf else .fin x
  | .fin x, .ninf => if 0 < x then .ninf else .fin x
  | .fin x, .fin y => .fin (Wrap.pymod x y)

def exactArith : Arith := ⟨xadd, xsub, xmul, xdiv, xmod⟩

/-- round a value to binary64 -/
def rnN : Num → Num
  | .fin q => .fin (Wrap.rn q)
  | x => x

def floatArith : Arith :=
  ⟨fun a b => rnN (xadd a b), fun a b => rnN (xsub a b), fun a b => rnN (xmul a b),
   fun a b => rnN (xdiv a b), fun a b => rnN (xmod a b)⟩

/-! ### the controller -/

inductive Err where
  | zeroDivision
  deriving DecidableEq

/-- the fields of the `parm` share -/
structure Parm where
  wrap : Num
  drsp : Num
  calcRate : Bool
  ger : Num
  gff : Num
  gpe : Num
  gde : Num
  gie : Num
  esmax : Num
  esmin : Num
  ovmax : Num
  ovmin : Num

/-- the doer's `stamp`/`lapse` and the values of the shares it writes -/
structure State where
  stamp : Option Num        -- DoerLapse.stamp, `None` before the first action
  lapse : Num
  elapsed : Num
  prsp : Num
  e : Num
  er : Num
  es : Num
  out : Num

def init : State := ⟨none, zero, zero, zero, zero, zero, zero, zero⟩

def two : Num := .fin 2
def three : Num := .fin 3
def one : Num := .fin 1
/-- the double `0.1` -/
def tenth : Num := .fin (mkRat 3602879701896397 36028797018963968)

/-- `x / y` with Python's `ZeroDivisionError` -/
def pdiv (A : Arith) (x y : Num) : Except Err Num :=
  if y = zero then .error .zeroDivision else .ok (A.div x y)

/-- `x % y` with Python's `ZeroDivisionError` -/
def pmod (A : Arith) (x y : Num) : Except Err Num :=
  if y = zero then .error .zeroDivision else .ok (A.mod x y)

/-- `navigating.wrap2(angle, wrap)` -/
def wrap2 (A : Arith) (angle wrap : Num) : Except Err Num :=
  if ne wrap zero then
    match pmod A angle (A.mul wrap two) with
    | .error e => .error e
    | .ok angle =>
      if gt (abs angle) (abs wrap) then pmod A (A.sub angle wrap) (neg wrap) else .ok angle
  else .ok angle

/-- `blending.blend0(d, u, s)` -/
def blend0 (A : Arith) (d u s : Num) : Except Err Num :=
  let d := abs d
  let u := abs u
  let s := abs s
  let v := A.sub d u
  if ge v s then .ok zero
  else if le v zero then .ok one
  else match pdiv A v s with
    | .error e => .error e
    | .ok r => .ok (A.sub one r)

/-- `DoerLapse.updateLapse`: `stamp` := the store's stamp; `lapse` := `max(0.0, stamp - stampLast)`,
or `0.0` when either stamp is `None` (the `TypeError` branch) -/
def updateLapse (A : Arith) (s : State) (storeStamp : Option Num) : State :=
  match s.stamp, storeStamp with
  | some last, some now => { s with stamp := storeStamp, lapse := pymax zero (A.sub now last) }
  | _, _ => { s with stamp := storeStamp, lapse := zero }

/-- `min(hi, max(lo, x))` -/
def clamp (lo hi x : Num) : Num := pymin hi (pymax lo x)

/-- `ControllerPid.action` with the store's stamp and the values of the input, rate and set point
shares, and the `parm` share, at the time of the call -/
def action (A : Arith) (s : State) (storeStamp : Option Num) (input rate rsp : Num) (p : Parm) :
    Except Err State :=
  let s := updateLapse A s storeStamp
  let s := { s with elapsed := s.lapse }
  if le s.lapse zero then .ok s                        -- only evaluate if lapse positive
  else
    let jump := gt (abs (A.sub rsp s.prsp)) p.drsp     -- rsp changed
    let rsp := if jump then rsp else s.prsp
    let es0 := if jump then zero else s.es             -- reset integrator
    let pe := s.e
    match wrap2 A (A.sub input rsp) p.wrap with
    | .error x => .error x
    | .ok e =>
      match (if p.calcRate then pdiv A (A.sub e pe) s.lapse else .ok (A.mul p.ger rate)) with
      | .error x => .error x
      | .ok er =>
        match pdiv A (A.mul s.lapse (A.add e pe)) two with
        | .error x => .error x
        | .ok ae =>
          match blend0 A ae zero three with
          | .error x => .error x
          | .ok b1 =>
            match blend0 A er zero tenth with
            | .error x => .error x
            | .ok b2 =>
              let es := A.add es0 (A.mul (A.mul ae b1) b2)
              let es := clamp p.esmin p.esmax es       -- hard limit so no windup
              let out := A.add (A.add (A.add (A.mul p.gff rsp) (A.mul p.gpe e)) (A.mul p.gde er))
                (A.mul p.gie es)
              let out := clamp p.ovmin p.ovmax out
              .ok { s with prsp := rsp, e := e, er := er, es := es, out := out }

/-- `ControllerPid.restart` -/
def restart (s : State) : State := { s with es := zero }

inductive Op where
  | update (storeStamp : Option Num) (input rate rsp : Num) (p : Parm)
  | restart

def step (A : Arith) (s : State) : Op → Except Err State
  | .update st i r sp p => action A s st i r sp p
  | .restart => .ok (restart s)

def run (A : Arith) : State → List Op → Except Err State
  | s, [] => .ok s
  | s, op :: ops =>
    match step A s op with
    | .error e => .error e
    | .ok s' => run A s' ops

/-- `lo <= x <= hi` -/
def within (lo hi x : Num) : Bool := le lo x && le x hi

/-- Region of the known finding about the time before the first evaluation: zero (the value the
shares are created with, and what `restart` writes) lies outside a configured limit range. -/
def zeroOutside (p : Parm) : Bool :=
  !(within p.esmin p.esmax zero && within p.ovmin p.ovmax zero)

end Ioflo.Pid
