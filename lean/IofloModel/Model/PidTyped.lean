import IofloModel.Model.Pid
/-
Typed variant of the PID model (Model/Pid.lean): every number carries its Python type —
`int` (also `bool`), `fractions.Fraction`, or `float` — because the arithmetic the controller
performs depends on it: int and Fraction arithmetic is exact, an operation with a float operand
converts the other operand with `float()` (round to nearest, `rnN`) and is a binary64 operation,
and `int / int` is true division (a float).  Comparisons, `abs`, negation, `min`, `max` act on
the exact values and return their argument objects.  The text of `actionT` is the text of
`Pid.action` over these operations.  Core Lean only.
-/
namespace Ioflo.Pid

inductive Kind where
  | int | frac | float
  deriving DecidableEq

structure TNum where
  v : Num
  k : Kind

namespace TNum
def f (v : Num) : TNum := ⟨v, .float⟩
def zero : TNum := f Num.zero
def one : TNum := f Pid.one
def two : TNum := f Pid.two
def three : TNum := f Pid.three
def tenth : TNum := f Pid.tenth

def isFloat (a : TNum) : Bool := a.k == .float
/-- `float(x)` -/
def toFloat (a : TNum) : Num := if a.isFloat then a.v else rnN a.v

/-- `+ - * %`: float if an operand is a float, else exact (Fraction if one is, else int) -/
def arith (fl ex : Num → Num → Num) (a b : TNum) : TNum :=
  if a.isFloat || b.isFloat then ⟨fl a.toFloat b.toFloat, .float⟩
  else ⟨ex a.v b.v, if a.k == .frac || b.k == .frac then .frac else .int⟩

def add := arith floatArith.add xadd
def sub := arith floatArith.sub xsub
def mul := arith floatArith.mul xmul
def mod := arith floatArith.mod xmod
/-- `/`: true division — `int / int` is a float -/
def div (a b : TNum) : TNum :=
  if a.isFloat || b.isFloat then ⟨floatArith.div a.toFloat b.toFloat, .float⟩
  else if a.k == .frac || b.k == .frac then ⟨xdiv a.v b.v, .frac⟩
  else ⟨rnN (xdiv a.v b.v), .float⟩

def neg (a : TNum) : TNum := ⟨Num.neg a.v, a.k⟩
def abs (a : TNum) : TNum := ⟨Num.abs a.v, a.k⟩
/-- Python `max(a, b)` / `min(a, b)`: one of the two objects -/
def pymax (a b : TNum) : TNum := if Num.gt b.v a.v then b else a
def pymin (a b : TNum) : TNum := if Num.lt b.v a.v then b else a
end TNum
open TNum

structure ParmT where
  wrap : TNum
  drsp : TNum
  calcRate : Bool
  ger : TNum
  gff : TNum
  gpe : TNum
  gde : TNum
  gie : TNum
  esmax : TNum
  esmin : TNum
  ovmax : TNum
  ovmin : TNum

structure StateT where
  stamp : Option TNum
  lapse : TNum
  elapsed : TNum
  prsp : TNum
  e : TNum
  er : TNum
  es : TNum
  out : TNum

def initT : StateT := ⟨none, TNum.zero, TNum.zero, TNum.zero, TNum.zero, TNum.zero, TNum.zero, TNum.zero⟩

def pdivT (x y : TNum) : Except Err TNum :=
  if y.v = Num.zero then .error .zeroDivision else .ok (TNum.div x y)

def pmodT (x y : TNum) : Except Err TNum :=
  if y.v = Num.zero then .error .zeroDivision else .ok (TNum.mod x y)

def wrap2T (angle wrap : TNum) : Except Err TNum :=
  if Num.ne wrap.v Num.zero then
    match pmodT angle (TNum.mul wrap TNum.two) with
    | .error e => .error e
    | .ok angle =>
      if Num.gt (Num.abs angle.v) (Num.abs wrap.v) then pmodT (TNum.sub angle wrap) (TNum.neg wrap)
      else .ok angle
  else .ok angle

def blend0T (d u s : TNum) : Except Err TNum :=
  let d := TNum.f (TNum.abs d).toFloat          -- float(abs(d))
  let u := TNum.f (TNum.abs u).toFloat
  let s := TNum.f (TNum.abs s).toFloat
  let v := TNum.sub d u
  if Num.ge v.v s.v then .ok TNum.zero
  else if Num.le v.v Num.zero then .ok TNum.one
  else match pdivT v s with
    | .error e => .error e
    | .ok r => .ok (TNum.sub TNum.one r)

def updateLapseT (s : StateT) (storeStamp : Option TNum) : StateT :=
  match s.stamp, storeStamp with
  | some last, some now => { s with stamp := storeStamp, lapse := TNum.pymax TNum.zero (TNum.sub now last) }
  | _, _ => { s with stamp := storeStamp, lapse := TNum.zero }

def clampT (lo hi x : TNum) : TNum := TNum.pymin hi (TNum.pymax lo x)

/-- `ControllerPid.action` over typed numbers (same text as `Pid.action`) -/
def actionT (s : StateT) (storeStamp : Option TNum) (input rate rsp : TNum) (p : ParmT) :
    Except Err StateT :=
  let s := updateLapseT s storeStamp
  let s := { s with elapsed := s.lapse }
  if Num.le s.lapse.v Num.zero then .ok s
  else
    let jump := Num.gt (Num.abs (TNum.sub rsp s.prsp).v) p.drsp.v
    let rsp := if jump then rsp else s.prsp
    let es0 := if jump then TNum.zero else s.es
    let pe := s.e
    match wrap2T (TNum.sub input rsp) p.wrap with
    | .error x => .error x
    | .ok e =>
      match (if p.calcRate then pdivT (TNum.sub e pe) s.lapse else .ok (TNum.mul p.ger rate)) with
      | .error x => .error x
      | .ok er =>
        match pdivT (TNum.mul s.lapse (TNum.add e pe)) TNum.two with
        | .error x => .error x
        | .ok ae =>
          match blend0T ae TNum.zero TNum.three with
          | .error x => .error x
          | .ok b1 =>
            match blend0T er TNum.zero TNum.tenth with
            | .error x => .error x
            | .ok b2 =>
              let es := TNum.add es0 (TNum.mul (TNum.mul ae b1) b2)
              let es := clampT p.esmin p.esmax es
              let out := TNum.add (TNum.add (TNum.add (TNum.mul p.gff rsp) (TNum.mul p.gpe e))
                (TNum.mul p.gde er)) (TNum.mul p.gie es)
              let out := clampT p.ovmin p.ovmax out
              .ok { s with prsp := rsp, e := e, er := er, es := es, out := out }

def restartT (s : StateT) : StateT := { s with es := TNum.zero }


inductive OpT where
  | update (storeStamp : Option TNum) (input rate rsp : TNum) (p : ParmT)
  | restart

def stepT (s : StateT) : OpT → Except Err StateT
  | .update st i r sp p => actionT s st i r sp p
  | .restart => .ok (restartT s)

def runT : StateT → List OpT → Except Err StateT
  | s, [] => .ok s
  | s, op :: ops =>
    match stepT s op with
    | .error e => .error e
    | .ok s' => runT s' ops

end Ioflo.Pid
