/-
Model of the point-in-polygon functions of ioflo/aid/vectoring.py:
`sub dot mag2 trip left right tween2 wind inside insideOnly outside outsideOnly sideOnly`.

Integer coordinates (the property is about integer points; Python's int arithmetic is exact).
Transcribed statement by statement: the loops keep the early `return` on the first edge that
contains the point, `p in vs` is list membership.

Core Lean only.
-/
namespace Ioflo.Poly

abbrev Pt := Int × Int

def sub (u v : Pt) : Pt := (u.1 - v.1, u.2 - v.2)
def dot (u v : Pt) : Int := u.1 * v.1 + u.2 * v.2
def mag2 (v : Pt) : Int := v.1 * v.1 + v.2 * v.2
/-- z component of u × v -/
def trip (u v : Pt) : Int := u.1 * v.2 - u.2 * v.1
/-- `ccw` / `left`: v is to the left of u -/
def left (u v : Pt) : Bool := decide (trip u v > 0)
/-- `cw` / `right` -/
def right (u v : Pt) : Bool := decide (trip u v < 0)

/-- `tween2(p, u, v)`: p on the segment from u to v -/
def tween2 (p u v : Pt) : Bool :=
  let a := sub p u
  let b := sub v u
  let dbb := dot b b
  if dbb = 0 then decide (a = b)            -- empty segment: only the point itself
  else
    let dab := dot a b
    if dab < 0 then false                   -- before
    else if dab > mag2 b then false         -- past
    else if trip a b ≠ 0 then false         -- not colinear
    else true

/-- the sides `(vs[i], vs[(i+1) % l])`, i = 0 … l-1 -/
def edges : List Pt → List (Pt × Pt)
  | [] => []
  | v :: rest => (v :: rest).zip (rest ++ [v])

/-- what one side adds to the winding number (Sunday's crossing rules as written) -/
def cross (p : Pt) (e : Pt × Pt) : Int :=
  let y := e.1.2
  let v := e.2.2
  if y ≤ p.2 then
    if v > p.2 then                                            -- upward crossing
      if right (sub p e.1) (sub e.2 e.1) then 1 else 0
    else 0
  else
    if v ≤ p.2 then                                            -- downward crossing
      if left (sub p e.1) (sub e.2 e.1) then -1 else 0
    else 0

/-- the `for` loop of `wind` -/
def windLoop (p : Pt) : List (Pt × Pt) → Int → Int
  | [], w => w
  | e :: rest, w => if tween2 p e.1 e.2 then 0 else windLoop p rest (w + cross p e)

def wind (p : Pt) (vs : List Pt) : Int :=
  if p ∈ vs then 0 else windLoop p (edges vs) 0

/-- the `for` loop of `inside` -/
def insideLoop (p : Pt) (side : Bool) : List (Pt × Pt) → Int → Bool
  | [], w => w != 0
  | e :: rest, w => if tween2 p e.1 e.2 then side else insideLoop p side rest (w + cross p e)

def inside (p : Pt) (vs : List Pt) (side : Bool) : Bool :=
  if p ∈ vs then side else insideLoop p side (edges vs) 0

def insideOnly (p : Pt) (vs : List Pt) : Bool := inside p vs false
def outside (p : Pt) (vs : List Pt) (side : Bool) : Bool := !(inside p vs (!side))
def outsideOnly (p : Pt) (vs : List Pt) : Bool := outside p vs false

def sideOnly (p : Pt) (vs : List Pt) : Bool :=
  if p ∈ vs then true else (edges vs).any (fun e => tween2 p e.1 e.2)

end Ioflo.Poly
