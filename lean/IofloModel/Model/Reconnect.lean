/-
Model of connection management of the non-TLS TCP client and of its two users:

  ioflo/aio/tcp/clienting.py    Client.{open, close (= shutclose), reopen, refresh, accept, connect,
                                serviceConnect (with fix D27)}, the cutoff detection of `receive`
  ioflo/aio/proto/stacking.py   TcpClientStack.serviceConnect
  ioflo/aio/http/clienting.py   Patron.serviceAll — the connection part (cut-off handling, serviceConnect)
  ioflo/aid/timing.py           StoreTimer.{restart, expired}

Exact time (`Int` ticks of 1/1024 s).  A socket object is a `Nat` id, allocated by `socket.socket()` in
`open`; the address its `getsockname()` reports is identified with that id.  The environment answers
each `connect_ex` with an errno code (`0`, EISCONN 106, EINPROGRESS 115, EALREADY 114, ECONNREFUSED 111,
EINVAL 22, …) — at most one `connect_ex` happens per service call, so every service op carries the
answer it would get.  Core Lean only.
-/
namespace Ioflo.Reconnect

structure Timer where
  start : Int
  duration : Int
  stop : Int
deriving DecidableEq, Repr

def iabs (x : Int) : Int := if x < 0 then -x else x

/-- `StoreTimer(store, duration)` -/
def Timer.new (stamp duration : Int) : Timer := ⟨iabs stamp, iabs duration, iabs stamp + iabs duration⟩
/-- `restart()`; `restart(duration=d)` with `some d` -/
def Timer.restart (t : Timer) (stamp : Int) (duration : Option Int := none) : Timer :=
  let d := match duration with | some x => iabs x | none => t.duration
  ⟨stamp, d, stamp + d⟩
def Timer.expired (t : Timer) (stamp : Int) : Bool := decide (t.stop ≤ stamp)

/-- what the owner and the socket layer see -/
inductive Event where
  | opened (id : Nat)            -- `socket.socket()` in `open`
  | closed (id : Nat)            -- `cs.close()` in `shutclose`
  | connect (id : Nat) (code : Nat)   -- `cs.connect_ex(ha)` on socket `id` answered `code`
deriving DecidableEq, Repr

structure Client where
  now : Int                -- `.store.stamp`
  sock : Option Nat        -- `.cs`
  fresh : Nat              -- id of the next socket object
  attempts : Nat           -- history variable: `connect_ex` calls made on the current socket
  accepted : Bool          -- `.accepted` = `.connected` (non-TLS)
  cutoff : Bool
  opened : Bool
  reconnectable : Bool
  timeout : Int
  timer : Timer
  ca : Option Nat          -- `.ca`: local address of the socket that was accepted
  localHa : Option Nat     -- `TcpClientStack.local.ha`
  retry : Option Int       -- `Patron.respondent.retry` in ticks when the response is an event stream
deriving DecidableEq, Repr

/-- `Client(timeout=…, reconnectable=…)` followed by `reopen()` (what `Stack.__init__` / a user does) -/
def Client.init (timeout : Int) (reconnectable : Bool) (retry : Option Int := none) : Client :=
  { now := 0, sock := some 0, fresh := 1, attempts := 0, accepted := false, cutoff := false, opened := true,
    reconnectable := reconnectable, timeout := timeout, timer := Timer.new 0 timeout, ca := none,
    localHa := none, retry := retry }

/-- `shutclose()` -/
def close (c : Client) : Client × List Event :=
  match c.sock with
  | some id => ({ c with sock := none, accepted := false, opened := false }, [.closed id])
  | none => (c, [])

/-- `open()` -/
def openSock (c : Client) : Client × List Event :=
  ({ c with accepted := false, cutoff := false, sock := some c.fresh, fresh := c.fresh + 1, attempts := 0,
            opened := true }, [.opened c.fresh])

/-- `reopen()` = `close(); open()` -/
def reopen (c : Client) : Client × List Event :=
  let (c1, e1) := close c
  let (c2, e2) := openSock c1
  (c2, e1 ++ e2)

def EISCONN : Nat := 106
def EINVAL : Nat := 22
def ECONNREFUSED : Nat := 111
def EINPROGRESS : Nat := 115
def EALREADY : Nat := 114

/-- `accept()` (= `connect()` for the non-TLS client); the `connect_ex`, being the `n`-th on its
socket (from 0), is answered `ans n` -/
def accept (c : Client) (ans : Nat → Nat) : Client × List Event :=
  let (c, e0) := match c.sock with
    | none => reopen c                       -- `if not self.cs: self.reopen()`
    | some _ => (c, [])
  match c.sock with
  | none => (c, e0)                          -- unreachable: `reopen` always leaves a socket
  | some id =>
    let code := ans c.attempts
    let c := { c with attempts := c.attempts + 1 }
    let ev := e0 ++ [.connect id code]
    if code = 0 ∨ code = EISCONN then
      ({ c with ca := some id, accepted := true, cutoff := false }, ev)
    else if code = EINVAL ∨ code = ECONNREFUSED then
      let (c', e) := reopen c                -- server not listening: must reopen
      (c', ev ++ e)
    else (c, ev)                             -- try again later

/-- `self.reopen(); self.timer.restart(duration=…)`: what each of the three callers does when the
reconnect timer has expired -/
def reopenRestart (c : Client) (duration : Option Int) : Client × List Event :=
  let (c1, e1) := reopen c
  ({ c1 with timer := c1.timer.restart c1.now duration }, e1)

/-- the reconnect timer is armed and has expired: `self.timeout > 0.0 and self.timer.expired` -/
def timerFired (c : Client) : Bool := decide (0 < c.timeout) && c.timer.expired c.now

/-- the cut-off branch: `Client.serviceConnect` (since fix D27: `self.reopen(); self.timer.restart()`),
`TcpClientStack.serviceConnect` (`handler.reopen(); handler.refresh()`) and `Patron.serviceAll`
(`connector.reopen(); connector.timer.restart(duration=…)`) -/
def cutoffPart (c : Client) (duration : Option Int) : Client × List Event :=
  if c.cutoff && c.reconnectable && timerFired c then reopenRestart c duration else (c, [])

/-- `Client.serviceConnect()` of the tree before fix D27: `.cutoff` is not looked at -/
def serviceConnectAsIs (c : Client) (ans : Nat → Nat) : Client × List Event :=
  if !c.accepted then
    let (c1, e1) := accept c ans
    if !c1.accepted && c1.reconnectable && timerFired c1 then
      let (c2, e2) := reopenRestart c1 none
      (c2, e1 ++ e2)
    else (c1, e1)
  else (c, [])

/-- `Client.serviceConnect()` (after fixes/D27-client-serviceconnect-reopens-after-cutoff.patch):
a cut off reconnectable client is reopened once the reconnect timer has expired, then the usual attempt -/
def serviceConnect (c : Client) (ans : Nat → Nat) : Client × List Event :=
  let (c1, e1) := cutoffPart c none
  let (c2, e2) := serviceConnectAsIs c1 ans
  (c2, e1 ++ e2)

/-- `TcpClientStack.serviceConnect()` -/
def stackServiceConnect (c : Client) (ans : Nat → Nat) : Client × List Event :=
  if c.cutoff then cutoffPart c none
  else
    if !c.accepted then
      let (c1, e1) := serviceConnect c ans
      (if c1.accepted then { c1 with localHa := c1.ca } else c1, e1)
    else (c, [])

/-- the connection part of `Patron.serviceAll()` -/
def patronConnect (c : Client) (ans : Nat → Nat) : Client × List Event :=
  let (c1, e1) := cutoffPart c c.retry
  if !c1.accepted then
    let (c2, e2) := serviceConnect c1 ans
    (c2, e1 ++ e2)
  else (c1, e1)

inductive Op where
  | advance (dt : Int)
  | clientServiceConnect (code : Nat)
  | stackServiceConnect (code : Nat)
  | patronConnect (code : Nat)
  | loss            -- `serviceReceives` finds the far side closed / the connection reset
  | close           -- the owner calls `close()`
  | reopen          -- the owner calls `reopen()`
deriving DecidableEq, Repr

def step (c : Client) : Op → Client × List Event
  | .advance dt => ({ c with now := c.now + dt }, [])
  | .clientServiceConnect code => serviceConnect c (fun _ => code)
  | .stackServiceConnect code => stackServiceConnect c (fun _ => code)
  | .patronConnect code => patronConnect c (fun _ => code)
  | .loss => (if c.accepted && !c.cutoff then { c with cutoff := true } else c, [])
  | .close => close c
  | .reopen => reopen c

def run : Client → List Op → Client × List Event
  | c, [] => (c, [])
  | c, op :: ops =>
    let (c', e) := step c op
    let (c'', es) := run c' ops
    (c'', e ++ es)

/-- the client is usable: connected and not cut off -/
def Client.live (c : Client) : Bool := c.accepted && !c.cutoff

/-! ### the environment of the liveness statements: a listening server -/

inductive Kind where
  | bare
  | stack
  | patron
deriving DecidableEq, Repr

def Kind.service : Kind → Client → (Nat → Nat) → Client × List Event
  | .bare => serviceConnect
  | .stack => stackServiceConnect
  | .patron => patronConnect

/-- A server that listens: the `n`-th `connect_ex` (counting from 0) made on any one socket is
answered `ansOf n`.  One round = time passes by `dt`, then one service call. -/
def runListening (ansOf : Nat → Nat) (k : Kind) : Client → List Int → Client
  | c, [] => c
  | c, dt :: dts => runListening ansOf k (k.service { c with now := c.now + dt } ansOf).1 dts

/-- Region of known finding D28: some service call discards, because the reconnect timer has expired,
a socket whose connection attempt was in progress (tried in this or an earlier call, not refused). -/
def discardsInProgress (ansOf : Nat → Nat) (k : Kind) : Client → List Int → Bool
  | _, [] => false
  | c, dt :: dts =>
    let c1 := { c with now := c.now + dt }
    let c2 := (k.service c1 ansOf).1
    (!c1.accepted && !c1.cutoff && c1.sock.isSome && c2.sock != c1.sock && !c2.accepted &&
      ansOf c1.attempts != EINVAL && ansOf c1.attempts != ECONNREFUSED)
    || discardsInProgress ansOf k c2 dts

/-! ## the TLS client (`ClientTls`)

`ClientTls` keeps its own `._connected` flag behind the `connected` property (connected = accepted and
TLS handshake completed), overrides `shutclose`/`close` (same body: the `self.connected = False` line
resets `._connected`), adds `wrap`, `handshake`, `connect`; everything else (`open`, `reopen`, `accept`,
`serviceConnect`, `serviceReceives`) is inherited and reads/writes `connected` through the property. -/

/-- answer of one `cs.do_handshake()` -/
inductive Shake where
  | ok        -- handshake complete
  | want      -- SSL_ERROR_WANT_READ / WANT_WRITE: try again later
  | fail      -- any other error: `shutclose()` then re-raise
deriving DecidableEq, Repr

structure Tls where
  c : Client            -- the inherited state; `c.accepted` is `.accepted`
  connected : Bool      -- `._connected`
  shakes : Nat          -- history variable: `do_handshake` calls made on the current socket
deriving DecidableEq, Repr

def Tls.init (timeout : Int) (reconnectable : Bool) (retry : Option Int := none) : Tls :=
  ⟨Client.init timeout reconnectable retry, false, 0⟩

inductive TEvent where
  | base (e : Event)
  | shake (id : Nat) (a : Shake)     -- `do_handshake()` on socket `id` answered `a`
  | raised                           -- the handshake error escaped the service call
deriving DecidableEq, Repr

/-- `ClientTls.shutclose()` -/
def tlsClose (t : Tls) : Tls × List TEvent :=
  match t.c.sock with
  | some _ => let (c', e) := close t.c; (⟨c', false, t.shakes⟩, e.map .base)
  | none => (t, [])

/-- `open()` (inherited; `self.connected = False` goes through the property) -/
def tlsOpen (t : Tls) : Tls × List TEvent :=
  let (c', e) := openSock t.c
  (⟨c', false, 0⟩, e.map .base)

def tlsReopen (t : Tls) : Tls × List TEvent :=
  let (t1, e1) := tlsClose t
  let (t2, e2) := tlsOpen t1
  (t2, e1 ++ e2)

def tlsReopenRestart (t : Tls) (duration : Option Int) : Tls × List TEvent :=
  let (t1, e1) := tlsReopen t
  ({ t1 with c := { t1.c with timer := t1.c.timer.restart t1.c.now duration } }, e1)

/-- `ClientTls.connect()`; `ans` answers `connect_ex`, `hs` the `do_handshake` of this call if one is made.
Result: state, events, handshake error escaped. -/
def tlsConnect (t : Tls) (ans : Nat → Nat) (hs : Nat → Shake) : Tls × List TEvent × Bool :=
  -- `if not self.accepted: self.accept(); if self.accepted: self.wrap()`
  let (t1, e1) :=
    if !t.c.accepted then
      let (c', e) := accept t.c ans
      -- `accept` may have reopened (closed or refused socket): `open`/`shutclose` reset `connected`
      (⟨c', if c'.sock == t.c.sock then t.connected else false, if c'.sock == t.c.sock then t.shakes else 0⟩,
       e.map TEvent.base)
    else (t, [])
  -- `if self.accepted and not self.connected: self.handshake()`
  if t1.c.accepted && !t1.connected then
    match t1.c.sock with
    | none => (t1, e1, false)
    | some id =>
      let a := hs t1.shakes
      let t2 := { t1 with shakes := t1.shakes + 1 }
      match a with
      | .ok => ({ t2 with connected := true }, e1 ++ [.shake id a], false)
      | .want => (t2, e1 ++ [.shake id a], false)
      | .fail =>
        let (t3, e3) := tlsClose t2
        (t3, e1 ++ [.shake id a] ++ e3 ++ [.raised], true)
  else (t1, e1, false)

def tlsCutoffPart (t : Tls) (duration : Option Int) : Tls × List TEvent :=
  if t.c.cutoff && t.c.reconnectable && timerFired t.c then tlsReopenRestart t duration else (t, [])

/-- `serviceConnect()` (inherited from `Client`, with fix D27) on a `ClientTls` -/
def tlsServiceConnect (t : Tls) (ans : Nat → Nat) (hs : Nat → Shake) : Tls × List TEvent :=
  let (t0, e0) := tlsCutoffPart t none
  if !t0.connected then
    let (t1, e1, raised) := tlsConnect t0 ans hs
    if raised then (t1, e0 ++ e1)
    else if !t1.connected && t1.c.reconnectable && timerFired t1.c then
      let (t2, e2) := tlsReopenRestart t1 none
      (t2, e0 ++ e1 ++ e2)
    else (t1, e0 ++ e1)
  else (t0, e0)

/-- `TcpClientStack.serviceConnect()` over a `ClientTls` handler -/
def tlsStackServiceConnect (t : Tls) (ans : Nat → Nat) (hs : Nat → Shake) : Tls × List TEvent :=
  if t.c.cutoff then tlsCutoffPart t none
  else
    if !t.connected then
      let (t1, e1) := tlsServiceConnect t ans hs
      (if t1.connected then { t1 with c := { t1.c with localHa := t1.c.ca } } else t1, e1)
    else (t, [])

/-- the connection part of `Patron.serviceAll()` over a `ClientTls` connector (https) -/
def tlsPatronConnect (t : Tls) (ans : Nat → Nat) (hs : Nat → Shake) : Tls × List TEvent :=
  let (t1, e1) := tlsCutoffPart t t.c.retry
  if !t1.connected then
    let (t2, e2) := tlsServiceConnect t1 ans hs
    (t2, e1 ++ e2)
  else (t1, e1)

inductive TOp where
  | advance (dt : Int)
  | clientServiceConnect (code : Nat) (a : Shake)
  | stackServiceConnect (code : Nat) (a : Shake)
  | patronConnect (code : Nat) (a : Shake)
  | loss
  | close
  | reopen
deriving DecidableEq, Repr

def tstep (t : Tls) : TOp → Tls × List TEvent
  | .advance dt => ({ t with c := { t.c with now := t.c.now + dt } }, [])
  | .clientServiceConnect code a => tlsServiceConnect t (fun _ => code) (fun _ => a)
  | .stackServiceConnect code a => tlsStackServiceConnect t (fun _ => code) (fun _ => a)
  | .patronConnect code a => tlsPatronConnect t (fun _ => code) (fun _ => a)
  | .loss => (if t.connected && !t.c.cutoff then { t with c := { t.c with cutoff := true } } else t, [])
  | .close => tlsClose t
  | .reopen => tlsReopen t

def trun : Tls → List TOp → Tls × List TEvent
  | t, [] => (t, [])
  | t, op :: ops =>
    let (t', e) := tstep t op
    let (t'', es) := trun t' ops
    (t'', e ++ es)

def Kind.tlsService : Kind → Tls → (Nat → Nat) → (Nat → Shake) → Tls × List TEvent
  | .bare => tlsServiceConnect
  | .stack => tlsStackServiceConnect
  | .patron => tlsPatronConnect

/-- a listening TLS server: the `n`-th `connect_ex` on a socket answers `ansOf n`, the `n`-th
`do_handshake` on it answers `hsOf n`; one round = time passes, then one service call -/
def trunListening (ansOf : Nat → Nat) (hsOf : Nat → Shake) (k : Kind) : Tls → List Int → Tls
  | t, [] => t
  | t, dt :: dts =>
    trunListening ansOf hsOf k (k.tlsService { t with c := { t.c with now := t.c.now + dt } } ansOf hsOf).1 dts

/-- region of known finding D28 for the TLS client: the reconnect timer discards a socket whose
connection attempt or handshake is in progress -/
def tlsDiscardsInProgress (ansOf : Nat → Nat) (hsOf : Nat → Shake) (k : Kind) : Tls → List Int → Bool
  | _, [] => false
  | t, dt :: dts =>
    let t1 : Tls := { t with c := { t.c with now := t.c.now + dt } }
    let t2 := (k.tlsService t1 ansOf hsOf).1
    (!t1.connected && !t1.c.cutoff && t1.c.sock.isSome && t2.c.sock != t1.c.sock && !t2.connected &&
      ansOf t1.c.attempts != EINVAL && ansOf t1.c.attempts != ECONNREFUSED)
    || tlsDiscardsInProgress ansOf hsOf k t2 dts

end Ioflo.Reconnect
