/-!
# Model of `ioflo/aio/http/clienting.py` `Patron.redirect` / `Patron.serviceResponse` (C34)

Message-level model of the HTTP client's redirect handling.  A complete response
(status, Location header, declared/received body length) is one input; the outputs
are the *effects* the client produces: closing / opening connections and sending
requests (method, request target, Host header, body).  The connector's transmit queue is kept as well
(`Patron.unsent`): a request the socket took only partly stays there, and a redirect that replaces the
connection starts with an empty queue, so the new host receives the reissued request first.

Transcribed (as repaired by `fixes/D34a..D34d`): `Patron.serviceResponse` (redirect
bookkeeping), `Patron.redirect`, `Patron.transmit`, `Patron.serviceRequests`,
`Requester.reinit/rebuild/build` (start line, Host header, body selection — the other
headers and the json / form bodies belong to C30), `httping.normalizeHostPort`,
`httping.updateQargsQuery`, and from `Respondent.parseHead/parseBody` only the rule
"how many body bytes does this response need" (method HEAD, 1xx/204/304 ⇒ none).

A redirect that cannot be followed (fix `D32a`): `redirect` raises `httping.InvalidURL` when the Location is
missing or empty, when `urljoin` / `urlsplit` / `.port` raise `ValueError`, when the authority has no host (fix `D34f`), when the port text inside the host is
not a number, and when the host does not resolve; `serviceResponse` catches it, takes the redirect off
`.redirects` again and delivers the 3xx response itself with `errored` set — nothing is sent, the connection
is kept (and `respondent.redirectant` is cleared, fix `D34f`, so that the next response is not taken for a redirect).  (Before `D32a` these left `serviceAll` as `AttributeError` / `ValueError` / `socket.gaierror`, with
the 3xx response stuck in `.redirects` and the Patron `.waited` for ever.)  The refusal of an https → http
redirect stays a `ValueError` that leaves `serviceAll`.

Standard-library functions are **parameters** (`Std`): `urlsplit` (with the `hostname`,
`port`, `geturl()` members the code uses), `urljoin`, `unquote`, `quote`, `quote_plus`,
`unquote_plus`, and the DNS lookup behind `aioing.normalizeHost`.

Strings are `List Char` (code points, like Python `str`).  Core Lean only.
-/
namespace Ioflo.Redirect

abbrev Str := List Char

/-! ## Python string helpers -/

/-- `s.partition(c)` for a one-character separator: `(before, found, after)` -/
def partitionAt (c : Char) : Str → Str × Bool × Str
  | [] => ([], false, [])
  | x :: xs =>
    if x = c then ([], true, xs)
    else
      let r := partitionAt c xs
      (x :: r.1, r.2.1, r.2.2)

/-- `s.split(c)` for a one-character separator (never empty) -/
def splitOn (c : Char) : Str → List Str
  | [] => [[]]
  | x :: xs =>
    if x = c then [] :: splitOn c xs
    else
      match splitOn c xs with
      | [] => [[x]]
      | h :: t => (x :: h) :: t

def rfindAux (c : Char) : Str → Nat → Option Nat → Option Nat
  | [], _, acc => acc
  | x :: xs, i, acc => rfindAux c xs (i + 1) (if x = c then some i else acc)

/-- `s.rfind(c)`; `none` stands for `-1` -/
def rfind (c : Char) (s : Str) : Option Nat := rfindAux c s 0 none

/-- `i > j` on `rfind` results (`none` = −1) -/
def idxGt : Option Nat → Option Nat → Bool
  | none, _ => false
  | some _, none => true
  | some a, some b => decide (b < a)

def asciiLowerC (c : Char) : Char :=
  if 'A' ≤ c ∧ c ≤ 'Z' then Char.ofNat (c.toNat + 32) else c
def asciiUpperC (c : Char) : Char :=
  if 'a' ≤ c ∧ c ≤ 'z' then Char.ofNat (c.toNat - 32) else c
/-- `str.lower()` / `str.upper()` on ASCII text (the only text these are applied to here:
a URL scheme returned by `urlsplit`, an HTTP method) -/
def asciiLower (s : Str) : Str := s.map asciiLowerC
def asciiUpper (s : Str) : Str := s.map asciiUpperC

def isAscii (s : Str) : Bool := s.all (fun c => c.toNat < 128)

def natStr (n : Nat) : Str := (toString n).toList
def intStr (i : Int) : Str := (toString i).toList

def joinWith (sep : Str) : List Str → Str
  | [] => []
  | [a] => a
  | a :: b :: rest => a ++ sep ++ joinWith sep (b :: rest)

/-! ## Errors and the standard-library parameters -/

inductive Err
  | attributeError    -- e.g. `None.partition`, `None.rfind`
  | valueError        -- `ValueError` (downgrade refusal, `SplitResult.port`, `build` checks)
  | invalidURL        -- `httping.InvalidURL` (non numeric port)
  | gaiError          -- `socket.gaierror` from the DNS lookup
  | outOfModel        -- input outside what the model transcribes (non-ASCII start line / `int()` text)
  deriving DecidableEq, Repr

/-- the members of `urllib.parse.SplitResult` that the code reads -/
structure Split where
  scheme : Str
  netloc : Str
  path : Str
  query : Str
  fragment : Str
  hostname : Option Str
  /-- `.port`: `none` = `urlsplit` itself or the `.port` property raised `ValueError` -/
  port : Option (Option Nat)
  geturl : Str
  deriving DecidableEq

structure Std where
  urlsplit : Str → Split
  /-- `none` = `urljoin` raised `ValueError` (unbalanced bracket in the authority, …) -/
  urljoin : Str → Str → Option Str
  unquote : Str → Str
  quote : Str → Str            -- `quote(path)`, default safe `'/'`
  quotePlus : Str → Str
  unquotePlus : Str → Str
  /-- `aioing.normalizeHost`: DNS name or address text → address text; `none` = `gaierror` -/
  resolve : Str → Option Str

/-! ## `httping.normalizeHostPort` -/

def isWs (c : Char) : Bool := c = ' ' || c = '\t' || c = '\n' || c = '\r' || c = '\x0b' || c = '\x0c'

def digitsVal : Str → Nat → Option Nat
  | [], acc => some acc
  | c :: cs, acc => if '0' ≤ c ∧ c ≤ '9' then digitsVal cs (acc * 10 + (c.toNat - 48)) else none

/-- `int(text)` for the ASCII forms `ws* [+-]? digit+ ws*` (no underscores); anything else that is
ASCII is a `ValueError`, non-ASCII text is outside the model -/
def pyInt (s : Str) : Except Err Int :=
  if !isAscii s then .error .outOfModel else
  let t := (s.dropWhile isWs).reverse.dropWhile isWs |>.reverse
  let (neg, d) := match t with
    | '-' :: r => (true, r)
    | '+' :: r => (false, r)
    | r => (false, r)
  if d.isEmpty then .error .invalidURL else
  if d.any (· = '_') then .error .outOfModel else
  match digitsVal d 0 with
  | some n => .ok (if neg then - (n : Int) else n)
  | none => .error .invalidURL

def stripBrackets (h : Str) : Str :=
  match h with
  | '[' :: rest =>
    match rest.reverse with
    | ']' :: mid => mid.reverse
    | _ => h
  | _ => h

/-- `normalizeHostPort(host, port, defaultPort)`; `host = none` is Python's `None`
(`None.rfind` ⇒ `AttributeError`) -/
def normalizeHostPort (host : Option Str) (port : Option Int) (defaultPort : Int) :
    Except Err (Str × Int) :=
  match host with
  | none => .error .attributeError
  | some h =>
    let port0 : Int := match port with | none => defaultPort | some p => p
    let i := rfind ':' h
    let j := rfind ']' h
    if idxGt i j then
      let k := i.getD 0
      let suffix := h.drop (k + 1)
      let h' := stripBrackets (h.take k)
      if suffix.isEmpty then .ok (h', port0)
      else match pyInt suffix with
        | .ok p => .ok (h', p)
        | .error e => .error e
    else .ok (stripBrackets h, port0)

/-! ## `httping.updateQargsQuery` -/

/-- `odict.__setitem__`: replace in place or append -/
def odSet (d : List (Str × Str)) (k v : Str) : List (Str × Str) :=
  match d with
  | [] => [(k, v)]
  | (k', v') :: rest => if k' = k then (k, v) :: rest else (k', v') :: odSet rest k v

def queryParts (query : Str) : List Str :=
  if query.isEmpty then []
  else if query.contains ';' then splitOn ';' query
  else if query.contains '&' then splitOn '&' query
  else [query]

def sTrue : Str := "true".toList

def addPart (S : Std) (d : List (Str × Str)) (part : Str) : List (Str × Str) :=
  if part.isEmpty then d
  else if part.contains '=' then
    let r := partitionAt '=' part
    odSet d r.1 (S.unquotePlus r.2.2)
  else odSet d part sTrue

def renderQuery (S : Std) (d : List (Str × Str)) : Str :=
  joinWith ['&'] (d.map (fun kv => kv.1 ++ ['='] ++ S.quotePlus kv.2))

def updateQargsQuery (S : Std) (qargs : List (Str × Str)) (query : Str) :
    List (Str × Str) × Str :=
  let d := (queryParts query).foldl (addPart S) qargs
  (d, renderQuery S d)

/-! ## Region of known finding D34e

`redirect()` unquotes the part of the Location before the first `?` *before* splitting it, `build()` splits
`Requester.path` once more, `urljoin` drops empty segments of relative paths, and `updateQargsQuery`
re-renders the query from a dict (and `urlsplit` strips leading blanks).  Locations on which this pipeline cannot preserve the target: -/

def isPrefix : Str → Str → Bool
  | [], _ => true
  | _ :: _, [] => false
  | a :: as, b :: bs => a = b && isPrefix as bs

def containsSub (pat : Str) : Str → Bool
  | [] => pat.isEmpty
  | c :: cs => isPrefix pat (c :: cs) || containsSub pat cs

/-- the path part of a reference (text before `?`/`#` already cut off): scheme and authority removed -/
def pathOfRef (pre : Str) : Str :=
  let r := partitionAt ':' pre
  let hier := if r.2.1 && !r.1.contains '/' then r.2.2 else pre     -- after "scheme:"
  if isPrefix ['/', '/'] hier then
    let a := partitionAt '/' (hier.drop 2)                           -- after "//authority"
    if a.2.1 then '/' :: a.2.2 else []
  else hier

def hasDup : List Str → Bool
  | [] => false
  | k :: ks => ks.contains k || hasDup ks

def lossyQuery (q : Str) : Bool :=
  let parts := (splitOn '&' q).filter (fun p => !p.isEmpty)
  q.contains ';' || parts.any (fun p => !p.contains '=') || hasDup (parts.map (fun p => (partitionAt '=' p).1))

/-- region predicate of known finding D34e -/
def lossyLocation (loc : Str) : Bool :=
  let noFrag := (partitionAt '#' loc).1
  let pr := partitionAt '?' noFrag
  let pre := asciiLower pr.1
  (["%3f", "%23", "%2f", "%09", "%0a", "%0d"].any (fun p => containsSub p.toList pre))
    || containsSub ['/', '/'] (pathOfRef pre)
    || (match pre with            -- leading encoded space / C0 control: stripped by `urlsplit` once unquoted
        | '%' :: '2' :: '0' :: _ => true
        | '%' :: '0' :: _ => true
        | '%' :: '1' :: _ => true
        | _ => false)
    || lossyQuery pr.2.2

/-! ## `Requester` -/

structure Requester where
  hostname : Str
  port : Int
  scheme : Str
  method : Str
  path : Str
  qargs : List (Str × Str)
  fragment : Str
  body : List Nat
  deriving DecidableEq

/-- what one built request puts on the wire (the parts C34 speaks about) -/
structure Sent where
  method : Str
  target : Str
  host : Str
  body : List Nat
  deriving DecidableEq

def sGET : Str := "GET".toList
def sHEAD : Str := "HEAD".toList
def sHttp : Str := "http".toList
def sHttps : Str := "https".toList
def sSlash : Str := "/".toList

def hostHeader (hostname : Str) (port : Int) : Str :=
  (if hostname.contains ':' then ['['] ++ hostname ++ [']'] else hostname) ++ [':'] ++ intStr port

/-- `if port and port != self.port` -/
def portClash (pp : Option Nat) (port : Int) : Bool :=
  match pp with
  | some n => n != 0 && (n : Int) != port
  | none => false

/-- `if hostname and hostname != self.hostname` -/
def hostClash (h : Option Str) (hostname : Str) : Bool :=
  match h with
  | some h => !h.isEmpty && h != hostname
  | none => false

/-- `Requester.build` (start line, Host header, body) -/
def build (S : Std) (r : Requester) : Except Err (Requester × Sent) :=
  let ps := S.urlsplit r.path
  let path := ps.path
  let qpath := S.quote path
  if !ps.scheme.isEmpty && ps.scheme ≠ r.scheme then .error .valueError else
  match ps.port with
  | none => .error .valueError
  | some pp =>
    if portClash pp r.port then .error .valueError else
    if hostClash ps.hostname r.hostname then .error .valueError else
    let uq := updateQargsQuery S r.qargs ps.query
    let fragment := if ps.fragment.isEmpty then r.fragment else ps.fragment
    let combine := (S.urlsplit (qpath ++ ['?'] ++ uq.2 ++ ['#'])).geturl
    let host := hostHeader r.hostname r.port
    if !(isAscii r.method && isAscii combine && isAscii host) then .error .outOfModel else
    let body := if r.method = sGET then [] else r.body
    .ok ({ r with path := path, qargs := uq.1, fragment := fragment },
         { method := r.method, target := combine, host := host, body := body })

/-! ## `Patron` -/

structure Conn where
  ip : Str
  port : Int
  tls : Bool
  deriving DecidableEq

/-- the `request` member of a response dict (what C34 observes of it) -/
structure Snap where
  host : Str
  port : Int
  scheme : Str
  method : Str
  path : Str
  deriving DecidableEq

/-- a response dict as appended to `.redirects` / `.responses` -/
structure Rec where
  status : Nat
  location : Option Str
  req : Snap
  body : List Nat := []
  /-- `response['errored']`: set when the response is a redirect that could not be followed -/
  errored : Bool := false
  deriving DecidableEq

/-- an entry of the `.requests` deque (as put there by `Patron.request(method, path, qargs, body)`) -/
structure Request where
  method : Str
  path : Str
  qargs : List (Str × Str)
  body : List Nat
  /-- did the socket take the whole request in the service round that transmitted it?  `false`: only part of it
  went out, the remainder stays in `connector.txes` (a large upload, a slow peer) -/
  flush : Bool := true
  deriving DecidableEq

inductive Effect
  | close
  | open (c : Conn)
  | send (c : Conn) (s : Sent)
  | deliver
  | stall            -- response incomplete: the parser keeps waiting for body bytes
  deriving DecidableEq

structure Patron where
  conn : Conn
  req : Requester
  respMethod : Str                       -- `respondent.method`
  redirects : List Rec
  responses : List (Rec × List Rec)      -- (response, its `redirects` chain)
  waited : Bool
  redirectable : Bool
  queue : List Request
  /-- `connector.txes`: the requests (or unsent remainders of requests) still queued in the connector, each with the
  connection it was built for.  `Client.serviceTxes` sends them in this order to wherever the connector points. -/
  unsent : List (Conn × Sent) := []
  deriving DecidableEq

/-- a complete response message as the server wrote it -/
structure Resp where
  status : Nat
  location : Option Str
  clen : Nat       -- declared length of the body (Content-Length, or the sum of the chunks)
  blen : Nat       -- body bytes actually following the head
  body : List Nat := []   -- those bytes (the copy the response record carries)
  deriving DecidableEq

def redirectStatus (n : Nat) : Bool := n = 300 || n = 301 || n = 302 || n = 303 || n = 307

def snapOf (r : Requester) : Snap :=
  { host := r.hostname, port := r.port, scheme := r.scheme, method := r.method, path := r.path }

/-- result of a piece of client activity: the state, the effects that became observable, and the
exception (if any) that ended it.  Effects produced *before* an exception stay in `es`. -/
structure Out where
  p : Patron
  es : List Effect
  err : Option Err
  deriving DecidableEq

/-- `Patron.transmit(method=None, path, qargs, fragment)` as called by `redirect`:
`Requester.rebuild` → `reinit` (body, data, fargs are reset) → `build` → `connector.tx` -/
def transmitRedirect (S : Std) (p : Patron) (path : Str) (qargs : List (Str × Str)) (fragment : Str) : Out :=
  let r := { p.req with path := path, qargs := qargs, fragment := fragment, body := [] }
  match build S r with
  | .error e => ⟨p, [], some e⟩
  | .ok (r', s) => ⟨{ p with req := r', waited := true, unsent := p.unsent ++ [(p.conn, s)] }, [Effect.send p.conn s], none⟩

/-- `Patron.transmit(**request)` as called by `serviceRequests` -/
def transmitRequest (S : Std) (p : Patron) (q : Request) : Out :=
  let m := asciiUpper q.method
  let r := { p.req with method := m, path := q.path, qargs := q.qargs, body := q.body }
  match build S r with
  | .error e => ⟨p, [], some e⟩
  | .ok (r', s) =>
    ⟨{ p with req := r', waited := true, respMethod := r'.method, unsent := p.unsent ++ [(p.conn, s)] },
     [Effect.send p.conn s], none⟩

/-- `Patron.serviceRequests` -/
def serviceRequests (S : Std) (p : Patron) : Out :=
  if p.waited then ⟨p, [], none⟩
  else match p.queue with
    | [] => ⟨p, [], none⟩
    | q :: rest => transmitRequest S { p with queue := rest } q

/-- the target of a redirect as `Patron.redirect` computes it -/
structure Target where
  hostname : Str
  port : Int
  scheme : Str
  secured : Bool
  path : Str
  query : Str
  fragment : Str
  deriving DecidableEq

def baseUrl (r : Requester) : Str :=
  r.scheme ++ "://".toList ++ (if r.hostname.contains ':' then ['['] ++ r.hostname ++ [']'] else r.hostname)
    ++ [':'] ++ intStr r.port ++ r.path

/-- `'https' if scheme.lower() == 'https' else 'http'` -/
def schemeOf (s : Str) : Str := if asciiLower s = sHttps then sHttps else sHttp

/-- the text handed to `urljoin`: the part before the first `?` unquoted, the rest untouched -/
def locText (S : Std) (loc : Str) : Str :=
  let pr := partitionAt '?' loc
  if pr.2.1 then S.unquote pr.1 ++ ['?'] ++ pr.2.2 else S.unquote pr.1

/-- `not splits.hostname`: `None` or empty -/
def hostless (sp : Split) : Bool :=
  match sp.hostname with
  | none => true
  | some h => h.isEmpty

/-- from the split result to scheme / host / port / path / query -/
def targetOfSplit (sp : Split) : Except Err Target :=
  match sp.port with
  | none => .error .invalidURL          -- `ValueError` re-raised as `InvalidURL` (fix D32a)
  | some port =>
    if hostless sp then .error .invalidURL   -- `if not hostname: raise ValueError` → `InvalidURL` (fix D34f)
    else match normalizeHostPort sp.hostname (port.map (fun n => (n : Int)))
        (if schemeOf sp.scheme = sHttps then 443 else 80) with
    | .error e => .error e
    | .ok hp =>
      .ok { hostname := hp.1, port := hp.2, scheme := schemeOf sp.scheme,
            secured := decide (schemeOf sp.scheme = sHttps),
            path := if sp.path.isEmpty then sSlash else sp.path,
            query := sp.query, fragment := sp.fragment }

/-- first half of `Patron.redirect`: from the Location header to scheme/host/port/path/query -/
def parseLocation (S : Std) (r : Requester) (location : Option Str) : Except Err Target :=
  match location with
  | none => .error .invalidURL          -- `if not location: raise InvalidURL` (fix D32a)
  | some loc =>
    if loc.isEmpty then .error .invalidURL
    else match S.urljoin (baseUrl r) (locText S loc) with
      | none => .error .invalidURL      -- `ValueError` re-raised as `InvalidURL` (fix D32a)
      | some u => targetOfSplit (S.urlsplit u)

/-- does `redirect` replace the connection? (`ha != self.connector.ha or scheme != self.requester.scheme`) -/
def mustReconnect (p : Patron) (ip : Str) (t : Target) : Bool :=
  decide ((ip, t.port) ≠ (p.conn.ip, p.conn.port)) || decide (t.scheme ≠ p.req.scheme)

/-- second half of `Patron.redirect`, target and resolved address known -/
def follow (S : Std) (p : Patron) (t : Target) (ip : Str) : Out :=
  let qargs := (updateQargsQuery S [] t.query).1
  if mustReconnect p ip t then
    if p.req.scheme = sHttps ∧ t.scheme ≠ sHttps then ⟨p, [], some .valueError⟩
    else
      let c : Conn := { ip := ip, port := t.port, tls := t.secured }
      let r := { p.req with hostname := t.hostname, port := t.port, scheme := t.scheme, body := [] }
      -- a NEW `Client` / `ClientTls` object: its `.txes` is empty, what the old connector had not sent yet is dropped
      let o := transmitRedirect S { p with conn := c, req := r, unsent := [] } t.path qargs t.fragment
      ⟨o.p, [Effect.close, Effect.open c] ++ o.es, o.err⟩
  else transmitRedirect S p t.path qargs t.fragment

/-- `Patron.redirect` (called with the redirect response already appended to `.redirects`) -/
def redirect (S : Std) (p : Patron) : Out :=
  match p.redirects.getLast? with
  | none => ⟨p, [], none⟩
  | some last =>
    match parseLocation S p.req last.location with
    | .error e => ⟨p, [], some e⟩
    | .ok t =>
      match S.resolve t.hostname with
      | none => ⟨p, [], some .invalidURL⟩   -- `socket.error` re-raised as `InvalidURL` (fix D32a)
      | some ip => follow S p t ip

/-- body bytes the `Respondent` waits for before the response is complete -/
def neededBody (respMethod : Str) (r : Resp) : Nat :=
  if respMethod = sHEAD ∨ r.status = 204 ∨ r.status = 304 ∨ (100 ≤ r.status ∧ r.status < 200) then 0
  else r.clen

def recOf (p : Patron) (r : Resp) : Rec :=
  { status := r.status, location := r.location, req := snapOf p.req, body := r.body }

/-- the response record delivered for a redirect that could not be followed -/
def erroredRec (p : Patron) (r : Resp) : Rec := { recOf p r with errored := true }

/-- the redirect branch of `Patron.serviceResponse`:
`self.redirects.append(copy.copy(response)); try: self.redirect() except httping.InvalidURL: …` -/
def tryRedirect (S : Std) (p : Patron) (r : Resp) : Out :=
  let o := redirect S { p with redirects := p.redirects ++ [recOf p r] }
  if o.err = some .invalidURL then
    -- the appended redirect is popped again and the 3xx response itself is delivered, flagged `errored`,
    -- carrying the redirects collected before it
    ⟨{ o.p with responses := o.p.responses ++ [(erroredRec p r, p.redirects)], redirects := [], waited := false },
     o.es ++ [Effect.deliver], none⟩
  else o

/-- `Patron.serviceResponse` for one response message arriving while `.waited` -/
def serviceResponse (S : Std) (p : Patron) (r : Resp) : Out :=
  if !p.waited then ⟨p, [], some .outOfModel⟩     -- bytes nobody waits for stay in the buffer: not modelled
  else if r.blen < neededBody p.respMethod r then ⟨p, [Effect.stall], none⟩
  else if neededBody p.respMethod r < r.blen then ⟨p, [], some .outOfModel⟩
  else if p.redirectable && redirectStatus r.status then tryRedirect S p r
  else
    ⟨{ p with responses := p.responses ++ [(recOf p r, p.redirects)], redirects := [], waited := false },
     [Effect.deliver], none⟩

inductive Op
  | request (q : Request)     -- `Patron.request(...)` followed by a service round
  | response (r : Resp)       -- a complete response arrives, followed by a service round
  deriving DecidableEq

/-- the socket takes everything that is queued (`Client.serviceTxes` with a peer that reads) -/
def drain (o : Out) : Out := ⟨{ o.p with unsent := [] }, o.es, o.err⟩

/-- one service round (for a response: the rounds until it has been dealt with; by their end the wire has taken
whatever was queued) -/
def step (S : Std) (p : Patron) : Op → Out
  | .request q =>
    let a := serviceRequests S { p with queue := p.queue ++ [q] }
    if q.flush then drain a else a
  | .response r =>
    let a := serviceResponse S p r
    match a.err with
    | some _ => a
    | none =>
      let b := serviceRequests S a.p
      drain ⟨b.p, a.es ++ b.es, b.err⟩

/-- a whole history; the first exception ends it (it leaves `serviceAll`) -/
def run (S : Std) : Patron → List Op → Out
  | p, [] => ⟨p, [], none⟩
  | p, o :: os =>
    let a := step S p o
    match a.err with
    | some _ => a
    | none =>
      let b := run S a.p os
      ⟨b.p, a.es ++ b.es, b.err⟩

/-- a connector handed to `Patron(connector=…)`: (is it a `ClientTls`, its `.hostname`, its `.port`) -/
abbrev Connector := Bool × Str × Int

/-- the scheme / TLS / default-port decision of `Patron.__init__`: a connector dictates them (and refuses a
different scheme with `ValueError`), otherwise `https` means TLS and anything else — also no scheme — is `http` -/
def schemeFor (connector : Option Connector) (scheme0 : Str) : Except Err (Str × Bool × Int) :=
  match connector with
  | some (true, _, _) => if !scheme0.isEmpty && scheme0 ≠ sHttps then .error .valueError else .ok (sHttps, true, 443)
  | some (false, _, _) => if !scheme0.isEmpty && scheme0 ≠ sHttp then .error .valueError else .ok (sHttp, false, 80)
  | none => if scheme0 = sHttps then .ok (sHttps, true, 443) else .ok (sHttp, false, 80)

/-- the freshly constructed and opened Patron -/
def newPatron (c : Conn) (h : Str) (pt : Int) (scheme : Str) (redirectable : Bool) : Patron × List Effect :=
  ({ conn := c,
     req := { hostname := h, port := pt, scheme := scheme, method := sGET, path := sSlash,
              qargs := [], fragment := [], body := [] },
     respMethod := sGET, redirects := [], responses := [], waited := false,
     redirectable := redirectable, queue := [] }, [Effect.open c])

/-- `Patron(path=url, hostname=…, port=…, scheme=…, connector=…)` with the other defaults, then `.open()`.
`url` is the `path` argument (default `/`): scheme, host and port found in it take priority.  With a caller-supplied
connector the scheme is dictated by its type and the requester takes the connector's host name and port. -/
def initPatron (S : Std) (url hostname : Str) (port : Option Int) (scheme : Str) (connector : Option Connector)
    (redirectable : Bool) : Except Err (Patron × List Effect) :=
  let sp := S.urlsplit url
  match schemeFor connector (asciiLower (if sp.scheme.isEmpty then scheme else sp.scheme)) with
  | .error e => .error e
  | .ok (scheme, secured, defaultPort) =>
    match sp.port with
    | none => .error .valueError
    | some spp =>
      let hostname := match sp.hostname with | some h => if h.isEmpty then hostname else h | none => hostname
      let port : Option Int := match spp with | some n => if n = 0 then port else some (n : Int) | none => port
      match normalizeHostPort (some hostname) port defaultPort with
      | .error e => .error e
      | .ok (hostname, port) =>
        match S.resolve hostname with
        | none => .error .gaiError
        | some ip =>
          match connector with
          | none => .ok (newPatron { ip := ip, port := port, tls := secured } hostname port scheme redirectable)
          | some (tls, chost, cport) =>
            match S.resolve chost with
            | none => .error .gaiError
            | some cip => .ok (newPatron { ip := cip, port := cport, tls := tls } chost cport scheme redirectable)

end Ioflo.Redirect
