/-
Model of the name registries (property C47):
`ioflo/base/registering.py` `Registrar.__init__` / `Clear`, `housing.House.__init__` /
`assignRegistries` / `ClearRegistries`, `framing.Framer.assignFrameRegistry`.

What is transcribed
* A registry is the pair of *class attributes* `Names` (a dict) and `Counter` (an int).  The root
  classes House, Store, Tasker, Log, Frame define their own; Framer and Logger (subclasses of
  Tasker) inherit Tasker's.  `self.__class__.Counter += 1` READS through inheritance but WRITES
  on the instance's own class: the first Framer ever created gives `Framer` a counter of its own
  that no later `assignRegistries` or `Tasker.Clear()` touches (`sCounter`).  `cls.Clear()` binds
  a NEW dict and 0 on `cls` itself.
* `assignRegistries` / `assignFrameRegistry` point the class attributes at the dicts a house /
  framer owns; the counters they assign (`house.counters[key]`, `framer.frameCounter`) are never
  written back by anybody, so they are always 0: automatic names restart at 1 in every house and
  the `while name in Names` loop is what keeps them unique.
* Dicts are heap objects (`heap : id → association list`), instances are numbers; `insts` is a
  ghost record of every instance that was ever registered and of the dict it registered in.
* `random.randint(0, 25)` is a list of letters handed to the operation; the loop is structural
  in that list and returns `needLetters` when it runs dry (the theorem
  `C47_autoname_terminates_fresh` bounds how many it can need).
* `Framer.prune()` (reached by `raze`) ends with `self.store.house.assignRegistries()` (repair D47a;
  recorded as its own event) and `if self.name in Framer.Names and Framer.Names[self.name] == self:
  del Framer.Names[self.name]`: operation `prune k` looks the framer up in the namespace that is
  current for Framer and removes it only if that entry is this very instance.
* `House.__init__` registers the house, allocates its three dicts and then creates
  `Store(name = house.name)` in the CURRENT store registry; if that raises, the exception leaves
  the constructor with the house already registered.
Core Lean only.
-/
namespace Ioflo.Registry

abbrev Str := List Char

inductive Root where
  | house | store | tasker | log | frame
deriving DecidableEq, Repr

/-- subclasses of Tasker that do not define `Names` / `Counter` themselves -/
inductive Sub where
  | framer | logger
deriving DecidableEq, Repr

inductive Cls where
  | root (r : Root)
  | sub (s : Sub)
deriving DecidableEq, Repr

/-- every modelled subclass derives from Tasker -/
def Sub.parent : Sub → Root := fun _ => .tasker

/-- `cls.__name__`, the default preface (House and Frame and Log pass theirs explicitly: same text) -/
def Cls.preface : Cls → Str
  | .root .house => "House".toList
  | .root .store => "Store".toList
  | .root .tasker => "Tasker".toList
  | .root .log => "Log".toList
  | .root .frame => "Frame".toList
  | .sub .framer => "Framer".toList
  | .sub .logger => "Logger".toList

abbrev Dict := List (Str × Nat)

def dkeys (d : Dict) : List Str := d.map Prod.fst

/-- `del d[k]` -/
def derase : Dict → Str → Dict
  | [], _ => []
  | (k', v) :: rest, k => if k' = k then rest else (k', v) :: derase rest k

def dget (d : Dict) (k : Str) : Option Nat :=
  match d with
  | [] => none
  | (k', v) :: rest => if k' = k then some v else dget rest k

/-- ghost record of a registered instance -/
structure Inst where
  id : Nat
  cls : Cls
  name : Str
  dict : Nat           -- the dict it registered in
deriving DecidableEq, Repr

structure St where
  rNames : Root → Nat            -- `Root.Names` (a dict id)
  rCounter : Root → Nat          -- `Root.Counter`
  sNames : Sub → Option Nat      -- own `Names` of a subclass (only after `Sub.Clear()`)
  sCounter : Sub → Option Nat    -- own `Counter` of a subclass (after its first instance)
  heap : Nat → Dict
  nextDict : Nat
  nextInst : Nat
  insts : List Inst
  houseDicts : List (Nat × Nat × Nat × Nat)   -- house instance ↦ ids of its store/tasker/log dicts
  framerDicts : List (Nat × Nat)              -- framer instance ↦ id of its frameNames dict

/-- a fresh interpreter: five root registries, dicts 0–4 -/
def init : St :=
  { rNames := fun r => match r with
      | .house => 0 | .store => 1 | .tasker => 2 | .log => 3 | .frame => 4
    rCounter := fun _ => 0
    sNames := fun _ => none
    sCounter := fun _ => none
    heap := fun _ => []
    nextDict := 5
    nextInst := 0
    insts := []
    houseDicts := []
    framerDicts := [] }

/-- `cls.Names` resolved through inheritance -/
def getNames (s : St) : Cls → Nat
  | .root r => s.rNames r
  | .sub x =>
    match s.sNames x with
    | some d => d
    | none => s.rNames x.parent

/-- `cls.Counter` resolved through inheritance -/
def getCounter (s : St) : Cls → Nat
  | .root r => s.rCounter r
  | .sub x =>
    match s.sCounter x with
    | some c => c
    | none => s.rCounter x.parent

/-- `cls.Counter = c` (an assignment always lands on `cls` itself) -/
def setCounter (s : St) (c : Nat) : Cls → St
  | .root r => { s with rCounter := fun r' => if r' = r then c else s.rCounter r' }
  | .sub x => { s with sCounter := fun x' => if x' = x then some c else s.sCounter x' }

def setNames (s : St) (d : Nat) : Cls → St
  | .root r => { s with rNames := fun r' => if r' = r then d else s.rNames r' }
  | .sub x => { s with sNames := fun x' => if x' = x then some d else s.sNames x' }

def setHeap (s : St) (d : Nat) (v : Dict) : St :=
  { s with heap := fun d' => if d' = d then v else s.heap d' }

/-- `while name in Names: name += chr(ord('a') + random.randint(0, 25))` over a supply of letters;
`none` = the supply ran dry while the name was still taken -/
def extend (keys : List Str) : Str → List Char → Option (Str × List Char)
  | name, [] => if name ∈ keys then none else some (name, [])
  | name, c :: ls => if name ∈ keys then extend keys (name ++ [c]) ls else some (name, c :: ls)

inductive Err where
  | parameterError      -- "Instance name attribute not unique"
  | needLetters         -- model artefact: the letter supply of the operation was too short
deriving DecidableEq, Repr

/-- decimal digits of a counter (`str(Counter)`) -/
def digits (n : Nat) : Str := (toString n).toList

/-- `self.name = name; cls.Names[name] = self` for a name known to be absent -/
def register (s : St) (cls : Cls) (d : Nat) (name : Str) : St × Nat :=
  let i := s.nextInst
  ({ setHeap s d (s.heap d ++ [(name, i)]) with
      nextInst := i + 1, insts := s.insts ++ [⟨i, cls, name, d⟩] }, i)

/-- `Registrar.__init__(name=name)` for an instance of `cls` -/
def registrarInit (s : St) (cls : Cls) (name : Str) (letters : List Char) :
    St × Except Err (Str × Nat) :=
  let s1 := setCounter s (getCounter s cls + 1) cls          -- `self.__class__.Counter += 1`
  let d := getNames s1 cls
  if name.isEmpty then
    match extend (dkeys (s1.heap d)) (cls.preface ++ digits (getCounter s1 cls)) letters with
    | none => (s1, .error .needLetters)
    | some (nm, _) => let r := register s1 cls d nm; (r.1, .ok (nm, r.2))
  else if name ∈ dkeys (s1.heap d) then (s1, .error .parameterError)
  else let r := register s1 cls d name; (r.1, .ok (name, r.2))

/-- `cls.Clear()`: a new empty dict and 0, bound on `cls` itself -/
def clear (s : St) (cls : Cls) : St :=
  let d := s.nextDict
  setCounter (setNames { s with nextDict := d + 1 } d cls) 0 cls

def findInst (l : List Inst) (i : Nat) : Option Inst :=
  match l with
  | [] => none
  | r :: rest => if r.id = i then some r else findInst rest i

/-- `if self.name in Framer.Names and Framer.Names[self.name] == self: del Framer.Names[self.name]`
for the framer instance `i` (its name is in the ghost record; an instance without a record is
registered nowhere) -/
def unregister (s : St) (i : Nat) : St :=
  match findInst s.insts i with
  | none => s
  | some r =>
    let d := getNames s (.sub .framer)
    if dget (s.heap d) r.name = some i then
      { setHeap s d (derase (s.heap d) r.name) with insts := s.insts.filter (fun x => x.id != i) }
    else s

/-- `self.frameNames = odict()` of a new framer `i` -/
def allocFramer (s : St) (i : Nat) : St :=
  { s with nextDict := s.nextDict + 1, framerDicts := s.framerDicts ++ [(i, s.nextDict)] }

/-- `for key in Registries: self.names[key] = odict()` (store, tasker, log) of a new house `i` -/
def allocHouse (s : St) (i : Nat) : St :=
  { s with nextDict := s.nextDict + 3,
           houseDicts := s.houseDicts ++ [(i, s.nextDict, s.nextDict + 1, s.nextDict + 2)] }

inductive Op where
  | new (cls : Cls) (name : Str) (letters : List Char)   -- Store / Tasker / Logger / Log / Frame / Framer
  | newHouse (name : Str) (letters : List Char)
  | clear (cls : Cls)
  | clearRegistries                                        -- `housing.ClearRegistries()`
  | assignRegistries (k : Nat)          -- of the k-th house ever registered
  | assignFrameRegistry (k : Nat)       -- of the k-th framer ever registered
  | prune (k : Nat)                     -- the name-registry part of `Framer.prune()` of the k-th framer

inductive Out where
  | name (n : Str) (inst : Nat)
  | unit
  | err (e : Err)
  | noSuch          -- there is no k-th house / framer
deriving DecidableEq, Repr

def step (s : St) : Op → St × Out
  | .new cls name letters =>
    match registrarInit s cls name letters with
    | (s1, .error e) => (s1, .err e)
    | (s1, .ok (nm, i)) =>
      if cls = .sub .framer then
        (allocFramer s1 i, .name nm i)
      else (s1, .name nm i)
  | .newHouse name letters =>
    match registrarInit s (.root .house) name letters with
    | (s1, .error e) => (s1, .err e)
    | (s1, .ok (nm, i)) =>
      -- `self.store = storing.Store(name = self.name)` in the current Store registry
      match registrarInit (allocHouse s1 i) (.root .store) nm [] with
      | (s3, .error e) => (s3, .err e)
      | (s3, .ok _) => (s3, .name nm i)
  | .clear cls => (clear s cls, .unit)
  | .clearRegistries => (clear (clear (clear s (.root .store)) (.root .tasker)) (.root .log), .unit)
  | .assignRegistries h =>
    match s.houseDicts[h]? with
    | none => (s, .noSuch)
    | some (_, ds, dt, dl) =>
      -- `value.Names = self.names[key]; value.Counter = self.counters[key]` (always 0)
      let s1 := setCounter (setNames s ds (.root .store)) 0 (.root .store)
      let s2 := setCounter (setNames s1 dt (.root .tasker)) 0 (.root .tasker)
      (setCounter (setNames s2 dl (.root .log)) 0 (.root .log), .unit)
  | .assignFrameRegistry f =>
    match s.framerDicts[f]? with
    | none => (s, .noSuch)
    | some (_, d) => (setCounter (setNames s d (.root .frame)) 0 (.root .frame), .unit)
  | .prune f =>
    match s.framerDicts[f]? with
    | none => (s, .noSuch)
    | some (i, _) => (unregister s i, .unit)

def run : St → List Op → St
  | s, [] => s
  | s, op :: ops => run (step s op).1 ops

end Ioflo.Registry
