import IofloModel.Model.Containers
/-
Model of the remote indexes of ioflo/aio/proto/stacking.py `RemoteStack`
(addRemote / moveRemote / renameRemote / rehaRemote / removeRemote / removeAllRemotes) and of the uid
assignment of ioflo/aio/proto/devicing.py `RemoteDevice.__init__` / `Stack.nextUid`.

The three indexes (`uidRemotes`, `nameRemotes`, `haRemotes`) are odicts; they are modelled as the
ordered dictionaries that odicts are (C39: `dget`, `ddel`, `pyInsert`, append of a new key) whose values are
object identities: the index of the `RemoteDevice` object in `devs`, the list of every device created
so far.  A device object is mutable (`remote.uid = new`), so its fields live in `devs`.
`N` = names, `H` = host addresses.  Core Lean only.
-/
namespace Ioflo.Remotes
open Ioflo.Containers

/-- the fields of a `Device` object that the indexes use -/
structure Dev (N H : Type) where
  uid : Nat
  name : N
  ha : H
  deriving Repr, DecidableEq

structure St (N H : Type) where
  puid : Nat                      -- Stack.puid
  loc : Dev N H                   -- Stack.local
  devs : List (Dev N H)           -- every RemoteDevice object created so far; position = identity
  uidR : List (Nat × Nat)         -- uidRemotes (= remotes): uid ↦ object
  nameR : List (N × Nat)          -- nameRemotes: name ↦ object
  haR : List (H × Nat)            -- haRemotes: ha ↦ object
  deriving Repr, DecidableEq

inductive Op (N H : Type)
  | create (uid : Option Nat) (name : Option N) (ha : Option H)   -- RemoteDevice(stack, uid, name, ha)
  | createIp (uid : Option Nat) (name : Option N) (ha : Option H) -- IpRemoteDevice(stack, uid, name, ha)
  | add (r : Nat) | move (r : Nat) (new : Nat) | rename (r : Nat) (new : N) | reha (r : Nat) (new : H)
  | remove (r : Nat) | removeAll
  deriving Repr

/-- a device changed behind the stack's back: `remote.uid = new` / `remote.name = new` / `remote.ha = new` written
directly (or by ANOTHER stack that holds the same device object and moves / renames / re-addresses it there):
only the device object changes, no index of this stack is touched -/
inductive Tamper (N H : Type)
  | setUid (r : Nat) (new : Nat) | setName (r : Nat) (new : N) | setHa (r : Nat) (new : H)
  deriving Repr

inductive Out
  | none          -- returned normally
  | ref (n : Nat) -- the new object
  | rejected      -- ValueError (or the NameError of removeRemote's "not identical" message): nothing done
  | crashed (e : Err)  -- any other exception
  | bad           -- no such object
  deriving Repr, DecidableEq

section
variable {N H : Type} [DecidableEq N] [DecidableEq H]

/-- `uid = stack.nextUid(); while uid in stack.remotes or uid in (stack.local.uid,): uid = stack.nextUid()`
with `p` = puid before the call; `fuel` bounds the number of further iterations -/
def findUid : Nat → Nat → List Nat → Nat
  | 0, p, _ => p + 1
  | f + 1, p, used => if p + 1 ∈ used then findUid f (p + 1) used else p + 1

/-- every uid the loop has to avoid -/
def usedUids (s : St N H) : List Nat := s.uidR.map Prod.fst ++ [s.loc.uid]

/-- the uids to avoid are all ≤ this, so the loop ends within that many steps -/
def maxUid (l : List Nat) : Nat := l.foldl max 0

/-- `Stack()` with the local device's fields given or defaulted (`LocalDevice(stack, uid, name, ha)`):
a missing uid is `nextUid()`, a missing name `"Device<uid>"`, a missing ha `''` -/
def init (defaultName : Nat → N) (defaultHa : H) (puid : Nat) (uid : Option Nat) (name : Option N)
    (ha : Option H) : St N H :=
  let p := match uid with | some _ => puid | none => puid + 1
  let u := match uid with | some u => u | none => puid + 1
  { puid := p, loc := ⟨u, name.getD (defaultName u), ha.getD defaultHa⟩,
    devs := [], uidR := [], nameR := [], haR := [] }

/-- `RemoteStack(remotes=…, nameRemotes=…, haRemotes=…)`: the constructor takes the three index odicts from
the caller as they are (`self.remotes = remotes if remotes is not None else odict()`), already holding the
device objects `devs`, each index in whatever order the caller built it -/
def initWith (defaultName : Nat → N) (defaultHa : H) (puid : Nat) (uid : Option Nat) (name : Option N)
    (ha : Option H) (devs : List (Dev N H)) (uidR : List (Nat × Nat)) (nameR : List (N × Nat))
    (haR : List (H × Nat)) : St N H :=
  { init defaultName defaultHa puid uid name ha with devs := devs, uidR := uidR, nameR := nameR, haR := haR }

def tamper (s : St N H) : Tamper N H → Option (St N H)
  | .setUid r new => (s.devs[r]?).map (fun d => { s with devs := s.devs.set r { d with uid := new } })
  | .setName r new => (s.devs[r]?).map (fun d => { s with devs := s.devs.set r { d with name := new } })
  | .setHa r new => (s.devs[r]?).map (fun d => { s with devs := s.devs.set r { d with ha := new } })

/-- `IpDevice.__init__`: a given (truthy) ha has its host normalised (`norm`: `aioing.normalizeHost`, then
'0.0.0.0' → '127.0.0.1', '::' → '::1'), a missing one is `('127.0.0.1', stack.Port)`.  Nothing else normalises:
`rehaRemote`'s `remote.ha = new` stores `new` as given. -/
def ipHa (norm : H → H) (defaultIpHa : H) : Option H → H
  | some h => norm h
  | none => defaultIpHa

/-- a stack whose local device is an `IpLocalDevice` (as in UdpStack / TcpServerStack) -/
def initIp (defaultName : Nat → N) (norm : H → H) (defaultIpHa : H) (puid : Nat) (uid : Option Nat)
    (name : Option N) (ha : Option H) : St N H :=
  let p := match uid with | some _ => puid | none => puid + 1
  let u := match uid with | some u => u | none => puid + 1
  { puid := p, loc := ⟨u, name.getD (defaultName u), ipHa norm defaultIpHa ha⟩,
    devs := [], uidR := [], nameR := [], haR := [] }

/-- `index = odict.keys().index(old); del odict[old]; odict.insert(index, new, remote)` -/
def rekey {K : Type} [DecidableEq K] (m : List (K × Nat)) (old new : K) (r : Nat) : List (K × Nat) :=
  pyInsert (ddel m old) (Int.ofNat ((m.map Prod.fst).idxOf old)) (new, r)

def step (defaultName : Nat → N) (defaultHa : H) (norm : H → H) (defaultIpHa : H) (s : St N H) :
    Op N H → St N H × Out
  | .createIp uid name ha =>
    -- IpDevice.__init__ normalises, then RemoteDevice.__init__ / Device.__init__
    let u := match uid with
      | some u => u
      | none => findUid (maxUid (usedUids s) + 1) s.puid (usedUids s)
    let p := match uid with | some _ => s.puid | none => u
    let d : Dev N H := ⟨u, name.getD (defaultName u), ipHa norm defaultIpHa ha⟩
    ({ s with puid := p, devs := s.devs ++ [d] }, .ref s.devs.length)
  | .create uid name ha =>
    -- RemoteDevice.__init__ / Device.__init__
    let u := match uid with
      | some u => u
      | none => findUid (maxUid (usedUids s) + 1) s.puid (usedUids s)
    let p := match uid with | some _ => s.puid | none => u
    let d : Dev N H := ⟨u, name.getD (defaultName u), ha.getD defaultHa⟩
    ({ s with puid := p, devs := s.devs ++ [d] }, .ref s.devs.length)
  | .add r =>
    match s.devs[r]? with
    | none => (s, .bad)
    | some d =>
      if dhas s.uidR d.uid || d.uid == s.loc.uid then (s, .rejected)
      else if dhas s.nameR d.name || d.name == s.loc.name then (s, .rejected)
      else if dhas s.haR d.ha || d.ha == s.loc.ha then (s, .rejected)
      else ({ s with uidR := s.uidR ++ [(d.uid, r)], nameR := s.nameR ++ [(d.name, r)],
                     haR := s.haR ++ [(d.ha, r)] }, .none)
  | .move r new =>
    match s.devs[r]? with
    | none => (s, .bad)
    | some d =>
      let old := d.uid
      if new = old then (s, .none)
      else if dhas s.uidR new || new == s.loc.uid then (s, .rejected)
      else
        match dget s.uidR old with
        | none => (s, .rejected)
        | some r' =>
          if r' ≠ r then (s, .rejected)
          else ({ s with devs := s.devs.set r { d with uid := new }, uidR := rekey s.uidR old new r }, .none)
  | .rename r new =>
    match s.devs[r]? with
    | none => (s, .bad)
    | some d =>
      let old := d.name
      if new = old then (s, .none)
      else if dhas s.nameR new || new == s.loc.name then (s, .rejected)
      else
        match dget s.nameR old with
        | none => (s, .rejected)
        | some r' =>
          if r' ≠ r then (s, .rejected)
          else ({ s with devs := s.devs.set r { d with name := new }, nameR := rekey s.nameR old new r }, .none)
  | .reha r new =>
    match s.devs[r]? with
    | none => (s, .bad)
    | some d =>
      let old := d.ha
      if new = old then (s, .none)
      else if dhas s.haR new || new == s.loc.ha then (s, .rejected)
      else
        match dget s.haR old with
        | none => (s, .rejected)
        | some r' =>
          if r' ≠ r then (s, .rejected)
          else ({ s with devs := s.devs.set r { d with ha := new }, haR := rekey s.haR old new r }, .none)
  | .remove r =>
    match s.devs[r]? with
    | none => (s, .bad)
    | some d => removeOne s r d
  | .removeAll =>
    -- `for remote in self.remotes.values(): self.removeRemote(remote)`; stops at the first exception
    removeList s (s.uidR.map Prod.snd)
where
  /-- `removeRemote(remote)`: the three `del`s run one after the other, a KeyError leaves the earlier ones done -/
  removeOne (s : St N H) (r : Nat) (d : Dev N H) : St N H × Out :=
    match dget s.uidR d.uid with
    | none => (s, .rejected)
    | some r' =>
      if r' ≠ r then (s, .rejected)
      else
        let s1 := { s with uidR := ddel s.uidR d.uid }
        if dhas s.nameR d.name then
          let s2 := { s1 with nameR := ddel s.nameR d.name }
          if dhas s.haR d.ha then ({ s2 with haR := ddel s.haR d.ha }, .none)
          else (s2, .crashed .KeyError)
        else (s1, .crashed .KeyError)
  removeList (s : St N H) : List Nat → St N H × Out
    | [] => (s, .none)
    | r :: rs =>
      match s.devs[r]? with
      | none => (s, .crashed .IndexError)
      | some d =>
        match removeOne s r d with
        | (s', .none) => removeList s' rs
        | (s', o) => (s', o)

end
end Ioflo.Remotes
