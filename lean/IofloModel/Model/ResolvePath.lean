/-
Model for C13 — relative store addressing.

Transcribed from
  ioflo/base/acting.py    Act.resolvePath  (framer-inode walk up the `main` chain of auxiliary framers,
                          frame-inode walk up `over`, act-inode prepending with the default inode
                          `framer.me.frame.me.actor.me`, `me`/`main` substitution, node/share decision)
  ioflo/aid/aiding.py     nameToPath (camel case actor name → path segments)
  ioflo/base/building.py  Builder.parseIndirect, Builder.parseRelation (clause tokens → relative path)

Paths are lists of segments (`str.split('.')`).  The code compares segments with the keywords
`""` (absolute), `framer`, `frame`, `actor`, `me`, `main` and otherwise only moves them around.
Errors the Python raises are constructors of `Err`.  Core Lean only.
-/
namespace Ioflo.ResolvePath

/-! ## strings ↔ segments -/

/-- `s.rstrip('.')` -/
def rstripDots (s : String) : String :=
  String.ofList (s.toList.reverse.dropWhile (· == '.')).reverse

/-- `s.lstrip('.')` -/
def lstripDots (s : String) : String :=
  String.ofList (s.toList.dropWhile (· == '.'))

/-- `inode.rstrip(".").split(".") if inode else []` -/
def inodeParts (inode : String) : List String :=
  if inode = "" then [] else (rstripDots inode).splitOn "."

/-- `ipath.split('.') if ipath else []` -/
def pathParts (ipath : String) : List String :=
  if ipath = "" then [] else ipath.splitOn "."

def joinDots (parts : List String) : String := ".".intercalate parts

/-- `nameToPath(name).lstrip('.').rstrip('.').split('.')` : an upper case letter starts a new
segment and is lowered -/
def nameToPath (name : String) : String :=
  String.ofList ((name.toList.map (fun c => if c.isUpper then ['.', c.toLower] else [c])).flatten ++ ['.'])

def actorParts (name : String) : List String :=
  (rstripDots (lstripDots (nameToPath name))).splitOn "."

/-! ## context of an act -/

/-- a frame as the walk sees it: its name and its inode (already split; `[]` = empty inode) -/
structure FrameC where
  name : String
  inode : List String
deriving DecidableEq, Repr

/-- one step up the chain of auxiliary framers: the main frame with its over frames (main first),
and the framer that owns the main frame -/
structure MainC where
  chain : List FrameC
  framerName : String
  framerInode : List String
deriving DecidableEq, Repr

structure Ctx where
  frames : List FrameC          -- the act's frame, then its over frames upward
  framerName : String
  framerInode : List String
  mains : List MainC            -- `framer.main`, `framer.main.framer.main`, …
  actor : Option (List String)  -- path segments of the resolved actor's name; `none` = unresolved
deriving DecidableEq, Repr

inductive Err where
  | incomplete       -- "Incomplete relative pathname": `framer`, `framer.X.frame`, `framer.X.actor`,
                     -- `framer.X.frame.Y.actor` (fix D68; an IndexError at parts[1]/[3]/[5] before it)
  | noMain           -- "Missing main framer/frame context"
  | noActor          -- "Unresolved actor context"
deriving DecidableEq, Repr

/-! ## Act.resolvePath on segments -/

/-- `parts and parts[0] in ("", "framer")` -/
def absOrFramer : List String → Bool
  | s :: _ => s == "" || s == "framer"
  | [] => false

/-- `parts and parts[0] == "me"` -/
def headMe : List String → Bool
  | s :: _ => s == "me"
  | [] => false

/-- inner `while main and (not fparts or fparts[0] not in ("", "framer"))`: up the over frames of a
main frame -/
def walkMain : List FrameC → List String → List String
  | [], fp => fp
  | m :: rest, fp =>
    if absOrFramer fp then fp
    else if m.inode ≠ [] then
      let fp := m.inode ++ fp
      if headMe fp then fp.tail else walkMain rest fp
    else walkMain rest fp

/-- outer `while mainer and (not fparts or fparts[0] not in ("", "framer"))`: up the main framers -/
def walkFramers : List MainC → List String → List String
  | [], fp => fp
  | m :: rest, fp =>
    if absOrFramer fp then fp
    else if headMe fp then
      let fp := fp.tail
      walkFramers rest (if m.framerInode ≠ [] then m.framerInode ++ fp else fp)
    else
      let fp := walkMain m.chain fp
      if absOrFramer fp then fp
      else walkFramers rest (if m.framerInode ≠ [] then m.framerInode ++ fp else fp)

/-- `fparts`: the framer inode context -/
def framerParts (c : Ctx) : List String :=
  let fp := walkFramers c.mains c.framerInode
  if headMe fp then fp.tail else fp

/-- `while frame and (not oparts or oparts[0] not in ("", "framer"))`: up the over frames -/
def walkOver : List FrameC → List String → List String
  | overs, op =>
    if absOrFramer op then op
    else if headMe op then op.tail
    else match overs with
      | [] => op
      | f :: rest => walkOver rest (if f.inode ≠ [] then f.inode ++ op else op)

/-- `oparts`: the frame inode context -/
def overParts (c : Ctx) : List String :=
  match c.frames with
  | [] => []
  | f :: overs => walkOver overs f.inode

def defaultInode : List String := ["framer", "me", "frame", "me", "actor", "me"]

/-- `if self.inode is not None and (not parts or parts[0] not in ("framer", "me"))`: prepend the act
inode, the default inode when there is no inode context at all -/
def addInode (fparts oparts : List String) (inode : Option (List String)) (parts : List String) : List String :=
  match inode with
  | some ip =>
    if parts = [] ∨ ¬ (parts.head? = some "framer" ∨ parts.head? = some "me") then
      (if ip = [] ∧ oparts = [] ∧ fparts = [] then defaultInode else ip) ++ parts
    else parts
  | none => parts

/-- `if not parts or parts[0] not in ("", "framer")`: prepend the frame and framer inode contexts -/
def addCtx (fparts oparts : List String) (parts : List String) : List String :=
  if absOrFramer parts then parts
  else
    let parts := if headMe parts then parts.tail else oparts ++ parts
    if absOrFramer parts then parts else fparts ++ parts

/-- the prepending block (only for an empty or relative `parts`) -/
def prepend (c : Ctx) (inode : Option (List String)) (parts : List String) : List String :=
  addCtx (framerParts c) (overParts c) (addInode (framerParts c) (overParts c) inode parts)

/-- `actor.me` substitution: `parts[k:k+1] = nameToPath(self.actor.name)…split('.')` -/
def substActor (c : Ctx) : List String → Except Err (List String)
  | [] => .error .incomplete
  | p :: rest =>
    if p = "me" then
      match c.actor with
      | some a => .ok (a ++ rest)
      | none => .error .noActor
    else .ok (p :: rest)

/-- `parts[3]` after `frame`: `me` → this frame, `main` → the main frame -/
def substFrameName (c : Ctx) (p3 : String) : Except Err String :=
  if p3 = "me" then .ok ((c.frames.head?.map (·.name)).getD "")
  else if p3 = "main" then
    match c.mains with
    | m :: _ => .ok ((m.chain.head?.map (·.name)).getD "")
    | [] => .error .noMain
  else .ok p3

/-- `parts[1]` after `framer`: `me` → this framer, `main` → the framer of the main frame -/
def substFramerName (c : Ctx) (p1 : String) : Except Err String :=
  if p1 = "me" then .ok c.framerName
  else if p1 = "main" then
    match c.mains with
    | m :: _ => .ok m.framerName
    | [] => .error .noMain
  else .ok p1

/-- the substitution block for a path starting with `framer` (argument: the segments after it) -/
def substFramer (c : Ctx) : List String → Except Err (List String)
  | [] => .error .incomplete                                  -- parts[1]
  | p1 :: rest => do
    let p1 ← substFramerName c p1
    match rest with
    | [] => return ["framer", p1]
    | p2 :: rest3 =>
      if p2 = "frame" then
        match rest3 with
        | [] => .error .incomplete                             -- parts[3]
        | p3 :: rest4 => do
          let p3 ← substFrameName c p3
          match rest4 with
          | [] => return ["framer", p1, "frame", p3]
          | p4 :: rest5 =>
            if p4 = "actor" then do
              let tail ← substActor c rest5
              return "framer" :: p1 :: "frame" :: p3 :: "actor" :: tail
            else return "framer" :: p1 :: "frame" :: p3 :: p4 :: rest5
      else if p2 = "actor" then do
        let tail ← substActor c rest3
        return "framer" :: p1 :: "actor" :: tail
      else return "framer" :: p1 :: p2 :: rest3

/-- the guard of fix D68, after the prepending block: a path that starts with `framer` and stops right
after `framer`, after `framer.X.frame` / `framer.X.actor`, or after `framer.X.frame.Y.actor` -/
def incompletePath : List String → Bool
  | p0 :: rest =>
    p0 == "framer" &&
      (match rest with
       | [] => true
       | [_, p2] => p2 == "frame" || p2 == "actor"
       | [_, p2, _, p4] => p2 == "frame" && p4 == "actor"
       | _ => false)
  | [] => false

/-- `Act.resolvePath` from the split `ipath` to the final segments -/
def resolveParts (c : Ctx) (inode : Option (List String)) (parts : List String) : Except Err (List String) :=
  -- `if not parts or parts and parts[0]`: empty or relative → prepending; absolute: untouched
  let parts := if parts.head? = some "" then parts else prepend c inode parts
  -- `if parts and parts[0]: if parts[0] == 'framer'`
  if incompletePath parts then .error .incomplete
  else
    match parts with
    | [] => .ok []
    | p0 :: rest => if p0 = "framer" then substFramer c rest else .ok (p0 :: rest)

/-- final text and whether it denotes a node (trailing dot); the name handed to the store is
`createNode(ipath.rstrip('.'))` for a node and `create(ipath)` for a share -/
def finish (noded : Bool) (parts : List String) : String × Bool :=
  let ipath := joinDots parts
  let ipath := if noded ∧ ipath ≠ "" ∧ ¬ ipath.endsWith "." then ipath ++ "." else ipath
  if ipath.endsWith "." then (rstripDots ipath, true) else (ipath, false)

/-- raw context: inodes as the strings stored in `Framer.inode` / `Frame.inode` -/
structure RawFrame where
  name : String
  inode : String

structure RawMain where
  chain : List RawFrame
  framerName : String
  framerInode : String

structure RawCtx where
  frames : List RawFrame
  framerName : String
  framerInode : String
  mains : List RawMain
  actor : Option String

def RawCtx.toCtx (r : RawCtx) : Ctx :=
  { frames := r.frames.map (fun f => ⟨f.name, inodeParts f.inode⟩)
    framerName := r.framerName
    framerInode := inodeParts r.framerInode
    mains := r.mains.map (fun m => ⟨m.chain.map (fun f => ⟨f.name, inodeParts f.inode⟩), m.framerName,
                                    inodeParts m.framerInode⟩)
    actor := r.actor.bind (fun a => if a = "" then none else some (actorParts a)) }

/-- `Act.resolvePath(ipath)` for a path name string; `inode = none` is `Act.inode is None` -/
def resolvePath (r : RawCtx) (inode : Option String) (ipath : String) : Except Err (String × Bool) := do
  let parts := pathParts ipath
  let res ← resolveParts r.toCtx (inode.map inodeParts) parts
  return finish (parts = []) res

/-! ## Builder.parseRelation / parseIndirect -/

def connectives : List String :=
  ["to", "by", "with", "from", "per", "for", "cum", "qua", "via", "as", "at", "in", "of", "on", "re", "is",
   "if", "be", "into", "and", "not", "+-"]
def comparisons : List String := ["==", "<", "<=", ">=", ">", "!="]
def reserved : List String := connectives ++ comparisons

def isWordChar (c : Char) : Bool := c.isAlphanum || c == '_'
/-- `[a-zA-Z_]\w*` -/
def isIdent (s : String) : Bool :=
  match s.toList with
  | [] => false
  | c :: cs => (c.isAlpha || c == '_') && cs.all isWordChar
/-- REO_IdentPub `^[a-zA-Z]\w*$` -/
def isIdentPub (s : String) : Bool :=
  match s.toList with
  | [] => false
  | c :: cs => c.isAlpha && cs.all isWordChar

inductive ParseErr where
  | reservedPath | invalidPath | invalidRelation | invalidName | conflict | incomplete | spurious
  | noTokens                      -- IndexError → "Not enough tokens" in every caller
deriving DecidableEq, Repr

/-- optional name after `framer` / `frame` / `actor`: a following token that is not reserved -/
def optName (toks : List String) : Except ParseErr (String × List String) :=
  match toks with
  | [] => .ok ("", [])
  | n :: rest =>
    if n ∈ reserved then .ok ("", toks)
    else if isIdentPub n then .ok (n, rest) else .error .invalidName

/-- does the dotted relation text contain `.seg.` (Python `'.frame.' in relation`) -/
def hasInner (seg : String) (rel : List String) : Bool :=
  -- '.seg.' occurs in the joined text iff seg is a segment that is neither first nor last
  match rel with
  | [] => false
  | _ :: rest => (rest.dropLast).contains seg

/-- `parseRelation(tokens, index, framername)`; the relation as segments.  `fuel` bounds the nesting
(`of actor … of frame … of framer …` is at most three deep; each level consumes tokens). -/
def parseRelation : Nat → List String → String → Except ParseErr (List String × List String)
  | 0, _, _ => .error .noTokens
  | fuel + 1, toks, framername =>
    match toks with
    | [] => .ok ([], [])
    | t :: rest0 =>
      if t = "of" then
        match rest0 with
        | [] => .error .noTokens
        | rel :: rest =>
          if rel = "root" then .ok ([], rest)
          else if rel = "me" then .ok (["me"], rest)
          else if rel = "framer" then do
            let nr ← optName rest
            let name := if nr.1 = "" then (if framername = "" then "me" else framername) else nr.1
            return (["framer", name], nr.2)
          else if rel = "frame" then do
            let nr ← optName rest
            let name := if nr.1 = "" then "me" else nr.1
            let fn := if name = "main" then "main" else ""
            let fr ← parseRelation fuel nr.2 fn
            if fr.1 ≠ [] ∧ (hasInner "frame" fr.1 ∨ hasInner "actor" fr.1) then .error .spurious
            else if fr.1 ≠ [] then return (fr.1 ++ ["frame", name], fr.2)
            else return (["framer", if fn = "" then "me" else fn, "frame", name], fr.2)
          else if rel = "actor" then do
            let nr ← optName rest
            let name := if nr.1 = "" then "me" else nr.1
            let fr ← parseRelation fuel nr.2 ""
            if fr.1 ≠ [] ∧ hasInner "actor" fr.1 then .error .spurious
            else if fr.1 ≠ [] then return (fr.1 ++ ["actor", name], fr.2)
            else return (["framer", "me", "frame", "me", "actor", name], fr.2)
          else .error .invalidRelation
      else .ok ([], toks)

/-- REO_RelPath / REO_RelPathNode on the chunks of the path token -/
def isRelPath (node : Bool) (chunks : List String) : Bool :=
  match chunks with
  | [] => false
  | _ =>
    if chunks.all isIdent then true
    else node && chunks.length ≥ 2 && chunks.getLast? = some "" && chunks.dropLast.all isIdent

/-- REO_DotPath / REO_DotPathNode -/
def isDotPath (node : Bool) (chunks : List String) : Bool :=
  match chunks with
  | "" :: rest =>
    if rest ≠ [] ∧ rest.all isIdent then true
    else node && rest.length ≥ 2 && rest.getLast? = some "" && rest.dropLast.all isIdent
  | _ => false

/-- `parseIndirect(tokens, index, node)` → the relative path as segments and the remaining tokens -/
def parseIndirect (node : Bool) (toks : List String) : Except ParseErr (List String × List String) :=
  match toks with
  | [] => .error .noTokens
  | path :: rest =>
    if path ∈ reserved then .error .reservedPath
    else
      let chunks := path.splitOn "."
      if isDotPath node chunks then do
        let (rel, rest) ← parseRelation (rest.length + 1) rest ""
        -- `path = relation + path`: no dot is inserted in front of a dot path
        return (joinSegs rel chunks false, rest)
      else if isRelPath node chunks then do
        let (rel, rest) ← parseRelation (rest.length + 1) rest ""
        let c0 := chunks.headD ""
        if rel ≠ [] then
          if c0 = "framer" ∨ c0 = "frame" ∨ c0 = "actor" then
            if c0 = "framer" ∨ (c0 = "frame" ∧ hasInner "frame" rel) ∨ (c0 = "actor" ∧ hasInner "actor" rel) then
              .error .conflict
            else if rel = ["me"] then .error .conflict
            else return (joinSegs rel chunks true, rest)
          else return (joinSegs rel chunks true, rest)
        else
          if c0 = "actor" then
            if chunks.length < 3 then .error .incomplete
            else return (joinSegs ["framer", "me", "frame", "me"] chunks true, rest)
          else if c0 = "frame" then
            if chunks.length < 3 then .error .incomplete
            else
              let fn := if chunks.getD 1 "" = "main" then "main" else "me"
              return (joinSegs ["framer", fn] chunks true, rest)
          else return (chunks, rest)
      else .error .invalidPath
where
  /-- `relation + '.' + path` on segments (for a dot path the text concatenation `relation + path`
  gives the same segments, its leading empty chunk being the joint) -/
  joinSegs (rel chunks : List String) (relpath : Bool) : List String :=
    if rel = [] then chunks
    else if relpath then rel ++ chunks
    else rel ++ chunks.tail

end Ioflo.ResolvePath
