/-!
# E-log / Rotate — model of log rotation and flushing (`ioflo/base/logging.py`)

Transcription of `Log.reopen` (with `keep`), `Log.close`, `Log.flush`, `Log.cycle`,
`Logger.log` (flush and cycle timers), and the START / RUN / STOP branches of the runner, for a
logger with one log of any rule: what matters here is how many records a run writes (in one
`file.write` call, or no call at all) — which records those are is C22's subject.  A history may
span several **process lives** on the same directory (`reboot`: the process is killed or ends,
fresh `Logger` / `Log` objects are built, with `reuse` on the files of the previous life, without
it in a new directory).

The file system is seen through the *primitive operations* the code performs on it, in order:
every control appends its primitives to a trace, and the state of the files after **any prefix**
of the trace is a crash point (`crashAt`).  A killed process loses the user-space buffer of its
open file object and nothing else; durability below `fsync` is outside the model.

* slots: `0` = the main file `<base>.txt`, `k` = the rotate copy `<base>0k.txt`
* records are numbered in the order they are written and carry their size in bytes
* stamps are `Int` (units of 1/8 s in the driver)
-/
namespace Ioflo.Rotate

structure Rec where
  n : Nat
  size : Nat
deriving DecidableEq, Repr, Inhabited

inductive Line where
  | header
  | rec_ (r : Rec)
deriving DecidableEq, Repr, Inhabited

/-- the records of a file, headers dropped -/
def recsOf : List Line → List Rec
  | [] => []
  | .header :: rest => recsOf rest
  | .rec_ r :: rest => r :: recsOf rest

/-! ## primitives -/

inductive Prim where
  /-- `file.write(text)`: into the buffer of the open file object -/
  | write (ls : List Line)
  /-- `file.flush(); os.fsync(file.fileno())` -/
  | sync
  /-- `file.close()` (flushes what is buffered) -/
  | closeF
  /-- `os.rename(paths[k], paths[k+1])` -/
  | rename (k : Nat)
  /-- `os.rename(paths[k], paths[k+1])` raising `OSError` although the source exists (an injected
  fault: `EBUSY`, `EACCES`, …): nothing moved -/
  | renameErr (k : Nat)
  /-- `ocfn(path, 'w+')`: create or truncate the main file and open it -/
  | create
  /-- `ocfn(path, 'a+')`: open the main file for append, creating it if absent -/
  | openA
  /-- `ocfn(paths[k], 'r'); file.close()`: trial open of a rotate copy, creating it empty if absent -/
  | touch (k : Nat)
  /-- the process dies (kill, or exit after the files were closed): what is in the buffer is lost;
  a new process will work on the same directory (`reuse`) -/
  | reboot
  /-- … a new process that makes a new, empty log directory (no `reuse`) -/
  | newdir
deriving DecidableEq, Repr, Inhabited

structure FS where
  /-- contents on disk; `none` = the file does not exist -/
  slots : Nat → Option (List Line) := fun _ => none
  /-- user-space buffer of the open file object (always of the main file) -/
  buf : List Line := []
  isOpen : Bool := false

def FS.setSlot (fs : FS) (k : Nat) (c : Option (List Line)) : FS :=
  { fs with slots := fun i => if i = k then c else fs.slots i }

def content : Option (List Line) → List Line
  | none => []
  | some c => c

def FS.apply (fs : FS) : Prim → FS
  | .write ls => { fs with buf := fs.buf ++ ls }
  | .sync => { fs.setSlot 0 (some (content (fs.slots 0) ++ fs.buf)) with buf := [] }
  | .closeF => { fs.setSlot 0 (some (content (fs.slots 0) ++ fs.buf)) with buf := [], isOpen := false }
  | .rename k =>
    match fs.slots k with
    | some c => (fs.setSlot (k + 1) (some c)).setSlot k none
    | none => fs                                           -- `OSError`: nothing moved
  | .renameErr _ => fs
  | .create => { fs.setSlot 0 (some []) with buf := [], isOpen := true }
  | .openA => { fs.setSlot 0 (some (content (fs.slots 0))) with buf := [], isOpen := true }
  | .touch k => fs.setSlot k (some (content (fs.slots k)))
  | .reboot => { fs with buf := [], isOpen := false }
  | .newdir => {}

def FS.applyAll (fs : FS) : List Prim → FS
  | [] => fs
  | p :: ps => FS.applyAll (fs.apply p) ps

/-- what survives when the process is killed: the files, not the buffer -/
def FS.crash (fs : FS) : FS := { fs with buf := [], isOpen := false }

/-! ## the logger -/

structure Cfg where
  /-- number of rotate copies (after `if keep > 0 and not cyclePeriod: keep = 0`) -/
  keep : Nat
  /-- `max(0.0, cyclePeriod)` -/
  cyclePeriod : Int
  /-- `max(0, fileSize)`: minimum size of the main file for a rotation, `0` = always rotate -/
  fileSize : Nat
  /-- `max(1.0, flushPeriod)` -/
  flushPeriod : Int
  reuse : Bool
  /-- size in bytes of the two header lines -/
  hsize : Nat
  /-- `Log.reopen` with fix patch D53: an existing but still *empty* main file counts as new
  (`.first` stays true, so `prepare` writes the header).  `false` = the code before the patch
  (`if os.path.exists(self.path): self.first = False`), kept to document the old behaviour. -/
  emptyIsNew : Bool := true
deriving Repr, Inhabited

def lineSize (cfg : Cfg) : Line → Nat
  | .header => cfg.hsize
  | .rec_ r => r.size

def bytes (cfg : Cfg) (ls : List Line) : Nat := (ls.map (lineSize cfg)).sum

inductive Status where
  | stopped | started | running
deriving DecidableEq, Repr, Inhabited

inductive Ctl where
  | start | run | stop
deriving DecidableEq, Repr, Inhabited

inductive Op where
  /-- `store.advanceStamp(d)` -/
  | advance (d : Nat)
  /-- what the log's action will do at the next logger run: `none` = no `file.write` call (nothing to
  log under its rule), `some sizes` = one call writing records of these sizes (`some []` = `write("")`) -/
  | batch (b : Option (List Nat))
  | ctl (c : Ctl)
  /-- the process is killed (or ends after a STOP) and a new one is started: new store, new
  `Logger` and `Log` objects, same configuration -/
  | reboot
  /-- fault injection: the `n`-th `os.rename` call from now raises `OSError` -/
  | fault (n : Nat)
  /-- the process is killed IN THE MIDDLE of control `c`, after `k` of the primitives the control
  performs on this log's files (between the rename and the reopen of a rotation, between the header
  write and the flush, …), and a new process is started on what it left -/
  | die (c : Ctl) (k : Nat)
deriving DecidableEq, Repr, Inhabited

structure St where
  cfg : Cfg
  /-- the files now -/
  fs : FS := {}
  /-- the files when the process started -/
  fs0 : FS := {}
  /-- every primitive performed so far -/
  trace : List Prim := []
  stamp : Int := 0
  flushStamp : Int := 0
  cycleStamp : Int := 0
  status : Status := .stopped
  /-- `log.stamp is not None` -/
  logged : Bool := false
  /-- `log.first` -/
  first : Bool := true
  /-- `log.paths` is non-empty (set by `reopen` with `keep > 0`) -/
  hasPaths : Bool := false
  /-- number of records written -/
  seq : Nat := 0
  batch : Option (List Nat) := some [8]
  /-- fault injection: `some n` = the `n`-th `os.rename` call of this log from now (counting from
  0) raises `OSError` without moving anything -/
  failAt : Option Nat := none

/-- perform primitives: on the files and onto the trace -/
def St.emit (s : St) (ps : List Prim) : St :=
  { s with fs := s.fs.applyAll ps, trace := s.trace ++ ps }

/-- `Log.flush`: only when the file is open -/
def St.flushLog (s : St) : St := if s.fs.isOpen then s.emit [.sync] else s

/-- `Log.close`: `flush()` then `file.close()`, only when the file is open -/
def St.closeLog (s : St) : St := if s.fs.isOpen then s.emit [.sync, .closeF] else s

/-- the test that makes `Log.reopen` clear `.first`: the main file exists and (with fix D53) is not empty -/
def St.oldFile (s : St) : Bool :=
  match s.fs.slots 0 with
  | some (_ :: _) => true
  | some [] => !s.cfg.emptyIsNew
  | none => false

/-- `Log.reopen(prefix, keep)` -/
def St.reopen (s : St) (keep : Nat) : St :=
  let s := s.closeLog
  let s := if s.oldFile then { s with first := false } else s
  let s := s.emit [.openA]
  if keep > 0 then
    { s.emit ((List.range keep).map fun k => .touch (k + 1)) with hasPaths := true }
  else s

/-- the rename chain of `Log.cycle`: `for k in reversed(range(keep))`, stopping at the first
`OSError` (source missing).  Returns the state and whether every rename succeeded. -/
def St.renames (s : St) : Nat → St × Bool
  | 0 => (s, true)
  | k + 1 =>
    match s.failAt with
    | some 0 => (({ s with failAt := none } : St).emit [if (s.fs.slots k).isSome then .renameErr k else .rename k], false)
    | f =>
      let s : St := { s with failAt := f.map (· - 1) }
      match s.fs.slots k with
      | some _ => St.renames (s.emit [.rename k]) k
      | none => (s.emit [.rename k], false)

/-- `Log.cycle(size)` -/
def St.cycle (s : St) : St :=
  if !s.hasPaths then s else
  let s := s.flushLog
  if s.cfg.fileSize ≠ 0 ∧ (s.fs.slots 0).isSome ∧ bytes s.cfg (content (s.fs.slots 0)) < s.cfg.fileSize then s
  else if s.cfg.fileSize ≠ 0 ∧ (s.fs.slots 0).isNone then s        -- `getsize` raises `OSError`
  else
    let s := s.closeLog
    match s.renames s.cfg.keep with
    | (s, false) => s.reopen 0
    | (s, true) =>
      let s := s.emit [.create, .write [.header]]
      s.reopen 0

/-- the records `seq, seq+1, …` with the given sizes -/
def mkRecs (seq : Nat) : List Nat → List Rec
  | [] => []
  | sz :: rest => ⟨seq, sz⟩ :: mkRecs (seq + 1) rest

/-- the log's action: one `file.write` call with the records its rule finds to log, or no call.
(`.logged` stands for `log.stamp is not None`; streak / deck logs also set the stamp when they write
nothing — that difference cannot be observed, `prepare` looks at the stamp only for a file that
does not exist yet.) -/
def St.writeRec (s : St) : St :=
  match s.batch with
  | none => s
  | some sizes =>
    { s.emit [.write ((mkRecs s.seq sizes).map Line.rec_)] with seq := s.seq + sizes.length, logged := true }

/-- `if (store.stamp - flushStamp) >= flushPeriod: flush(); flushStamp = store.stamp` -/
def St.flushTimer (s : St) : St :=
  if s.stamp - s.flushStamp ≥ s.cfg.flushPeriod then { s.flushLog with flushStamp := s.stamp } else s

/-- `if keep: if (store.stamp - cycleStamp) >= cyclePeriod: cycle(); cycleStamp = store.stamp` -/
def St.cycleTimer (s : St) : St :=
  if s.cfg.keep ≠ 0 then
    if s.stamp - s.cycleStamp ≥ s.cfg.cyclePeriod then { s.cycle with cycleStamp := s.stamp } else s
  else s

/-- `Logger.log`: the log's action (one record), then the flush timer, then the cycle timer -/
def St.logAll (s : St) : St := s.writeRec.flushTimer.cycleTimer

/-- `logger.runner.send(control)` for protocol-respecting controls -/
def St.send (s : St) : Ctl → St
  | .start =>
    let s := s.reopen s.cfg.keep
    let s := if !s.logged && s.first then s.emit [.write [.header]] else s     -- `prepare`
    { s.logAll with status := .started }
  | .run => { s.logAll with status := .running }
  | .stop =>
    if s.status = .stopped then s else
    let s := s.logAll
    let s := if s.cfg.keep ≠ 0 ∧ s.cfg.reuse then s.cycle else s
    { s.closeLog with status := .stopped }

/-- a new process on the same configuration: with `reuse` on the surviving files, else in a new directory -/
def St.reboot (s : St) : St :=
  { s.emit [if s.cfg.reuse then .reboot else .newdir] with
    stamp := 0, flushStamp := 0, cycleStamp := 0, status := .stopped, logged := false, first := true,
    hasPaths := false }

/-- the records written by a trace -/
def recW : List Prim → List Rec
  | [] => []
  | .write ls :: r => recsOf ls ++ recW r
  | _ :: r => recW r

/-- control `s ↦ s'` cut short after `k` of its primitives, then a new process: the files are what
the first `k` primitives made of them (the buffer dies with the process), the numbering goes on
after the records whose `write` call was made -/
def St.cutMid (s s' : St) (k : Nat) : St :=
  let tr := s'.trace.take (s.trace.length + k)
  { s' with fs := s'.fs0.applyAll tr, trace := tr, seq := (recW tr).length }

def St.cut (s s' : St) (k : Nat) : St := (St.cutMid s s' k).reboot

def St.die (s : St) (c : Ctl) (k : Nat) : St := St.cut s (s.send c) k

def St.step (s : St) : Op → St
  | .advance d => { s with stamp := s.stamp + d }
  | .batch b => { s with batch := b }
  | .ctl c => s.send c
  | .reboot => s.reboot
  | .die c k => s.die c k
  | .fault n => { s with failAt := some n }

def St.exec (s : St) : List Op → St
  | [] => s
  | op :: rest => St.exec (s.step op) rest

/-- the files a kill leaves after the first `n` primitives -/
def St.crashAt (s : St) (n : Nat) : FS := (s.fs0.applyAll (s.trace.take n)).crash

/-- RUN only to a started / running logger, STOP never twice (what the `Skedder` does) -/
def proto : Status → List Op → Bool
  | _, [] => true
  | _, .ctl .start :: r => proto .started r
  | st, .ctl .run :: r => (st != .stopped) && proto .running r
  | _, .ctl .stop :: r => proto .stopped r
  | _, .reboot :: r => proto .stopped r
  | _, .fault _ :: _ => false        -- the history theorems are about runs without injected faults
  | st, .die c _ :: r => (match c with | .run => st != .stopped | _ => true) && proto .stopped r
  | st, _ :: r => proto st r

/-- `Logger.__init__`: the constructor arguments as stored (periods in units of 1/8 s) -/
def Cfg.ofArgs (keep : Int) (cyclePeriod : Int) (fileSize : Int) (flushPeriod : Int) (reuse : Bool)
    (hsize : Nat) : Cfg :=
  let cp := max 0 cyclePeriod
  let kp := if keep > 0 ∧ cp = 0 then 0 else keep
  { keep := kp.toNat, cyclePeriod := cp, fileSize := (max 0 fileSize).toNat,
    flushPeriod := max 8 flushPeriod, reuse := reuse, hsize := hsize }

/-! ## vocabulary of the theorems -/

/-- the lines of slots `n-1 … 0` read oldest to newest -/
def vf (slots : Nat → Option (List Line)) : Nat → List Line
  | 0 => []
  | n + 1 => content (slots n) ++ vf slots n

/-- the retained files of a logger with `keep` copies, read oldest to newest -/
def FS.view (fs : FS) (keep : Nat) : List Line := vf fs.slots (keep + 1)

/-- what the primitives so far did to the record stream -/
structure Acct where
  /-- records written before the most recent flush (and not lost with a killed process), in order -/
  flushed : List Rec := []
  /-- records written since (still in the buffer) -/
  pend : List Rec := []
  /-- records written since the main file was last rotated away -/
  since : List Rec := []
deriving Repr

def Acct.step (a : Acct) : Prim → Acct
  | .write ls => { a with pend := a.pend ++ recsOf ls, since := a.since ++ recsOf ls }
  | .sync => { a with flushed := a.flushed ++ a.pend, pend := [] }
  | .closeF => { a with flushed := a.flushed ++ a.pend, pend := [] }
  | .rename 0 => { a with since := [] }
  | .reboot => { a with pend := [], since := a.since.take (a.since.length - a.pend.length) }
  | .newdir => {}
  | _ => a

def acctOf (tr : List Prim) : Acct := tr.foldl Acct.step {}

/-- every record written by the primitives, in order -/
def Acct.written (a : Acct) : List Rec := a.flushed ++ a.pend

/-- a file is empty, or one header followed by records only -/
def Shape (c : List Line) : Prop := c = [] ∨ ∃ rs : List Rec, c = .header :: rs.map Line.rec_

/-- a fresh logger on an empty directory -/
def St.init (cfg : Cfg) : St := { cfg := cfg }

/-! ## region of the known finding D53 -/

/-- a process life ends while the main file exists but is still empty on disk (the header is in
the buffer: right after the first START, or right after a rotation made the new main file).  With
`reuse` the next life finds an existing file, sets `.first = False`, writes no header and appends
its records to the empty file. -/
def emptyKillOp (s : St) : Op → Bool
  | .reboot => s.cfg.reuse && (match s.fs.slots 0 with | some [] => true | _ => false)
  | _ => false

def emptyKill : St → List Op → Bool
  | _, [] => false
  | s, op :: rest => emptyKillOp s op || emptyKill (s.step op) rest

end Ioflo.Rotate
