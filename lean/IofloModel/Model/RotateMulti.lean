import IofloModel.Model.Rotate
/-!
# E-log / Rotate — a logger with several logs

`Logger.reopen / prepare / log / flush / cycle / close` are loops over `self.logs`; the flush and the
cycle timers are the logger's: ONE decision per run, applied to every log.  A multi-log logger is
modelled as one `St` per log; the logger's own variables (configuration, store stamp, `flushStamp`,
`cycleStamp`, status) are carried in every component and change together (`Coherent`).  Each log
has its own files (`<base>.txt`, `<base>01.txt`, …), buffer, `.first`, `.stamp`, `.paths`, and its
own primitive trace: a kill at any global point leaves every log at *some* prefix of its own trace.
-/
namespace Ioflo.Rotate

abbrev MSt := List St

inductive MOp where
  | advance (d : Nat)
  /-- what log `i`'s action will do at the next logger run -/
  | batch (i : Nat) (b : Option (List Nat))
  | ctl (c : Ctl)
  | reboot
  /-- the process is killed in the middle of control `c`: log `i` had performed `ks[i]` of the
  primitives the control performs on its files (0 when not given); then a new process -/
  | die (c : Ctl) (ks : List Nat)
  /-- fault injection: the `n`-th `os.rename` call on log `i`'s files from now raises `OSError` -/
  | fault (i : Nat) (n : Nat)
deriving DecidableEq, Repr, Inhabited

/-- `if (store.stamp - flushStamp) >= flushPeriod: for log in logs: log.flush(); flushStamp = store.stamp`
— the decision is the logger's (read off the first component) -/
def MSt.flushTimer (ms : MSt) : MSt :=
  match ms with
  | [] => []
  | s :: _ =>
    if s.stamp - s.flushStamp ≥ s.cfg.flushPeriod then
      ms.map fun x => { x.flushLog with flushStamp := x.stamp }
    else ms

/-- `if keep: if (store.stamp - cycleStamp) >= cyclePeriod: for log in logs: log.cycle(size); cycleStamp = …` -/
def MSt.cycleTimer (ms : MSt) : MSt :=
  match ms with
  | [] => []
  | s :: _ =>
    if s.cfg.keep ≠ 0 then
      if s.stamp - s.cycleStamp ≥ s.cfg.cyclePeriod then
        ms.map fun x => { x.cycle with cycleStamp := x.stamp }
      else ms
    else ms

/-- `Logger.log`: `for log in self.logs: log()`, then the flush timer, then the cycle timer -/
def MSt.logAll (ms : MSt) : MSt := MSt.cycleTimer (MSt.flushTimer (ms.map St.writeRec))

/-- `Log.prepare`'s header write -/
def St.prepareHdr (s : St) : St := if !s.logged && s.first then s.emit [.write [.header]] else s

/-- `logger.runner.send(control)` -/
def MSt.send (ms : MSt) : Ctl → MSt
  | .start =>
    let ms := ms.map fun x => x.reopen x.cfg.keep          -- Logger.reopen
    let ms := ms.map St.prepareHdr                        -- Logger.prepare
    (MSt.logAll ms).map fun x => { x with status := .started }
  | .run => (MSt.logAll ms).map fun x => { x with status := .running }
  | .stop =>
    match ms with
    | [] => []
    | s :: _ =>
      if s.status = .stopped then ms else
      let ms := MSt.logAll ms
      let ms := match ms with
        | [] => []
        | t :: _ => if t.cfg.keep ≠ 0 ∧ t.cfg.reuse then ms.map St.cycle else ms      -- Logger.cycle
      ms.map fun x => { x.closeLog with status := .stopped }                           -- Logger.close

def setBatch : MSt → Nat → Option (List Nat) → MSt
  | [], _, _ => []
  | s :: r, 0, b => { s with batch := b } :: r
  | s :: r, i + 1, b => s :: setBatch r i b

/-- every log cut at its own point (`old`: before the control, `new`: after the whole control) -/
def cutAll : List St → List St → Nat → List Nat → List St
  | s :: r, s' :: r', i, ks => St.cut s s' (ks.getD i 0) :: cutAll r r' (i + 1) ks
  | _, _, _, _ => []

def setFault : MSt → Nat → Nat → MSt
  | [], _, _ => []
  | s :: r, 0, n => { s with failAt := some n } :: r
  | s :: r, i + 1, n => s :: setFault r i n

def MSt.step (ms : MSt) : MOp → MSt
  | .advance d => ms.map fun x => { x with stamp := x.stamp + d }
  | .batch i b => setBatch ms i b
  | .ctl c => MSt.send ms c
  | .reboot => ms.map St.reboot
  | .die c ks => cutAll ms (MSt.send ms c) 0 ks
  | .fault i n => setFault ms i n

def MSt.exec (ms : MSt) : List MOp → MSt
  | [] => ms
  | op :: rest => MSt.exec (ms.step op) rest

/-- the history as log `i` sees it -/
def projOp (i : Nat) : MOp → Option Op
  | .advance d => some (.advance d)
  | .batch j b => if j = i then some (.batch b) else none
  | .ctl c => some (.ctl c)
  | .reboot => some .reboot
  | .die c ks => some (.die c (ks.getD i 0))
  | .fault j n => if j = i then some (.fault n) else none

def proj (i : Nat) (h : List MOp) : List Op := h.filterMap (projOp i)

/-- a fresh logger with one log per given header size (the header depends on the log's rule and name) -/
def MSt.init (cfg : Cfg) (hsizes : List Nat) : MSt := hsizes.map fun h => St.init { cfg with hsize := h }

end Ioflo.Rotate
