/-
Model of the connection table of ioflo's TCP servers (C26).

Transcribed from ioflo/aio/tcp/serving.py:
  Acceptor.serviceAccepts, Server.serviceAxes / serviceConnects / shutdownIx / closeIx / closeAllIx /
  removeIx / serviceReceivesAllIx, ServerTls.serviceAxes / serviceCxes / serviceConnects,
  Incomer.shutdown / shutclose, IncomerTls.shutclose / handshake / serviceHandshake,
  and `odict` (ioflo/aid/odicting.py: a key keeps its place when its value is replaced).

Sockets are the environment: a table `socks` indexed by socket id records what each socket double
was asked to do (`shutdowns`, `closed`) and what it answers (`peer`, `sockname`, handshake script).
`arrive` is the environment's move: a new connection lands in the listen socket's accept queue.
Object identity (`is`) is the socket id / the position in the table.

Versions: `orig` = `self.shutdownIx[ca]` (subscripting a bound method: TypeError, D14),
`fixed` = `self.shutdownIx(ca)` (fixes/D14-*.patch), `fixed2` = also fixes/D14b-*.patch
(`ServerTls` shuts a stale incomer down before `self.cxes[ca] = incomer` / `self.ixes[ca] = cx`).
Core Lean only.
-/
namespace Ioflo.Server

abbrev Addr := Nat

/-- `orig` = as found; `fixed` = with D14; `fixed2` = also with D14b (ServerTls shuts a stale entry down
before replacing it, in `.cxes` and in `.ixes`) -/
inductive Version | orig | fixed | fixed2
  deriving DecidableEq, Repr

/-- answer of one `do_handshake()` call -/
inductive Hs
  | done     -- returns: handshake complete
  | want     -- SSLWantRead / SSLWantWrite
  | fail     -- any other exception
  deriving DecidableEq, Repr

/-- a socket double -/
structure Sock where
  /-- `getpeername()` -/
  peer : Addr
  /-- `getsockname()` -/
  sockname : Addr
  /-- answers to the coming `do_handshake()` calls (exhausted = want) -/
  hs : List Hs := []
  /-- number of `shutdown()` calls received -/
  shutdowns : Nat := 0
  closed : Bool := false
  deriving DecidableEq, Repr

/-- an `Incomer` / `IncomerTls` object -/
structure Incomer where
  /-- the socket it was constructed around (`cs=` argument) -/
  sock : Nat
  /-- `.ca` (= `cs.getpeername()` at construction) -/
  ca : Addr
  /-- `.cs is not None` -/
  hasCs : Bool := true
  /-- `IncomerTls.connected`: handshake completed -/
  connected : Bool := false
  deriving DecidableEq, Repr

inductive Exc
  | valueError       -- malformed accepted addresses / "Invalid connection address"
  | typeError        -- D14: 'method' object is not subscriptable
  | attributeError   -- `.cs` is None: 'NoneType' object has no attribute …
  | handshakeError   -- whatever `do_handshake` raised
  deriving DecidableEq, Repr

structure State where
  /-- `ServerTls` rather than `Server` -/
  tls : Bool
  /-- `.eha`, compared with `cs.getsockname()` by `ServerTls.serviceAxes` -/
  eha : Addr
  socks : List Sock := []
  /-- kernel accept queue of the listen socket: (socket id, address `accept()` will report) -/
  pending : List (Nat × Addr) := []
  /-- `.axes` deque of (cs, ca) -/
  axes : List (Nat × Addr) := []
  /-- `.ixes` odict, insertion order -/
  ixes : List (Addr × Incomer) := []
  /-- `.cxes` odict of `ServerTls` -/
  cxes : List (Addr × Incomer) := []
  /-- history: sockets that were ever entered into `ixes` or `cxes` -/
  admitted : List Nat := []
  /-- history: sockets whose entry was removed with `shutclose=False` (the caller keeps them) -/
  released : List Nat := []
  deriving Repr

def init (tls : Bool) (eha : Addr) : State := { tls := tls, eha := eha }

inductive Res
  | ok (s : State)
  | raised (e : Exc) (s : State)
  deriving Repr

def Res.state : Res → State
  | .ok s => s
  | .raised _ s => s

def Res.exc : Res → Option Exc
  | .ok _ => none
  | .raised e _ => some e

/-! ### small list helpers -/

/-- apply `f` to element `i` -/
def upd {α : Type} : List α → Nat → (α → α) → List α
  | [], _, _ => []
  | a :: l, 0, f => f a :: l
  | a :: l, i+1, f => a :: upd l i f

/-- odict `d[k] = v`: replace in place, or append -/
def put {β : Type} : List (Addr × β) → Addr → β → List (Addr × β)
  | [], k, v => [(k, v)]
  | (k', v') :: l, k, v => if k' = k then (k, v) :: l else (k', v') :: put l k v

/-- odict `del d[k]` -/
def del {β : Type} : List (Addr × β) → Addr → List (Addr × β)
  | [], _ => []
  | (k', v') :: l, k => if k' = k then l else (k', v') :: del l k

def get? {β : Type} : List (Addr × β) → Addr → Option β
  | [], _ => none
  | (k', v') :: l, k => if k' = k then some v' else get? l k

/-! ### incomer methods -/

/-- `Incomer.shutdown()`: `if self.cs: try: self.cs.shutdown(how) except socket.error: pass` — whatever
OSError the socket's `shutdown()` raises (ENOTCONN after a reset, EBADF, …) is swallowed: for the table the
call has happened (the double counts it) and nothing else changes -/
def shutdownIncomer (socks : List Sock) (ix : Incomer) : List Sock :=
  if ix.hasCs then upd socks ix.sock (fun k => { k with shutdowns := k.shutdowns + 1 }) else socks

/-- `Incomer.shutclose()` (alias `close`): `if self.cs: self.shutdown(); self.cs.close(); self.cs = None`
(`IncomerTls`: and `self.connected = False`) -/
def shutcloseIncomer (socks : List Sock) (ix : Incomer) : List Sock × Incomer :=
  if ix.hasCs then
    (upd socks ix.sock (fun k => { k with shutdowns := k.shutdowns + 1, closed := true }),
     { ix with hasCs := false, connected := false })
  else (socks, ix)

/-- fixes/D14b: `if ca in tab and tab[ca] is not new: tab[ca].shutdown()` ahead of `tab[ca] = new`
(a freshly built incomer, or one moving over from `.cxes`, is never the object already in `tab`) -/
def shutStale (v : Version) (socks : List Sock) (tab : List (Addr × Incomer)) (ca : Addr) : List Sock :=
  match v, get? tab ca with
  | .fixed2, some old => shutdownIncomer socks old
  | _, _ => socks

/-! ### accepting -/

/-- `Acceptor.serviceAccepts`: `while True: cs, ca = self.accept(); if not cs: break; self.axes.append((cs, ca))` -/
def serviceAccepts (s : State) : State :=
  { s with axes := s.axes ++ s.pending, pending := [] }

/-- body of the `while self.axes:` loop of `serviceAxes` for the popped duple `(cs, ca)` -/
def admitOne (v : Version) (s : State) (cs : Nat) (ca : Addr) : Res :=
  match s.socks[cs]? with
  | none => .raised .attributeError s              -- not reachable: accept queue holds existing sockets
  | some k =>
    -- `if ca != cs.getpeername() [or self.eha != cs.getsockname()]: raise ValueError`
    if ca ≠ k.peer ∨ (s.tls = true ∧ s.eha ≠ k.sockname) then .raised .valueError s
    else
      let incomer : Incomer := { sock := cs, ca := k.peer }
      if s.tls then
        -- [`if ca in self.cxes …: self.cxes[ca].shutdown()`]  `self.cxes[ca] = incomer`
        .ok { s with socks := shutStale v s.socks s.cxes ca, cxes := put s.cxes ca incomer,
                     admitted := s.admitted ++ [cs] }
      else
        match get? s.ixes ca with
        | some old =>
          -- `if ca in self.ixes and self.ixes[ca] is not incomer:` (a fresh object is never the old one)
          match v with
          | .orig => .raised .typeError s          -- `self.shutdownIx[ca]`
          | _ =>
            -- `self.shutdownIx(ca)` → `self.ixes[ca].shutdown(how=how)`; then `self.ixes[ca] = incomer`
            .ok { s with socks := shutdownIncomer s.socks old, ixes := put s.ixes ca incomer,
                         admitted := s.admitted ++ [cs] }
        | none => .ok { s with ixes := put s.ixes ca incomer, admitted := s.admitted ++ [cs] }

/-- the `while self.axes:` loop; an exception leaves the rest of `.axes` in place -/
def axesLoop (v : Version) (s : State) : List (Nat × Addr) → Res
  | [] => .ok { s with axes := [] }
  | (cs, ca) :: rest =>
    match admitOne v { s with axes := rest } cs ca with
    | .ok s' => axesLoop v s' rest
    | .raised e s' => .raised e s'

/-- `Server.serviceAxes` / `ServerTls.serviceAxes` -/
def serviceAxes (v : Version) (s : State) : Res :=
  let s := serviceAccepts s
  axesLoop v s s.axes

/-! ### TLS handshakes -/

/-- `cx.serviceHandshake()` for the incomer stored under `ca` in `.cxes`; on success
`self.ixes[ca] = cx; del self.cxes[ca]` -/
def shakeOne (v : Version) (s : State) (ca : Addr) (cx : Incomer) : Res :=
  if cx.connected then
    .ok { s with socks := shutStale v s.socks s.ixes ca, ixes := put s.ixes ca cx, cxes := del s.cxes ca }
  else if !cx.hasCs then .raised .attributeError s             -- `self.cs.do_handshake()` on None
  else
    match s.socks[cx.sock]? with
    | none => .raised .attributeError s
    | some k =>
      let socks := upd s.socks cx.sock (fun k => { k with hs := k.hs.tail })
      match k.hs.headD .want with
      | .want => .ok { s with socks := socks }                  -- `return False`
      | .done =>
        let cx' := { cx with connected := true }
        -- [`if ca in self.ixes and self.ixes[ca] is not cx: self.shutdownIx(ca)`]
        .ok { s with socks := shutStale v socks s.ixes ca, ixes := put s.ixes ca cx', cxes := del s.cxes ca }
      | .fail =>
        -- `self.shutclose(); raise`
        .raised .handshakeError { s with socks := (shutcloseIncomer socks cx).1,
                                         cxes := put s.cxes ca (shutcloseIncomer socks cx).2 }

/-- `for ca, cx in self.cxes.items():` over the snapshot (`odict.items()` is a list copy) -/
def cxesLoop (v : Version) (s : State) : List (Addr × Incomer) → Res
  | [] => .ok s
  | (ca, cx) :: rest =>
    match shakeOne v s ca cx with
    | .ok s' => cxesLoop v s' rest
    | .raised e s' => .raised e s'

def serviceCxes (v : Version) (s : State) : Res := cxesLoop v s s.cxes

/-- `Server.serviceConnects` = `serviceAxes`; `ServerTls.serviceConnects` = `serviceAxes; serviceCxes` -/
def serviceConnects (v : Version) (s : State) : Res :=
  match serviceAxes v s with
  | .ok s' => if s'.tls then serviceCxes v s' else .ok s'
  | r => r

/-! ### table maintenance -/

/-- `shutdownIx(ca)`: ValueError if absent, else `self.ixes[ca].shutdown()` -/
def shutdownIx (s : State) (ca : Addr) : Res :=
  match get? s.ixes ca with
  | none => .raised .valueError s
  | some ix => .ok { s with socks := shutdownIncomer s.socks ix }

/-- `closeIx(ca)`: ValueError if absent, else `self.ixes[ca].close()`; the entry stays -/
def closeIx (s : State) (ca : Addr) : Res :=
  match get? s.ixes ca with
  | none => .raised .valueError s
  | some ix =>
    .ok { s with socks := (shutcloseIncomer s.socks ix).1, ixes := put s.ixes ca (shutcloseIncomer s.socks ix).2 }

/-- `closeAllIx`: `for ix in self.ixes.values(): ix.close()` -/
def closeAllLoop (s : State) : List (Addr × Incomer) → State
  | [] => s
  | (ca, _) :: rest =>
    match closeIx s ca with
    | .ok s' => closeAllLoop s' rest
    | .raised _ s' => closeAllLoop s' rest

def closeAllIx (s : State) : State := closeAllLoop s s.ixes

/-- `removeIx(ca, shutclose)`: ValueError if absent; `if shutclose: self.ixes[ca].shutclose()`; `del self.ixes[ca]` -/
def removeIx (s : State) (ca : Addr) (shutclose : Bool) : Res :=
  match get? s.ixes ca with
  | none => .raised .valueError s
  | some ix =>
    if shutclose then
      .ok { s with socks := (shutcloseIncomer s.socks ix).1, ixes := del s.ixes ca }
    else
      .ok { s with ixes := del s.ixes ca,
                   released := if ix.hasCs then s.released ++ [ix.sock] else s.released }

/-- `serviceReceivesAllIx` with nothing to read: `ix.serviceReceives()` calls `self.cs.recv`, which is an
AttributeError on an incomer that was closed but left in the table; otherwise nothing changes -/
def serviceReceivesAllIx (s : State) : Res :=
  if s.ixes.any (fun e => !e.2.hasCs) then .raised .attributeError s else .ok s

/-- `serviceAll`: `serviceConnects(); serviceReceivesAllIx(); serviceTxesAllIx()` (nothing queued) -/
def serviceAll (v : Version) (s : State) : Res :=
  match serviceConnects v s with
  | .ok s' => serviceReceivesAllIx s'
  | r => r

inductive Op
  | arrive (peer sockname reported : Addr) (hs : List Hs)   -- environment: a connection is ready to be accepted
  | serviceAccepts
  | serviceAxes
  | serviceCxes
  | serviceConnects
  | serviceAll
  | shutdownIx (ca : Addr)
  | shutdownSendIx (ca : Addr)      -- `self.ixes[ca].shutdownSend()`: one `cs.shutdown(SHUT_WR)` if `.cs`
  | shutdownReceiveIx (ca : Addr)   -- `self.ixes[ca].shutdownReceive()`: one `cs.shutdown(SHUT_RD)` if `.cs`
  | closeIx (ca : Addr)
  | closeAllIx
  | removeIx (ca : Addr) (shutclose : Bool)
  deriving Repr

def step (v : Version) (s : State) : Op → Res
  | .arrive peer sockname reported hs =>
    .ok { s with socks := s.socks ++ [{ peer := peer, sockname := sockname, hs := hs }],
                 pending := s.pending ++ [(s.socks.length, reported)] }
  | .serviceAccepts => .ok (serviceAccepts s)
  | .serviceAxes => serviceAxes v s
  | .serviceCxes => if s.tls then serviceCxes v s else .ok s   -- only `ServerTls` has it
  | .serviceConnects => serviceConnects v s
  | .serviceAll => serviceAll v s
  | .shutdownIx ca => shutdownIx s ca
  | .shutdownSendIx ca => shutdownIx s ca
  | .shutdownReceiveIx ca => shutdownIx s ca
  | .closeIx ca => closeIx s ca
  | .closeAllIx => .ok (closeAllIx s)
  | .removeIx ca sc => removeIx s ca sc

def run (v : Version) (s : State) : List Op → State
  | [] => s
  | op :: ops => run v (step v s op).state ops

end Ioflo.Server
