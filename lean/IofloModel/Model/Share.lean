/-
Model of `ioflo/base/storing.py` : `Share` (value/update/change/create/stampNow, the mapping
interface), `Data.__setattr__` / attribute access, `Deck`  (property C19).

What is transcribed
* `Data` keeps its fields in `self.__dict__`, an `odict` that CPython *also* uses as the instance
  dictionary.  So there are two layers: the C-level dict (`raw`: what `getattr/hasattr/len` and
  `object.__setattr__/__delattr__` see) and `odict._keys` (`keys`: what `keys()/items()` walk).
  `Data.__setattr__` first asks `object.__getattribute__`; if that succeeds (an existing field **or
  a class attribute** such as the method `_sift`) the code as found forwarded to
  `object.__setattr__`, which writes the C-level dict only — defect D11 (`setattrLegacy`).  With
  `fixes/D11-class-attribute-names-are-not-fields.patch` it forwards only for an existing field,
  for `__dict__` and for data descriptors of the class; every other class attribute name is
  refused; and `Share.__contains__` / `__getitem__` read the dict, not `hasattr/getattr`.
  (`classAttr`: the 30 names of `dir(Data())` on CPython 3.12.)
* Repairs that ARE assumed (patch files in `/verif/fixes`): D11b `Data.__delattr__` pops from the
  odict (unpatched: `del share[k]` leaves `k` in the key list and `items()` raises); D11c the name
  test uses `fullmatch` (unpatched: a trailing newline is accepted); D11d `Share.setdefault` goes
  through `__setitem__` (unpatched: any key is accepted); D11f `Share.insert` applies the name
  test (unpatched: `share.insert(0, '_bad', 5)` puts any key into the key list).
* `share.stamp = share.store.stamp` under `except AttributeError: stamp = None`; a store's stamp
  may itself be `None`.  Stamps are exact (`Int`, in units of 1/8 s in the harness).
* Field names are restricted to ASCII in the harness; `isWord` is `\w` on ASCII.
* Values: `None`, ints, strings, floats (opaque), tuples, and references to mutable objects
  (lists, dicts) of the caller.  `setattr` stores what it is given: `update/change/create/[]=`
  and the deck ALIAS a caller's list, they never copy it (`Op.mutate` is the caller appending to
  one of its objects afterwards; `World.pool` holds the objects).
* `Share.sift`, `copy`/`copyDataDict` (shallow), `reorder` (with repair D11h; as found it always
  raised TypeError), the `data` setter (replaces the record and stamps), `truth`, and the unit
  record `changeUnit/createUnit/fetchUnit` (a second `Data`; `Share(unit=…)` with repair D11g).
* Identity of the sub-objects is observable (a caller may hold `share.deck`, `share.data`, the unit
  record): `deckId` never changes, `dataId` changes only when a whole record is assigned, the
  unit record is made once (`unit = none → some`) and kept.
* An operation that raises returns the state *as mutated so far* together with the error.
Core Lean only.
-/
namespace Ioflo.Share

abbrev Str := List Char

/-- the Python values that occur as field values / deck elements; `attr n` is the class attribute
object `n` of `Data` (a bound method, the docstring, …) read through `getattr` -/
inductive Val where
  | none
  | int (i : Int)
  | str (s : Str)
  | attr (name : Str)
  | flt (bits : Nat)        -- a float, opaque (its 64-bit pattern)
  | tup (l : List Int)      -- a tuple of ints: immutable, compared by value
  | ref (id : Nat)          -- a MUTABLE object (list / dict) owned by the caller: the share keeps the
                            -- reference it was given, never a copy (`World.pool` holds the contents)
deriving DecidableEq, Repr

/-! ### the field-name rule: `REO_IdentPub = ^[a-zA-Z]\w*$`, `fullmatch` -/

def isLetter (c : Char) : Bool := ('a' ≤ c && c ≤ 'z') || ('A' ≤ c && c ≤ 'Z')
def isWord (c : Char) : Bool := isLetter c || ('0' ≤ c && c ≤ '9') || c == '_'

def identPub : Str → Bool
  | [] => false
  | c :: cs => isLetter c && cs.all isWord

/-! ### class attributes of `Data` visible through an instance (`dir(Data())`, CPython 3.12) -/

inductive ClassAttr where
  | shadow    -- methods, `__doc__`, `__module__`: an instance attribute of that name may be created
  | classPtr  -- `__class__`: data descriptor; assigning a non-class raises TypeError
  | dictPtr   -- `__dict__`: data descriptor; assigning a non-dict raises TypeError
  | weakref   -- `__weakref__`: read-only data descriptor, value None
deriving DecidableEq, Repr

def shadowNames : List Str :=
  ["__delattr__", "__dir__", "__doc__", "__eq__", "__format__", "__ge__", "__getattribute__",
   "__getstate__", "__gt__", "__hash__", "__init__", "__init_subclass__", "__le__", "__lt__",
   "__module__", "__ne__", "__new__", "__reduce__", "__reduce_ex__", "__repr__", "__setattr__",
   "__sizeof__", "__str__", "__subclasshook__", "_change", "_show", "_sift"].map String.toList

def classAttr (k : Str) : Option ClassAttr :=
  if k = "__class__".toList then some .classPtr
  else if k = "__dict__".toList then some .dictPtr
  else if k = "__weakref__".toList then some .weakref
  else if shadowNames.contains k then some .shadow
  else none

/-! ### `Data` -/

structure Data where
  raw : List (Str × Val)    -- the instance dict as CPython's attribute machinery sees it
  keys : List Str           -- `odict._keys`
deriving DecidableEq, Repr

def lookup (l : List (Str × Val)) (k : Str) : Option Val :=
  match l with
  | [] => none
  | (k', v) :: rest => if k' = k then some v else lookup rest k

/-- C-level `dict[k] = v`: replace in place or append -/
def rawSet : List (Str × Val) → Str → Val → List (Str × Val)
  | [], k, v => [(k, v)]
  | (k', v') :: rest, k, v => if k' = k then (k', v) :: rest else (k', v') :: rawSet rest k v

def rawDel : List (Str × Val) → Str → List (Str × Val)
  | [], _ => []
  | (k', v') :: rest, k => if k' = k then rest else (k', v') :: rawDel rest k

inductive Err where
  | keyError | attributeError | typeError | indexError
  | unmodelled     -- `del data.__dict__` (replaces the instance dict): outside the model
deriving DecidableEq, Repr

/-- `getattr(data, k)`: data descriptors of the type, then the instance dict, then other class
attributes -/
def getattr (d : Data) (k : Str) : Except Err Val :=
  match classAttr k with
  | some .classPtr => .ok (.attr k)
  | some .dictPtr => .ok (.attr k)
  | some .weakref => .ok .none
  | ca =>
    match lookup d.raw k with
    | some v => .ok v
    | none => if ca = some .shadow then .ok (.attr k) else .error .attributeError

def hasattr (d : Data) (k : Str) : Bool :=
  match getattr d k with
  | .ok _ => true
  | .error _ => false

/-- `odict.__setitem__` -/
def odictSet (d : Data) (k : Str) (v : Val) : Data :=
  { raw := rawSet d.raw k v, keys := if d.keys.contains k then d.keys else d.keys ++ [k] }

/-- `Data.__setattr__(k, v)` with the repairs D11c (`fullmatch`) and D11 (a class attribute that
is neither an existing field, nor `__dict__`, nor a data descriptor is not forwarded) -/
def setattr (d : Data) (k : Str) (v : Val) : Data × Option Err :=
  if hasattr d k then
    if (lookup d.raw k).isNone && classAttr k != some .dictPtr && classAttr k != some .weakref then
      (d, some .attributeError)                              -- D11 repair
    else
      -- `super().__setattr__(key, value)` = `object.__setattr__`
      match classAttr k with
      | some .classPtr => (d, some .typeError)
      | some .dictPtr => (d, some .typeError)
      | some .weakref => (d, some .attributeError)
      | _ => ({ d with raw := rawSet d.raw k v }, none)     -- existing field: C-level dict, keys untouched
  else if (lookup d.raw k).isSome || identPub k then
    (odictSet d k v, none)
  else (d, some .attributeError)

/-- `Data.__setattr__` as found in `/repo` before the D11 repair: whenever `object.__getattribute__`
succeeds — also for a method name — the value goes to `object.__setattr__` -/
def setattrLegacy (d : Data) (k : Str) (v : Val) : Data × Option Err :=
  if hasattr d k then
    match classAttr k with
    | some .classPtr => (d, some .typeError)
    | some .dictPtr => (d, some .typeError)
    | some .weakref => (d, some .attributeError)
    | _ => ({ d with raw := rawSet d.raw k v }, none)
  else if (lookup d.raw k).isSome || identPub k then
    (odictSet d k v, none)
  else (d, some .attributeError)

/-- `odict.pop(k)` for a key known to be in the C-level dict -/
def odictPop (d : Data) (k : Str) : Data :=
  { raw := rawDel d.raw k, keys := d.keys.erase k }

/-- `delattr(data, k)` with the D11b repair (`Data.__delattr__`) -/
def delattr (d : Data) (k : Str) : Data × Option Err :=
  if (lookup d.raw k).isSome then (odictPop d k, none)
  else
    match classAttr k with
    | some .classPtr => (d, some .typeError)
    | some .dictPtr => (d, some .unmodelled)
    | _ => (d, some .attributeError)

/-- `list.insert(i, x)` with Python's treatment of negative and too large indices -/
def pyInsert (l : List Str) (i : Int) (x : Str) : List Str :=
  let n : Nat :=
    if i < 0 then (if i + l.length < 0 then 0 else (i + l.length).toNat)
    else (if i.toNat > l.length then l.length else i.toNat)
  l.take n ++ x :: l.drop n

/-- `odict.items()`: `dict.__getitem__` for every key of the key list -/
def items (d : Data) : Except Err (List (Str × Val)) :=
  d.keys.mapM (fun k => match lookup d.raw k with
    | some v => .ok (k, v)
    | none => .error .keyError)

/-- one field for `Data._sift(fields)`: `if key not in self.__dict__: raise AttributeError` -/
def siftGet (raw : List (Str × Val)) (k : Str) : Except Err (Str × Val) :=
  match lookup raw k with
  | some v => .ok (k, v)
  | none => .error .attributeError

/-! ### the share, its store(s), its deck -/

structure World where
  data : Data
  stamp : Option Int
  store : Option Nat          -- the store the share is attached to (index), `None`
  deck : List Val
  clock0 : Option Int         -- `.stamp` of store 0
  clock1 : Option Int         -- `.stamp` of store 1
  truth : Val := .none        -- `._truth`
  unit : Option Data := none  -- `._unit`
  pool : List (List Int) := [[], [], [], []]   -- the caller's mutable objects (ids 0..3)
  dataId : Nat := 0           -- identity of the `Data` record `share.data` (a new one per `share.data = …`)
  deckId : Nat := 0           -- identity of `share.deck`: one Deck for the life of the share
deriving DecidableEq, Repr

def init : World :=
  { data := ⟨[], []⟩, stamp := none, store := none, deck := [], clock0 := none, clock1 := none }

/-- `self.store.stamp`, `None` when there is no store (`AttributeError` caught) -/
def storeStamp (w : World) : Option Int :=
  match w.store with
  | none => none
  | some 0 => w.clock0
  | some _ => w.clock1

def restamp (w : World) : World := { w with stamp := storeStamp w }

/-- the `for k, v in a: setattr(self._data, k, v)` loop of `Share.change`; stops at the first
exception, keeping what was set before it -/
def changeLoop (d : Data) : List (Str × Val) → Data × Option Err
  | [] => (d, none)
  | (k, v) :: rest =>
    match setattr d k v with
    | (d', none) => changeLoop d' rest
    | (d', some e) => (d', some e)

/-- the loop of `Share.create`: `if not hasattr: setattr; update = True` -/
def createLoop (d : Data) (upd : Bool) : List (Str × Val) → Data × Bool × Option Err
  | [] => (d, upd, none)
  | (k, v) :: rest =>
    if hasattr d k then createLoop d upd rest
    else
      match setattr d k v with
      | (d', none) => createLoop d' true rest
      | (d', some e) => (d', upd, some e)

/-- `AttributeError` → `KeyError` as the mapping methods of `Share` do -/
def toKey : Err → Err
  | .attributeError => .keyError
  | e => e

inductive Op where
  | setValue (v : Val) | getValue
  | update (ps : List (Str × Val)) | change (ps : List (Str × Val)) | create (ps : List (Str × Val))
  | stampNow
  | setItem (k : Str) (v : Val) | getItem (k : Str) | delItem (k : Str) | contains (k : Str)
  | get (k : Str) | keys | items | values | len
  | pop (k : Str) | popitem | setdefault (k : Str) (v : Val) | clear
  | insert (idx : Int) (k : Str) (v : Val)
  | sift (fields : Option (List Str)) | copy | reorder (ps : List (Str × Val))
  | setData (ps : List (Str × Val))
  | setTruth (v : Val) | getTruth
  | changeUnit (ps : List (Str × Val)) | createUnit (ps : List (Str × Val)) | fetchUnit (k : Str)
  | ctorUnit (ps : List (Str × Val))          -- `Share(unit = dict(ps))`: only whether it raises / what unit it has
  | mutate (id : Nat) (n : Int)               -- the caller appends `n` to its object `id`
  | push (v : Val) | pull | gulp (v : Val) | spew
  | setClock (i : Nat) (t : Option Int)      -- store i: `.changeStamp(t)` / `.stamp = None`
  | attach (s : Option Nat)                  -- `share.changeStore(store i)` / `changeStore(None)`
deriving DecidableEq, Repr

inductive Out where
  | unit
  | val (v : Val)
  | bool (b : Bool)
  | nat (n : Nat)
  | strs (l : List Str)
  | pairs (l : List (Str × Val))
  | vals (l : List Val)
  | stamp (t : Option Int)
  | err (e : Err)
deriving DecidableEq, Repr

def outE : Option Err → Out
  | none => .unit
  | some e => .err e

def step (w : World) : Op → World × Out
  | .setValue v =>
    -- `setattr(self._data, 'value', value)` then stamp (an exception would skip the stamping)
    match setattr w.data "value".toList v with
    | (d, none) => (restamp { w with data := d }, .unit)
    | (d, some e) => ({ w with data := d }, .err e)
  | .getValue =>
    match getattr w.data "value".toList with
    | .ok v => (w, .val v)
    | .error _ => (w, .val .none)
  | .change ps =>
    let r := changeLoop w.data ps
    ({ w with data := r.1 }, outE r.2)
  | .update ps =>
    match changeLoop w.data ps with
    | (d, none) => (restamp { w with data := d }, .unit)
    | (d, some e) => ({ w with data := d }, .err e)
  | .create ps =>
    match createLoop w.data false ps with
    | (d, upd, none) => (if upd then restamp { w with data := d } else { w with data := d }, .unit)
    | (d, _, some e) => ({ w with data := d }, .err e)
  | .stampNow => (restamp w, .stamp (storeStamp w))
  | .setItem k v =>
    let r := setattr w.data k v
    ({ w with data := r.1 }, outE (r.2.map toKey))
  | .getItem k =>
    -- `self._data.__dict__[key]` (D11 repair)
    match lookup w.data.raw k with
    | some v => (w, .val v)
    | none => (w, .err .keyError)
  | .delItem k =>
    let r := delattr w.data k
    ({ w with data := r.1 }, outE (r.2.map toKey))
  | .contains k => (w, .bool (lookup w.data.raw k).isSome)     -- `key in self._data.__dict__`
  | .get k =>
    -- `if key in self: return self[key] else: return default`
    match lookup w.data.raw k with
    | some v => (w, .val v)
    | none => (w, .val .none)
  | .keys => (w, .strs w.data.keys)
  | .items =>
    match items w.data with
    | .ok l => (w, .pairs l)
    | .error e => (w, .err e)
  | .values =>
    -- `[self[key] for key in self.keys()]`: `Share.__getitem__`
    match w.data.keys.mapM (fun k => match lookup w.data.raw k with
        | some v => (Except.ok v : Except Err Val)
        | none => .error .keyError) with
    | .ok l => (w, .vals l)
    | .error e => (w, .err e)
  | .len => (w, .nat w.data.raw.length)
  | .pop k =>
    -- `odict.pop(key)`: `dict.pop` then the key list
    match lookup w.data.raw k with
    | some v => ({ w with data := odictPop w.data k }, .val v)
    | none => (w, .err .keyError)
  | .popitem =>
    match w.data.keys.getLast? with
    | none => (w, .err .keyError)
    | some k =>
      match lookup w.data.raw k with
      | some v => ({ w with data := odictPop w.data k }, .pairs [(k, v)])
      | none => (w, .err .keyError)
  | .setdefault k v =>
    -- D11d repair: `if key not in dict: self[key] = default; return dict[key]`
    match lookup w.data.raw k with
    | some x => (w, .val x)
    | none =>
      match setattr w.data k v with
      | (d, none) =>
        (match lookup d.raw k with
         | some x => ({ w with data := d }, .val x)
         | none => ({ w with data := d }, .err .keyError))
      | (d, some e) => ({ w with data := d }, .err (toKey e))
  | .clear => ({ w with data := ⟨[], []⟩ }, .unit)
  | .insert idx k v =>
    -- D11f repair: the name test first; then `odict.insert`: `if key in self: raise KeyError`,
    -- `dict.__setitem__`, `self._keys.insert(index, key)`
    if !identPub k then (w, .err .keyError)
    else if (lookup w.data.raw k).isSome then (w, .err .keyError)
    else ({ w with data := ⟨rawSet w.data.raw k v, pyInsert w.data.keys idx k⟩ }, .unit)
  | .sift none =>
    -- `odict(self.__dict__)`: every key of the key list with `dict[key]`
    match items w.data with
    | .ok l => (w, .pairs l)
    | .error e => (w, .err e)
  | .sift (some fs) =>
    -- `for key in fields: if key not in self.__dict__: raise AttributeError; stuff[key] = …`
    match fs.eraseDups.mapM (siftGet w.data.raw) with
    | .ok l => (w, .pairs l)
    | .error e => (w, .err e)
  | .copy =>
    -- `self._data.__dict__.copy()`: a new odict with the same (aliased) values
    match items w.data with
    | .ok l => (w, .pairs l)
    | .error e => (w, .err e)
  | .reorder ps =>
    -- D11h repair: name rule for new keys, then `odict.reorder(other)`: `dict.update`, and every
    -- key of `other` moves to the end of the key list
    if ps.any (fun p => (lookup w.data.raw p.1).isNone && !identPub p.1) then (w, .err .keyError)
    else ({ w with data := ps.foldl (fun d p => ⟨rawSet d.raw p.1 p.2, d.keys.erase p.1 ++ [p.1]⟩) w.data }, .unit)
  | .setData ps =>
    -- `share.data = Data(ps)`: the new record is built first (may raise), then installed and stamped
    match changeLoop ⟨[], []⟩ ps with
    | (d, none) => (restamp { w with data := d, dataId := w.dataId + 1 }, .unit)
    | (_, some e) => (w, .err e)
  | .setTruth v => ({ w with truth := v }, .unit)
  | .getTruth => (w, .val w.truth)
  | .changeUnit ps =>
    -- `if self.unit is None: self.unit = Data()` then the `setattr` loop on the unit record
    let r := changeLoop (w.unit.getD ⟨[], []⟩) ps
    ({ w with unit := some r.1 }, outE r.2)
  | .createUnit ps =>
    let r := createLoop (w.unit.getD ⟨[], []⟩) false ps
    ({ w with unit := some r.1 }, outE r.2.2)
  | .fetchUnit k =>
    -- `if self.unit: if hasattr(self._unit, field): return getattr(…)`; default None
    match w.unit with
    | none => (w, .val .none)
    | some u =>
      match getattr u k with
      | .ok v => (w, .val v)
      | .error _ => (w, .val .none)
  | .ctorUnit ps =>
    -- `Share(unit = dict(ps))` → `self.changeUnit(**unit)` (D11g repair) on a new share
    match changeLoop ⟨[], []⟩ ps with
    | (d, none) =>
      (match items d with
       | .ok l => (w, .pairs l)
       | .error e => (w, .err e))
    | (_, some e) => (w, .err e)
  | .mutate id n =>
    ({ w with pool := w.pool.mapIdx (fun i l => if i = id then l ++ [n] else l) }, .unit)
  | .push v => ({ w with deck := w.deck ++ [v] }, .unit)            -- `deque.append`
  | .pull =>
    match w.deck with
    | [] => (w, .err .indexError)                                    -- `deque.popleft`
    | v :: rest => ({ w with deck := rest }, .val v)
  | .gulp v =>
    if v = .none then (w, .unit) else ({ w with deck := w.deck ++ [v] }, .unit)
  | .spew =>
    match w.deck with
    | [] => (w, .val .none)
    | v :: rest => ({ w with deck := rest }, .val v)
  | .setClock i t => (if i = 0 then { w with clock0 := t } else { w with clock1 := t }, .unit)
  | .attach s => ({ w with store := s }, .unit)

def run : World → List Op → World
  | w, [] => w
  | w, op :: ops => run (step w op).1 ops

/-! ### region of the known finding D11e (evaluated by the driver for the harness) -/

/-- D11e: `None` is put on the deck with `push` -/
def regionD11e (ops : List Op) : Bool := ops.any (fun op => op = .push .none)

end Ioflo.Share
