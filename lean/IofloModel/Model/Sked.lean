/-
Model of ioflo/base/skedding.py  (Skedder.addReadyTask, Skedder.run, simulated-time mode)
and of the parts of ioflo/base/tasking.py / wanting.py that the scheduler reads and writes
(tasker.desire / .period / .status, the base Tasker runner table, Want*.action).

The scheduler is written ONCE, generically over
  * a time type `τ` (`TimeLike τ`: `+`, `<`, `0`, `abs`), instantiated with `Rat` (exact, used
    by the theorems and by the driver on dyadic grids) and with Lean's `Float` (IEEE binary64,
    used by the driver to reproduce CPython's rounding on decimal grids);
  * an abstract tasker environment `Env τ ω` (how to read a tasker's desire/period/status in a
    world `ω`, and what `tasker.runner.send(control)` does to the world), so the theorems hold for
    framers, loggers, servers alike.  `ScriptEnv` below is the concrete environment used by the
    driver: taskers that wrap the real base `Tasker` runner table and perform scripted bids.

Core Lean only (the driver links it).
-/
namespace Ioflo.Sked

/-! ## time -/

/-- What the scheduler needs from a number type. `lt a b` is Python's `a < b`. -/
class TimeLike (τ : Type) where
  add : τ → τ → τ
  lt : τ → τ → Bool
  zero : τ
  abs : τ → τ

instance : TimeLike Rat where
  add a b := a + b
  lt a b := decide (a < b)
  zero := 0
  abs a := if a < 0 then -a else a

instance : TimeLike Float where
  add a b := a + b
  lt a b := decide (a < b)
  zero := 0.0
  abs a := a.abs

/-- Python `max(0.0, period)` as used by `Want*.action`: the first argument unless the second is greater. -/
def max0 {τ : Type} [TimeLike τ] (p : τ) : τ :=
  if TimeLike.lt (TimeLike.zero : τ) p then p else TimeLike.zero

/-! ## controls, statuses, results of `runner.send` -/

/-- `globaling.STOP … READY` (0‥4); `other` = any other object sent as a control. -/
inductive Control | stop | start | run | abort | ready | other
  deriving DecidableEq, Repr, Inhabited

/-- `globaling.STOPPED … READIED` (same integers as the controls). -/
inductive Status | stopped | started | running | aborted | readied
  deriving DecidableEq, Repr, Inhabited

/-- Exceptions that can leave `runner.send` or the loop itself, by the `except` clause of
`Skedder.run` that catches them. -/
inductive Exc
  | keyboardInterrupt               -- caught: `break`
  | systemExit                      -- caught and re-raised
  | exception (name : String)       -- any `Exception` subclass raised by a tasker: re-raised
  | baseException (name : String)   -- any other `BaseException`: not caught at all, propagates
  | indexError                      -- `ready.popleft()` on an empty deque
  | unboundLocalError               -- `status` read before any assignment
  deriving DecidableEq, Repr, Inhabited

/-- result of `tasker.runner.send(control)` -/
inductive Sent
  | yielded (s : Status)
  | stopIteration
  | raised (e : Exc)
  deriving DecidableEq, Repr, Inhabited

/-- where a send comes from: the main loop or the abort sweep of the `finally:` clause -/
inductive Phase | loop | final
  deriving DecidableEq, Repr, Inhabited

/-- The tasker side of the scheduler, abstractly.  `send i c stamp w`: tasker `i`'s generator is
resumed with control `c` while its store shows `stamp`; everything the run does (including bids
on other taskers) is in the returned world. -/
structure Env (τ ω : Type) where
  desire : ω → Nat → Control
  period : ω → Nat → τ
  status : ω → Nat → Status
  /-- `schedule == ACTIVE` -/
  active : ω → Nat → Bool
  /-- the two attribute writes of `addReadyTask` -/
  setReady : Nat → Control → ω → ω
  /-- the first argument (main loop or abort sweep) is a ghost of the model: the Python generator
  cannot see it; environments may only record it -/
  send : Phase → Nat → Control → τ → ω → Sent × ω
  /-- exception (if any) delivered while the time stamps are advanced after pass number `tick`
  (stands for `time.sleep` / `store.changeStamp` being interrupted) -/
  boundary : Nat → ω → Option Exc

/-! ## scheduler state -/

/-- one `(tasker, retime, period)` tuple of `Skedder.ready` / `Skedder.aborted` -/
structure Entry (τ : Type) where
  id : Nat
  retime : τ
  period : τ
  deriving Repr, Inhabited

/-- one `runner.send` performed by the scheduler -/
structure Event (τ : Type) where
  phase : Phase
  tick : Nat
  id : Nat
  control : Control
  stamp : τ
  result : Sent
  /-- `tasker.period` as read right after the send -/
  periodAfter : τ
  deriving Repr, Inhabited

structure St (τ ω : Type) where
  /-- `self.stamp` (and the local `stamp`) -/
  stamp : τ
  /-- `house.store.stamp`: what the taskers see -/
  storeStamp : τ
  /-- `self.period` -/
  P : τ
  ready : List (Entry τ)
  aborted : List (Entry τ)
  world : ω
  /-- the local variable `status` of `run` (`none` = not yet bound); it survives from one
  loop iteration, and one tick, to the next -/
  status : Option Status
  /-- number of completed passes -/
  tick : Nat
  events : List (Event τ)

variable {τ ω : Type} [TimeLike τ]

/-- `Skedder.addReadyTask` -/
def addReadyTask (E : Env τ ω) (s : St τ ω) (i : Nat) : St τ ω :=
  let desire := if E.active s.world i then Control.start else Control.stop
  let w := E.setReady i desire s.world
  { s with world := w
           ready := s.ready ++ [{ id := i, retime := s.storeStamp, period := E.period w i }] }

/-- `House.orderTaskables`: `taskables = fronts + mids + backs` -/
structure House where
  fronts : List Nat
  mids : List Nat
  backs : List Nat
  deriving Repr, Inhabited

def House.taskables (h : House) : List Nat := h.fronts ++ h.mids ++ h.backs

/-- `Skedder.__init__` (`float(abs(period))`, `float(abs(stamp))`) followed by the prologue of
`run`: every house's store gets the stamp and every taskable is added to `ready` in order. -/
def start (E : Env τ ω) (period stamp : τ) (houses : List House) (w : ω) : St τ ω :=
  let s0 : St τ ω :=
    { stamp := TimeLike.abs stamp, storeStamp := TimeLike.abs stamp, P := TimeLike.abs period,
      ready := [], aborted := [], world := w, status := none, tick := 0, events := [] }
  (houses.flatMap House.taskables).foldl (addReadyTask E) s0

inductive BodyOut (τ ω : Type)
  | ok (s : St τ ω) (more : Bool)
  | exc (e : Exc) (s : St τ ω)

/-- the tail of the loop body: `if status == RUNNING or status == STARTED: more = True` -/
def checkMore (s : St τ ω) (more : Bool) : BodyOut τ ω :=
  match s.status with
  | none => .exc .unboundLocalError s
  | some st => .ok s (more || st == .running || st == .started)

/-- One iteration of `for i in range(len(ready))`. -/
def body (E : Env τ ω) (s : St τ ω) (more : Bool) : BodyOut τ ω :=
  match s.ready with
  | [] => .exc .indexError s                                   -- `ready.popleft()`
  | e :: rest =>
    if TimeLike.lt s.stamp e.retime then                       -- `if retime > stamp:`
      checkMore { s with ready := rest ++ [e], status := some (E.status s.world e.id) } more
    else
      let c := E.desire s.world e.id
      let r := E.send .loop e.id c s.storeStamp s.world
      let ev : Event τ := { phase := .loop, tick := s.tick, id := e.id, control := c,
                            stamp := s.storeStamp, result := r.1, periodAfter := E.period r.2 e.id }
      let w := r.2
      match r.1 with
      | .yielded st =>
        if st = .aborted then
          checkMore { s with ready := rest, world := w, events := s.events ++ [ev], status := some st
                             aborted := s.aborted ++ [{ id := e.id, retime := s.stamp, period := e.period }] } more
        else
          checkMore { s with world := w, events := s.events ++ [ev], status := some st
                             ready := rest ++ [{ id := e.id, retime := TimeLike.add e.retime (E.period w e.id),
                                                 period := E.period w e.id }] } more
      | .stopIteration =>
        -- as repaired by fixes/D02a-…patch: `status = ABORTED` in the `except StopIteration:` clause
        -- (the unrepaired code leaves `status` stale, or unbound on the very first iteration)
        checkMore { s with ready := rest, world := w, events := s.events ++ [ev], status := some .aborted
                           aborted := s.aborted ++ [{ id := e.id, retime := s.stamp, period := e.period }] } more
      | .raised x =>
        .exc x { s with ready := rest, world := w, events := s.events ++ [ev] }

/-- `for i in range(n): body` -/
def forLoop (E : Env τ ω) : Nat → St τ ω → Bool → BodyOut τ ω
  | 0, s, more => .ok s more
  | n+1, s, more =>
    match body E s more with
    | .ok s' more' => forLoop E n s' more'
    | .exc e s' => .exc e s'

/-- how the `while True` loop was left -/
inductive Ending
  | noReady             -- `if not ready: break`
  | noMore              -- `if not more: break`
  | interrupted         -- `except KeyboardInterrupt: break`
  | raised (e : Exc)    -- re-raised / uncaught
  | fuel                -- the model's tick budget ran out (not a behaviour of the code)
  deriving DecidableEq, Repr, Inhabited

inductive TickOut (τ ω : Type)
  | next (s : St τ ω)
  | done (e : Ending) (s : St τ ω)

def classify (x : Exc) : Ending :=
  if x = .keyboardInterrupt then .interrupted else .raised x

/-- One pass of the `while True` body. -/
def tick (E : Env τ ω) (s : St τ ω) : TickOut τ ω :=
  match forLoop E s.ready.length s false with
  | .exc x s' => .done (classify x) s'
  | .ok s' more =>
    if s'.ready.isEmpty then .done .noReady s'
    else if !more then .done .noMore s'
    else
      let s'' := { s' with stamp := TimeLike.add s'.stamp s'.P, tick := s'.tick + 1 }
      match E.boundary s'.tick s'.world with
      | some x => .done (classify x) s''
      | none => .next { s'' with storeStamp := s''.stamp }

def runLoop (E : Env τ ω) : Nat → St τ ω → Ending × St τ ω
  | 0, s => (.fuel, s)
  | n+1, s =>
    match tick E s with
    | .next s' => runLoop E n s'
    | .done e s' => (e, s')

/-- `isinstance(x, Exception)`: caught by `except Exception:`; `KeyboardInterrupt`, `SystemExit` and
other bare `BaseException`s are not -/
def Exc.isException : Exc → Bool
  | .exception _ | .indexError | .unboundLocalError => true
  | .keyboardInterrupt | .systemExit | .baseException _ => false

/-- the loop of the `finally:` clause (as repaired by fixes/D03a-…patch): `for i in range(len(ready))`:
pop, `send(ABORT)`; `StopIteration` is caught, an `Exception` is caught and remembered (the sweep goes
on), any other `BaseException` ends the sweep at once and is the result here. -/
def finalLoop (E : Env τ ω) : Nat → St τ ω → Option Exc × St τ ω
  | 0, s => (none, s)
  | n+1, s =>
    match s.ready with
    | [] => (some .indexError, s)
    | e :: rest =>
      let r := E.send .final e.id .abort s.storeStamp s.world
      let ev : Event τ := { phase := .final, tick := s.tick, id := e.id, control := .abort,
                            stamp := s.storeStamp, result := r.1, periodAfter := E.period r.2 e.id }
      let s' := { s with ready := rest, world := r.2, events := s.events ++ [ev] }
      match r.1 with
      | .raised x => if x.isException then finalLoop E n s' else (some x, s')
      | _ => finalLoop E n s'

/-- `failure`: the first `Exception` caught while aborting -/
def firstFailure (evs : List (Event τ)) : Option Exc :=
  evs.findSome? fun ev =>
    match ev.phase, ev.result with
    | .final, .raised x => if x.isException then some x else none
    | _, _ => none

/-- the whole `finally:` clause: the sweep, `ready.clear()` in its own `finally:`, then
`if failure is not None: raise failure` unless a `BaseException` is already on its way out -/
def finalize (E : Env τ ω) (s : St τ ω) : Option Exc × St τ ω :=
  let r := finalLoop E s.ready.length s
  ((match r.1 with | some x => some x | none => firstFailure r.2.events), { r.2 with ready := [] })

/-- the `finally:` clause before the repair (finding D03a): only `StopIteration` is caught, the first
exception of any kind ends the sweep, the deque is not cleared -/
def finalLoopOld (E : Env τ ω) : Nat → St τ ω → Option Exc × St τ ω
  | 0, s => (none, s)
  | n+1, s =>
    match s.ready with
    | [] => (some .indexError, s)
    | e :: rest =>
      let r := E.send .final e.id .abort s.storeStamp s.world
      let ev : Event τ := { phase := .final, tick := s.tick, id := e.id, control := .abort,
                            stamp := s.storeStamp, result := r.1, periodAfter := E.period r.2 e.id }
      let s' := { s with ready := rest, world := r.2, events := s.events ++ [ev] }
      match r.1 with
      | .raised x => (some x, s')
      | _ => finalLoopOld E n s'

def finalizeOld (E : Env τ ω) (s : St τ ω) : Option Exc × St τ ω := finalLoopOld E s.ready.length s

/-- what the caller of `Skedder.run` sees -/
inductive Outcome
  | returned (e : Ending)
  | raised (e : Exc)
  | outOfFuel
  deriving DecidableEq, Repr, Inhabited

/-- `Skedder.run` after the prologue (`start`). An exception raised in the `finally` clause
replaces whatever was in flight. -/
def run (E : Env τ ω) (fuel : Nat) (s : St τ ω) : Outcome × St τ ω :=
  match runLoop E fuel s with
  | (.fuel, s') => (.outOfFuel, s')
  | (e, s') =>
    match finalize E s' with
    | (some x, s'') => (.raised x, s'')
    | (none, s'') =>
      match e with
      | .raised x => (.raised x, s'')
      | e => (.returned e, s'')

/-- The prologue of a later `run()` on the same `Skedder`. What survives a `run()` is `self.stamp`,
`self.period`, the deques `self.ready` and `self.aborted` and the taskers (world `w`, possibly changed
between the runs, e.g. by `tasker.remake()`); the local `status` is unbound again, the stores are
stamped with `self.stamp`, and every taskable is appended to `ready` once more. -/
def restart (E : Env τ ω) (houses : List House) (s : St τ ω) (w : ω) : St τ ω :=
  (houses.flatMap House.taskables).foldl (addReadyTask E)
    { s with storeStamp := s.stamp, world := w, status := none, tick := 0, events := [] }

/-- **Region of finding D03b.** A `BaseException` that is not an `Exception` (a second Ctrl-C, `SystemExit`)
came out of a send of the abort sweep: the sweep stops there. -/
def sweepRaised (E : Env τ ω) (fuel : Nat) (s : St τ ω) : Bool :=
  (finalLoop E (runLoop E fuel s).2.ready.length (runLoop E fuel s).2).1.isSome

/-- `Skedder.run` before the repair of D03a -/
def runOld (E : Env τ ω) (fuel : Nat) (s : St τ ω) : Outcome × St τ ω :=
  match runLoop E fuel s with
  | (.fuel, s') => (.outOfFuel, s')
  | (e, s') =>
    match finalizeOld E s' with
    | (some x, s'') => (.raised x, s'')
    | (none, s'') =>
      match e with
      | .raised x => (.raised x, s'')
      | e => (.returned e, s'')

/-! ## the concrete environment of the driver: scripted taskers around the base runner table -/

/-- one scripted action of a test tasker, performed after the base table handled the control -/
inductive Act (τ : Type)
  /-- `Want<control>.action(taskers=targets, period=period, …)` -/
  | bid (targets : List Nat) (c : Control) (period : Option τ)
  /-- the generator returns (→ `StopIteration` at the caller) -/
  | ret
  | raise (e : Exc)
  deriving Repr, Inhabited

structure Tk (τ : Type) where
  active : Bool
  period : τ
  desire : Control := .stop
  status : Status := .stopped
  done : Bool := true
  /-- generator not yet finished -/
  alive : Bool := true
  /-- number of `send`s received so far -/
  nsend : Nat := 0
  /-- actions to perform at the `n`-th send (first match) -/
  script : List (Nat × List (Act τ)) := []
  /-- `some (k, acts)`: from the `k`-th send on, perform `acts` at every send -/
  tail : Option (Nat × List (Act τ)) := none
  deriving Repr, Inhabited

/-- `tasking.Tasker.makeRunner`: one resumption of the base generator with `control`.
Returns `none` for the result when the generator yields `self.status`. -/
def baseTable (c : Control) (t : Tk τ) : Option Sent × Tk τ :=
  match c with
  | .run =>
    if t.status = .started ∨ t.status = .running then (none, { t with status := .running })
    else (none, { t with desire := .start })
  | .ready => (none, { t with desire := .start, status := .readied })
  | .start => (none, { t with desire := .run, status := .started, done := false })
  | .stop =>
    if t.status = .running ∨ t.status = .started then
      (none, { t with desire := .stop, status := .stopped, done := true })
    else (none, t)
  | .abort => (none, { t with desire := .abort, status := .aborted, done := true })
  | .other =>
    -- `CommandNames[control]`: the name `CommandNames` is defined nowhere → NameError,
    -- the `finally` clause then (re)writes desire and status
    (some (.raised (.exception "NameError")), { t with desire := .abort, status := .aborted, alive := false })

abbrev World (τ : Type) := List (Tk τ)

/-- a tasker that is not there: never scheduled, never running -/
def Tk.absent : Tk τ := { active := false, period := TimeLike.zero, alive := false }

def World.get (w : World τ) (i : Nat) : Tk τ := w.getD i Tk.absent

def World.modify (w : World τ) (i : Nat) (f : Tk τ → Tk τ) : World τ :=
  List.modify w i f

/-- `Want*.action` for one target: Stop/Abort ignore `period`; Start/Run/Ready write
`tasker.period = max(0.0, period)` when a period is given; then `tasker.desire = control`. -/
def applyBid (c : Control) (period : Option τ) (t : Tk τ) : Tk τ :=
  let t := match c, period with
    | .start, some p | .run, some p | .ready, some p => { t with period := max0 p }
    | _, _ => t
  { t with desire := c }

/-- performs the actions in order; `ret`/`raise` end the generator: the inner base generator is
then finalised (its `finally` writes desire/status ABORT/ABORTED). -/
def doActs (i : Nat) : List (Act τ) → World τ → Option Sent × World τ
  | [], w => (none, w)
  | .bid ts c p :: rest, w => doActs i rest (ts.foldl (fun w t => w.modify t (applyBid c p)) w)
  | .ret :: _, w =>
    (some .stopIteration, w.modify i (fun t => { t with alive := false, desire := .abort, status := .aborted }))
  | .raise x :: _, w =>
    (some (.raised x), w.modify i (fun t => { t with alive := false, desire := .abort, status := .aborted }))

def lookupScript (n : Nat) : List (Nat × List (Act τ)) → List (Act τ)
  | [] => []
  | (k, as) :: rest => if k = n then as else lookupScript n rest

def actsAt (t : Tk τ) : List (Act τ) :=
  match t.tail with
  | some (k, as) => if k ≤ t.nsend then as else lookupScript t.nsend t.script
  | none => lookupScript t.nsend t.script

/-- `runner.send(c)` of a scripted test tasker (harness class `ScriptTasker`): the base table
handles the control, then the scripted actions of this send are performed, then the status is
yielded. A finished generator raises `StopIteration`. -/
def scriptSend (i : Nat) (c : Control) (_stamp : τ) (w : World τ) : Sent × World τ :=
  let t := w.get i
  if !t.alive then (.stopIteration, w)
  else
    let acts := actsAt t
    let (r, t') := baseTable c { t with nsend := t.nsend + 1 }
    let w := w.modify i (fun _ => t')
    match r with
    | some res => (res, w)
    | none =>
      match doActs i acts w with
      | (some res, w') => (res, w')
      | (none, w') => (.yielded (w'.get i).status, w')

def ScriptEnv : Env τ (World τ) where
  desire w i := (w.get i).desire
  period w i := (w.get i).period
  status w i := (w.get i).status
  active w i := (w.get i).active
  setReady i c w := w.modify i (fun t => { t with desire := c, status := .stopped })
  send _ := scriptSend
  boundary _ _ := none

/-- A complete scheduler configuration in the driver's concrete world. -/
structure Config (τ : Type) where
  period : τ
  stamp : τ
  houses : List House
  taskers : List (Tk τ)
  deriving Repr, Inhabited

/-- all ids mentioned are ids of taskers, and every tasker is placed at most once -/
def Config.wellFormed (c : Config τ) : Bool :=
  let n := c.taskers.length
  let placed := c.houses.flatMap House.taskables
  placed.all (· < n) && placed.eraseDups.length == placed.length &&
  c.taskers.all (fun t => (t.script.map (·.2) ++ (t.tail.map (·.2)).toList).all (fun as => as.all (fun a =>
    match a with | .bid ts _ _ => ts.all (· < n) | _ => true)))

def Config.run (c : Config τ) (fuel : Nat) : Outcome × St τ (World τ) :=
  Ioflo.Sked.run ScriptEnv fuel
    (start ScriptEnv c.period c.stamp c.houses (c.taskers.map fun t => { t with period := TimeLike.abs t.period }))

/-- `Tasker.remake()`: a fresh generator advanced to its first yield (status STOPPED, desire STOP, the
script starts over); the period is kept -/
def remakeTk (t : Tk τ) : Tk τ :=
  { t with alive := true, status := .stopped, desire := .stop, done := true, nsend := 0 }

/-- later `run()`s on the same scheduler: before each, the listed taskers are re-made -/
def Config.reruns (c : Config τ) (fuel : Nat) : List (List Nat) → St τ (World τ) → List (Outcome × St τ (World τ))
  | [], _ => []
  | ids :: rest, s =>
    let w := ids.foldl (fun w i => w.modify i remakeTk) s.world
    let r := Ioflo.Sked.run ScriptEnv fuel (restart ScriptEnv c.houses s w)
    r :: Config.reruns c fuel rest r.2

/-- the first `run()` and the later ones -/
def Config.runAll (c : Config τ) (fuel : Nat) (again : List (List Nat)) : List (Outcome × St τ (World τ)) :=
  let r := c.run fuel
  r :: c.reruns fuel again r.2

/-- what of an event is independent of the time type: pass number, tasker, control, result -/
def Event.shape {τ : Type} (e : Event τ) : Phase × Nat × Nat × Control × Sent :=
  (e.phase, e.tick, e.id, e.control, e.result)

/-- **Region of finding D2.** The run of the configuration `cf` over a rounding time type (binary64:
hardware `Float` in the driver, `F64` in the theorems) and the exact run of the same configuration
`cx` (same decimal numbers, read as rationals) differ: another outcome, or another control to
another tasker in some pass. -/
def floatDrift {τ : Type} [TimeLike τ] (cf : Config τ) (cx : Config Rat) (fuel : Nat) : Bool :=
  let rf := cf.run fuel
  let rx := cx.run fuel
  !(rf.1 = rx.1 && rf.2.events.map Event.shape = rx.2.events.map Event.shape)

end Ioflo.Sked
