import IofloModel.Model.Sked
/-!
A kernel-evaluable model of IEEE-754 binary64 addition and comparison on finite values, used as a
third instantiation of the scheduler's time type (besides `Rat` and the hardware `Float`):
`Float` is opaque to the Lean kernel, so the drift of finding D2 can only be *proved* on this one.
The driver runs it next to the hardware `Float` on every decimal case and the harness requires the
two (and CPython) to agree.

A value is the rational number it denotes (signed zeros are identified; infinities and NaN do not
occur: the scheduler only adds small non-negative numbers). `roundRat` is round-to-nearest,
ties-to-even, to 53 significant bits, with the subnormal quantum 2⁻¹⁰⁷⁴ below 2⁻¹⁰²²; overflow is
not modelled.
-/
namespace Ioflo.Sked

/-- `2^e ≤ n/d` for `d > 0` -/
def pow2Le (e : Int) (n d : Nat) : Bool :=
  if 0 ≤ e then decide (2 ^ e.toNat * d ≤ n) else decide (d ≤ n * 2 ^ (-e).toNat)

/-- `⌊log₂ (n/d)⌋` for `n, d > 0` -/
def ilog2 (n d : Nat) : Int :=
  let e : Int := (Nat.log2 n : Int) - (Nat.log2 d : Int)
  if pow2Le e n d then e else e - 1

/-- `m · 2^k` -/
def scale2 (m : Int) (k : Int) : Rat :=
  if 0 ≤ k then mkRat (m * 2 ^ k.toNat) 1 else mkRat m (2 ^ (-k).toNat)

/-- round to nearest binary64, ties to even -/
def roundRat (x : Rat) : Rat :=
  if x.num = 0 then 0 else
  let n := x.num.natAbs
  let d := x.den
  let e := max (ilog2 n d) (-1022)
  -- m = (n/d) / 2^(e-52) as the fraction mn/md
  let mn := if e ≤ 52 then n * 2 ^ (52 - e).toNat else n
  let md := if e ≤ 52 then d else d * 2 ^ (e - 52).toNat
  let q := mn / md
  let r := mn % md
  let m := if 2 * r < md then q else if md < 2 * r then q + 1 else (if q % 2 = 0 then q else q + 1)
  scale2 (if x.num < 0 then -(m : Int) else m) (e - 52)

/-- a finite binary64 value, as the rational it denotes -/
structure F64 where
  val : Rat
  deriving DecidableEq, Repr, Inhabited

instance : TimeLike F64 where
  add a b := ⟨roundRat (a.val + b.val)⟩
  lt a b := decide (a.val < b.val)
  zero := ⟨0⟩
  abs a := ⟨if a.val < 0 then -a.val else a.val⟩

/-- the binary64 nearest to a rational (what `float(Fraction(p, q))` / a decimal literal gives) -/
def F64.ofRat (x : Rat) : F64 := ⟨roundRat x⟩

/-- decode an IEEE bit pattern (finite values only) -/
def F64.ofBits? (b : Nat) : Option F64 :=
  let sign : Nat := b / 2 ^ 63 % 2
  let ex : Nat := b / 2 ^ 52 % 2 ^ 11
  let man : Nat := b % 2 ^ 52
  if ex = 2047 then none else
  let mag : Rat := if ex = 0 then scale2 (man : Int) (-1074) else scale2 ((2 ^ 52 + man : Nat) : Int) ((ex : Int) - 1075)
  some ⟨if sign = 1 then -mag else mag⟩

/-- encode (zero encodes as +0.0) -/
def F64.toBits (x : F64) : Nat :=
  if x.val.num = 0 then 0 else
  let n := x.val.num.natAbs
  let d := x.val.den
  let s := if x.val.num < 0 then 2 ^ 63 else 0
  let e := ilog2 n d
  if e < -1022 then
    -- subnormal: value = man · 2^-1074
    s + n * 2 ^ 1074 / d
  else
    -- value = (2^52 + man) · 2^(e-52)
    let sig := if e ≤ 52 then n * 2 ^ (52 - e).toNat / d else n / (d * 2 ^ (e - 52).toNat)
    s + (e + 1023).toNat * 2 ^ 52 + (sig - 2 ^ 52)

/-! ### re-typing a configuration -/

def Act.mapTime {α β : Type} (f : α → β) : Act α → Act β
  | .bid ts c p => .bid ts c (p.map f)
  | .ret => .ret
  | .raise e => .raise e

def Tk.mapTime {α β : Type} (f : α → β) (t : Tk α) : Tk β :=
  { active := t.active, period := f t.period, desire := t.desire, status := t.status, done := t.done,
    alive := t.alive, nsend := t.nsend,
    script := t.script.map (fun (k, as) => (k, as.map (Act.mapTime f))),
    tail := t.tail.map (fun (k, as) => (k, as.map (Act.mapTime f))) }

def Config.mapTime {α β : Type} (f : α → β) (c : Config α) : Config β :=
  { period := f c.period, stamp := f c.stamp, houses := c.houses, taskers := c.taskers.map (Tk.mapTime f) }

/-- the same configuration with every number read as a binary64 -/
def Config.toF64 (c : Config Rat) : Config F64 := c.mapTime F64.ofRat

end Ioflo.Sked
