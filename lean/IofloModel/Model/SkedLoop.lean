import IofloModel.Model.Sked
/-
Concrete tasker environment for C03 (the scheduler stops when idle and aborts what is left; crash
points): framers with *nested* frames whose enter / recur / exit contexts hold recorder actions,
plain actions and bids, and a crash plan that makes the `k`-th executed action raise an exception
(or delivers an exception while the clock is advanced after a given pass).

Transcribed from `ioflo/base/framing.py`:
  * `Framer.makeRunner` (control × status table; an exception leaving a hook runs the generator's
    `finally:` — desire ABORT, status ABORTED — and the generator is finished);
  * `Framer.enterAll / enter / exit / exitAll / recur / segue`, `Frame.enter / recur / exit / precur`,
    `Frame.traceOutline` (outline = ancestors, the frame, then primary unders down to the bottom),
    `Framer.ExEn`, `Transiter.action` (needs: `recurred >= n` only; no entry guards, no auxiliaries).
The scheduler itself is `Model/Sked.lean`.  Core Lean only.
-/
namespace Ioflo.SkedLoop
open Ioflo.Sked

inductive Ctx | enter | recur | exit
  deriving DecidableEq, Repr, Inhabited

/-- one action of a frame = one crash point -/
inductive Act
  /-- the recorder deed: logs (framer, frame, context) -/
  | record
  /-- a deed that does nothing -/
  | step
  /-- `bid <control> <taskers>` with the taskers resolved -/
  | bid (targets : List Nat) (c : Control)
  deriving DecidableEq, Repr, Inhabited

structure Frame where
  over : Option Nat := none
  enacts : List Act := []
  reacts : List Act := []
  exacts : List Act := []
  /-- `go <target> if recurred >= n`, in order -/
  trans : List (Nat × Nat) := []
  deriving DecidableEq, Repr, Inhabited

structure Fr (τ : Type) where
  /-- `schedule == ACTIVE` -/
  active : Bool
  period : τ
  frames : List Frame
  /-- index of `framer.first` -/
  first : Nat := 0
  status : Status := .stopped
  desire : Control := .stop
  /-- `framer.actives`: the entered frames, top down -/
  actives : List Nat := []
  recurred : Nat := 0
  /-- the generator has not finished -/
  alive : Bool := true
  deriving Repr, Inhabited

inductive Obs
  /-- the recorder ran in frame `f` of framer `i` in context `ctx` -/
  | mark (i f : Nat) (ctx : Ctx)
  /-- the scheduler resumes framer `i` with `c` (main loop or abort sweep) … -/
  | recv (ph : Phase) (i : Nat) (c : Control)
  /-- … and this is what comes back -/
  | res (i : Nat) (r : Sent)
  deriving DecidableEq, Repr, Inhabited

structure World (τ : Type) where
  n : Nat
  framers : Nat → Fr τ
  trace : List Obs := []
  /-- actions executed so far -/
  count : Nat := 0
  /-- the `k`-th executed action raises `x` instead of acting -/
  crash : Option (Nat × Exc) := none
  /-- `x` is delivered while the clock is advanced after pass `k` -/
  boundaryCrash : Option (Nat × Exc) := none

/-- the world after a hook, and the exception that cut it short (if any) -/
structure Res (τ : Type) where
  w : World τ
  exc : Option Exc := none

variable {τ : Type} [TimeLike τ]

def Res.andThen (r : Res τ) (f : World τ → Res τ) : Res τ :=
  match r.exc with
  | some _ => r
  | none => f r.w

def World.modF (w : World τ) (i : Nat) (g : Fr τ → Fr τ) : World τ :=
  { w with framers := fun k => if k = i then g (w.framers i) else w.framers k }

def frameOf (f : Fr τ) (idx : Nat) : Frame := f.frames.getD idx {}

def setStatus (i : Nat) (st : Status) (w : World τ) : World τ := w.modF i fun f => { f with status := st }
def setDesire (i : Nat) (c : Control) (w : World τ) : World τ := w.modF i fun f => { f with desire := c }
def bumpRecurred (i : Nat) (w : World τ) : World τ := w.modF i fun f => { f with recurred := f.recurred + 1 }

/-- one action: counted, then either the planned exception or its effect -/
def execAct (i f : Nat) (ctx : Ctx) (a : Act) (w : World τ) : Res τ :=
  let w := { w with count := w.count + 1 }
  match w.crash with
  | some (k, x) => if k = w.count then ⟨w, some x⟩ else ⟨effect w, none⟩
  | none => ⟨effect w, none⟩
where
  effect (w : World τ) : World τ :=
    match a with
    | .record => { w with trace := w.trace ++ [.mark i f ctx] }
    | .step => w
    | .bid ts c => ts.foldl (fun w t => setDesire t c w) w

def runActs (i f : Nat) (ctx : Ctx) : List Act → World τ → Res τ
  | [], w => ⟨w, none⟩
  | a :: rest, w => (execAct i f ctx a w).andThen (runActs i f ctx rest)

/-- the actions of a frame in a context -/
def actsOf (fr : Frame) : Ctx → List Act
  | .enter => fr.enacts
  | .recur => fr.reacts
  | .exit => fr.exacts

/-- `Frame.enter()` / `recur()` / `exit()` for each frame of the list, in list order -/
def runFrames (i : Nat) (ctx : Ctx) : List Nat → World τ → Res τ
  | [], w => ⟨w, none⟩
  | f :: rest, w =>
    (runActs i f ctx (actsOf (frameOf (w.framers i) f) ctx) w).andThen (runFrames i ctx rest)

/-- ancestors of `f`, top first, `f` last (`fuel` bounds the climb) -/
def headOf (frames : List Frame) : Nat → Nat → List Nat
  | 0, f => [f]
  | fuel+1, f =>
    match (frames.getD f {}).over with
    | some o => headOf frames fuel o ++ [f]
    | none => [f]

/-- primary under: the first declared frame whose `over` is `f` -/
def underOf (frames : List Frame) (f : Nat) : Option Nat :=
  (List.range frames.length).find? (fun g => (frames.getD g {}).over == some f)

/-- primary unders below `f`, down to the bottom -/
def tailOf (frames : List Frame) : Nat → Nat → List Nat
  | 0, _ => []
  | fuel+1, f =>
    match underOf frames f with
    | some u => u :: tailOf frames fuel u
    | none => []

/-- `Frame.traceOutline` -/
def outline (frames : List Frame) (f : Nat) : List Nat :=
  headOf frames frames.length f ++ tailOf frames frames.length f

/-- `Framer.ExEn(nears, far)`: (exits, enters) -/
def exEn (nears fars : List Nat) (far : Nat) : List Nat × List Nat :=
  match nears, fars with
  | n :: ns, f :: fs => if n = far ∨ n ≠ f then (n :: ns, f :: fs) else exEn ns fs far
  | _, _ => ([], [])

def setActives (i : Nat) (l : List Nat) (w : World τ) : World τ := w.modF i fun f => { f with actives := l }
def setRecurred (i n : Nat) (w : World τ) : World τ := w.modF i fun f => { f with recurred := n }

/-- `Framer.enter(enters)` -/
def enterFrames (i : Nat) (enters : List Nat) (w : World τ) : Res τ :=
  runFrames i .enter enters (if enters.isEmpty then w else setRecurred i 0 w)

/-- `Framer.exit(exits)`: bottom up -/
def exitFrames (i : Nat) (exits : List Nat) (w : World τ) : Res τ :=
  runFrames i .exit exits.reverse w

/-- `Framer.enterAll()`: `activate(first)` then enter the outline top down -/
def enterAll (i : Nat) (w : World τ) : Res τ :=
  let ol := outline (w.framers i).frames (w.framers i).first
  enterFrames i ol (setActives i ol w)

/-- `Framer.exitAll()`: exit the entered frames bottom up, then `deactivate` -/
def exitAll (i : Nat) (w : World τ) : Res τ :=
  (exitFrames i (w.framers i).actives w).andThen fun w => ⟨setActives i [] w, none⟩

def recur (i : Nat) (w : World τ) : Res τ := runFrames i .recur (w.framers i).actives w

/-- the transitions of one frame, in order (`Frame.precur`); `some` = a transition was taken -/
def tryTrans (i : Nat) : List (Nat × Nat) → World τ → Option (Res τ)
  | [], _ => none
  | (n, target) :: rest, w =>
    let fr := w.framers i
    if n ≤ fr.recurred then
      let x := exEn fr.actives (outline fr.frames target) target
      if x.2.isEmpty then tryTrans i rest w      -- `checkEnter`: no change in outline, no transition
      else
        some ((exitFrames i x.1 w).andThen fun w =>
          (enterFrames i x.2 w).andThen fun w => ⟨setActives i (outline fr.frames target) w, none⟩)
    else tryTrans i rest w

/-- `for frame in self.actives: if frame.precur(): return True` -/
def precurFrames (i : Nat) : List Nat → World τ → Res τ
  | [], w => ⟨w, none⟩
  | f :: rest, w =>
    match tryTrans i (frameOf (w.framers i) f).trans w with
    | some r => r
    | none => precurFrames i rest w

/-- `Framer.segue()` -/
def segue (i : Nat) (w : World τ) : Res τ :=
  precurFrames i ((bumpRecurred i w).framers i).actives (bumpRecurred i w)


/-- the `finally:` of `makeRunner` when an exception leaves the generator -/
def die (i : Nat) (w : World τ) : World τ :=
  w.modF i fun f => { f with desire := .abort, status := .aborted, alive := false }

/-! the branches of `Framer.makeRunner` (no entry guards: `checkStart()` is true) -/

/-- RUN while running/started: `segue(); recur(); status = RUNNING` -/
def runLive (i : Nat) (w : World τ) : Res τ :=
  ((segue i w).andThen (recur i)).andThen fun w => ⟨setStatus i .running w, none⟩

/-- any control in status ABORTED: `desire = ABORT; status = ABORTED` -/
def bad (i : Nat) (w : World τ) : Res τ := ⟨setStatus i .aborted (setDesire i .abort w), none⟩

/-- START while stopped/readied: `desire = RUN; enterAll(); recur(); status = STARTED` -/
def startIdle (i : Nat) (w : World τ) : Res τ :=
  ((enterAll i (setDesire i .run w)).andThen (recur i)).andThen fun w => ⟨setStatus i .started w, none⟩

/-- STOP while running/started: `desire = STOP; exitAll(abort=True); status = STOPPED` -/
def stopLive (i : Nat) (w : World τ) : Res τ :=
  (exitAll i (setDesire i .stop w)).andThen fun w => ⟨setStatus i .stopped w, none⟩

/-- ABORT (or an unknown control): `exitAll()` if running/started; `desire = ABORT; status = ABORTED` -/
def abortAny (i : Nat) (live : Bool) (w : World τ) : Res τ :=
  (if live then exitAll i w else ⟨w, none⟩).andThen fun w => ⟨setStatus i .aborted (setDesire i .abort w), none⟩

/-- one resumption of `Framer.makeRunner` -/
def table (i : Nat) (c : Control) (w : World τ) : Res τ :=
  let st := (w.framers i).status
  let live : Bool := st = .running ∨ st = .started
  let idle : Bool := st = .stopped ∨ st = .readied
  match c with
  | .run =>
    if live then runLive i w
    else if idle then ⟨setDesire i .start w, none⟩
    else bad i w
  | .ready =>
    if idle then ⟨setStatus i .readied w, none⟩
    else if live then ⟨w, none⟩
    else bad i w
  | .start =>
    if idle then startIdle i w
    else if live then ⟨setDesire i .run w, none⟩
    else bad i w
  | .stop =>
    if live then stopLive i w
    else if idle then ⟨w, none⟩
    else bad i w
  | .abort | .other => abortAny i live w

def send (i : Nat) (c : Control) (w : World τ) : Sent × World τ :=
  if !(w.framers i).alive then (.stopIteration, w)
  else
    let r := table i c w
    match r.exc with
    | some x => (.raised x, die i r.w)
    | none => (.yielded (r.w.framers i).status, r.w)

def LoopEnv : Env τ (World τ) where
  desire w i := (w.framers i).desire
  period w i := (w.framers i).period
  status w i := (w.framers i).status
  active w i := (w.framers i).active
  setReady i c w := setStatus i .stopped (setDesire i c w)
  send ph i c _ w :=
    let r := send i c { w with trace := w.trace ++ [.recv ph i c] }
    (r.1, { r.2 with trace := r.2.trace ++ [.res i r.1] })
  boundary k w := match w.boundaryCrash with
    | some (n, x) => if n = k then some x else none
    | none => none

/-! ### programs -/

structure Program (τ : Type) where
  period : τ
  stamp : τ
  houses : List House
  framers : List (Fr τ)
  crash : Option (Nat × Exc) := none
  boundaryCrash : Option (Nat × Exc) := none
  deriving Repr, Inhabited

/-- `over` points to an earlier frame (so the frames form a forest), ids in range, transitions to
existing frames, every framer has a frame and is in its initial run-time state -/
def Program.wellFormed (p : Program τ) : Bool :=
  let n := p.framers.length
  let placed := p.houses.flatMap House.taskables
  placed.all (· < n) && placed.eraseDups.length == placed.length &&
  p.framers.all (fun f =>
    !f.frames.isEmpty && decide (f.first < f.frames.length) &&
    f.actives.isEmpty && f.alive && f.status == .stopped &&
    (List.range f.frames.length).all (fun idx =>
      let fr := frameOf f idx
      (match fr.over with | some o => decide (o < idx) | none => true) &&
      fr.trans.all (fun t => decide (t.2 < f.frames.length)) &&
      (fr.enacts ++ fr.reacts ++ fr.exacts).all (fun a =>
        match a with | .bid ts _ => ts.all (· < n) | _ => true)))

def Program.world (p : Program τ) : World τ :=
  { n := p.framers.length
    framers := fun i => p.framers.getD i { active := false, period := TimeLike.zero, frames := [], alive := false, status := .aborted }
    crash := p.crash, boundaryCrash := p.boundaryCrash }

def Program.run (p : Program τ) (fuel : Nat) : Outcome × St τ (World τ) :=
  Ioflo.Sked.run LoopEnv fuel (start LoopEnv p.period p.stamp p.houses p.world)

end Ioflo.SkedLoop
