/-
Model of the server-sent-event parser of ioflo/aio/http/httping.py:

* `parseLine(raw, eols=(CRLF, LF, CR))`  — as repaired by fixes/D19-parseline-earliest-eol.patch:
  the *earliest* end of line in `raw` is taken (CRLF before CR at the same index) and a CR that
  was the last byte of `raw` remembers (`skip`) that a LF arriving first in the next receive
  belongs to it.  `scan` is the search, `norm` the `if skip and raw:` prologue of the loop.
* `EventSource.parseEvents` / `EventSource.parse` / `EventSource.close`  — `lineStep` is the body
  of the `while True` loop for one line, `pump` the loop itself as driven by one `parse()` call
  (it runs until `parseLine` yields `None`, or an exception kills the generator, or the source
  was closed and one more line arrived).

Bytes are `Nat`s (the driver only feeds values < 256).  Text values are kept as their UTF-8 bytes:
`bytes.decode('UTF-8')` is modelled by the validity check `validUtf8` (strict, RFC 3629, which is
what CPython implements), a failed decode is the constructor `Err.unicodeDecode`.
`int(value)` for the `retry` field is modelled for ASCII text (`pyInt`); text with a non-ASCII
character gives the explicit outcome `Status.unmodelled` (CPython accepts any Unicode decimal digit
and space there), never a guessed value.  `dictable=True` (json decoding of data) is not modelled.
Core Lean only.
-/
namespace Ioflo.Sse

abbrev Bytes := List Nat

/-! ### parseLine -/

/-- Earliest end of line in `raw`, searching for CRLF, LF and CR:
`some (line, rest, k)` where `rest` is `raw` after the eol and `k` says that the eol was a CR
which was the last byte of `raw`; `none` when `raw` holds no eol. -/
def scan : Bytes → Option (Bytes × Bytes × Bool)
  | [] => none
  | b :: rest =>
    if b = 10 then some ([], rest, false)
    else if b = 13 then
      match rest with
      | [] => some ([], [], true)
      | c :: rest' => if c = 10 then some ([], rest', false) else some ([], c :: rest', false)
    else
      match scan rest with
      | none => none
      | some (l, r, k) => some (b :: l, r, k)

/-! ### the same search, statement by statement

`index = -1` / `for e in eols: i = raw.find(e)` / `if i >= 0 and (index < 0 or i < index): index = i; eol = e`
then `line = raw[:index]`, `del raw[:index + len(eol)]`, `skip = (eol == CR and not raw and CRLF in eols)`.
`Props/C33.lean` proves `scanFind = scan`. -/

/-- `raw.find(bytes([c]))` -/
def findByte (c : Nat) : Bytes → Option Nat
  | [] => none
  | a :: r => if a = c then some 0 else (findByte c r).map (· + 1)

/-- `raw.find(b"\r\n")` -/
def findCRLF : Bytes → Option Nat
  | [] => none
  | [_] => none
  | a :: b :: r => if a = 13 ∧ b = 10 then some 0 else (findCRLF (b :: r)).map (· + 1)

/-- one pass of the `for e in eols` loop; the eol is a tag: 0 = CRLF, 1 = LF, 2 = CR -/
def better (cur : Option (Nat × Nat)) (i : Option Nat) (tag : Nat) : Option (Nat × Nat) :=
  match i with
  | none => cur
  | some i =>
    match cur with
    | none => some (i, tag)
    | some (j, t) => if i < j then some (i, tag) else some (j, t)

def earliestFind (raw : Bytes) : Option (Nat × Nat) :=
  better (better (better none (findCRLF raw) 0) (findByte 10 raw) 1) (findByte 13 raw) 2

def eolLen (tag : Nat) : Nat := if tag = 0 then 2 else 1

def scanFind (raw : Bytes) : Option (Bytes × Bytes × Bool) :=
  match earliestFind raw with
  | none => none
  | some (i, tag) =>
    some (raw.take i, raw.drop (i + eolLen tag), tag = 2 && (raw.drop (i + eolLen tag)).isEmpty)

/-! ### the text primitives used by parseEvents -/

/-- `line.partition(sep)` : (head, sep found, tail) -/
def partition (sep : Nat) : Bytes → Bytes × Bool × Bytes
  | [] => ([], false, [])
  | b :: r =>
    if b = sep then ([], true, r)
    else let p := partition sep r; (b :: p.1, p.2.1, p.2.2)

/-- states of the strict UTF-8 decoder: how many continuation bytes are due and the range
allowed for the next one -/
inductive U8 | start | c1 | c2 | e0 | ed | f0 | c3 | f4
  deriving DecidableEq, Repr

def u8step : U8 → Nat → Option U8
  | .start, b =>
    if b < 0x80 then some .start
    else if 0xC2 ≤ b ∧ b ≤ 0xDF then some .c1
    else if b = 0xE0 then some .e0
    else if (0xE1 ≤ b ∧ b ≤ 0xEC) ∨ b = 0xEE ∨ b = 0xEF then some .c2
    else if b = 0xED then some .ed
    else if b = 0xF0 then some .f0
    else if 0xF1 ≤ b ∧ b ≤ 0xF3 then some .c3
    else if b = 0xF4 then some .f4
    else none
  | .c1, b => if 0x80 ≤ b ∧ b ≤ 0xBF then some .start else none
  | .c2, b => if 0x80 ≤ b ∧ b ≤ 0xBF then some .c1 else none
  | .e0, b => if 0xA0 ≤ b ∧ b ≤ 0xBF then some .c1 else none
  | .ed, b => if 0x80 ≤ b ∧ b ≤ 0x9F then some .c1 else none
  | .c3, b => if 0x80 ≤ b ∧ b ≤ 0xBF then some .c2 else none
  | .f0, b => if 0x90 ≤ b ∧ b ≤ 0xBF then some .c2 else none
  | .f4, b => if 0x80 ≤ b ∧ b ≤ 0x8F then some .c2 else none

def u8run : U8 → Bytes → Bool
  | s, [] => s = .start
  | s, b :: r => match u8step s b with
    | none => false
    | some s' => u8run s' r

/-- does `bytes.decode('UTF-8')` succeed -/
def validUtf8 (b : Bytes) : Bool := u8run .start b

/-- C `isspace` for ASCII, what `int(str)` strips at both ends -/
def isSpace (b : Nat) : Bool := b = 32 || (9 ≤ b && b ≤ 13)
def isDigit (b : Nat) : Bool := 48 ≤ b && b ≤ 57

/-- decimal digits with single underscores between digits (`prev` = previous byte was an
underscore); result: (value, number of digits) -/
def digits : Bytes → Nat → Nat → Bool → Option (Nat × Nat)
  | [], acc, cnt, prev => if prev then none else some (acc, cnt)
  | b :: r, acc, cnt, prev =>
    if isDigit b then digits r (acc * 10 + (b - 48)) (cnt + 1) false
    else if b = 95 ∧ ¬ prev ∧ cnt > 0 then digits r acc cnt true
    else none

inductive IntParse | ok (i : Int) | bad | outside
  deriving DecidableEq, Repr

/-- `sys.get_int_max_str_digits()` default -/
def maxStrDigits : Nat := 4300

/-- `int(text)` for a str given as UTF-8 bytes; `bad` = ValueError -/
def pyInt (v : Bytes) : IntParse :=
  if v.any (fun b => 128 ≤ b) then .outside else
  let s := ((v.dropWhile isSpace).reverse.dropWhile isSpace).reverse
  let (neg, body) := match s with
    | 45 :: r => (true, r)
    | 43 :: r => (false, r)
    | r => (false, r)
  match body with
  | [] => .bad
  | _ => match digits body 0 0 false with
    | none => .bad
    | some (n, cnt) => if cnt > maxStrDigits then .bad else .ok (if neg then - (n : Int) else n)

/-- `u'\n'.join(parts)` -/
def joinLF : List Bytes → Bytes
  | [] => []
  | [p] => p
  | p :: q :: r => p ++ 10 :: joinLF (q :: r)

/-! ### EventSource -/

inductive Err | lineTooLong | unicodeDecode
  deriving DecidableEq, Repr

/-- state of the `parseEvents` generator: still running, killed by an exception, returned
(`.parser = None` after close), or outside the modelled domain -/
inductive Status | running | dead (e : Err) | finished | unmodelled
  deriving DecidableEq, Repr

structure Event where
  id : Option Bytes
  name : Bytes
  data : Bytes
  deriving DecidableEq, Repr

/-- everything of the EventSource and of the generator's locals except the byte buffer -/
structure Ev where
  eid : Option Bytes := none
  ename : Bytes := []
  parts : List Bytes := []
  leid : Option Bytes := none
  retry : Option Int := none
  events : List Event := []
  closed : Bool := false
  status : Status := .running
  deriving DecidableEq, Repr

def Ev.running (ev : Ev) : Bool := ev.status = .running

def Ev.kill (ev : Ev) (e : Err) : Ev := { ev with status := .dead e }

/-- `if parts: edata = join(parts)`; `if edata: self.events.append(...)` -/
def dispatch (ev : Ev) : Ev :=
  let edata := joinLF ev.parts
  if edata ≠ [] then { ev with events := ev.events ++ [⟨ev.eid, ev.ename, edata⟩] } else ev

def fEvent : Bytes := [101, 118, 101, 110, 116]
def fData : Bytes := [100, 97, 116, 97]
def fId : Bytes := [105, 100]
def fRetry : Bytes := [114, 101, 116, 114, 121]

/-- `if value and value[0:1] == b' ': del value[0]` -/
def stripSp : Bytes → Bytes
  | 32 :: v => v
  | v => v

/-- `float(i)` does not raise OverflowError: `i` rounds (half to even) to a finite double -/
def floatOk (i : Int) : Bool := (i.natAbs >>> 970) < 18014398509481983
  -- |i| < 2^1024 - 2^970 = (2^54 - 1) * 2^970, the first integer that rounds to 2^1024

/-- `try: value = int(value); float(value)` / `except (ValueError, OverflowError): pass` /
`else: self.retry = value` (as repaired by fixes/D32g: a retry that cannot be a duration is ignored) -/
def setRetry (ev : Ev) : IntParse → Ev
  | .ok i => if floatOk i then { ev with retry := some i } else ev
  | .bad => ev
  | .outside => { ev with status := .unmodelled }

/-- body of the `while True` loop of `parseEvents` for one line delivered by `parseLine` -/
def lineStep (ev : Ev) (line : Bytes) : Ev :=
  if line = [] ∨ ev.closed then
    let ev := dispatch ev
    if ev.closed then { ev with status := .finished }
    else { ev with ename := [], parts := [] }
  else
    let p := partition 58 line
    let field := p.1
    if p.2.1 ∧ field = [] then ev                                  -- comment
    else if ¬ validUtf8 field then ev.kill .unicodeDecode
    else
      let value := stripSp p.2.2
      if ¬ validUtf8 value then ev.kill .unicodeDecode
      else if field = fEvent then { ev with ename := value }
      else if field = fData then { ev with parts := ev.parts ++ [value] }
      else if field = fId then { ev with leid := some value, eid := some value }
      else if field = fRetry then setRetry ev (pyInt value)
      else ev

/-- `.raw`, the `skip` flag of the `parseLine` generator, and the rest -/
structure St where
  raw : Bytes := []
  skip : Bool := false
  ev : Ev := {}
  deriving DecidableEq, Repr

def init : St := {}

/-- `if skip and raw: (drop a leading LF); skip = False` at the top of `parseLine`'s loop -/
def norm (s : St) : St :=
  match s.skip, s.raw with
  | true, 10 :: r => { s with raw := r, skip := false }
  | true, [] => s
  | true, _ :: _ => { s with skip := false }
  | false, _ => s

/-- One `parse()` call: `next(self.parser)` runs the loop of `parseEvents` until `parseLine`
has no complete line (`yield None`), raises, or the generator returns.  `max` is
`MAX_LINE_SIZE`; the `Nat` is fuel (`feed` gives enough, see `Lemmas/Sse.lean`). -/
def pump (max : Nat) : Nat → St → St
  | 0, s => s
  | n + 1, s =>
    if ¬ s.ev.running then s else
    let s := norm s
    match scan s.raw with
    | none =>
      if s.raw.length > max then { s with ev := s.ev.kill .lineTooLong } else s
    | some (line, rest, k) =>
      if line.length > max then { s with ev := s.ev.kill .lineTooLong }
      else pump max n { raw := rest, skip := k, ev := lineStep s.ev line }

def St.app (s : St) (b : Bytes) : St := { s with raw := s.raw ++ b }

/-- `raw.extend(b); eventSource.parse()` -/
def feed (max : Nat) (s : St) (b : Bytes) : St :=
  pump max (s.raw.length + b.length + 1) (s.app b)

/-- `eventSource.close()` -/
def close (s : St) : St := { s with ev := { s.ev with closed := true } }

def feedAll (max : Nat) (s : St) (pieces : List Bytes) : St := pieces.foldl (feed max) s

/-- what a `parse()` call raises, as seen by the caller: the generator was already dead
(`StopIteration`), or it died in this call -/
inductive Raised | none | stopIteration | err (e : Err)
  deriving DecidableEq, Repr

def raised (before after : St) : Raised :=
  match before.ev.status, after.ev.status with
  | .dead _, _ => .stopIteration
  | _, .dead e => .err e
  | _, _ => .none

/-! ### the unrepaired `parseLine` (the tree before fixes/D19-parseline-earliest-eol.patch)

`for eol in (CRLF, LF, CR): index = raw.find(eol); if index >= 0: break` — the first CRLF
*anywhere* in the buffer wins over an earlier LF or CR, and nothing remembers a CR that was the
last byte.  Kept only to state the defect (`C33_unrepaired_*` in `Props/C33.lean`). -/

/-- `raw.find(b"\r\n")`, as (before, after) -/
def splitCRLF : Bytes → Option (Bytes × Bytes)
  | [] => none
  | [_] => none
  | a :: b :: r =>
    if a = 13 ∧ b = 10 then some ([], r)
    else match splitCRLF (b :: r) with
      | none => none
      | some (l, r') => some (a :: l, r')

/-- `raw.find(bytes([c]))`, as (before, after) -/
def splitByte (c : Nat) : Bytes → Option (Bytes × Bytes)
  | [] => none
  | a :: r =>
    if a = c then some ([], r)
    else match splitByte c r with
      | none => none
      | some (l, r') => some (a :: l, r')

def scanOld (raw : Bytes) : Option (Bytes × Bytes) :=
  match splitCRLF raw with
  | some x => some x
  | none => match splitByte 10 raw with
    | some x => some x
    | none => splitByte 13 raw

def pumpOld (max : Nat) : Nat → St → St
  | 0, s => s
  | n + 1, s =>
    if ¬ s.ev.running then s else
    match scanOld s.raw with
    | none =>
      if s.raw.length > max then { s with ev := s.ev.kill .lineTooLong } else s
    | some (line, rest) =>
      if line.length > max then { s with ev := s.ev.kill .lineTooLong }
      else pumpOld max n { s with raw := rest, ev := lineStep s.ev line }

def feedOld (max : Nat) (s : St) (b : Bytes) : St :=
  pumpOld max (s.raw.length + b.length + 1) (s.app b)

end Ioflo.Sse
