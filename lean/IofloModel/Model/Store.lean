/-
Model of `ioflo/base/storing.py` : `Store.fetch / fetchShare / fetchNode / add / addNode /
change / create / createNode` and the `Node.name` bookkeeping  (property C18).

Transcription conventions
* A Python `str` is a `List Char` (`Str`); `name.strip('.').split('.')` is `levels`.
  `split` returns `(first, rest)`: Python's `split` never returns an empty list.
* `Store.shares` (a `Node`, i.e. an insertion ordered dict) is `Kids`, an association list;
  `get?` is `d[k]` (`none` = `KeyError`), `put` is `d[k] = v` (replace in place or append),
  `node.setdefault(k, new)` is `get?` followed by `put` when absent.
* The Python methods mutate the dicts in place and may raise *after* having mutated.  The model
  therefore returns the store **as it is when the exception propagates** together with the error
  (`Kids × Option Err`), never `Except Err Kids`: "a rejected operation leaves the store
  unchanged" is a theorem about these functions, not a consequence of their type.
* Identity: every object carries an `Oid`.  Objects constructed by the caller (`Share`s handed
  to `add`/`change`) bring their own; objects constructed by the store during operation number
  `tag` are labelled `⟨tag, 0⟩` (the share made by `create`) and `⟨tag, depth⟩` (a node made by
  `setdefault` at that depth).  Theorems hold for arbitrary labels.
* `lg = true` is the code as found in `/repo` (defect D10: the empty-level test sits inside the
  descending loop, after `setdefault` has already created nodes); `lg = false` is the code with
  `fixes/D10-validate-levels-first.patch`.  Lookups are modelled with
  `fixes/D10b-fetch-through-share.patch` applied (a share met before the last level ends the
  lookup with `None`; the unpatched code indexes into the share's *data fields*).
Core Lean only.
-/
namespace Ioflo.Store

abbrev Str := List Char

/-- object identity label -/
structure Oid where
  tag : Nat
  sub : Nat
deriving DecidableEq, Repr

/-- `Node` (an odict with a `name`) or `Share` (only name and identity matter here). -/
inductive Tree where
  | node (name : Str) (id : Oid) (kids : List (Str × Tree))
  | share (name : Str) (id : Oid)

abbrev Kids := List (Str × Tree)

/-- what a caller can observe of an object without walking into it -/
structure Obj where
  isShare : Bool
  name : Str
  id : Oid
deriving DecidableEq, Repr

def Tree.obj : Tree → Obj
  | .node n i _ => ⟨false, n, i⟩
  | .share n i => ⟨true, n, i⟩

/-! ### strings -/

/-- `s.lstrip('.')` -/
def lstrip : Str → Str
  | [] => []
  | c :: cs => if c = '.' then lstrip cs else c :: cs

/-- `s.strip('.')` -/
def strip (s : Str) : Str := (lstrip (lstrip s).reverse).reverse

/-- `s.split('.')` as `(first, rest)` -/
def split : Str → Str × List Str
  | [] => ([], [])
  | c :: cs =>
    if c = '.' then ([], (split cs).1 :: (split cs).2)
    else (c :: (split cs).1, (split cs).2)

/-- `name.strip('.').split('.')` -/
def levels (name : Str) : Str × List Str := split (strip name)

/-- `'.'.join(l)` -/
def joinL : List Str → Str
  | [] => []
  | [k] => k
  | k :: k' :: ks => k ++ '.' :: joinL (k' :: ks)

/-! ### the ordered dict -/

/-- `d[k]`, `none` = `KeyError` -/
def get? : Kids → Str → Option Tree
  | [], _ => none
  | (k', v) :: rest, k => if k' = k then some v else get? rest k

/-- `d[k] = v` of `odict`: replace in place, or append -/
def put : Kids → Str → Tree → Kids
  | [], k, v => [(k, v)]
  | (k', v') :: rest, k, v => if k' = k then (k', v) :: rest else (k', v') :: put rest k v

/-! ### lookups -/

/-- the `for level in levels: nos = nos[level]` loop of `fetch*` under `try/except KeyError`,
with the D10b repair: a share reached before the last level ends the lookup. -/
def find : Kids → Str → List Str → Option Tree
  | kids, k, [] => get? kids k
  | kids, k, k' :: ks =>
    match get? kids k with
    | none => none
    | some (.share _ _) => none
    | some (.node _ _ sub) => find sub k' ks

def fetch (root : Kids) (name : Str) : Option Obj :=
  (find root (levels name).1 (levels name).2).map Tree.obj

def fetchShare (root : Kids) (name : Str) : Option Obj :=
  match fetch root name with
  | some o => if o.isShare then some o else none
  | none => none

def fetchNode (root : Kids) (name : Str) : Option Obj :=
  match fetch root name with
  | some o => if o.isShare then none else some o
  | none => none

/-! ### modifications -/

inductive Err where
  | notShare      -- "Not Share"
  | emptyName     -- "Empty Share Name"
  | emptyLevel    -- "Empty level in"
  | levelIsShare  -- "Level .. is preexisting share"
  | tailExists    -- "Tail .. is preexisting level"
  | noShare       -- "No share with name"
deriving DecidableEq, Repr

/-- is one of `levels[0:-1]` empty? -/
def initHasEmpty : Str → List Str → Bool
  | _, [] => false
  | k, k' :: ks => k.isEmpty || initHasEmpty k' ks

/-- is one of `levels` empty? -/
def anyEmpty : Str → List Str → Bool
  | k, [] => k.isEmpty
  | k, k' :: ks => k.isEmpty || anyEmpty k' ks

/-- `Store.add` from `node = self.shares` on: the loop over `levels[0:-1]`, then the tail.
`pre` = the levels already walked (for the names of new nodes), `lg` = legacy empty-level test
inside the loop.  Returns the dict as mutated so far and the exception, if any. -/
def addLoop (lg : Bool) (sh : Tree) (tag : Nat) : List Str → Kids → Str → List Str → Kids × Option Err
  | _, kids, k, [] =>
    if (get? kids k).isSome then (kids, some .tailExists)      -- `if tail in node: raise`
    else (put kids k sh, none)                                  -- `node[tail] = share`
  | pre, kids, k, k' :: ks =>
    if lg && k.isEmpty then (kids, some .emptyLevel) else
    match get? kids k with                                      -- `node.setdefault(level, Node()…)`
    | none =>
      let r := addLoop lg sh tag (pre ++ [k]) [] k' ks
      (put kids k (.node (joinL (pre ++ [k])) ⟨tag, pre.length + 1⟩ r.1), r.2)
    | some (.share _ _) => (kids, some .levelIsShare)
    | some (.node nm id sub) =>
      let r := addLoop lg sh tag (pre ++ [k]) sub k' ks
      (put kids k (.node nm id r.1), r.2)

/-- `Store.add(share)` with `share.name = name`, identity `id` -/
def add (lg : Bool) (root : Kids) (name : Str) (id : Oid) (tag : Nat) : Kids × Option Err :=
  if name.isEmpty then (root, some .emptyName)
  else if !lg && initHasEmpty (levels name).1 (levels name).2 then (root, some .emptyLevel)
  else addLoop lg (.share name id) tag [] root (levels name).1 (levels name).2

/-- `Store.addNode` from `node = self.shares` on; the result is the node returned. -/
def addNodeLoop (lg : Bool) (tag : Nat) : List Str → Kids → Str → List Str → Kids × Except Err Obj
  | pre, kids, k, [] =>
    if lg && k.isEmpty then (kids, .error .emptyLevel) else
    match get? kids k with
    | none =>
      let n := Tree.node (joinL (pre ++ [k])) ⟨tag, pre.length + 1⟩ []
      (put kids k n, .ok n.obj)
    | some (.share _ _) => (kids, .error .levelIsShare)
    | some (.node nm id sub) => (kids, .ok (Tree.node nm id sub).obj)
  | pre, kids, k, k' :: ks =>
    if lg && k.isEmpty then (kids, .error .emptyLevel) else
    match get? kids k with
    | none =>
      let r := addNodeLoop lg tag (pre ++ [k]) [] k' ks
      (put kids k (.node (joinL (pre ++ [k])) ⟨tag, pre.length + 1⟩ r.1), r.2)
    | some (.share _ _) => (kids, .error .levelIsShare)
    | some (.node nm id sub) =>
      let r := addNodeLoop lg tag (pre ++ [k]) sub k' ks
      (put kids k (.node nm id r.1), r.2)

def addNode (lg : Bool) (root : Kids) (name : Str) (tag : Nat) : Kids × Except Err Obj :=
  if !lg && anyEmpty (levels name).1 (levels name).2 then (root, .error .emptyLevel)
  else addNodeLoop lg tag [] root (levels name).1 (levels name).2

/-- `Store.change` from `node = self.shares` on (reads only, until the final assignment) -/
def changeLoop (sh : Tree) : Kids → Str → List Str → Kids × Option Err
  | kids, k, [] =>
    match get? kids k with
    | some (.share _ _) => (put kids k sh, none)
    | _ => (kids, some .noShare)
  | kids, k, k' :: ks =>
    if k.isEmpty then (kids, some .emptyLevel) else
    match get? kids k with
    | none => (kids, some .noShare)
    | some (.share _ _) => (kids, some .levelIsShare)
    | some (.node nm id sub) =>
      let r := changeLoop sh sub k' ks
      (put kids k (.node nm id r.1), r.2)

def change (root : Kids) (name : Str) (id : Oid) : Kids × Option Err :=
  changeLoop (.share name id) root (levels name).1 (levels name).2

/-! ### the machine -/

inductive Op where
  | fetch (name : Str)
  | fetchShare (name : Str)
  | fetchNode (name : Str)
  | add (name : Str) (id : Oid) (tag : Nat)   -- `store.add(share)`, `share.name = name`
  | addBad                                     -- `store.add(x)`, `x` not a Share
  | addNode (name : Str) (tag : Nat)
  | change (name : Str) (id : Oid)
  | changeBad
  | create (name : Str) (tag : Nat)
  | createNode (name : Str) (tag : Nat)

inductive Out where
  | obj (o : Obj)     -- the object returned
  | none              -- `None`
  | err (e : Err)     -- `ValueError`
deriving DecidableEq, Repr

def outOpt : Option Obj → Out
  | some o => .obj o
  | none => .none

def step (lg : Bool) (root : Kids) : Op → Kids × Out
  | .fetch n => (root, outOpt (fetch root n))
  | .fetchShare n => (root, outOpt (fetchShare root n))
  | .fetchNode n => (root, outOpt (fetchNode root n))
  | .add n id tag =>
    match add lg root n id tag with
    | (r, none) => (r, .obj ⟨true, n, id⟩)
    | (r, some e) => (r, .err e)
  | .addBad => (root, .err .notShare)
  | .addNode n tag =>
    match addNode lg root n tag with
    | (r, .ok o) => (r, .obj o)
    | (r, .error e) => (r, .err e)
  | .change n id =>
    match change root n id with
    | (r, none) => (r, .obj ⟨true, n, id⟩)
    | (r, some e) => (r, .err e)
  | .changeBad => (root, .err .notShare)
  | .create n tag =>
    match fetchShare root n with
    | some o => (root, .obj o)
    | none =>                                   -- `self.add(Share(name = name.strip('.')))`
      match add lg root (strip n) ⟨tag, 0⟩ tag with
      | (r, none) => (r, .obj ⟨true, strip n, ⟨tag, 0⟩⟩)
      | (r, some e) => (r, .err e)
  | .createNode n tag =>
    match fetchNode root n with
    | some o => (root, .obj o)
    | none =>                                   -- `self.addNode(name = name)`
      match addNode lg root n tag with
      | (r, .ok o) => (r, .obj o)
      | (r, .error e) => (r, .err e)

/-- run a history, collecting the outputs -/
def run (lg : Bool) : Kids → List Op → Kids × List Out
  | root, [] => (root, [])
  | root, op :: ops =>
    let r := step lg root op
    let rr := run lg r.1 ops
    (rr.1, r.2 :: rr.2)

/-- the four creations of `Store.__init__` (operation numbers 1–4) -/
def ctorOps : List Op :=
  [.createNode ".meta".toList 1, .create ".time".toList 2,
   .create ".realtime".toList 3, .create ".datetime".toList 4]

/-- `Store()` -/
def init : Kids := (run false [] ctorOps).1

/-! ### abstraction: the store as a map from paths to objects -/

abbrev Path := List Str

/-- the object reachable at a path (no object at the empty path: the root dict is not an entry) -/
def abs (root : Kids) : Path → Option Obj
  | [] => none
  | k :: ks => (find root k ks).map Tree.obj

/-! ### specification: operations on the flat map (no tree, no recursion into dicts) -/

abbrev Abs := Path → Option Obj

def isShareAt (m : Abs) (q : Path) : Bool :=
  match m q with
  | some o => o.isShare
  | none => false

def isNodeAt (m : Abs) (q : Path) : Bool :=
  match m q with
  | some o => !o.isShare
  | none => false

/-- the map seen from below level `k` -/
def shift (m : Abs) (k : Str) : Abs := fun q => m (k :: q)

/-- does a share sit at a proper prefix of `k :: ks`? -/
def shareOnWay (m : Abs) : Str → List Str → Bool
  | _, [] => false
  | k, k' :: ks => isShareAt m [k] || shareOnWay (shift m k) k' ks

/-- the path of a name, as a list -/
def pathOf (name : Str) : Path := (levels name).1 :: (levels name).2

/-- the node that `setdefault` creates at path `q` during operation `tag` -/
def newNode (q : Path) (tag : Nat) : Obj := ⟨false, joinL q, ⟨tag, q.length⟩⟩

/-- placing `sh` at `p`: `p` holds `sh`, every missing proper prefix of `p` holds a new node,
every other path is untouched -/
def placeShare (m : Abs) (p : Path) (sh : Obj) (tag : Nat) : Abs := fun q =>
  if q = p then some sh
  else if q ≠ [] ∧ q <+: p ∧ (m q).isNone then some (newNode q tag)
  else m q

/-- making the nodes of `p`: every missing prefix of `p` (including `p`) holds a new node -/
def placeNodes (m : Abs) (p : Path) (tag : Nat) : Abs := fun q =>
  if q ≠ [] ∧ q <+: p ∧ (m q).isNone then some (newNode q tag) else m q

def replaceAt (m : Abs) (p : Path) (sh : Obj) : Abs := fun q => if q = p then some sh else m q

def addRejects (m : Abs) (name : Str) : Bool :=
  name.isEmpty || initHasEmpty (levels name).1 (levels name).2 ||
    shareOnWay m (levels name).1 (levels name).2 || (m (pathOf name)).isSome

def addNodeRejects (m : Abs) (name : Str) : Bool :=
  anyEmpty (levels name).1 (levels name).2 ||
    shareOnWay m (levels name).1 (levels name).2 || isShareAt m (pathOf name)

def changeRejects (m : Abs) (name : Str) : Bool :=
  initHasEmpty (levels name).1 (levels name).2 || !isShareAt m (pathOf name)

/-- would the operation be rejected (`ValueError`)? -/
def rejects (m : Abs) : Op → Bool
  | .fetch _ | .fetchShare _ | .fetchNode _ => false
  | .add n _ _ => addRejects m n
  | .addBad | .changeBad => true
  | .addNode n _ => addNodeRejects m n
  | .change n _ => changeRejects m n
  | .create n _ => !isShareAt m (pathOf n) && addRejects m (strip n)
  | .createNode n _ => !isNodeAt m (pathOf n) && addNodeRejects m n

/-- the map after an accepted operation -/
def effect (m : Abs) : Op → Abs
  | .fetch _ | .fetchShare _ | .fetchNode _ | .addBad | .changeBad => m
  | .add n id tag => placeShare m (pathOf n) ⟨true, n, id⟩ tag
  | .addNode n tag => placeNodes m (pathOf n) tag
  | .change n id => replaceAt m (pathOf n) ⟨true, n, id⟩
  | .create n tag =>
    if isShareAt m (pathOf n) then m else placeShare m (pathOf n) ⟨true, strip n, ⟨tag, 0⟩⟩ tag
  | .createNode n tag => if isNodeAt m (pathOf n) then m else placeNodes m (pathOf n) tag

/-- what an accepted operation returns -/
def result (m : Abs) : Op → Option Obj
  | .fetch n => m (pathOf n)
  | .fetchShare n => if isShareAt m (pathOf n) then m (pathOf n) else none
  | .fetchNode n => if isNodeAt m (pathOf n) then m (pathOf n) else none
  | .add n id _ => some ⟨true, n, id⟩
  | .change n id => some ⟨true, n, id⟩
  | .addBad | .changeBad => none
  | .addNode n tag => placeNodes m (pathOf n) tag (pathOf n)
  | .create n tag => if isShareAt m (pathOf n) then m (pathOf n) else some ⟨true, strip n, ⟨tag, 0⟩⟩
  | .createNode n tag => if isNodeAt m (pathOf n) then m (pathOf n) else placeNodes m (pathOf n) tag (pathOf n)

/-- every entry records its own path: a node's name is exactly the joined path, a share's name
is a dotted variant of it -/
def NamedByPath (m : Abs) : Prop :=
  ∀ q o, m q = some o → (if o.isShare then strip o.name else o.name) = joinL q

/-! flat listing of the whole tree (driver, examples) -/
mutual
def Tree.flat (pre : Path) : Tree → List (Path × Obj)
  | .node n i kids => (pre, ⟨false, n, i⟩) :: flatKids pre kids
  | .share n i => [(pre, ⟨true, n, i⟩)]
def flatKids (pre : Path) : List (Str × Tree) → List (Path × Obj)
  | [] => []
  | (k, t) :: rest => t.flat (pre ++ [k]) ++ flatKids pre rest
end

end Ioflo.Store
