/-
Model of the stream stacks of `ioflo/aio/proto/stacking.py`

  TcpClientStack   transmit, serviceTxPkts, serviceTxPktsOnce, _serviceOneTxPkt (`.txbs`),
                   serviceReceives, _serviceOneReceived, parserize
  TcpServerStack   transmit, Stack.serviceTxPkts, _serviceOneTxPkt (→ `handler.transmitIx`),
                   serviceReceives, _serviceOneReceived(ix, ca), serviceConnects, closeConnection

together with the transport loops they sit on (`tcp/clienting.Client.send/receive`,
`tcp/serving.Incomer.send/receive/serviceTxes/serviceReceives`, `Server.transmitIx`,
`serviceTxesAllIx`, `serviceReceivesAllIx`).

The sockets are the environment: every `cs.send` / `cs.recv` consumes one answer of the script given
to the service call; an exhausted script answers "would block".  `wire` (bytes the socket accepted),
`recvd` (bytes the socket delivered) and `queued` (bytes handed to `transmit` for this connection)
are history variables; they do not influence the behaviour.

`Packet.parse` is a parameter (`Parser`): `whole` is the base `Packet` (the whole buffer is one packet),
`framed` a one-byte-length-prefixed packet (what a subclass overriding `parserize` would do).

`Variant.asIs` = unchanged tree: `transmitIx(self, …)` (TypeError), `IpRemoteDevice` unqualified
(NameError), client loop guard `while self.txPkts …` (a partially sent packet's tail is stuck when
nothing else is queued).  `Variant.repaired` = after fixes D21, D21b, D21c.  Core Lean only.
-/
namespace Ioflo.StreamStack

abbrev Bytes := List Nat

inductive Variant where
  | asIs
  | repaired
deriving DecidableEq, Repr

inductive Err where
  | typeError
  | nameError
  | valueError     -- `transmitIx`: "Invalid connection address"
  | socketError    -- a non-transient socket.error re-raised by send / receive
  | dupAccept      -- accepting an address that is already connected: outside this model (C26 / D14)
deriving DecidableEq, Repr

/-- answer of the socket to one `cs.send(data)` -/
inductive SendRes where
  | acc (k : Nat)     -- accepts `min k len(data)` bytes
  | wouldBlock        -- EAGAIN / EWOULDBLOCK
  | lost              -- an errno of the connection-loss ladder: `cutoff = True`, 0 bytes
  | fail              -- any other socket.error: re-raised
deriving DecidableEq, Repr

/-- answer of the socket to one `cs.recv(bs)`; `data []` is the orderly end of stream -/
inductive RecvRes where
  | data (b : Bytes)
  | wouldBlock
  | lost
  | fail
deriving DecidableEq, Repr

inductive Parser where
  | whole
  | framed
deriving DecidableEq, Repr

/-- size of the packet at the head of the buffer, `none` = not enough data yet (`parserize` → None) -/
def parse : Parser → Bytes → Option Nat
  | .whole, b => some b.length
  | .framed, [] => none
  | .framed, n :: rest => if n ≤ rest.length then some (n + 1) else none

def flat (l : List Bytes) : Bytes := l.flatten

def nextSend : List SendRes → SendRes × List SendRes
  | [] => (.wouldBlock, [])
  | r :: rs => (r, rs)

/-- `Client.send` / `Incomer.send`: (count, cutoff detected, re-raised) -/
def tSend (r : SendRes) (data : Bytes) : Nat × Bool × Bool :=
  match r with
  | .acc k => (min k data.length, false, false)
  | .wouldBlock => (0, false, false)
  | .lost => (0, true, false)
  | .fail => (0, false, true)

/-! ## client stack -/

structure Cli where
  connected : Bool
  cutoff : Bool
  txPkts : List Bytes
  txbs : Bytes
  rxbs : Bytes
  rxPkts : List Bytes
  wire : Bytes
  queued : Bytes
  recvd : Bytes
deriving DecidableEq, Repr

def Cli.init : Cli := ⟨false, false, [], [], [], [], [], [], []⟩

/-- the part of `_serviceOneTxPkt` after `.txbs` has been filled: (state, not blocked, raised) -/
def cliSendTxbs (r : SendRes) (s : Cli) : Cli × Bool × Bool :=
  let (count, cut, raised) := tSend r s.txbs
  if raised then (s, false, true)
  else
    let s := { s with cutoff := s.cutoff || cut, wire := s.wire ++ s.txbs.take count }
    if count < s.txbs.length then ({ s with txbs := s.txbs.drop count }, false, false)
    else ({ s with txbs := [] }, true, false)

/-- the `while` loop once `.txbs` is empty; first argument = what is still on `.txPkts` -/
def cliTxLoop : List Bytes → List SendRes → Cli → Cli × Bool
  | [], _, s => ({ s with txPkts := [] }, false)
  | p :: rest, env, s =>
    if s.connected && !s.cutoff then
      let (r, env') := nextSend env
      match cliSendTxbs r { s with txbs := p } with       -- popleft(); txbs.extend(pkt.packed)
      | (s', _, true) => ({ s' with txPkts := rest }, true)
      | (s', true, false) => cliTxLoop rest env' s'
      | (s', false, false) => ({ s' with txPkts := rest }, false)
    else ({ s with txPkts := p :: rest }, false)

/-- the first conjunct of the loop guard: `self.txPkts` on the unchanged tree,
`(self.txbs or self.txPkts)` after fix D21c -/
def enterTx (v : Variant) (s : Cli) : Bool :=
  match v with
  | .asIs => !s.txPkts.isEmpty
  | .repaired => !s.txbs.isEmpty || !s.txPkts.isEmpty

/-- `TcpClientStack.serviceTxPkts`; result: (state, socket.error escaped) -/
def cliServiceTxPkts (v : Variant) (s : Cli) (env : List SendRes) : Cli × Bool :=
  if enterTx v s && s.connected && !s.cutoff then
    if s.txbs.isEmpty then cliTxLoop s.txPkts env s
    else
      let (r, env') := nextSend env
      match cliSendTxbs r s with                         -- leftover of the last call first
      | (s', _, true) => (s', true)
      | (s', true, false) => cliTxLoop s'.txPkts env' s'
      | (s', false, false) => (s', false)
  else (s, false)

/-- `serviceTxPktsOnce` -/
def cliServiceTxPktsOnce (v : Variant) (s : Cli) (env : List SendRes) : Cli × Bool :=
  if enterTx v s && s.connected && !s.cutoff then
    let (r, _) := nextSend env
    if s.txbs.isEmpty then
      match s.txPkts with
      | [] => (s, false)
      | p :: rest =>
        let (s', _, raised) := cliSendTxbs r { s with txbs := p, txPkts := rest }
        (s', raised)
    else
      let (s', _, raised) := cliSendTxbs r s
      (s', raised)
  else (s, false)

def parseOnce (ps : Parser) (s : Cli) : Cli :=
  match parse ps s.rxbs with
  | some k => { s with rxPkts := s.rxPkts ++ [s.rxbs.take k], rxbs := s.rxbs.drop k }
  | none => s

/-- `serviceReceives`: `while connected and not cutoff: if not _serviceOneReceived(): break`,
flattened over the script; `received` is the flag of the current `_serviceOneReceived`. -/
def cliRxLoop (ps : Parser) : List RecvRes → Bool → Cli → Cli × Bool
  | [], received, s => (if received then parseOnce ps s else s, false)
  | r :: env, received, s =>
    match r with
    | .data (x :: xs) =>
      cliRxLoop ps env true { s with rxbs := s.rxbs ++ (x :: xs), recvd := s.recvd ++ (x :: xs) }
    | .data [] =>      -- far side closed: cutoff; the outer loop ends after this `_serviceOneReceived`
      let s := { s with cutoff := true }
      (if received then parseOnce ps s else s, false)
    | .lost =>
      let s := { s with cutoff := true }
      (if received then parseOnce ps s else s, false)
    | .wouldBlock =>
      if received then cliRxLoop ps env false (parseOnce ps s) else (s, false)
    | .fail => (s, true)

def cliServiceReceives (ps : Parser) (s : Cli) (env : List RecvRes) : Cli × Bool :=
  if s.connected && !s.cutoff then cliRxLoop ps env false s else (s, false)

inductive COp where
  | connect                                  -- `serviceConnect` with `connect_ex` answering 0
  | transmit (d : Bytes)
  | serviceTxPkts (env : List SendRes)
  | serviceTxPktsOnce (env : List SendRes)
  | serviceReceives (env : List RecvRes)
deriving DecidableEq, Repr

def cstep (v : Variant) (ps : Parser) (s : Cli) : COp → Cli × Option Err
  | .connect => (if s.connected || s.cutoff then s else { s with connected := true }, none)
  | .transmit d => ({ s with txPkts := s.txPkts ++ [d], queued := s.queued ++ d }, none)
  | .serviceTxPkts env =>
    let (s', raised) := cliServiceTxPkts v s env
    (s', if raised then some .socketError else none)
  | .serviceTxPktsOnce env =>
    let (s', raised) := cliServiceTxPktsOnce v s env
    (s', if raised then some .socketError else none)
  | .serviceReceives env =>
    let (s', raised) := cliServiceReceives ps s env
    (s', if raised then some .socketError else none)

def crun (v : Variant) (ps : Parser) : Cli → List COp → Cli × List (Option Err)
  | s, [] => (s, [])
  | s, op :: ops =>
    let (s', e) := cstep v ps s op
    let (s'', es) := crun v ps s' ops
    (s'', e :: es)

/-! ## server stack -/

/-- one accepted connection (`serving.Incomer`) -/
structure Ix where
  ca : Nat
  txes : List Bytes
  rxbs : Bytes
  cutoff : Bool
  wire : Bytes
  queued : Bytes
  recvd : Bytes
deriving DecidableEq, Repr

structure Srv where
  opened : Bool
  ixes : List Ix
  txPkts : List (Bytes × Nat)
  rxPkts : List (Bytes × Nat)
deriving DecidableEq, Repr

def Srv.init : Srv := ⟨true, [], [], []⟩

/-- bytes of the packets addressed to / received from `ca`, in queue order -/
def bytesOf (ca : Nat) (l : List (Bytes × Nat)) : Bytes :=
  ((l.filter (fun p => p.2 == ca)).map (·.1)).flatten

def hasIx (s : Srv) (ca : Nat) : Bool := s.ixes.any (fun ix => ix.ca == ca)

def updIx (s : Srv) (ca : Nat) (f : Ix → Ix) : Srv :=
  { s with ixes := s.ixes.map (fun ix => if ix.ca == ca then f ix else ix) }

/-- `Stack.serviceTxPkts` with `TcpServerStack._serviceOneTxPkt` -/
def srvTxLoop (v : Variant) : List (Bytes × Nat) → Srv → Srv × Option Err
  | [], s => ({ s with txPkts := [] }, none)
  | (d, ca) :: rest, s =>
    if s.opened then
      match v with
      | .asIs => ({ s with txPkts := rest }, some .typeError)        -- transmitIx(self, packed, ca)
      | .repaired =>
        if hasIx s ca then
          srvTxLoop v rest (updIx s ca (fun ix => { ix with txes := ix.txes ++ [d] }))
        else ({ s with txPkts := rest }, some .valueError)          -- popped, then transmitIx raised
    else ({ s with txPkts := (d, ca) :: rest }, none)

/-- `Incomer.serviceTxes`: (state, socket.error escaped) -/
def ixTxLoop : List Bytes → List SendRes → Ix → Ix × Bool
  | [], _, ix => ({ ix with txes := [] }, false)
  | d :: rest, env, ix =>
    if !ix.cutoff then
      let (r, env') := nextSend env
      let (count, cut, raised) := tSend r d
      if raised then ({ ix with txes := rest }, true)              -- popped, then send raised
      else
        let ix := { ix with cutoff := ix.cutoff || cut, wire := ix.wire ++ d.take count }
        if count < d.length then ({ ix with txes := d.drop count :: rest }, false)
        else ixTxLoop rest env' ix
    else ({ ix with txes := d :: rest }, false)

def scriptFor {α : Type} (ca : Nat) : List (Nat × List α) → List α
  | [] => []
  | (c, l) :: r => if c == ca then l else scriptFor ca r

/-- `Server.serviceTxesAllIx`: in `.ixes` order; an escaping error skips the rest -/
def srvTxesAll (scripts : List (Nat × List SendRes)) : List Ix → List Ix × Bool
  | [] => ([], false)
  | ix :: rest =>
    let (ix', raised) := ixTxLoop ix.txes (scriptFor ix.ca scripts) ix
    if raised then (ix' :: rest, true)
    else
      let (rest', r) := srvTxesAll scripts rest
      (ix' :: rest', r)

/-- `Incomer.serviceReceives` -/
def ixRxLoop : List RecvRes → Ix → Ix × Bool
  | [], ix => (ix, false)
  | r :: env, ix =>
    if !ix.cutoff then
      match r with
      | .data (x :: xs) => ixRxLoop env { ix with rxbs := ix.rxbs ++ (x :: xs), recvd := ix.recvd ++ (x :: xs) }
      | .data [] => ({ ix with cutoff := true }, false)
      | .lost => ({ ix with cutoff := true }, false)
      | .wouldBlock => (ix, false)
      | .fail => (ix, true)
    else (ix, false)

def srvRxAll (scripts : List (Nat × List RecvRes)) : List Ix → List Ix × Bool
  | [] => ([], false)
  | ix :: rest =>
    let (ix', raised) := ixRxLoop (scriptFor ix.ca scripts) ix
    if raised then (ix' :: rest, true)
    else
      let (rest', r) := srvRxAll scripts rest
      (ix' :: rest', r)

/-- `while self._serviceOneReceived(ix, ca): pass`; fuel = bytes in the buffer (each packet takes ≥ 1) -/
def ixParseLoop (ps : Parser) : Nat → Bytes → List Bytes → Bytes × List Bytes
  | 0, buf, acc => (buf, acc)
  | fuel + 1, buf, acc =>
    if buf.isEmpty then (buf, acc)
    else match parse ps buf with
      | none => (buf, acc)
      | some k => if k = 0 then (buf, acc) else ixParseLoop ps fuel (buf.drop k) (acc ++ [buf.take k])

/-- `TcpServerStack.serviceReceives` -/
def srvParseAll (ps : Parser) : List Ix → List Ix × List (Bytes × Nat)
  | [] => ([], [])
  | ix :: rest =>
    let (buf, pkts) := ixParseLoop ps ix.rxbs.length ix.rxbs []
    let (rest', more) := srvParseAll ps rest
    ({ ix with rxbs := buf } :: rest', pkts.map (fun p => (p, ix.ca)) ++ more)

inductive SOp where
  | accept (ca : Nat)            -- `serviceConnects` with one pending connection from `ca`
  | serviceConnects              -- `serviceConnects` with nothing pending: drops cut off connections
  | transmit (d : Bytes) (ca : Nat)
  | serviceTxPkts
  | serviceTxesAllIx (scripts : List (Nat × List SendRes))
  | serviceReceivesAllIx (scripts : List (Nat × List RecvRes))
  | serviceReceives
deriving DecidableEq, Repr

/-- the loop of `serviceConnects` after the accepts: `if ix.cutoff: self.closeConnection(ca)` -/
def dropCutoff (s : Srv) : Srv := { s with ixes := s.ixes.filter (fun ix => !ix.cutoff) }

/-- the same loop on the unchanged tree: the first connection that is not cut off has no remote yet
(none can ever be created) and `IpRemoteDevice` raises `NameError` -/
def dropCutoffAsIs : List Ix → List Ix × Option Err
  | [] => ([], none)
  | ix :: rest => if ix.cutoff then dropCutoffAsIs rest else (ix :: rest, some .nameError)

def serviceConnectsLoop (v : Variant) (s : Srv) : Srv × Option Err :=
  match v with
  | .repaired => (dropCutoff s, none)
  | .asIs => let (ixes, e) := dropCutoffAsIs s.ixes; ({ s with ixes := ixes }, e)

def sstep (v : Variant) (ps : Parser) (s : Srv) : SOp → Srv × Option Err
  | .accept ca =>
    if hasIx s ca then (s, some .dupAccept)
    else
      let ix : Ix := ⟨ca, [], [], false, [], bytesOf ca s.txPkts, bytesOf ca s.rxPkts⟩
      serviceConnectsLoop v { s with ixes := s.ixes ++ [ix] }
  | .serviceConnects => serviceConnectsLoop v s
  | .transmit d ca =>
    let s := { s with txPkts := s.txPkts ++ [(d, ca)] }
    (updIx s ca (fun ix => { ix with queued := ix.queued ++ d }), none)
  | .serviceTxPkts => srvTxLoop v s.txPkts s
  | .serviceTxesAllIx scripts =>
    let (ixes, raised) := srvTxesAll scripts s.ixes
    ({ s with ixes := ixes }, if raised then some .socketError else none)
  | .serviceReceivesAllIx scripts =>
    let (ixes, raised) := srvRxAll scripts s.ixes
    ({ s with ixes := ixes }, if raised then some .socketError else none)
  | .serviceReceives =>
    if s.opened then
      let (ixes, pkts) := srvParseAll ps s.ixes
      ({ s with ixes := ixes, rxPkts := s.rxPkts ++ pkts }, none)
    else (s, none)

def srun (v : Variant) (ps : Parser) : Srv → List SOp → Srv × List (Option Err)
  | s, [] => (s, [])
  | s, op :: ops =>
    let (s', e) := sstep v ps s op
    let (s'', es) := srun v ps s' ops
    (s'', e :: es)

/-! ## scripts without non-transient errors (the property's fault model: blocking, partial sends,
connection loss) -/

def SendRes.noFail : SendRes → Bool
  | .fail => false
  | _ => true

def RecvRes.noFail : RecvRes → Bool
  | .fail => false
  | _ => true

def COp.noFail : COp → Bool
  | .serviceTxPkts env => env.all SendRes.noFail
  | .serviceTxPktsOnce env => env.all SendRes.noFail
  | .serviceReceives env => env.all RecvRes.noFail
  | _ => true

def SOp.noFail : SOp → Bool
  | .serviceTxesAllIx sc => sc.all (fun p => p.2.all SendRes.noFail)
  | .serviceReceivesAllIx sc => sc.all (fun p => p.2.all RecvRes.noFail)
  | _ => true

end Ioflo.StreamStack
