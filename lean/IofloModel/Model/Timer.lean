/-
Model of ioflo/aid/timing.py : Timer, MonoTimer, StoreTimer.

Transcribed method by method.  The clock (`time.time()` resp. `store.stamp`) is a parameter of
every step: a history is a list of (clock reading, operation) pairs, so *any* clock trace
(forward, standstill, backward) is a history.

The definitions are generic over the number type `τ` (only `+ - neg < ≤ 0` are used, exactly the
operations the Python code applies to its floats): the theorems instantiate `τ := Rat` (exact
time, DESIGN §5.2), the driver can also instantiate `τ := Float` (IEEE binary64 = CPython float).

MonoTimer is modelled WITH the repair `fixes/D42a-monotimer-stale-args-after-retro.patch`
(`repeat`/`extend` call `update()` before they read `.stop`/`.start`, `__init__` reads the clock
once): every operation of every timer reads its clock exactly once.
`Mono.stepOrig` keeps the unrepaired `repeat`/`extend` (arguments evaluated before the `update()`
inside `restart`) for the record of the defect.

Core Lean only (the driver links this file natively).
-/
namespace Ioflo.Timer

inductive Err
  | typeError      -- arithmetic/comparison with None
  | timerRetro     -- excepting.TimerRetroError
  deriving DecidableEq, Repr

/-- what a call returns (or raises) -/
inductive Out (τ : Type)
  | pair (start stop : τ)   -- restart / repeat / extend return `(self.start, self.stop)`
  | num (x : τ)             -- elapsed / remaining
  | bool (b : Bool)         -- expired
  | err (e : Err)
  deriving DecidableEq, Repr

inductive Op (τ : Type)
  | restart (start duration : Option τ)   -- restart(start=None, duration=None)
  | rep                                   -- repeat()
  | extend (extension : Option τ)         -- extend(extension=None)
  | elapsed | remaining | expired         -- the three properties
  deriving DecidableEq, Repr

section generic
variable {τ : Type} [Add τ] [Sub τ] [Neg τ] [LT τ] [LE τ] [DecidableLT τ] [DecidableLE τ] [OfNat τ 0]

/-- Python `abs(x)` on a number -/
def pabs (x : τ) : τ := if x < 0 then -x else x

/-- Python `max(0.0, x)`: the second argument only if it is strictly greater -/
def max0 (x : τ) : τ := if 0 < x then x else 0

/-- `.start .stop .duration` -/
structure Core (τ : Type) where
  start : τ
  stop : τ
  duration : τ
  deriving DecidableEq, Repr

/-- tail of every `restart` once the new start is known:
`if duration is not None: self.duration = abs(duration)`; `self.stop = self.start + self.duration` -/
def Core.restartAt (c : Core τ) (start : τ) (duration : Option τ) : Core τ :=
  let d := match duration with
    | some d => pabs d
    | none => c.duration
  { start := start, duration := d, stop := start + d }

/-- `extension` defaulting to `.duration` -/
def extOf (c : Core τ) : Option τ → τ
  | some e => e
  | none => c.duration

/-! ### Timer (wall clock) -/

/-- `Timer(duration)`: `self.restart(start=time.time(), duration=duration)` -/
def Timer.init (duration now : τ) : Core τ :=
  { start := pabs now, duration := pabs duration, stop := pabs now + pabs duration }

def Timer.step (c : Core τ) (now : τ) : Op τ → Core τ × Out τ
  | .restart s d =>
    let st := match s with
      | some s => pabs s       -- self.start = abs(start)
      | none => now            -- self.start = time.time()
    let c' := c.restartAt st d
    (c', .pair c'.start c'.stop)
  | .rep =>                    -- self.restart(start=self.stop)
    let c' := c.restartAt (pabs c.stop) none
    (c', .pair c'.start c'.stop)
  | .extend e =>               -- self.restart(start=self.start, duration=self.duration + extension)
    let c' := c.restartAt (pabs c.start) (some (c.duration + extOf c e))
    (c', .pair c'.start c'.stop)
  | .elapsed => (c, .num (max0 (now - c.start)))
  | .remaining => (c, .num (max0 (c.stop - now)))
  | .expired => (c, .bool (decide (c.stop ≤ now)))     -- time.time() >= self.stop

/-! ### MonoTimer -/

structure Mono (τ : Type) where
  core : Core τ
  latest : τ
  retro : Bool
  deriving DecidableEq, Repr

/-- `MonoTimer.update()` -/
def Mono.update (m : Mono τ) (now : τ) : Except Err (Mono τ) :=
  let delta := now - m.latest
  if delta < 0 then
    if !m.retro then .error .timerRetro
    else .ok { m with core := { m.core with start := m.core.start + delta, stop := m.core.stop + delta },
                      latest := m.latest + delta }
  else .ok { m with latest := m.latest + delta }

/-- `MonoTimer(duration, retro)` (repaired: one clock reading) -/
def Mono.init (retro : Bool) (duration now : τ) : Mono τ :=
  { core := { start := pabs now, duration := pabs duration, stop := pabs now + pabs duration },
    latest := now, retro := retro }

/-- the part of an operation after `update()` succeeded (clock is now `.latest`) -/
def Mono.after (m : Mono τ) : Op τ → Mono τ × Out τ
  | .restart s d =>
    let st := match s with
      | some s => pabs s
      | none => m.latest
    let c' := m.core.restartAt st d
    ({ m with core := c' }, .pair c'.start c'.stop)
  | .rep =>
    let c' := m.core.restartAt (pabs m.core.stop) none
    ({ m with core := c' }, .pair c'.start c'.stop)
  | .extend e =>
    let c' := m.core.restartAt (pabs m.core.start) (some (m.core.duration + extOf m.core e))
    ({ m with core := c' }, .pair c'.start c'.stop)
  | .elapsed => (m, .num (max0 (m.latest - m.core.start)))
  | .remaining => (m, .num (max0 (m.core.stop - m.latest)))
  | .expired => (m, .bool (decide (m.core.stop ≤ m.latest)))

/-- one operation of the repaired MonoTimer: `update()` first, a `TimerRetroError` leaves the
object untouched -/
def Mono.step (m : Mono τ) (now : τ) (op : Op τ) : Mono τ × Out τ :=
  match m.update now with
  | .error e => (m, .err e)
  | .ok m' => m'.after op

/-- the UNREPAIRED `repeat`/`extend`: the argument of `restart` is read before its `update()` -/
def Mono.stepOrig (m : Mono τ) (now : τ) (op : Op τ) : Mono τ × Out τ :=
  match m.update now with
  | .error e => (m, .err e)
  | .ok m' =>
    match op with
    | .rep =>
      let c' := m'.core.restartAt (pabs m.core.stop) none          -- stale `.stop`
      ({ m' with core := c' }, .pair c'.start c'.stop)
    | .extend e =>
      let c' := m'.core.restartAt (pabs m.core.start) (some (m.core.duration + extOf m.core e))  -- stale `.start`
      ({ m' with core := c' }, .pair c'.start c'.stop)
    | op => m'.after op

/-! ### StoreTimer (clock = `store.stamp`, which may be `None`) -/

structure SCore (τ : Type) where
  start : Option τ      -- `restart()` on a store without stamp leaves `None` here
  stop : τ
  duration : τ
  deriving DecidableEq, Repr

/-- `StoreTimer(store, duration)` -/
def Store.init (duration : τ) (stamp : Option τ) : SCore τ :=
  let s := match stamp with
    | some t => pabs t
    | none => pabs 0
  { start := some s, duration := pabs duration, stop := s + pabs duration }

/-- `StoreTimer.restart(start, duration)`; with no start and no stamp `self.start = None` and
`None + duration` raises after `.start` and `.duration` were assigned -/
def SCore.restart (c : SCore τ) (stamp start duration : Option τ) : SCore τ × Out τ :=
  let st : Option τ := match start with
    | some s => some (pabs s)
    | none => stamp
  let d := match duration with
    | some d => pabs d
    | none => c.duration
  match st with
  | some s => ({ start := some s, duration := d, stop := s + d }, .pair s (s + d))
  | none => ({ start := none, duration := d, stop := c.stop }, .err .typeError)

def Store.step (c : SCore τ) (stamp : Option τ) : Op τ → SCore τ × Out τ
  | .restart s d => c.restart stamp s d
  | .rep => c.restart stamp (some c.stop) none
  | .extend e =>
    let ext := match e with
      | some e => e
      | none => c.duration
    c.restart stamp c.start (some (c.duration + ext))
  | .elapsed =>
    match stamp, c.start with
    | some t, some s => (c, .num (max0 (t - s)))
    | _, _ => (c, .err .typeError)
  | .remaining =>
    match stamp with
    | some t => (c, .num (max0 (c.stop - t)))
    | none => (c, .err .typeError)
  | .expired =>
    match stamp with
    | some t => (c, .bool (decide (c.stop ≤ t)))     -- stamp is not None and stamp >= self.stop
    | none => (c, .bool false)

/-! ### histories -/

/-- run a history, collecting what every call returned -/
def Timer.run (c : Core τ) : List (τ × Op τ) → Core τ × List (Out τ)
  | [] => (c, [])
  | (now, op) :: rest =>
    let r := Timer.step c now op
    let rr := Timer.run r.1 rest
    (rr.1, r.2 :: rr.2)

def Mono.run (m : Mono τ) : List (τ × Op τ) → Mono τ × List (Out τ)
  | [] => (m, [])
  | (now, op) :: rest =>
    let r := Mono.step m now op
    let rr := Mono.run r.1 rest
    (rr.1, r.2 :: rr.2)

def Store.run (c : SCore τ) : List (Option τ × Op τ) → SCore τ × List (Out τ)
  | [] => (c, [])
  | (stamp, op) :: rest =>
    let r := Store.step c stamp op
    let rr := Store.run r.1 rest
    (rr.1, r.2 :: rr.2)

end generic

/-! ### the hypothesis of the `_partial` theorems = complement of the region of finding D42b
(exact time; evaluated by the driver with these very definitions) -/

/-- what `repeat` and `extend` need because `restart` takes `abs(start)` -/
def Timer.Safe (c : Core Rat) : Op Rat → Prop
  | .rep => 0 ≤ c.stop
  | .extend _ => 0 ≤ c.start
  | _ => True

instance (c : Core Rat) (op : Op Rat) : Decidable (Timer.Safe c op) := by
  cases op <;> unfold Timer.Safe <;> infer_instance

/-- the backward jump seen by this call (0 when the clock did not go back) -/
def Mono.shift (m : Mono Rat) (now : Rat) : Rat := min (now - m.latest) 0

/-- attributes after the retrograde compensation of this call -/
def Mono.shifted (m : Mono Rat) (now : Rat) : Core Rat :=
  { m.core with start := m.core.start + m.shift now, stop := m.core.stop + m.shift now }

def Mono.Safe (m : Mono Rat) (now : Rat) (op : Op Rat) : Prop := Timer.Safe (m.shifted now) op

instance (m : Mono Rat) (now : Rat) (op : Op Rat) : Decidable (Mono.Safe m now op) := by
  unfold Mono.Safe; infer_instance

/-- store timers: same condition, on a `.start` that is a number -/
def Store.Safe (c : SCore Rat) : Op Rat → Prop
  | .rep => 0 ≤ c.stop
  | .extend _ =>
    match c.start with
    | some s => 0 ≤ s
    | none => True
  | _ => True

instance (c : SCore Rat) (op : Op Rat) : Decidable (Store.Safe c op) := by
  cases op <;> unfold Store.Safe <;> try infer_instance
  cases c.start <;> infer_instance

end Ioflo.Timer
