/-
Model of the transmit queue / receive buffer of ioflo's stream transports (C24).

Transcribed from
  ioflo/aio/tcp/clienting.py   Client.{send, tx, serviceTxes, receive, serviceReceives,
                               serviceReceiveOnce, clearRxbs}, ClientTls.{send, receive}
  ioflo/aio/tcp/serving.py     Incomer.{…same…}, IncomerTls.{send, receive}
  ioflo/aio/serial/serialing.py Driver.{tx, _serviceOneTx, serviceTxes, serviceTxOnce,
                               serviceReceives, serviceReceiveOnce, clearRxbs},
                               DeviceNb.{send, receive}, SerialNb.{send, receive}
  ioflo/aio/wiring.py          WireLog.{writeTx, writeRx}  (one record per call)

The socket / file descriptor is the environment.  It is a *script*: the list of answers
the next `send` / `recv` calls will get (`SendRes`, `RecvRes`); an exhausted script answers
"would block".  What the environment saw is recorded in the state (`sent`, `recvd`) exactly
as the socket double of the harness records it; `queued`, `taken` are history variables
(everything ever passed to `tx`, everything removed by `clearRxbs` / `catRxbs`).
`.rxbs` and `.txes` are *the* buffer objects (possibly supplied by the caller, `Client(rxbs=…, txes=…)`):
every operation works on them in place, none rebinds the attribute.

Errno classification is abstracted here (it is property C25, `Model/Errno.lean`): a send
answer is one of  accept k bytes | would block | connection lost | other error.
Core Lean only (the driver links this file).
-/
namespace Ioflo.TxQueue

abbrev Bytes := List Nat

/-- the six transports that carry a `txes` deque and an `rxbs` bytearray -/
inductive Kind
  | client | clientTls | incomer | incomerTls | device | serialNb
  deriving DecidableEq, Repr

/-- `serialing.Driver` over `DeviceNb` / `SerialNb`: no `cutoff`, no wire log,
every error except EAGAIN is re-raised. -/
def Kind.isSerial : Kind → Bool
  | .device | .serialNb => true
  | _ => false

/-- answer of the environment to one `cs.send(data)` / `os.write(fd, data)` -/
inductive SendRes
  | acc (k : Nat)     -- accepts `min k (len data)` bytes
  | wouldBlock        -- EAGAIN / EWOULDBLOCK / SSL_ERROR_WANT_*
  | lost              -- an errno of the connection-loss ladder
  | fail              -- any other error
  deriving DecidableEq, Repr

/-- answer of the environment to one `cs.recv(bs)` / `os.read(fd, bs)`;
`data []` is the orderly end of stream (recv returned b''). -/
inductive RecvRes
  | data (b : Bytes)
  | wouldBlock
  | lost
  | fail
  deriving DecidableEq, Repr

structure State where
  kind : Kind
  /-- `.txes` deque, left end first -/
  txes : List Bytes := []
  /-- `.rxbs` bytearray -/
  rxbs : Bytes := []
  /-- `.cutoff` (stream transports only) -/
  cutoff : Bool := false
  /-- `.connected` of the clients, `.server.opened` of the serial driver; not read by incomers -/
  live : Bool := true
  /-- a `WireLog` with open tx and rx buffers is attached (`wlog` argument) -/
  wlogOn : Bool := false
  /-- environment: answers to the coming send / recv calls -/
  sendScript : List SendRes := []
  recvScript : List RecvRes := []
  /-- environment's record: every byte the socket accepted, in order -/
  sent : Bytes := []
  /-- wire log, one entry per `writeTx` call (the data part of the record) -/
  wtx : List Bytes := []
  /-- environment's record: every byte returned by recv, in order -/
  recvd : Bytes := []
  /-- wire log, one entry per `writeRx` call -/
  wrx : List Bytes := []
  /-- history: every byte ever passed to `tx`, in call order -/
  queued : Bytes := []
  /-- history: what `clearRxbs` removed, in order -/
  taken : Bytes := []
  deriving Repr

def init (k : Kind) (wlog : Bool) : State := { kind := k, wlogOn := wlog }

/-- result of a method call: returned normally, or an exception left the method
(the object lives on in the state it had when the exception passed) -/
inductive Res
  | ok (s : State)
  | raised (s : State)
  deriving Repr

def Res.state : Res → State
  | .ok s => s
  | .raised s => s

def Res.isRaised : Res → Bool
  | .ok _ => false
  | .raised _ => true

/-- loop guard of `serviceTxes`:
`Client`: `self.connected and not self.cutoff`; `Incomer`: `not self.cutoff`;
`Driver`: `self.server.opened`  (the `self.txes` conjunct is the list pattern). -/
def guard (s : State) : Bool :=
  match s.kind with
  | .client | .clientTls => s.live && !s.cutoff
  | .incomer | .incomerTls => !s.cutoff
  | .device | .serialNb => s.live

/-- `send(data)` once the environment's answer `r` is known: `some n` = returned n, `none` = raised -/
def sendWith (s : State) (data : Bytes) : SendRes → State × Option Nat
  | .acc k =>
    let n := min k data.length
    -- the socket took `data[:n]`;  `if result:` … `if self.wlog: self.wlog.writeTx(self.ca, data[:result])`
    if n ≠ 0 ∧ s.wlogOn = true ∧ s.kind.isSerial = false then
      ({ s with sent := s.sent ++ data.take n, wtx := s.wtx ++ [data.take n] }, some n)
    else
      ({ s with sent := s.sent ++ data.take n }, some n)
  | .wouldBlock => (s, some 0)                                 -- `result = 0`
  | .lost =>
    if s.kind.isSerial then (s, none)                          -- DeviceNb/SerialNb: `raise`
    else ({ s with cutoff := true }, some 0)                   -- `self.cutoff = True; result = 0`
  | .fail => (s, none)                                         -- `raise`

/-- `send(data)`: consumes one script item (an exhausted script answers "would block") -/
def send (s : State) (data : Bytes) : State × Option Nat :=
  sendWith { s with sendScript := s.sendScript.tail } data (s.sendScript.headD .wouldBlock)

/-- the `while` loop of `serviceTxes`, the queue passed explicitly (`s.txes` is not read):
```
while self.txes and <guard>:
    data = self.txes.popleft()
    count = self.send(data)
    if count < len(data):
        self.txes.appendleft(data[count:]); break
```
(`Driver.serviceTxes` + `_serviceOneTx` is the same loop with `return False` for `break`). -/
def txLoop (s : State) : List Bytes → Res
  | [] => .ok { s with txes := [] }
  | data :: rest =>
    if guard s then
      match send s data with
      | (s', none) => .raised { s' with txes := rest }         -- popped, never put back
      | (s', some n) =>
        if n < data.length then .ok { s' with txes := data.drop n :: rest }
        else txLoop s' rest
    else .ok { s with txes := data :: rest }

def serviceTxes (s : State) : Res := txLoop s s.txes

/-- `Driver.serviceTxOnce`: `if self.txes and self.server.opened: self._serviceOneTx()`.
(Only the serial driver has this method; the line-protocol driver refuses it for the others.) -/
def serviceTxOnce (s : State) : Res :=
  match s.txes with
  | [] => .ok s
  | data :: rest =>
    if guard s then
      match send s data with
      | (s', none) => .raised { s' with txes := rest }
      | (s', some n) =>
        if n < data.length then .ok { s' with txes := data.drop n :: rest }
        else .ok { s' with txes := rest }
    else .ok s

/-- what `receive()` hands to its caller -/
inductive Rx
  | raised
  | nothing          -- `None` or `b''`: caller's `if not data: break`
  | chunk (b : Bytes)

/-- `receive()` given the environment's answer.  `recvd` is the double's record of what it returned. -/
def receive (s : State) : RecvRes → State × Rx
  | .data b =>
    if s.kind.isSerial then                                       -- DeviceNb/SerialNb.receive: `return data`
      ({ s with recvd := s.recvd ++ b }, if b = [] then .nothing else .chunk b)
    else if b = [] then                                           -- `else: self.cutoff = True`
      ({ s with recvd := s.recvd ++ b, cutoff := true }, .nothing)
    else if s.wlogOn then                                         -- `self.wlog.writeRx(self.ca, data)`
      ({ s with recvd := s.recvd ++ b, wrx := s.wrx ++ [b] }, .chunk b)
    else
      ({ s with recvd := s.recvd ++ b }, .chunk b)
  | .wouldBlock => (s, .nothing)                                  -- `return None` / `data = b''`
  | .lost =>
    if s.kind.isSerial then (s, .raised)
    else ({ s with cutoff := true }, .nothing)                    -- `self.cutoff = True; return bytes()`
  | .fail => (s, .raised)

/-- the `while` loop of `serviceReceives`, the script passed explicitly:
```
while <guard>:
    data = self.receive()
    if not data: break
    self.rxbs.extend(data)
``` -/
def rxLoop (s : State) : List RecvRes → Res
  | [] => .ok { s with recvScript := [] }     -- exhausted script = would block (or guard false)
  | r :: t =>
    if guard s then
      match receive s r with
      | (s', .raised) => .raised { s' with recvScript := t }
      | (s', .nothing) => .ok { s' with recvScript := t }
      | (s', .chunk b) => rxLoop { s' with rxbs := s'.rxbs ++ b } t
    else .ok { s with recvScript := r :: t }

def serviceReceives (s : State) : Res := rxLoop s s.recvScript

/-- `serviceReceiveOnce`: `if <guard>: data = self.receive(); if data: self.rxbs.extend(data)` -/
def serviceReceiveOnce (s : State) : Res :=
  if guard s then
    match s.recvScript with
    | [] => .ok s
    | r :: t =>
      match receive s r with
      | (s', .raised) => .raised { s' with recvScript := t }
      | (s', .nothing) => .ok { s' with recvScript := t }
      | (s', .chunk b) => .ok { s' with rxbs := s'.rxbs ++ b, recvScript := t }
  else .ok s

inductive Op
  | tx (d : Bytes)                 -- `.tx(data)`: `self.txes.append(data)`
  | feedTx (rs : List SendRes)     -- environment: extend the send script
  | feedRx (rs : List RecvRes)     -- environment: extend the recv script
  | serviceTxes
  | serviceTxOnce
  | serviceReceives
  | serviceReceiveOnce
  | clearRxbs                      -- `del self.rxbs[:]`
  | catRxbs                        -- `rx = self.rxbs[:]; self.clearRxbs(); return rx` (the same buffer, emptied in place)
  | setLive (b : Bool)             -- `.connected = b` / `.server.opened = b`
  deriving Repr

def step (s : State) : Op → Res
  | .tx d => .ok { s with txes := s.txes ++ [d], queued := s.queued ++ d }
  | .feedTx rs => .ok { s with sendScript := s.sendScript ++ rs }
  | .feedRx rs => .ok { s with recvScript := s.recvScript ++ rs }
  | .serviceTxes => serviceTxes s
  | .serviceTxOnce => serviceTxOnce s
  | .serviceReceives => serviceReceives s
  | .serviceReceiveOnce => serviceReceiveOnce s
  | .clearRxbs => .ok { s with rxbs := [], taken := s.taken ++ s.rxbs }
  | .catRxbs => .ok { s with rxbs := [], taken := s.taken ++ s.rxbs }
  | .setLive b => .ok { s with live := b }

/-- a history: the caller goes on with the same object after an exception -/
def run (s : State) : List Op → State
  | [] => s
  | op :: ops => run (step s op).state ops

/-- `n` consecutive `serviceTxes` calls -/
def serviceN : Nat → State → State
  | 0, s => s
  | n+1, s => serviceN n (serviceTxes s).state

end Ioflo.TxQueue
