/-
Model of the loops that `Builder.build` runs while resolving a house (ioflo/base/framing.py,
ioflo/base/housing.py), on the data they walk — frames and framers are numbers, links are functions:

* `Frame.resolveOverLinks`  — climb `over` links from a frame, `if over == self: raise ResolveError`  → `climb`
* `Frame.traceOutline` / `traceHuman` / `findBottom` — descend primary `under` links until there is none → `chain`
* `House.presolvePresolvables` + `Framer.resolveMoots` — the deque of framers to presolve; presolving a framer
  appends one clone for every `aux <moot> as <tag>` of it, and a clone has the moots of its original      → `run`
* `Framer.resolve` / `traceOutlines` — the loops above for every frame of a framer, in order               → `resolveOvers`, `traceUnders`

A Python `while` loop is a function with a step budget (`fuel`); `none` = "budget exhausted".  The theorems
(Props/C14.lean) say when some budget suffices and when none does.  `…Checked` are the loops repaired
by fixes/D64-over-loop-check.patch, fixes/D06-under-loop-check.patch (a visited list, `ResolveError` on a
repeat) and fixes/D05-moot-clone-loop.patch (a lineage per clone).  Core Lean only.
-/
namespace Ioflo.Worklist

/-- outcome of a resolve loop -/
inductive Out where
  | done            -- the loop ended normally
  | loopError       -- `raise excepting.ResolveError("Outline … create loop")`
deriving DecidableEq, Repr

/-- `while frame: frame = frame.<link>` — as in `traceOutline` (down `under`), `findBottom`, and the
unchecked climbs of `traceHead`/`traceHuman` -/
def chain (next : Nat → Option Nat) : Nat → Nat → Option Out
  | 0, _ => none
  | fuel + 1, k =>
    match next k with
    | none => some .done
    | some j => chain next fuel j

/-- `Frame.resolveOverLinks` for the frame `self`: `cur` is the Python variable `under` -/
def climb (over : Nat → Option Nat) (self : Nat) : Nat → Nat → Option Out
  | 0, _ => none
  | fuel + 1, cur =>
    match over cur with
    | none => some .done
    | some o => if o == self then some .loopError else climb over self fuel o

/-- the repaired loops: a list of the frames already passed; a frame met twice is an error -/
def chainChecked (next : Nat → Option Nat) : Nat → List Nat → Nat → Option Out
  | 0, _, _ => none
  | fuel + 1, seen, k =>
    match next k with
    | none => some .done
    | some j => if seen.contains j then some .loopError else chainChecked next fuel (j :: seen) j

/-- `House.presolvePresolvables`: `popleft`, presolve (one clone per moot entry, appended), count the
presolved framers.  `moots k`: the originals that framer (or clone of) `k` clones. -/
def run (moots : Nat → List Nat) : Nat → List Nat → Option Nat
  | 0, _ => none
  | _ + 1, [] => some 0
  | fuel + 1, k :: wl => (run moots fuel (wl ++ moots k)).map (· + 1)

/-- the worklist repaired by fixes/D05-moot-clone-loop.patch: every framer carries its `lineage` (the moot
originals it was cloned from, outermost first; `()` for a framer of the script).  `resolveMoots` raises
`ResolveError("Clone loop")` when a moot to clone is already in the lineage, otherwise the clone gets
`lineage + (original,)`.  Result: `none` = budget exhausted, `some none` = ResolveError, `some (some n)` = `n`
framers presolved. -/
def runChecked (moots : Nat → List Nat) : Nat → List (Nat × List Nat) → Option (Option Nat)
  | 0, _ => none
  | _ + 1, [] => some (some 0)
  | fuel + 1, (k, lin) :: wl =>
    if (moots k).any (fun j => lin.contains j) then some none
    else (runChecked moots fuel (wl ++ (moots k).map (fun j => (j, lin ++ [j])))).map (·.map (· + 1))

/-- `for frame in Frame.Names.values(): frame.resolve()` restricted to the over links: the first frame whose
climb does not end normally decides -/
def resolveOvers (over : Nat → Option Nat) (fuel : Nat) : List Nat → Option Out
  | [] => some .done
  | f :: fs =>
    match climb over f fuel f with
    | none => none
    | some .loopError => some .loopError
    | some .done => resolveOvers over fuel fs

/-- `Framer.traceOutlines` restricted to the descent of the primary `under` links -/
def traceUnders (under : Nat → Option Nat) (fuel : Nat) : List Nat → Option Out
  | [] => some .done
  | f :: fs =>
    match chain under fuel f with
    | none => none
    | some .loopError => some .loopError
    | some .done => traceUnders under fuel fs

def resolveOversChecked (over : Nat → Option Nat) (fuel : Nat) : List Nat → Option Out
  | [] => some .done
  | f :: fs =>
    match chainChecked over fuel [f] f with
    | none => none
    | some .loopError => some .loopError
    | some .done => resolveOversChecked over fuel fs

def traceUndersChecked (under : Nat → Option Nat) (fuel : Nat) : List Nat → Option Out
  | [] => some .done
  | f :: fs =>
    match chainChecked under fuel [f] f with
    | none => none
    | some .loopError => some .loopError
    | some .done => traceUndersChecked under fuel fs

/-- a link table as a function: entry `i` of the list is the link of frame `i` -/
def linkOf (links : List (Option Nat)) (k : Nat) : Option Nat := (links[k]?).join

def mootsOf (table : List (List Nat)) (k : Nat) : List Nat := (table[k]?).getD []

/-! ### internal errors known to remain reachable from a script

None: the table is empty (D5, D8, D65, D65b, D66, D67, D68, D69, D69b, D70, D06b, D71, D72, D72b are repaired in the repository), so
every internal error the search meets is a failing input.  `(finding, exception class, innermost function)`: a failing
input is attributed to a known finding only if its (class, function) is listed here. -/
def knownCrashSites : List (String × String × String) := []

def crashFindings (cls fn : String) : List String :=
  (knownCrashSites.filter (fun e => e.2.1 == cls && e.2.2 == fn)).map (·.1)

end Ioflo.Worklist
