/-
Model of ioflo/aid/navigating.py  wrap1 / wrap2 / delta  (angle wrapping).

Numbers are exact rationals (`Rat`, core Lean).  Python's `%` on real numbers is
floor-mod: `a % w = a - w * floor(a / w)` (sign of the divisor) — exactly so for `int`,
and for `float` up to the rounding described below.  `ZeroDivisionError` cannot occur:
the code guards both `%` with `wrap != 0` (and `-wrap`, `wrap*2.0` are then non-zero).

Second instantiation ("binary64"): the same functions with every arithmetic result rounded
to the nearest binary64 value (ties to even) by `rn`.  CPython computes `a % w` on floats
as C `fmod` (always exact) followed, when the signs differ, by ONE rounded addition of the
divisor, hence `float(a % w) = rn (a mod w)`; `wrap * 2.0`, `angle - wrap`, `desired - actual`
are single IEEE operations.  `rn` has an unbounded exponent: overflow, subnormals, NaN and
infinities are outside the model.
-/
namespace Ioflo.Wrap

/-- Python `a % w` (floor-mod) on exact numbers; only used with `w ≠ 0` -/
def pymod (a w : Rat) : Rat := a - w * ((a / w).floor : Rat)

/-- Python `abs` -/
def pabs (x : Rat) : Rat := if x < 0 then -x else x

/-- `wrap1(angle, wrap)` -/
def wrap1 (angle wrap : Rat) : Rat :=
  if wrap ≠ 0 then pymod angle wrap else angle

/-- `wrap2(angle, wrap)` -/
def wrap2 (angle wrap : Rat) : Rat :=
  if wrap ≠ 0 then
    let angle := pymod angle (wrap * 2)              -- wrap to full circle first
    if pabs angle > pabs wrap then                   -- more than half way round
      pymod (angle - wrap) (-wrap)                   -- wrap extra on reversed half circle
    else angle
  else angle

/-- `delta(desired, actual, wrap)` -/
def delta (desired actual wrap : Rat) : Rat := wrap2 (desired - actual) wrap

/-! ### binary64 instantiation -/

/-- `x * 2^e` -/
def scale2 (x : Rat) (e : Int) : Rat :=
  if 0 ≤ e then x * ((2 ^ e.toNat : Nat) : Rat) else x / ((2 ^ (-e).toNat : Nat) : Rat)

/-- round to the nearest integer, ties to even -/
def roundEven (m : Rat) : Int :=
  let f := m.floor
  let r := m - (f : Rat)
  if r < 1 / 2 then f else if 1 / 2 < r then f + 1 else if f % 2 = 0 then f else f + 1

/-- nearest binary64 (53-bit significand, unbounded exponent) of a positive rational -/
def rnPos (x : Rat) : Rat :=
  let e0 : Int := (Nat.log2 x.num.toNat : Int) - (Nat.log2 x.den : Int) - 52
  -- x / 2^e0 lies in (2^51, 2^53); one downward correction puts it in [2^52, 2^53)
  let e : Int := if scale2 x (-e0) < ((2 ^ 52 : Nat) : Rat) then e0 - 1 else e0
  scale2 (roundEven (scale2 x (-e)) : Rat) e

/-- nearest binary64 value, ties to even -/
def rn (x : Rat) : Rat :=
  if x = 0 then 0 else if x < 0 then -(rnPos (-x)) else rnPos x

/-- float `a % w` -/
def pymodF (a w : Rat) : Rat := rn (pymod a w)

def wrap1F (angle wrap : Rat) : Rat :=
  if wrap ≠ 0 then pymodF angle wrap else angle

def wrap2F (angle wrap : Rat) : Rat :=
  if wrap ≠ 0 then
    let angle := pymodF angle (rn (wrap * 2))
    if pabs angle > pabs wrap then pymodF (rn (angle - wrap)) (-wrap) else angle
  else angle

def deltaF (desired actual wrap : Rat) : Rat := wrap2F (rn (desired - actual)) wrap


/-- Region of the known finding about IEEE rounding: on these (binary64) arguments some function's
binary64 result differs from its exact result. -/
def floatDiffers (desired actual wrap : Rat) : Bool :=
  wrap1F actual wrap != wrap1 actual wrap || wrap2F actual wrap != wrap2 actual wrap ||
    deltaF desired actual wrap != delta desired actual wrap

end Ioflo.Wrap
