/-
Model of ioflo/aid/navigating.py  wrap1 / wrap2 / delta  (angle wrapping).

Numbers are exact rationals (`Rat`, core Lean).  Python's `%` on real numbers is
floor-mod: `a % w = a - w * floor(a / w)` (sign of the divisor) — exactly so for `int`,
and for `float` up to the rounding described below.  `ZeroDivisionError` cannot occur:
the code guards both `%` with `wrap != 0` (and `-wrap`, `wrap*2.0` are then non-zero).

Second instantiation ("binary64"): the same functions with every arithmetic result rounded
to the nearest binary64 value (ties to even) by `rn`.  CPython computes `a % w` on floats
as C `fmod` (always exact) followed, when the signs differ, by ONE rounded addition of the
divisor, hence `float(a % w) = rn (a mod w)`; `wrap * 2.0`, `angle - wrap`, `desired - actual`
are single IEEE operations.  `rn` has an unbounded exponent: overflow, subnormals, NaN and
infinities are outside the model.
-/
namespace Ioflo.Wrap

/-- Python `a % w` (floor-mod) on exact numbers; only used with `w ≠ 0` -/
def pymod (a w : Rat) : Rat := a - w * ((a / w).floor : Rat)

/-- Python `abs` -/
def pabs (x : Rat) : Rat := if x < 0 then -x else x

/-- `wrap1(angle, wrap)` -/
def wrap1 (angle wrap : Rat) : Rat :=
  if wrap ≠ 0 then pymod angle wrap else angle

/-- `wrap2(angle, wrap)` -/
def wrap2 (angle wrap : Rat) : Rat :=
  if wrap ≠ 0 then
    let angle := pymod angle (wrap * 2)              -- wrap to full circle first
    if pabs angle > pabs wrap then                   -- more than half way round
      pymod (angle - wrap) (-wrap)                   -- wrap extra on reversed half circle
    else angle
  else angle

/-- `delta(desired, actual, wrap)` -/
def delta (desired actual wrap : Rat) : Rat := wrap2 (desired - actual) wrap

/-! ### binary64 instantiation -/

/-- `x * 2^e` -/
def scale2 (x : Rat) (e : Int) : Rat :=
  if 0 ≤ e then x * ((2 ^ e.toNat : Nat) : Rat) else x / ((2 ^ (-e).toNat : Nat) : Rat)

/-- round to the nearest integer, ties to even -/
def roundEven (m : Rat) : Int :=
  let f := m.floor
  let r := m - (f : Rat)
  if r < 1 / 2 then f else if 1 / 2 < r then f + 1 else if f % 2 = 0 then f else f + 1

/-- nearest binary64 (53-bit significand, unbounded exponent) of a positive rational -/
def rnPos (x : Rat) : Rat :=
  let e0 : Int := (Nat.log2 x.num.toNat : Int) - (Nat.log2 x.den : Int) - 52
  -- x / 2^e0 lies in (2^51, 2^53); one downward correction puts it in [2^52, 2^53)
  let e : Int := if scale2 x (-e0) < ((2 ^ 52 : Nat) : Rat) then e0 - 1 else e0
  scale2 (roundEven (scale2 x (-e)) : Rat) e

/-- nearest binary64 value, ties to even -/
def rn (x : Rat) : Rat :=
  if x = 0 then 0 else if x < 0 then -(rnPos (-x)) else rnPos x

/-- float `a % w` -/
def pymodF (a w : Rat) : Rat := rn (pymod a w)

def wrap1F (angle wrap : Rat) : Rat :=
  if wrap ≠ 0 then pymodF angle wrap else angle

def wrap2F (angle wrap : Rat) : Rat :=
  if wrap ≠ 0 then
    let angle := pymodF angle (rn (wrap * 2))
    if pabs angle > pabs wrap then pymodF (rn (angle - wrap)) (-wrap) else angle
  else angle

def deltaF (desired actual wrap : Rat) : Rat := wrap2F (rn (desired - actual)) wrap


/-! ### arguments of other numeric types (int, bool, Fraction mixed with float)

The functions accept any Python number.  `int`, `bool` and `fractions.Fraction` arithmetic is exact;
as soon as one operand of `%`, `-` or `*` is a `float` the other one is converted with `float()`
(correctly rounded: `rn`) and the operation is the binary64 one.  Comparisons between a float and
an int / Fraction are exact.  Below `fa`, `fw`, `fd` say whether the argument is a `float`
(its value is then a binary64 value already); every argument is given by its exact value.
With `wrap == 0` nothing is computed at all: the angle object itself is returned. -/

/-- `wrap1` with typed arguments: exact unless a float is involved -/
def wrap1T (fa fw : Bool) (angle wrap : Rat) : Rat :=
  if wrap ≠ 0 then
    if fa || fw then pymodF (rn angle) (rn wrap) else pymod angle wrap
  else angle

/-- `wrap2` with arguments of any numeric type: `wrap * 2.0` makes everything after the
`wrap != 0` test binary64 -/
def wrap2T (angle wrap : Rat) : Rat :=
  if wrap ≠ 0 then
    let rw := rn wrap                                   -- float(wrap)
    let angle := pymodF (rn angle) (rn (rw * 2))        -- angle %= wrap * 2.0
    if pabs angle > pabs wrap then                      -- exact comparison float vs int / Fraction
      pymodF (rn (angle - rw)) (-rw)                    -- (angle - wrap) % (-wrap)
    else angle
  else angle

/-- `delta` with typed arguments: `desired - actual` is exact unless a float is involved -/
def deltaT (fd fa : Bool) (desired actual wrap : Rat) : Rat :=
  wrap2T (if fd || fa then rn (rn desired - rn actual) else desired - actual) wrap

/-- the typed analogue of `floatDiffers` (equal to it when all three arguments are floats) -/
def typedDiffers (fd fa fw : Bool) (desired actual wrap : Rat) : Bool :=
  wrap1T fa fw actual wrap != wrap1 actual wrap || wrap2T actual wrap != wrap2 actual wrap ||
    deltaT fd fa desired actual wrap != delta desired actual wrap

/-- Region of the known finding about IEEE rounding: on these (binary64) arguments some function's
binary64 result differs from its exact result. -/
def floatDiffers (desired actual wrap : Rat) : Bool :=
  wrap1F actual wrap != wrap1 actual wrap || wrap2F actual wrap != wrap2 actual wrap ||
    deltaF desired actual wrap != delta desired actual wrap

end Ioflo.Wrap
