import IofloModel.Lemmas.ImportsCold0
import IofloModel.Lemmas.ImportsCold1
import IofloModel.Lemmas.ImportsCold2
import IofloModel.Lemmas.ImportsCold3
import IofloModel.Lemmas.ImportsCold4
import IofloModel.Lemmas.ImportsCold5
import IofloModel.Lemmas.ImportsCold6
import IofloModel.Lemmas.ImportsCold7
/-!
# C01 — every ioflo module imports in a fresh interpreter, in any order

Property theorems only.  Model: `Model/Imports.lean` (CPython's import protocol) run over
`Generated/ImportGraph.lean` (regenerated from the source tree on every check run).

`cold g m` is what `python -c "import m"` does in a newly started interpreter; `importAll g s ms` imports the
modules of `ms` one after the other.  `Gen.graph.domain` = every module file below `ioflo/`.
-/
namespace Ioflo.Imports
open Gen

/-- the property, first half: every module imports alone in a fresh interpreter -/
def C01_each_cold_full : Prop := ∀ m ∈ graph.domain, (cold graph m).2 = none

theorem domain_chunks : graph.domain.all (fun m => domainChunks.any (·.contains m)) = true := by
  decide +kernel

theorem chunks_le : domainChunks.length ≤ 8 := by decide

theorem chunk_ok : ∀ i, i < 8 →
    coldChunkOk graph root (staleFrom graph) (domainChunks.getD i []) = true
  | 0, _ => coldChunk0
  | 1, _ => coldChunk1
  | 2, _ => coldChunk2
  | 3, _ => coldChunk3
  | 4, _ => coldChunk4
  | 5, _ => coldChunk5
  | 6, _ => coldChunk6
  | 7, _ => coldChunk7
  | n + 8, h => absurd h (by omega)

/-- **C01, cold imports (table over the regenerated graph).**  Every module of the tree imports in a newly
started interpreter, except the modules in the region of known finding D01c (`staleFrom`: the module's own
top-level code does `from pkg import name` for a name that `pkg` never binds and that is no sub-module). -/
theorem C01_each_cold_partial :
    ∀ m ∈ graph.domain, staleFrom graph m = false → (cold graph m).2 = none := by
  intro m hm hs
  have h1 := domain_chunks
  simp only [List.all_eq_true, List.any_eq_true, List.contains_iff_mem] at h1
  obtain ⟨c, hc, hmc⟩ := h1 m hm
  obtain ⟨i, hi, rfl⟩ := List.getElem_of_mem hc
  have hi8 : i < 8 := Nat.lt_of_lt_of_le hi chunks_le
  have hk := chunk_ok i hi8
  have hget : domainChunks.getD i [] = domainChunks[i] := by
    rw [List.getD_eq_getElem?_getD, List.getElem?_eq_getElem hi]
    rfl
  rw [hget] at hk
  exact cold_of_chunk graph root (staleFrom graph) _ hk m hmc hs

/-- the hypothesis of `C01_each_cold_partial` is not vacuous: almost all modules are outside the region -/
example : (graph.domain.filter (fun m => !staleFrom graph m)).length + 2 = graph.domain.length := by
  decide +kernel

/-- the region of D01c is exactly the two stale test modules -/
theorem C01_stale_region : graph.domain.filter (staleFrom graph) =
    [Mid.«ioflo.aio.test._test_httping_w_ext_server», Mid.«ioflo.aio.test._test_tls_w_ext_serverclient»] := by
  decide +kernel

set_option maxRecDepth 1000000 in
/-- **known finding D01c.**  `ioflo/aio/test/_test_httping_w_ext_server.py` does not import: line 31,
`from ioflo.aio import nonblocking`, raises `ImportError` (that module was removed). -/
theorem C01_D01c_outcome :
    (cold graph Mid.«ioflo.aio.test._test_httping_w_ext_server»).2.map (fun e => (e.exc, e.mod))
      = some (Exc.importError, Mid.«ioflo.aio.test._test_httping_w_ext_server») := by
  decide +kernel

theorem C01_counterexample_D01c : ¬ C01_each_cold_full := by
  intro h
  have hm : Mid.«ioflo.aio.test._test_httping_w_ext_server» ∈ graph.domain := by decide +kernel
  have h1 := h _ hm
  have h2 := C01_D01c_outcome
  rw [h1] at h2
  cases h2

end Ioflo.Imports
