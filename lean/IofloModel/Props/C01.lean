import IofloModel.Lemmas.Imports
import IofloModel.Lemmas.ImportsFrame
import IofloModel.Lemmas.ImportsCold0
import IofloModel.Lemmas.ImportsCold1
import IofloModel.Lemmas.ImportsCold2
import IofloModel.Lemmas.ImportsCold3
import IofloModel.Lemmas.ImportsCold4
import IofloModel.Lemmas.ImportsCold5
import IofloModel.Lemmas.ImportsCold6
import IofloModel.Lemmas.ImportsCold7
import IofloModel.Lemmas.ImportsAll0
import IofloModel.Lemmas.ImportsAll2
import IofloModel.Lemmas.ImportsAll3
import IofloModel.Lemmas.ImportsAll4
import IofloModel.Lemmas.ImportsOpt0
import IofloModel.Lemmas.ImportsOpt1
import IofloModel.Lemmas.ImportsOpt2
import IofloModel.Lemmas.ImportsOpt3
/-!
# C01 — every ioflo module imports in a fresh interpreter, in any order

Property theorems only.  Model: `Model/Imports.lean` (CPython's import protocol) run over
`Generated/ImportGraph.lean` (regenerated from the source tree on every check run).

`cold g m` is what `python -c "import m"` does in a newly started interpreter; `importAll g s ms` imports the
modules of `ms` one after the other.  `Gen.graph.domain` = every module file below `ioflo/`.
-/
namespace Ioflo.Imports
open Gen

/-- the property, first half: every module imports alone in a fresh interpreter -/
def C01_each_cold_full : Prop := ∀ m ∈ graph.domain, (cold graph m).2 = none

theorem domain_chunks : graph.domain.all (fun m => domainChunks.any (·.contains m)) = true := by
  decide +kernel

theorem chunks_le : domainChunks.length ≤ 8 := by decide

theorem pairChunks_le : pairChunks.length ≤ 8 := by decide

theorem chunk_all : ∀ i, i < 8 →
    chunkOk graph root (staleFrom graph) (domainChunks.getD i []) (pairChunks.getD i []) = true
  | 0, _ => chunk0
  | 1, _ => chunk1
  | 2, _ => chunk2
  | 3, _ => chunk3
  | 4, _ => chunk4
  | 5, _ => chunk5
  | 6, _ => chunk6
  | 7, _ => chunk7
  | n + 8, h => absurd h (by omega)

theorem chunk_ok (i : Nat) (h : i < 8) :
    coldChunkOk graph root (staleFrom graph) (domainChunks.getD i []) = true :=
  cold_of_chunkOk _ _ _ _ _ (chunk_all i h)

/-- all chunks go through the same cold import of the root package -/
theorem cold_via_root : ∀ m ∈ graph.domain,
    cold graph m = importChain graph (importChain graph (fresh graph) [root]).1 (graph.chain m) := by
  intro m hm
  have h1 := domain_chunks
  simp only [List.all_eq_true, List.any_eq_true, List.contains_iff_mem] at h1
  obtain ⟨c, hc, hmc⟩ := h1 m hm
  obtain ⟨i, hi, rfl⟩ := List.getElem_of_mem hc
  have hk := chunk_ok i (Nat.lt_of_lt_of_le hi chunks_le)
  have hget : domainChunks.getD i [] = domainChunks[i] := by
    rw [List.getD_eq_getElem?_getD, List.getElem?_eq_getElem hi]
    rfl
  rw [hget] at hk
  exact (cold_eq_of_chunk graph root (staleFrom graph) _ hk).2 m hmc

/-- **C01, cold imports (table over the regenerated graph).**  Every module of the tree imports in a newly
started interpreter, except the modules in the region of known finding D01c (`staleFrom`: the module's own
top-level code does `from pkg import name` for a name that `pkg` never binds and that is no sub-module). -/
theorem C01_each_cold_partial :
    ∀ m ∈ graph.domain, staleFrom graph m = false → (cold graph m).2 = none := by
  intro m hm hs
  have h1 := domain_chunks
  simp only [List.all_eq_true, List.any_eq_true, List.contains_iff_mem] at h1
  obtain ⟨c, hc, hmc⟩ := h1 m hm
  obtain ⟨i, hi, rfl⟩ := List.getElem_of_mem hc
  have hi8 : i < 8 := Nat.lt_of_lt_of_le hi chunks_le
  have hk := chunk_ok i hi8
  have hget : domainChunks.getD i [] = domainChunks[i] := by
    rw [List.getD_eq_getElem?_getD, List.getElem?_eq_getElem hi]
    rfl
  rw [hget] at hk
  exact cold_of_chunk graph root (staleFrom graph) _ hk m hmc hs

/-- the hypothesis of `C01_each_cold_partial` is not vacuous: almost all modules are outside the region -/
example : (graph.domain.filter (fun m => !staleFrom graph m)).length + 2 = graph.domain.length := by
  decide +kernel

/-- the region of D01c is exactly the two stale test modules -/
theorem C01_stale_region : graph.domain.filter (staleFrom graph) =
    [Mid.«ioflo.aio.test._test_httping_w_ext_server», Mid.«ioflo.aio.test._test_tls_w_ext_serverclient»] := by
  decide +kernel

set_option maxRecDepth 1000000 in
/-- **known finding D01c.**  `ioflo/aio/test/_test_httping_w_ext_server.py` does not import: line 31,
`from ioflo.aio import nonblocking`, raises `ImportError` (that module was removed). -/
theorem C01_D01c_outcome :
    (cold graph Mid.«ioflo.aio.test._test_httping_w_ext_server»).2.map (fun e => (e.exc, e.mod))
      = some (Exc.importError, Mid.«ioflo.aio.test._test_httping_w_ext_server») := by
  decide +kernel

theorem C01_counterexample_D01c : ¬ C01_each_cold_full := by
  intro h
  have hm : Mid.«ioflo.aio.test._test_httping_w_ext_server» ∈ graph.domain := by decide +kernel
  have h1 := h _ hm
  have h2 := C01_D01c_outcome
  rw [h1] at h2
  cases h2

/-! ## any order -/

/-- the state after `import ioflo` in a newly started interpreter -/
def rootState : State := (importChain graph (fresh graph) [root]).1

/-- the property, second half: in any order (with repetitions) every import succeeds -/
def C01_any_order_full : Prop :=
  ∀ ms : List Mod, (∀ m ∈ ms, m ∈ graph.domain) → ∀ e ∈ (importAll graph (fresh graph) ms).2, e = none

theorem root_ok : (importChain graph (fresh graph) [root]).2 = none :=
  (cold_eq_of_chunk graph root (staleFrom graph) _ (chunk_ok 0 (by decide))).1

/-- `import ioflo` in a fresh interpreter is `cold graph root` and yields `rootState` -/
theorem cold_root : cold graph root = (rootState, none) := by
  have hd : root ∈ graph.domain := by decide +kernel
  have h1 := cold_via_root root hd
  have hc : graph.chain root = [root] := by decide +kernel
  rw [hc] at h1
  have hp : rootState.isPresent root = true :=
    findAndLoad_ok_present graph (runBody graph)
      (fun s m body => runEvs_mono _ (fun s e => execEv_mono graph graph.fuel m s e) body s)
      graph.main 0 root [] (fresh graph) root_ok
  rw [h1]
  exact findAndLoad_present graph (runBody graph) graph.main 0 rootState root [] hp

/-- whatever module of the tree the host program imports first, afterwards everything that `import ioflo`
loads is in `sys.modules` -/
theorem first_import_has_root (m : Mod) (hm : m ∈ graph.domain) :
    PresMono rootState (importModule graph (fresh graph) m).1 := by
  have h1 := cold_via_root m hm
  unfold cold at h1
  rw [h1]
  exact importModule_mono graph rootState m

/-- **C01, any order, for the modules that `import ioflo` itself loads.**  Take ANY sequence of imports of
modules of the tree (any order, repetitions, modules that fail, modules outside this set in between): every
import of a module that `import ioflo` itself brings in succeeds.  Reason: the first import of the sequence,
whatever it is, runs the cold import of the root package first; an import never removes a module from
`sys.modules` (`importModule_mono`, generic); a module found there is returned as it is. -/
theorem C01_any_order_core_partial (ms : List Mod) (hdom : ∀ m ∈ ms, m ∈ graph.domain) :
    ∀ p ∈ ms.zip (importAll graph (fresh graph) ms).2, rootState.isPresent p.1 = true → p.2 = none := by
  cases ms with
  | nil => intro p hp; simp [importAll] at hp
  | cons m rest =>
    intro p hp hcore
    have hm := hdom m (List.mem_cons_self ..)
    simp only [importAll, List.zip_cons_cons, List.mem_cons] at hp
    rcases hp with rfl | hp
    · -- the first import itself
      have h1 := cold_via_root m hm
      unfold cold at h1
      show (importModule graph (fresh graph) m).2 = none
      rw [h1]
      exact congrArg Prod.snd (importChain_present graph rootState m hcore)
    · exact importAll_over graph rootState rest _ (first_import_has_root m hm) p hp hcore

/-- **C01, `import ioflo` first.**  After `import ioflo` every module of the tree outside the region of D01c
imports (this is the order `python -c "import ioflo; import m"`). -/
theorem C01_after_root_partial (m : Mod) (hm : m ∈ graph.domain) (hs : staleFrom graph m = false) :
    (importAll graph (fresh graph) [root, m]).2 = [none, none] := by
  have h0 : importModule graph (fresh graph) root = (rootState, none) := cold_root
  have h1 := cold_via_root m hm
  have h2 := C01_each_cold_partial m hm hs
  rw [h1] at h2
  simp only [importAll, h0]
  show [none, (importChain graph rootState (graph.chain m)).2] = [none, none]
  rw [show (importChain graph rootState (graph.chain m)).2 = none from h2]

theorem importAll_append (g : Graph) : ∀ (a b : List Mod) (s : State),
    importAll g s (a ++ b) =
      ((importAll g (importAll g s a).1 b).1, (importAll g s a).2 ++ (importAll g (importAll g s a).1 b).2)
  | [], b, s => by simp [importAll]
  | x :: a, b, s => by
    simp only [List.cons_append, importAll, importAll_append g a b, List.cons_append]

/-- **C01, the first module outside the core.**  After any sequence of imports of modules that `import ioflo`
itself loads (any order, repetitions), importing any further module of the tree outside D01c succeeds: the
state is still exactly `rootState`, from which the table was computed. -/
theorem C01_first_noncore_partial (pre : List Mod) (m : Mod)
    (hpre : ∀ x ∈ pre, x ∈ graph.domain ∧ rootState.isPresent x = true)
    (hm : m ∈ graph.domain) (hs : staleFrom graph m = false) :
    (importAll graph (fresh graph) (pre ++ [m])).2 = pre.map (fun _ => none) ++ [none] := by
  have hcold : (importChain graph rootState (graph.chain m)).2 = none := by
    have h1 := cold_via_root m hm
    have h2 := C01_each_cold_partial m hm hs
    rw [h1] at h2; exact h2
  rw [importAll_append]
  cases pre with
  | nil =>
    simp only [importAll, List.map_nil, List.nil_append]
    have h1 := cold_via_root m hm
    unfold cold at h1
    rw [h1]
    exact congrArg (fun x => [x]) hcold
  | cons p rest =>
    have hp := hpre p (List.mem_cons_self ..)
    have e1 : importModule graph (fresh graph) p = (rootState, none) := by
      have := cold_via_root p hp.1
      unfold cold at this
      rw [this]
      exact importChain_present graph rootState p hp.2
    have e2 := importAll_present graph rootState rest (fun x hx => (hpre x (List.mem_cons_of_mem _ hx)).2)
    have e3 : importAll graph (fresh graph) (p :: rest) = (rootState, none :: rest.map (fun _ => none)) := by
      simp only [importAll, e1, e2]
    rw [e3]
    simp only [importAll, List.map_cons, List.cons_append]
    show none :: (List.map (fun _ => none) rest ++ [(importChain graph rootState (graph.chain m)).2]) = _
    rw [hcold]

/-! ## ordered pairs -/

/-- the table of ordered pairs: for every module `a` the other modules of its package and the modules that
(transitively, as far as the import statements show) import `a` -/
def pairTable : List (Mod × List Mod) := pairChunks.flatten

theorem pair_table (p : Mod × List Mod) (hp : p ∈ pairTable) (hs : staleFrom graph p.1 = false)
    (hn : rootState.isPresent p.1 = false) :
    (importChain graph rootState (graph.chain p.1)).2 = none ∧
    ∀ m ∈ p.2, staleFrom graph m = false →
      (importChain graph (importChain graph rootState (graph.chain p.1)).1 (graph.chain m)).2 = none := by
  unfold pairTable at hp
  obtain ⟨c, hc, hpc⟩ := List.mem_flatten.mp hp
  obtain ⟨i, hi, rfl⟩ := List.getElem_of_mem hc
  have hk := chunk_all i (Nat.lt_of_lt_of_le hi pairChunks_le)
  have hget : pairChunks.getD i [] = pairChunks[i] := by
    rw [List.getD_eq_getElem?_getD, List.getElem?_eq_getElem hi]
    rfl
  rw [hget] at hk
  have := pairs_of_chunkOk graph root (staleFrom graph) _ _ hk p hpc hs
  unfold rootState at hn ⊢
  exact this hn

/-- importing from a fresh interpreter and from the state after `import ioflo` is the same for modules of the tree -/
theorem import_fresh_eq (x : Mod) (hx : x ∈ graph.domain) :
    importModule graph (fresh graph) x = importModule graph rootState x := by
  have h := cold_via_root x hx
  unfold cold at h
  rw [h]
  unfold rootState importModule
  rfl

theorem importAll_fresh_eq (x : Mod) (rest : List Mod) (hx : x ∈ graph.domain) :
    importAll graph (fresh graph) (x :: rest) = importAll graph rootState (x :: rest) := by
  simp only [importAll, import_fresh_eq x hx]

/-- the hypotheses of `importAll_two` at `rootState` for a pair of the table -/
theorem pair_both_orders (a m : Mod) (ha : a ∈ graph.domain) (hm : m ∈ graph.domain)
    (hsa : staleFrom graph a = false) (hsm : staleFrom graph m = false)
    (ham : ∃ ms, (a, ms) ∈ pairTable ∧ m ∈ ms) :
    (importModule graph rootState a).2 = none ∧
    (importModule graph (importModule graph rootState a).1 m).2 = none := by
  obtain ⟨ms, hp, hmm⟩ := ham
  have ca : (importModule graph rootState a).2 = none := by
    rw [← import_fresh_eq a ha]; exact C01_each_cold_partial a ha hsa
  refine ⟨ca, ?_⟩
  by_cases hpa : rootState.isPresent a = true
  · -- `a` is loaded by `import ioflo` itself: nothing happens, then `m` as from `rootState`
    rw [importModule_present graph rootState a hpa]
    rw [← import_fresh_eq m hm]; exact C01_each_cold_partial m hm hsm
  · have hpa' : rootState.isPresent a = false := by simpa using hpa
    exact (pair_table (a, ms) hp hsa hpa').2 m hmm hsm

/-- **C01, ordered pairs.**  For every pair `(a, m)` of the table (modules of the same package; `m` importing `a`)
outside D01c: `import a; import m` in a fresh interpreter succeeds. -/
theorem C01_pair_partial (a m : Mod) (ha : a ∈ graph.domain) (hm : m ∈ graph.domain)
    (hsa : staleFrom graph a = false) (hsm : staleFrom graph m = false)
    (ham : ∃ ms, (a, ms) ∈ pairTable ∧ m ∈ ms) :
    (importAll graph (fresh graph) [a, m]).2 = [none, none] := by
  have h := pair_both_orders a m ha hm hsa hsm ham
  rw [importAll_fresh_eq a [m] ha]
  simp only [importAll, h.1, h.2]

/-- **C01, any order over the core and two more modules.**  Let `a` and `m` be two modules of the tree outside D01c
that are related in both directions by the pair table (e.g. any two modules of one package).  Then in EVERY sequence
of imports made of `a`, `m` and modules that `import ioflo` itself loads — any order, any repetitions — every import
succeeds. -/
theorem C01_any_order_pair_partial (a m : Mod) (ha : a ∈ graph.domain) (hm : m ∈ graph.domain)
    (hsa : staleFrom graph a = false) (hsm : staleFrom graph m = false)
    (ham : ∃ ms, (a, ms) ∈ pairTable ∧ m ∈ ms) (hma : ∃ ms, (m, ms) ∈ pairTable ∧ a ∈ ms)
    (h : List Mod)
    (hh : ∀ x ∈ h, (x ∈ graph.domain ∧ rootState.isPresent x = true) ∨ x = a ∨ x = m) :
    ∀ e ∈ (importAll graph (fresh graph) h).2, e = none := by
  have h1 := pair_both_orders a m ha hm hsa hsm ham
  have h2 := pair_both_orders m a hm ha hsm hsa hma
  have key := importAll_two graph rootState (fun x => x ∈ graph.domain ∧ rootState.isPresent x = true) a m
    (fun x hx => hx.2) h1.1 h2.1 h1.2 h2.2 h hh
  cases h with
  | nil => intro e he; simp [importAll] at he
  | cons x rest =>
    have hx : x ∈ graph.domain := by
      rcases hh x (List.mem_cons_self ..) with h | rfl | rfl
      · exact h.1
      · exact ha
      · exact hm
    rw [importAll_fresh_eq x rest hx]
    exact key

/-- non-vacuity: the table is not empty, and e.g. relates modules in both directions -/
example : 100 < (pairTable.map (fun p => p.2.length)).sum := by decide +kernel

/-! ## the whole tree in one interpreter -/

/-- every module of the tree outside D01c, in the order of their names -/
def allSorted : List Mod := graph.domain.filter (fun m => !staleFrom graph m)

theorem sweep_from_fresh (ms : List Mod) (hne : ∀ x ∈ ms.head?, x ∈ graph.domain)
    (h : ∀ e ∈ (importAll graph rootState ms).2, e = none) :
    ∀ e ∈ (importAll graph (fresh graph) ms).2, e = none := by
  cases ms with
  | nil => intro e he; simp [importAll] at he
  | cons x rest =>
    rw [importAll_fresh_eq x rest (hne x (by simp))]
    exact h

/-- three further total orders of the same modules: reverse name order, order of the sha1 of the names, order of
the reversed names -/
def otherOrders : List (List Mod) :=
  [allSorted.reverse, (sweepOrders.getD 0 []).filter (fun m => !staleFrom graph m),
   (sweepOrders.getD 1 []).filter (fun m => !staleFrom graph m)]

theorem sweeps_table : ∀ o ∈ otherOrders, sweepsAgree graph root allSorted o = true := by
  intro o ho
  simp only [otherOrders, List.mem_cons, List.mem_nil_iff, or_false] at ho
  rcases ho with rfl | rfl | rfl
  · exact sweeps_agree2
  · exact sweeps_agree3
  · exact sweeps_agree4

set_option maxRecDepth 100000 in
theorem otherOrders_heads : ∀ o ∈ otherOrders.drop 1, ∀ x ∈ o.head?, x ∈ graph.domain := by decide +kernel

theorem otherOrders_domain : ∀ o ∈ otherOrders, ∀ x ∈ o.head?, x ∈ graph.domain := by
  intro o ho x hx
  simp only [otherOrders, List.mem_cons, List.mem_nil_iff, or_false] at ho
  rcases ho with rfl | h2 | h3
  · have := List.mem_reverse.mp (List.mem_of_mem_head? hx)
    unfold allSorted at this
    exact (List.mem_filter.mp this).1
  · exact otherOrders_heads o (by subst h2; simp [otherOrders]) x hx
  · exact otherOrders_heads o (by subst h3; simp [otherOrders]) x hx

/-- **C01, the whole tree.**  Importing every module of the tree (outside D01c) into one fresh interpreter, one
after the other, succeeds for every module — in the order of their names and in three other total orders
(reverse, by the sha1 of the name, by the reversed name). -/
theorem C01_whole_tree_partial :
    (∀ e ∈ (importAll graph (fresh graph) allSorted).2, e = none) ∧
    ∀ o ∈ otherOrders, ∀ e ∈ (importAll graph (fresh graph) o).2, e = none := by
  have hdom : ∀ x ∈ allSorted, x ∈ graph.domain := by
    intro x hx
    unfold allSorted at hx
    exact (List.mem_filter.mp hx).1
  constructor
  · apply sweep_from_fresh
    · intro x hx
      exact hdom x (List.mem_of_mem_head? hx)
    · exact all_of_sweepOk graph root _ sweep0
  · intro o ho
    apply sweep_from_fresh
    · intro x hx
      exact otherOrders_domain o ho x hx
    · exact (of_sweepsAgree graph root allSorted o (sweeps_table o ho)).1

/-- **C01, the result of importing everything does not depend on the order.**  The four total orders above end in
the same interpreter state: the same modules are loaded and finished, and in every module the same names are
bound, to the same modules.  (Kernel evaluation of the sweeps; states compared matrix by matrix.) -/
theorem C01_sweeps_same_state_partial (o : List Mod) (ho : o ∈ otherOrders) :
    let a := (importAll graph rootState allSorted).1
    let b := (importAll graph rootState o).1
    (∀ x, a.isPresent x = b.isPresent x) ∧ (∀ x, a.isDone x = b.isDone x) ∧
    (∀ x k, a.bound graph x k = b.bound graph x k) ∧ (∀ x k, a.val graph x k = b.val graph x k) :=
  sameNs_val graph _ _ (of_sweepsAgree graph root allSorted o (sweeps_table o ho)).2

/-! ## optional third-party modules -/

/-- the optional modules of the tree (`import X` directly inside a `try` that has handlers, `X` not part of the
tree), each with the modules of the tree that try to import it -/
def optionalSites : List (Mod × List Mod) := optChunks.flatten

theorem optChunks_le : optChunks.length ≤ 4 := by decide

theorem opt_table (p : Mod × List Mod) (hp : p ∈ optionalSites) :
    optOk graph root (staleFrom graph) p = true := by
  unfold optionalSites at hp
  obtain ⟨c, hc, hpc⟩ := List.mem_flatten.mp hp
  obtain ⟨i, hi, rfl⟩ := List.getElem_of_mem hc
  have hi4 : i < 4 := Nat.lt_of_lt_of_le hi optChunks_le
  have hget : optChunks.getD i [] = optChunks[i] := by
    rw [List.getD_eq_getElem?_getD, List.getElem?_eq_getElem hi]
    rfl
  have hall : (optChunks.getD i []).all (optOk graph root (staleFrom graph)) = true := by
    match i, hi4 with
    | 0, _ => exact optChunk0
    | 1, _ => exact optChunk1
    | 2, _ => exact optChunk2
    | 3, _ => exact optChunk3
  rw [hget] at hall
  exact List.all_eq_true.mp hall p hpc

/-- **C01, an optional import never fails the importing module.**  For every optional third-party module `x` of the
tree and every module `m` (outside D01c) that tries to import it inside a `try`: `m` imports in a fresh interpreter
on a host where `x` is absent, where `x` imports fine, where `x` is installed but raises ImportError, and where `x`
raises ModuleNotFoundError for one of its own dependencies.  (The handlers' exception classes come from the source:
narrowing `except ImportError` to `except ModuleNotFoundError` makes the third variant fail and this table false.) -/
theorem C01_optional_import_partial (p : Mod × List Mod) (hp : p ∈ optionalSites)
    (k : OptKind) (hk : k ∈ optKinds graph p.1) (m : Mod) (hm : m ∈ p.2) (hs : staleFrom graph m = false) :
    (cold (graph.withOpt p.1 k) m).2 = none :=
  cold_of_optOk graph root (staleFrom graph) p (opt_table p hp) k hk m hm hs

/-- non-vacuity: there are optional sites, and every one has at least three host variants -/
example : 0 < optionalSites.length ∧ optionalSites.all (fun p => 3 ≤ (optKinds graph p.1).length && 0 < p.2.length) = true := by
  decide +kernel

/-! ## namespaces of finished modules are stable -/

attribute [irreducible] rootState

theorem import_root : importModule graph (fresh graph) root = (rootState, none) := by
  have h := cold_root
  unfold cold at h
  exact h

theorem rootState_wf : WF rootState := by
  have h := (importModule_frame graph (fresh graph) root (fresh_wf graph)).wf
  rw [import_root] at h
  exact h

/-- **C01, what earlier imports can change.**  Start from any state in which every finished module is in
`sys.modules` (for instance a newly started interpreter, or the state after `import ioflo`) and execute ANY
sequence of imports (modules of the tree or not, succeeding or failing).  Then, for every module `x` that had
finished initialising before: `x` is still in `sys.modules` and still finished, and every name `k` of its
namespace is bound exactly as before — unless `k` is the name of a sub-module of `x` that has been loaded
meanwhile, in which case `k` is now bound to that sub-module.  (Instance of the generic `importAll_frame`.)
This is why a later import can only depend on earlier ones through sub-module attributes of packages. -/
theorem C01_finished_namespaces_stable (s : State) (hwf : WF s) (ms : List Mod) (x : Mod)
    (hp : s.isPresent x = true) (hd : s.isDone x = true) :
    (importAll graph s ms).1.isPresent x = true ∧ (importAll graph s ms).1.isDone x = true ∧
    ∀ k, CellOK graph s (importAll graph s ms).1 x k := by
  have f := importAll_frame graph ms s hwf
  exact ⟨f.mono x hp, by rw [f.done x hp]; exact hd, f.cells x hp hd⟩

/-- non-vacuity: the fresh interpreter and the state after `import ioflo` satisfy the hypothesis -/
example : WF (fresh graph) ∧ WF rootState := ⟨fresh_wf graph, rootState_wf⟩

/-- **C01, once imported, always importable** (generic lemma `importModule_again` on this graph): after a
successful import of `m` in any state and any further imports, importing `m` again succeeds. -/
theorem C01_reimport (s : State) (m : Mod) (ms : List Mod) (h : (importModule graph s m).2 = none) :
    (importModule graph (importAll graph (importModule graph s m).1 ms).1 m).2 = none := by
  rw [importModule_again graph s m ms h]

set_option maxRecDepth 1000000 in
/-- non-vacuity: the hypothesis covers the package itself and the modules it pulls in (55 of the 150 module
files on the tree this was written for; the bound is kept loose so that a harmless refactoring does not break it) -/
example : 10 < (graph.domain.filter (fun m => rootState.isPresent m)).length := by decide +kernel

end Ioflo.Imports
