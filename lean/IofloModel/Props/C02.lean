import IofloModel.Lemmas.SkedTime
import IofloModel.Model.SkedF64
/-!
# C02 — the scheduler runs each due tasker once per tick, on its period, in declared order

Property theorems only. Model: `Model/Sked.lean` (`Skedder.run`, generic over the time type `τ` and
over the tasker environment `E`). The first group of theorems holds for every time type (so also
for binary64) and every environment; the timing theorems are over exact time (`Rat`).
-/
namespace Ioflo.Sked
open scoped List

variable {τ ω : Type} [TimeLike τ]

/-! ## the prologue: `ready` starts as the declared order, every entry due at the start stamp -/

theorem C02_start_declared_order (E : Env τ ω) (period stamp : τ) (houses : List House) (w : ω) :
    ids (start E period stamp houses w).ready = houses.flatMap (fun h => h.fronts ++ h.mids ++ h.backs) ∧
    ∀ e ∈ (start E period stamp houses w).ready, e.retime = TimeLike.abs stamp := by
  have h := start_fields E period stamp houses w
  exact ⟨h.1, h.2.2.2.2.2.2⟩

/-! ## one pass -/

/-- **One pass sends to a sublist of the deque, front to back**: the sends of a pass (`N`) are to
ids that form a sublist of the ids in `ready` when the pass began — so each entry is visited at most
once and in deque order — and when the pass completes the new deque is again a sublist of the old
one (entries re-appended in the same relative order, ended taskers removed). -/
theorem C02_pass_sublist (E : Env τ ω) (s : St τ ω) :
    (∃ N, (tick E s).state.events = s.events ++ N ∧ N.map (·.id) <+ ids s.ready ∧
      ∀ ev ∈ N, ev.phase = .loop ∧ ev.tick = s.tick) ∧
    (∀ s2, tick E s = .next s2 → ids s2.ready <+ ids s.ready) := by
  obtain ⟨done, todo, s1, hsplit, hproc, hr, he, _, _, _, hnext, _⟩ := tick_proc E s
  have hspec := hproc.spec todo hsplit
  obtain ⟨N, hN, hNs, hNp⟩ := hspec.events
  obtain ⟨K, hK, hKs⟩ := hspec.ready
  have hdone : ids done <+ ids s.ready := by
    rw [hsplit, ids_append]; exact List.sublist_append_left _ _
  refine ⟨⟨N, by rw [he, hN], hNs.trans hdone, hNp⟩, ?_⟩
  intro s2 ht
  obtain ⟨htodo, hs2⟩ := hnext s2 ht
  subst hs2
  show ids s1.ready <+ ids s.ready
  rw [hK, htodo]; simpa using hKs.trans hdone

/-! ## every pass of a whole run -/

/-- **Declared order.** In every pass `n` of `Skedder.run` (any fuel, any environment, any time type),
the ids sent to form a sublist of the declared order `fronts ++ mids ++ backs` (house by house). -/
theorem C02_declared_order (E : Env τ ω) (period stamp : τ) (houses : List House) (w : ω)
    (fuel n : Nat) :
    (passEvents n (run E fuel (start E period stamp houses w)).2.events).map (·.id) <+ declared houses := by
  rw [run_events_passEvents]
  have h := start_fields E period stamp houses w
  apply runLoop_order E (declared houses) fuel
  refine ⟨by rw [h.1]; exact List.Sublist.refl _, ?_, ?_⟩
  · rw [h.2.1]; simp
  · rw [h.2.1]; simp [passEvents]

/-- **At most once per pass.** If no tasker is declared twice, no tasker is sent to twice in a pass. -/
theorem C02_runs_once (E : Env τ ω) (period stamp : τ) (houses : List House) (w : ω)
    (fuel n : Nat) (hnd : (declared houses).Nodup) :
    ((passEvents n (run E fuel (start E period stamp houses w)).2.events).map (·.id)).Nodup :=
  (C02_declared_order E period stamp houses w fuel n).nodup hnd

/-- **An ended tasker never runs again.** In the whole event sequence of a run (main loop and abort
sweep), after a send whose result was status ABORTED, `StopIteration` or an exception, no later send
goes to the same tasker. -/
theorem C02_aborted_never_runs (E : Env τ ω) (period stamp : τ) (houses : List House) (w : ω)
    (fuel : Nat) (hnd : (declared houses).Nodup)
    (a b : List (Event τ)) (e : Event τ)
    (hsplit : (run E fuel (start E period stamp houses w)).2.events = a ++ e :: b)
    (hend : e.result.terminal = true) : ∀ e' ∈ b, e'.id ≠ e.id := by
  have h := start_fields E period stamp houses w
  have hg : Good (start E period stamp houses w) := by
    refine ⟨by rw [h.1]; exact hnd, ?_, ?_⟩
    · rw [h.2.1]; simp
    · unfold NoRerun; rw [h.2.1]; simp
  have := (run_good E fuel _ hg).norerun
  unfold NoRerun at this
  rw [hsplit, List.pairwise_append] at this
  have h2 := this.2.1
  rw [List.pairwise_cons] at h2
  intro e' he'
  exact h2.1 e' he' hend

/-! ## running the same scheduler again -/

/-- **Every later run of the same scheduler starts from the declared order again.** After a `run()` (not cut by
the model's fuel) — however it ended: normally, by `KeyboardInterrupt`, by an exception in the loop or in the
abort sweep — the deque is empty (`ready.clear()`, fix D03a); so the next `run()` on the same `Skedder` (any
state `w` of the taskers, e.g. after `remake()`) starts with exactly one entry per declared tasker, in
`fronts + mids + backs` order, each due at the current stamp. -/
theorem C02_rerun_starts_declared (E : Env τ ω) (houses : List House) (fuel : Nat) (s : St τ ω) (w : ω)
    (hne : (runLoop E fuel s).1 ≠ .fuel) :
    (run E fuel s).2.ready = [] ∧
    ids (restart E houses (run E fuel s).2 w).ready = declared houses ∧
    (∀ e ∈ (restart E houses (run E fuel s).2 w).ready, e.retime = (run E fuel s).2.stamp) ∧
    (restart E houses (run E fuel s).2 w).events = [] := by
  have hemp := run_ready_empty E fuel s hne
  have hf := restart_fields E houses (run E fuel s).2 w
  refine ⟨hemp, by rw [hf.1, hemp]; simp, ?_, hf.2.1⟩
  intro e he
  rcases hf.2.2.2.2.2.2 e he with h | h
  · rw [hemp] at h; simp at h
  · exact h

/-- **… and in that run, too, every pass sends to a sublist of the declared order, each tasker at most
once, and never again after it ended** (`s` is any earlier state of the scheduler, so this covers the
third, fourth, … run as well). -/
theorem C02_rerun_order_once (E : Env τ ω) (houses : List House) (fuel fuel2 n : Nat) (s : St τ ω) (w : ω)
    (hne : (runLoop E fuel s).1 ≠ .fuel) (hnd : (declared houses).Nodup) :
    let s2 := restart E houses (run E fuel s).2 w
    (passEvents n (run E fuel2 s2).2.events).map (·.id) <+ declared houses ∧
    ((passEvents n (run E fuel2 s2).2.events).map (·.id)).Nodup ∧
    NoRerun (run E fuel2 s2).2.events := by
  obtain ⟨_, h2, _, h4⟩ := C02_rerun_starts_declared E houses fuel s w hne
  have hsub := declared_order_from E (declared houses) _ h2 h4 fuel2 n
  refine ⟨hsub, hsub.nodup hnd, ?_⟩
  have hg : Good (restart E houses (run E fuel s).2 w) := by
    refine ⟨by rw [h2]; exact hnd, ?_, ?_⟩
    · rw [h4]; simp
    · unfold NoRerun; rw [h4]; simp
  exact (run_good E fuel2 _ hg).norerun

/-- two taskers stopped in pass 2; the first one's generator raises when the sweep resumes it with ABORT -/
def rerunWitness : Config Rat :=
  { period := 1/8, stamp := 0, houses := [{ fronts := [0], mids := [1], backs := [] }],
    taskers := [
      { active := true, period := 0, script := [(3, [.raise (.exception "RuntimeError")])] },
      { active := true, period := 0, tail := some (1, [.bid [0, 1] .stop none]) }] }

/-- non-vacuity, and the repaired behaviour on the witness of D03a: tasker 0's ABORT handler raises in the sweep
of the first run, tasker 1 is aborted all the same, the deque is empty, the exception leaves `run`; in the second
run (both re-made) pass 0 sends to 0 then 1, once each -/
example :
    (rerunWitness.runAll 50 [[0, 1]]).map (fun r => (r.1, ids r.2.ready,
      (r.2.events.filter (·.phase = .final)).map (·.id), (passEvents 0 r.2.events).map (·.id))) =
      [(.raised (.exception "RuntimeError"), [], [0, 1], [0, 1]),
       (.raised (.exception "RuntimeError"), [], [0, 1], [0, 1])] := by
  decide +kernel

/-- **Before the repair (finding D03a)**: with the old `finally:` clause (`runOld`) the sweep of that run stops at
tasker 0's exception and tasker 1 stays in the deque — a second `run()` would then find two entries for it. -/
theorem C02_old_sweep_left_stale_entries :
    ids (runOld ScriptEnv 50 (start ScriptEnv rerunWitness.period rerunWitness.stamp rerunWitness.houses
      rerunWitness.taskers)).2.ready = [1] := by
  decide +kernel

/-! ## timing (exact time)

Setting of the timing theorems: `s0` is any scheduler state (in particular the one produced by
`start`, see `C02_from_start`), `e0 ∈ s0.ready` is the tasker's entry `(id, retime, period)`,
`stateAt E n s0 = some s` says that the main loop reaches pass `n` and `s` is the state at its start,
`evOf e0.id s.events` are the sends to the tasker before pass `n`; the time of pass `n` is
`s0.stamp + n * s0.P`. -/

section timing
variable {ω : Type} (E : Env Rat ω) (s0 : St Rat ω) (e0 : Entry Rat)
  (hnd : (ids s0.ready).Nodup) (he0 : e0 ∈ s0.ready) (h0 : evOf e0.id s0.events = [])
include hnd he0 h0

/-- **A tasker runs in a pass iff it is due.** Its due time is its first `retime` plus the periods
read right after each of its earlier runs. In pass `n` (time `s0.stamp + n·P`) a tasker that has not
ended is sent to exactly once if that time has reached the due time, and not at all otherwise. -/
theorem C02_runs_iff_due (n : Nat) (s : St Rat ω) (hs : stateAt E n s0 = some s)
    (halive : ∀ ev ∈ evOf e0.id s.events, ev.result.terminal = false)
    (s1 : St Rat ω) (m : Bool) (hpass : forLoop E s.ready.length s false = .ok s1 m) :
    (dueTime e0 s.events ≤ s0.stamp + n * s0.P →
      ∃ ev, evOf e0.id s1.events = evOf e0.id s.events ++ [ev] ∧ ev.phase = .loop ∧ ev.tick = s0.tick + n) ∧
    (¬ dueTime e0 s.events ≤ s0.stamp + n * s0.P → evOf e0.id s1.events = evOf e0.id s.events) := by
  have hc := chain_inv E s0 e0 hnd he0 h0 n s hs
  have pd := pass_due hc halive hpass
  refine ⟨fun h => ?_, fun h => (pd.2 h).1⟩
  obtain ⟨ev, h1, _, h3, h4, _⟩ := pd.1 h
  exact ⟨ev, h1, h3, h4⟩

/-- **A period changed by a bid applies from the next reschedule.** When the tasker runs, the entry put
back into the deque is `(id, old retime + p', p')` where `p'` is `tasker.period` as read right after
that run (so including every bid made up to and during the run); when it is not due, its entry —
retime and all — is left as it is, whatever happened to `tasker.period` meanwhile. -/
theorem C02_period_change_next_reschedule (n : Nat) (s : St Rat ω) (hs : stateAt E n s0 = some s)
    (halive : ∀ ev ∈ evOf e0.id s.events, ev.result.terminal = false)
    (s1 : St Rat ω) (m : Bool) (hpass : forLoop E s.ready.length s false = .ok s1 m) :
    (dueTime e0 s.events ≤ s0.stamp + n * s0.P →
      ∃ ev, evOf e0.id s1.events = evOf e0.id s.events ++ [ev] ∧
        (ev.result.terminal = false →
          (⟨e0.id, dueTime e0 s.events + ev.periodAfter, ev.periodAfter⟩ : Entry Rat) ∈ s1.ready)) ∧
    (¬ dueTime e0 s.events ≤ s0.stamp + n * s0.P →
      ∃ p, (⟨e0.id, dueTime e0 s.events, p⟩ : Entry Rat) ∈ s1.ready) := by
  have hc := chain_inv E s0 e0 hnd he0 h0 n s hs
  have pd := pass_due hc halive hpass
  refine ⟨fun h => ?_, fun h => (pd.2 h).2⟩
  obtain ⟨ev, h1, _, _, _, _, h6⟩ := pd.1 h
  exact ⟨ev, h1, h6⟩

/-- **The k-th run.** Constant period `p`, the tasker has run `k` times before pass `n` and runs in
pass `n` (its run number `k`, counting from 0). Then the time of pass `n` has reached
`retime₀ + k·p`, and no pass `m < n` that comes after the previous run had: pass `n` is the first
pass after run `k-1` whose time is at least `retime₀ + k·p`. -/
theorem C02_kth_run (p : Rat) (n : Nat) (s : St Rat ω) (hs : stateAt E n s0 = some s)
    (halive : ∀ ev ∈ evOf e0.id s.events, ev.result.terminal = false)
    (hp : ∀ ev ∈ evOf e0.id s.events, ev.periodAfter = p)
    (s1 : St Rat ω) (mo : Bool) (hpass : forLoop E s.ready.length s false = .ok s1 mo)
    (k : Nat) (hk : (evOf e0.id s.events).length = k)
    (hrun : (evOf e0.id s1.events).length = k + 1) :
    e0.retime + k * p ≤ s0.stamp + n * s0.P ∧
    ∀ (m : Nat) (sm : St Rat ω), m < n → stateAt E m s0 = some sm →
      (evOf e0.id sm.events).length = k → s0.stamp + m * s0.P < e0.retime + k * p := by
  have hdue : dueTime e0 s.events = e0.retime + k * p := by rw [dueTime_const e0 _ p hp, hk]
  have h := C02_runs_iff_due E s0 e0 hnd he0 h0 n s hs halive s1 mo hpass
  refine ⟨?_, ?_⟩
  · apply Classical.byContradiction; intro hc
    rw [← hdue] at hc
    have := h.2 hc
    rw [this, hk] at hrun; omega
  · intro m sm hm hsm hkm
    -- pass `m` completed and led to the start of pass `m+1 ≤ n`
    obtain ⟨sm1, hsm1, r1, hr1⟩ := stateAt_le E s0 n s hs (m+1) (by omega)
    obtain ⟨sm', hsm', ht⟩ := stateAt_succ hsm1
    rw [hsm] at hsm'
    simp only [Option.some.injEq] at hsm'
    subst hsm'
    obtain ⟨s1m, mm, hpassm, hadv⟩ := tick_next_forLoop ht
    have hsame : evOf e0.id sm.events = evOf e0.id s.events := by
      obtain ⟨sm2, hsm2, r2, hr2⟩ := stateAt_le E s0 n s hs m (by omega)
      rw [hsm] at hsm2
      simp only [Option.some.injEq] at hsm2
      subst hsm2
      exact evOf_prefix_eq hr2 (by rw [hkm, hk])
    have halivem : ∀ ev ∈ evOf e0.id sm.events, ev.result.terminal = false := by
      rw [hsame]; exact halive
    have hm' := C02_runs_iff_due E s0 e0 hnd he0 h0 m sm hsm halivem s1m mm hpassm
    have hduem : dueTime e0 sm.events = e0.retime + k * p := by
      simp only [dueTime, hsame] at hdue ⊢; exact hdue
    apply Classical.byContradiction; intro hc
    have hle : dueTime e0 sm.events ≤ s0.stamp + m * s0.P := by rw [hduem]; exact Rat.not_lt.mp hc
    obtain ⟨ev, hev, _⟩ := hm'.1 hle
    -- then the tasker would have `k+1` sends before pass `m+1 ≤ n`
    have hlen : (evOf e0.id sm1.events).length = k + 1 := by
      subst hadv
      show (evOf e0.id s1m.events).length = k + 1
      rw [hev, List.length_append, hkm]; rfl
    have : (evOf e0.id sm1.events).length ≤ (evOf e0.id s.events).length := by
      rw [hr1, evOf_append, List.length_append]; omega
    omega

/-- **Every tick when the period does not exceed the tick period.** With constant period `p ≤ P`
(`0 ≤ P`) and first due time not after the start stamp, the tasker is sent to in every pass. -/
theorem C02_every_tick_when_p_le_P (p : Rat) (hpP : p ≤ s0.P) (hP : 0 ≤ s0.P) (hr0 : e0.retime ≤ s0.stamp)
    (n : Nat) (s : St Rat ω) (hs : stateAt E n s0 = some s)
    (halive : ∀ ev ∈ evOf e0.id s.events, ev.result.terminal = false)
    (hp : ∀ ev ∈ evOf e0.id s.events, ev.periodAfter = p)
    (s1 : St Rat ω) (m : Bool) (hpass : forLoop E s.ready.length s false = .ok s1 m) :
    ∃ ev, evOf e0.id s1.events = evOf e0.id s.events ++ [ev] ∧ ev.phase = .loop ∧ ev.tick = s0.tick + n := by
  apply (C02_runs_iff_due E s0 e0 hnd he0 h0 n s hs halive s1 m hpass).1
  rw [dueTime_const e0 _ p hp]
  have hk := (chain_count E s0 e0.id hnd h0 n s hs).1
  have hk' : ((evOf e0.id s.events).length : Rat) ≤ n := Rat.natCast_le_natCast.mpr hk
  have h0' : (0 : Rat) ≤ ((evOf e0.id s.events).length : Rat) :=
    Rat.natCast_le_natCast (a := 0).mpr (Nat.zero_le _)
  have h1 : ((evOf e0.id s.events).length : Rat) * p ≤ (evOf e0.id s.events).length * s0.P :=
    Rat.mul_le_mul_of_nonneg_left hpP h0'
  have h2 : ((evOf e0.id s.events).length : Rat) * s0.P ≤ n * s0.P :=
    Rat.mul_le_mul_of_nonneg_right hk' hP
  grind

end timing

/-- the timing theorems apply to a run begun by `start`: distinct declared ids, no events yet, and
every entry first due at the start stamp `|stamp|`, which is also the time of pass 0 -/
theorem C02_from_start {ω : Type} (E : Env Rat ω) (period stamp : Rat) (houses : List House) (w : ω)
    (hnd : (declared houses).Nodup) :
    let s0 := start E period stamp houses w
    (ids s0.ready).Nodup ∧ s0.events = [] ∧ s0.tick = 0 ∧
    s0.stamp = (if stamp < 0 then -stamp else stamp) ∧ s0.P = (if period < 0 then -period else period) ∧
    ∀ e ∈ s0.ready, e.retime = s0.stamp := by
  have h := start_fields E period stamp houses w
  obtain ⟨a1, a2, a3, a4, a5, a6, a7⟩ := h
  refine ⟨by rw [a1]; exact hnd, a2, a3, a4, a6, ?_⟩
  intro e he
  rw [a7 e he, a4]

/-! ## non-vacuity: three taskers with periods 0, P, 3P/2 (P = 1/8), declared front, mid, back;
each stops itself at its 4th send -/

def demo : Config Rat :=
  { period := 1/8, stamp := 0,
    houses := [{ fronts := [2], mids := [0], backs := [1] }],
    taskers := [
      { active := true, period := 0, tail := some (3, [.bid [0] .stop none]) },
      { active := true, period := 1/8, tail := some (3, [.bid [1] .stop none]) },
      { active := true, period := 3/16, tail := some (3, [.bid [2] .stop none]) }] }

/-- tasker 2 (period 3P/2) is sent to in passes 0, 2, 3, 5, 6; taskers 0 and 1 in every pass; order 2,0,1;
the abort sweep reaches all three once -/
example : ((demo.run 50).2.events.filter (·.phase = .loop)).map (fun e => (e.tick, e.id)) =
    [(0,2),(0,0),(0,1), (1,0),(1,1), (2,2),(2,0),(2,1), (3,2),(3,0),(3,1), (4,0),(4,1), (5,2),(5,0),(5,1),
     (6,2),(6,0),(6,1)] ∧
    ((demo.run 50).2.events.filter (·.phase = .final)).map (fun e => (e.tick, e.id)) = [(6,2),(6,0),(6,1)] := by
  decide +kernel

example : (declared demo.houses).Nodup := by decide

def demoStart : St Rat (World Rat) :=
  start ScriptEnv demo.period demo.stamp demo.houses demo.taskers

/-- non-vacuity of the timing theorems (`C02_runs_iff_due`, `C02_kth_run`,
`C02_period_change_next_reschedule`): in the demo run the hypotheses hold for tasker 2
(period 3/16, tick period 1/8) at pass `n = 3`: it is in `ready` from the start with `retime = 0`,
pass 3 is reached, before it the tasker ran twice (`k = 2`, passes 0 and 2) without ending and with
period 3/16 read each time, pass 3 completes, and the tasker runs in it
(3/8 = 0 + 2·(3/16) ≤ 0 + 3·(1/8)); pass 1 was reached with one earlier run and did not run it. -/
example :
    (ids demoStart.ready).Nodup ∧ (∃ e ∈ demoStart.ready, e.id = 2 ∧ e.retime = 0) ∧ evOf 2 demoStart.events = [] ∧
    ∃ s, stateAt ScriptEnv 3 demoStart = some s ∧
      (evOf 2 s.events).length = 2 ∧
      (∀ ev ∈ evOf 2 s.events, ev.result.terminal = false ∧ ev.periodAfter = 3/16) ∧
      ∃ s1 m, forLoop ScriptEnv s.ready.length s false = .ok s1 m ∧ (evOf 2 s1.events).length = 3 := by
  refine ⟨by decide +kernel, by decide +kernel, by decide +kernel, ?_⟩
  have h : (match stateAt ScriptEnv 3 demoStart with
      | some s => decide ((evOf 2 s.events).length = 2) &&
          (evOf 2 s.events).all (fun ev => !ev.result.terminal && decide (ev.periodAfter = 3/16)) &&
          (match forLoop ScriptEnv s.ready.length s false with
           | .ok s1 _ => decide ((evOf 2 s1.events).length = 3)
           | .exc _ _ => false)
      | none => false) = true := by decide +kernel
  split at h
  · rename_i s hs
    simp only [Bool.and_eq_true, decide_eq_true_eq, List.all_eq_true, Bool.not_eq_true'] at h
    obtain ⟨⟨h1, h2⟩, h3⟩ := h
    refine ⟨s, hs, h1, h2, ?_⟩
    split at h3
    · rename_i s1 m hf
      exact ⟨s1, m, hf, by simpa using h3⟩
    · simp at h3
  · simp at h

/-- … and tasker 0 (period 0 ≤ P) is sent to in every pass (`C02_every_tick_when_p_le_P`) -/
example : ((demo.run 50).2.events.filter (fun e => e.phase = .loop ∧ e.id = 0)).map (·.tick) = [0,1,2,3,4,5,6] := by
  decide +kernel

/-! ## binary64 time (finding D2)

The property is stated over real time "including decimal periods such as 0.1", the code computes
with binary64. `F64` is binary64 addition/comparison on finite values as a kernel-evaluable
function (`Model/SkedF64.lean`; the check runs it next to the hardware `Float` and CPython on every
decimal case). -/

/-- The property at full strength for binary64 time: every configuration, with its numbers rounded
to binary64, runs exactly like the same configuration in exact arithmetic (same outcome, and in
every pass the same controls to the same taskers with the same results) — so that the exact
timing theorems above would describe the running code. -/
def C02_full_binary64 : Prop :=
  ∀ (c : Config Rat) (fuel : Nat), c.wellFormed = true → floatDrift c.toF64 c fuel = false

/-- tick period 0.1, one tasker of period 0.2 that stops itself at its 5th send -/
def decimalWitness : Config Rat :=
  { period := 1/10, stamp := 0, houses := [{ fronts := [0], mids := [], backs := [] }],
    taskers := [{ active := true, period := 1/5, tail := some (4, [.bid [0] .stop none]) }] }

/-- **Counterexample (D2).** In binary64 the witness's tasker is sent to in passes 0, 2, 4, 7, 9, 11;
exactly (and by `C02_kth_run`) it is due in passes 0, 2, 4, 6, 8, 10: `0.2+0.2+0.2 > 0.1+…+0.1`. -/
theorem C02_counterexample_decimal_passes :
    ((decimalWitness.toF64.run 50).2.events.filter (·.phase = .loop)).map (·.tick) = [0, 2, 4, 7, 9, 11] ∧
    ((decimalWitness.run 50).2.events.filter (·.phase = .loop)).map (·.tick) = [0, 2, 4, 6, 8, 10] := by
  decide +kernel

theorem C02_counterexample_decimal : ¬ C02_full_binary64 := by
  intro h
  have := h decimalWitness 50 (by decide +kernel)
  revert this
  decide +kernel

/-- **Partial (outside the region of D2).** For any time type (hardware `Float`, `F64`, …): if the
decidable predicate `floatDrift cf cx fuel` is false — the harness evaluates this very predicate to
attribute a failing decimal case to D2 — the run over that time type has the outcome of the exact
run and, event by event, the same phase, pass number, tasker, control and result; so every statement
of this file about passes, order and due passes of the exact run `cx` holds of the run `cf`. -/
theorem C02_kth_run_float_partial {τ : Type} [TimeLike τ] (cf : Config τ) (cx : Config Rat) (fuel : Nat)
    (h : floatDrift cf cx fuel = false) :
    (cf.run fuel).1 = (cx.run fuel).1 ∧
    (cf.run fuel).2.events.map Event.shape = (cx.run fuel).2.events.map Event.shape := by
  simpa [floatDrift] using h

/-- tick period 1/8, one tasker of period 1/4 -/
def dyadicWitness : Config Rat :=
  { period := 1/8, stamp := 0, houses := [{ fronts := [0], mids := [], backs := [] }],
    taskers := [{ active := true, period := 1/4, tail := some (4, [.bid [0] .stop none]) }] }

/-- non-vacuity of the partial theorem: a dyadic grid does not drift -/
example : floatDrift dyadicWitness.toF64 dyadicWitness 50 = false := by decide +kernel

end Ioflo.Sked
