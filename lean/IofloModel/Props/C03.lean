import IofloModel.Lemmas.Sked
import IofloModel.Lemmas.SkedLoop
/-!
# C03 — the scheduler stops when nothing runs and aborts every remaining tasker

Property theorems only. Part 1 is about the generic model of `Skedder.run` (`Model/Sked.lean`): any
time type, any tasker environment `E` (every way a `send` can end — status, `StopIteration`, any
exception — and an exception at the pass boundary are results of `E`, so "every crash point" is the
universal quantifier over `E`). Part 2 is about the concrete framers of `Model/SkedLoop.lean`.
-/
namespace Ioflo.Sked
open scoped List

variable {τ ω : Type} [TimeLike τ]

/-! ## when the loop goes on -/

/-- **`more`**: after a completed pass the flag that keeps the loop going is true exactly when some
tasker that was in the deque at the start of the pass is STARTED or RUNNING at the end of the pass
(for a tasker that was not due this is its cached status). `StatusFaithful E W`: on the worlds `W`
the environment can be in, the status attribute is what the tasker last yielded and only its own run
changes it (`C03_loopEnv_faithful` for the framers of part 2). -/
theorem C03_more_iff_live {E : Env τ ω} {W : ω → Prop} (hf : StatusFaithful E W) (s s' : St τ ω) (more' : Bool)
    (hW : W s.world) (hnd : (ids s.ready).Nodup) (h : forLoop E s.ready.length s false = .ok s' more') :
    more' = s.ready.any (fun e => (E.status s'.world e.id).live) := by
  have := (forLoop_more hf s.ready [] s s' false more' hW (by simp) hnd h).2.1
  simpa using this

/-- **How a pass can end**, exhaustively: (1) it goes on to the next pass only if the deque is not empty
and a scheduled tasker is started or running; (2) it ends the run "no running or started taskers"
exactly when the deque is not empty and none is; (3) "no ready taskers" when the deque is empty;
(4) otherwise an exception came out of a send to a due tasker, or was delivered at the boundary after
a pass that would have gone on; `KeyboardInterrupt` ends the loop without error, anything else is
re-raised. -/
theorem C03_tick_ending {E : Env τ ω} {W : ω → Prop} (hf : StatusFaithful E W) (s : St τ ω) (hW : W s.world)
    (hnd : (ids s.ready).Nodup) :
    (∀ s2, tick E s = .next s2 →
      s2.ready ≠ [] ∧ (∃ e ∈ s.ready, (E.status s2.world e.id).live = true) ∧ s2.tick = s.tick + 1) ∧
    (∀ s', tick E s = .done .noMore s' →
      s'.ready ≠ [] ∧ ∀ e ∈ s.ready, (E.status s'.world e.id).live = false) ∧
    (∀ s', tick E s = .done .noReady s' → s'.ready = []) ∧
    (∀ en s', tick E s = .done en s' → en ≠ .noMore → en ≠ .noReady →
      ∃ x, en = classify x ∧
        ((∃ s1, forLoop E s.ready.length s false = .exc x s1) ∨
         (∃ s1 m, forLoop E s.ready.length s false = .ok s1 m ∧ s1.ready ≠ [] ∧ m = true ∧
            E.boundary s1.tick s1.world = some x))) := by
  cases hfl : forLoop E s.ready.length s false with
  | exc x s1 =>
    have ht := tick_of_exc hfl
    refine ⟨?_, ?_, ?_, ?_⟩
    · intro s2 h; rw [ht] at h; simp at h
    · intro s' h; rw [ht] at h
      simp only [TickOut.done.injEq] at h
      exfalso; have := h.1; unfold classify at this; split at this <;> simp at this
    · intro s' h; rw [ht] at h
      simp only [TickOut.done.injEq] at h
      exfalso; have := h.1; unfold classify at this; split at this <;> simp at this
    · intro en s' h _ _
      rw [ht] at h
      simp only [TickOut.done.injEq] at h
      exact ⟨x, h.1.symm, Or.inl ⟨s1, rfl⟩⟩
  | ok s1 m =>
    have ht := tick_of_ok hfl
    have hm := C03_more_iff_live hf s s1 m hW hnd hfl
    have hspec := (forLoop_ok_proc hfl).spec [] (by simp)
    by_cases h1 : s1.ready.isEmpty = true
    · simp only [h1, if_true] at ht
      refine ⟨?_, ?_, ?_, ?_⟩
      · intro s2 h; rw [ht] at h; simp at h
      · intro s' h; rw [ht] at h; simp at h
      · intro s' h; rw [ht] at h
        simp only [TickOut.done.injEq] at h
        rw [← h.2]; simpa using h1
      · intro en s' h hne1 hne2; rw [ht] at h
        simp only [TickOut.done.injEq] at h
        exact absurd h.1.symm hne2
    · have hne : s1.ready ≠ [] := by simpa using h1
      by_cases h2 : m = true
      · subst h2
        simp only [h1, Bool.not_true, Bool.false_eq_true, if_false] at ht
        have hlive : ∃ e ∈ s.ready, (E.status s1.world e.id).live = true := by
          have := hm.symm
          simpa using this
        cases hb : E.boundary s1.tick s1.world with
        | none =>
          rw [hb] at ht
          refine ⟨?_, ?_, ?_, ?_⟩
          · intro s2 h; rw [ht] at h
            simp only [TickOut.next.injEq] at h
            subst h
            exact ⟨hne, hlive, by simp [advance, hspec.tick]⟩
          · intro s' h; rw [ht] at h; simp at h
          · intro s' h; rw [ht] at h; simp at h
          · intro en s' h; rw [ht] at h; simp at h
        | some x =>
          rw [hb] at ht
          refine ⟨?_, ?_, ?_, ?_⟩
          · intro s2 h; rw [ht] at h; simp at h
          · intro s' h; rw [ht] at h
            simp only [TickOut.done.injEq] at h
            exfalso; have := h.1; unfold classify at this; split at this <;> simp at this
          · intro s' h; rw [ht] at h
            simp only [TickOut.done.injEq] at h
            exfalso; have := h.1; unfold classify at this; split at this <;> simp at this
          · intro en s' h _ _; rw [ht] at h
            simp only [TickOut.done.injEq] at h
            exact ⟨x, h.1.symm, Or.inr ⟨s1, true, rfl, hne, rfl, hb⟩⟩
      · have h2' : m = false := by simpa using h2
        subst h2'
        simp only [h1, Bool.not_false, if_true, Bool.false_eq_true, if_false] at ht
        refine ⟨?_, ?_, ?_, ?_⟩
        · intro s2 h; rw [ht] at h; simp at h
        · intro s' h; rw [ht] at h
          simp only [TickOut.done.injEq] at h
          rw [← h.2]
          refine ⟨hne, ?_⟩
          intro e he
          have := hm
          simp only [Bool.false_eq, List.any_eq_false] at this
          simpa using this e he
        · intro s' h; rw [ht] at h; simp at h
        · intro en s' h hne1 _; rw [ht] at h
          simp only [TickOut.done.injEq] at h
          exact absurd h.1.symm hne1

/-- **The run ends after the first idle pass.** If pass `n` is reached and ends the run with "no
running or started taskers", then no scheduled tasker is started or running after pass `n`, whereas
after every earlier pass `m < n` some scheduled tasker was. -/
theorem C03_stops_first_idle_tick {E : Env τ ω} {W : ω → Prop} (hf : StatusFaithful E W) (s0 : St τ ω)
    (hW : W s0.world) (hnd : (ids s0.ready).Nodup) (h0 : ∀ a ∈ s0.aborted, a.id ∉ ids s0.ready)
    (n : Nat) (s s' : St τ ω) (hs : stateAt E n s0 = some s) (hend : tick E s = .done .noMore s') :
    (∀ e ∈ s.ready, (E.status s'.world e.id).live = false) ∧
    ∀ m, m < n → ∃ sm sm2, stateAt E m s0 = some sm ∧ tick E sm = .next sm2 ∧
      ∃ e ∈ sm.ready, (E.status sm2.world e.id).live = true := by
  have hinv := stateAt_inv (abortedOut_step E) (s0 := s0) ⟨hnd, h0⟩
  have hwinv := stateAt_inv (worldInv_step hf) (s0 := s0) hW
  refine ⟨((C03_tick_ending hf s (hwinv n s hs) (hinv n s hs).nodup).2.1 s' hend).2, ?_⟩
  intro m hm
  obtain ⟨sm, sm2, hsm, htm⟩ := stateAt_prev n s hs m hm
  exact ⟨sm, sm2, hsm, htm, ((C03_tick_ending hf sm (hwinv m sm hsm) (hinv m sm hsm).nodup).1 sm2 htm).2.1⟩

/-! ## however the loop ends: the abort sweep -/

/-- what the caller of `run` sees, from how the loop ended and what the sweep raised -/
def outcomeOf (en : Ending) (sweep : Option Exc) : Outcome :=
  match sweep with
  | some x => .raised x
  | none => match en with
    | .raised x => .raised x
    | .fuel => .outOfFuel
    | e => .returned e

theorem run_split (E : Env τ ω) (fuel : Nat) (s : St τ ω) (hne : (runLoop E fuel s).1 ≠ .fuel) :
    (run E fuel s).2 = (finalize E (runLoop E fuel s).2).2 ∧
    (run E fuel s).1 = outcomeOf (runLoop E fuel s).1 (finalize E (runLoop E fuel s).2).1 := by
  unfold run
  cases hl : runLoop E fuel s with
  | mk en s' =>
    rw [hl] at hne
    simp only [] at hne
    cases en <;> simp only [] at hne ⊢ <;> first
      | exact absurd rfl hne
      | (cases hf : finalize E s' with
         | mk o s'' => cases o <;> simp [outcomeOf])

/-- **The sweep** (as repaired by fix D03a). However the loop ended (no tasker left, nobody running,
`KeyboardInterrupt` in an action or between passes, any other exception): with `ready` the deque at that
moment, the run's events continue with exactly one send `ABORT` for each entry of a prefix `done` of `ready`,
in deque order, and nothing else; the deque is empty afterwards. The prefix is all of `ready` — handlers that
raise an `Exception` do not stop the sweep — unless a send raised something that is not an `Exception`
(`sweepRaised`: a second Ctrl-C, `SystemExit`), in which case that send is the last one and the entries
behind it (`todo`) receive nothing. -/
theorem C03_sweep_events (E : Env τ ω) (fuel : Nat) (s : St τ ω) (hne : (runLoop E fuel s).1 ≠ .fuel) :
    ∃ done todo N, (runLoop E fuel s).2.ready = done ++ todo ∧
      (run E fuel s).2.events = (runLoop E fuel s).2.events ++ N ∧
      N.map Event.addr = done.map (fun e => (Phase.final, e.id, Control.abort)) ∧
      (run E fuel s).2.ready = [] ∧
      (sweepRaised E fuel s = false → todo = []) ∧
      (sweepRaised E fuel s = true → ∃ pre last x, done = pre ++ [last] ∧ x.isException = false ∧
        ∃ ev ∈ N, ev.id = last.id ∧ ev.result = .raised x) := by
  obtain ⟨hst, _⟩ := run_split E fuel s hne
  obtain ⟨done, todo, N, h1, h2, h3, h4, _, h6, h7⟩ :=
    finalLoop_events E (runLoop E fuel s).2.ready (runLoop E fuel s).2 rfl
  refine ⟨done, todo, N, h1, by rw [hst]; exact h3, h4, by rw [hst]; rfl, ?_, ?_⟩
  · intro h
    apply h6
    unfold sweepRaised at h
    cases hf : (finalLoop E (runLoop E fuel s).2.ready.length (runLoop E fuel s).2).1 with
    | none => rfl
    | some x => rw [hf] at h; simp at h
  · intro h
    unfold sweepRaised at h
    cases hf : (finalLoop E (runLoop E fuel s).2.ready.length (runLoop E fuel s).2).1 with
    | none => rw [hf] at h; simp at h
    | some x =>
      obtain ⟨hnx, pre, last, hd, ev, hev, hid, hres⟩ := h7 x hf
      exact ⟨pre, last, x, hd, hnx, ev, hev, hid, hres⟩

/-- the property at full strength: every tasker still scheduled when the loop ends is sent exactly one
abort (stated for the scripted environment of `Model/Sked.lean`) -/
def C03_full_sweep : Prop :=
  ∀ (c : Config Rat) (fuel : Nat), c.wellFormed = true →
    let s0 := start ScriptEnv c.period c.stamp c.houses (c.taskers.map fun t => { t with period := TimeLike.abs t.period })
    (runLoop ScriptEnv fuel s0).1 ≠ .fuel →
    ((run ScriptEnv fuel s0).2.events.filter (·.phase = .final)).map (·.id) = ids (runLoop ScriptEnv fuel s0).2.ready

/-- **Partial: outside the region of D03b** (`sweepRaised = false`: no ABORT handler raised anything but an
`Exception`) every tasker still scheduled when the loop ended is sent exactly one ABORT, in deque order. -/
theorem C03_sweep_aborts_each_once_partial (E : Env τ ω) (fuel : Nat) (s : St τ ω)
    (hne : (runLoop E fuel s).1 ≠ .fuel) (h : sweepRaised E fuel s = false) :
    ∃ N, (run E fuel s).2.events = (runLoop E fuel s).2.events ++ N ∧
      N.map Event.addr = (runLoop E fuel s).2.ready.map (fun e => (Phase.final, e.id, Control.abort)) ∧
      (run E fuel s).2.ready = [] := by
  obtain ⟨done, todo, N, h1, h2, h3, h4, h5, _⟩ := C03_sweep_events E fuel s hne
  have := h5 h
  subst this
  simp only [List.append_nil] at h1
  exact ⟨N, h2, by rw [h1]; exact h3, h4⟩

/-- **Handlers that raise an `Exception` do not cut the sweep**: if every exception that came out of a send of
the sweep is an `Exception` (`RuntimeError`, …; whatever the taskers did), every remaining tasker got its ABORT;
and then what leaves `run` from the sweep is the first of these exceptions, raised after the last ABORT. -/
theorem C03_sweep_survives_exceptions (E : Env τ ω) (fuel : Nat) (s : St τ ω)
    (hne : (runLoop E fuel s).1 ≠ .fuel)
    (hall : ∀ ev ∈ (run E fuel s).2.events, ev.phase = .final → ∀ x, ev.result = .raised x → x.isException = true) :
    sweepRaised E fuel s = false ∧
    (∃ N, (run E fuel s).2.events = (runLoop E fuel s).2.events ++ N ∧
      N.map Event.addr = (runLoop E fuel s).2.ready.map (fun e => (Phase.final, e.id, Control.abort))) ∧
    (finalize E (runLoop E fuel s).2).1 = firstFailure (run E fuel s).2.events := by
  obtain ⟨done, todo, N, h1, h2, h3, h4, h5, h6⟩ := C03_sweep_events E fuel s hne
  have hsw : sweepRaised E fuel s = false := by
    cases hs : sweepRaised E fuel s with
    | false => rfl
    | true =>
      obtain ⟨pre, last, x, _, hnx, ev, hev, _, hres⟩ := h6 hs
      have hph : ev.phase = .final := by
        have : ev.addr ∈ N.map Event.addr := List.mem_map_of_mem hev
        rw [h3] at this
        obtain ⟨e, _, he⟩ := List.mem_map.mp this
        have := congrArg Prod.fst he
        simpa [Event.addr] using this.symm
      have := hall ev (by rw [h2]; exact List.mem_append_right _ hev) hph x hres
      rw [hnx] at this; simp at this
  have htodo := h5 hsw
  subst htodo
  simp only [List.append_nil] at h1
  refine ⟨hsw, ⟨N, h2, by rw [h1]; exact h3⟩, ?_⟩
  have hev : (run E fuel s).2.events = (finalLoop E (runLoop E fuel s).2.ready.length (runLoop E fuel s).2).2.events := by
    rw [(run_split E fuel s hne).1]; rfl
  unfold sweepRaised at hsw
  rw [hev]
  unfold finalize
  simp only []
  cases hf : (finalLoop E (runLoop E fuel s).2.ready.length (runLoop E fuel s).2).1 with
  | none => rfl
  | some x => rw [hf] at hsw; simp at hsw

/-- two taskers; both are told to stop in pass 1 and are stopped in pass 2, which ends the loop; the
first one's generator raises `x` when it is resumed with ABORT (its 4th send) -/
def sweepCrashWitness (x : Exc) : Config Rat :=
  { period := 1/8, stamp := 0, houses := [{ fronts := [0], mids := [1], backs := [] }],
    taskers := [
      { active := true, period := 0, script := [(3, [.raise x])] },
      { active := true, period := 0, tail := some (1, [.bid [0, 1] .stop none]) }] }

/-- **Counterexample (D03b).** A second `KeyboardInterrupt` arrives while the sweep aborts tasker 0: tasker 1,
which is still scheduled, never receives an abort; the interrupt leaves `run`. -/
theorem C03_counterexample_sweep_crash : ¬ C03_full_sweep := by
  intro h
  have := h (sweepCrashWitness .keyboardInterrupt) 50 (by decide +kernel) (by decide +kernel)
  revert this
  decide +kernel

/-- … in that run: the only send of the sweep is to tasker 0, the deque is cleared, `run` raises -/
example :
    let c := sweepCrashWitness .keyboardInterrupt
    let s0 := start ScriptEnv c.period c.stamp c.houses c.taskers
    ((run ScriptEnv 50 s0).2.events.filter (·.phase = .final)).map (·.id) = [0] ∧
    (run ScriptEnv 50 s0).2.ready = [] ∧ (run ScriptEnv 50 s0).1 = .raised .keyboardInterrupt ∧
    sweepRaised ScriptEnv 50 s0 = true := by
  decide +kernel

/-- with an `Exception` instead (the witness of D03a), the repaired sweep goes on: both taskers are aborted,
then the `RuntimeError` leaves `run` … -/
example :
    let c := sweepCrashWitness (.exception "RuntimeError")
    let s0 := start ScriptEnv c.period c.stamp c.houses c.taskers
    ((run ScriptEnv 50 s0).2.events.filter (·.phase = .final)).map (·.id) = [0, 1] ∧
    (run ScriptEnv 50 s0).1 = .raised (.exception "RuntimeError") ∧ sweepRaised ScriptEnv 50 s0 = false := by
  decide +kernel

/-- **… whereas before the repair (finding D03a)** the old `finally:` clause (`runOld`) stopped at tasker 0's
`RuntimeError`: tasker 1 was never aborted and stayed in the deque. -/
theorem C03_old_sweep_stopped_at_exception :
    let c := sweepCrashWitness (.exception "RuntimeError")
    let s0 := start ScriptEnv c.period c.stamp c.houses c.taskers
    ((runOld ScriptEnv 50 s0).2.events.filter (·.phase = .final)).map (·.id) = [0] ∧
    ids (runOld ScriptEnv 50 s0).2.ready = [1] ∧ (runOld ScriptEnv 50 s0).1 = .raised (.exception "RuntimeError") := by
  decide +kernel

/-- **Aborted taskers are not swept.** An entry of `aborted` (self-aborted, generator returned) is not in
the deque when the loop ends, so the sweep does not reach it. -/
theorem C03_aborted_not_swept (E : Env τ ω) (fuel : Nat) (s : St τ ω) (hnd : (ids s.ready).Nodup)
    (h0 : ∀ a ∈ s.aborted, a.id ∉ ids s.ready) :
    ∀ a ∈ (runLoop E fuel s).2.aborted, a.id ∉ ids (runLoop E fuel s).2.ready :=
  (runLoop_inv (abortedOut_step E) fuel s ⟨hnd, h0⟩).out

/-- **Exceptions are re-raised, after the sweep.** What `run` returns is determined by how the loop ended
and by the sweep: an exception raised in the sweep leaves `run` (the first `Exception` caught while aborting, after the sweep; or at once a `BaseException` that
cut the sweep); otherwise an exception that ended the loop leaves `run` unless it was `KeyboardInterrupt`, which (like the two normal endings) makes `run` return. -/
theorem C03_outcome (E : Env τ ω) (fuel : Nat) (s : St τ ω) (hne : (runLoop E fuel s).1 ≠ .fuel) :
    (run E fuel s).1 = outcomeOf (runLoop E fuel s).1 (finalize E (runLoop E fuel s).2).1 ∧
    (∀ x, classify x = .interrupted ↔ x = .keyboardInterrupt) ∧
    (∀ x, x ≠ .keyboardInterrupt → classify x = .raised x) := by
  refine ⟨(run_split E fuel s hne).2, ?_, ?_⟩
  · intro x; unfold classify; constructor
    · intro h; split at h
      · assumption
      · simp at h
    · intro h; simp [h]
  · intro x hx; simp [classify, hx]

/-- an exception that ends a pass was raised by a send to a due tasker: the loop's own `popleft` never
fails and `status` is always bound (`IndexError` / `UnboundLocalError` cannot come from the loop itself) -/
theorem C03_loop_exception_is_from_send {E : Env τ ω} {s s' : St τ ω} {more : Bool} {x : Exc} {e : Entry τ}
    {rest : List (Entry τ)} (hr : s.ready = e :: rest) (hb : body E s more = .exc x s') :
    isDue s e = true ∧ (sendEvent E s e).result = .raised x :=
  body_exc_is_send hr hb

end Ioflo.Sked

/-! # Part 2 — the framers that are aborted (`Model/SkedLoop.lean`) -/
namespace Ioflo.SkedLoop
open Ioflo.Sked

variable {τ : Type} [TimeLike τ]

/-- the framers of `Model/SkedLoop.lean` are a faithful environment (part 1 applies to them): the status
the scheduler reads is the one last yielded, only a framer's own run changes it, a finished generator's
framer shows ABORTED -/
theorem C03_loopEnv_faithful : StatusFaithful (LoopEnv (τ := τ)) DeadAborted := loopEnv_faithful

/-- **ABORT exits the entered frames bottom-up.** A framer that is started or running and is resumed
with ABORT runs the exit context of its entered frames, innermost first (`actives.reverse`), and nothing
else, before it becomes ABORTED; if no exit action crashes, the recorder marks it leaves are exactly the
exit marks of these frames in that order, no frame is entered afterwards and the status is ABORTED. -/
theorem C03_abort_exits_bottom_up (i : Nat) (w : World τ)
    (hlive : (w.framers i).status = .running ∨ (w.framers i).status = .started) :
    table i .abort w =
      ((runFrames i .exit (w.framers i).actives.reverse w).andThen fun w => ⟨setActives i [] w, none⟩).andThen
        (fun w => ⟨setStatus i .aborted (setDesire i .abort w), none⟩) ∧
    ((table i .abort w).exc = none →
      (table i .abort w).w.trace = w.trace ++ (w.framers i).actives.reverse.flatMap
        (fun f => marksOf i f .exit (frameOf (w.framers i) f).exacts) ∧
      ((table i .abort w).w.framers i).actives = [] ∧
      ((table i .abort w).w.framers i).status = .aborted) := by
  have heq : table i .abort w =
      ((runFrames i .exit (w.framers i).actives.reverse w).andThen fun w => ⟨setActives i [] w, none⟩).andThen
        (fun w => ⟨setStatus i .aborted (setDesire i .abort w), none⟩) := by
    unfold table abortAny exitAll exitFrames
    rcases hlive with h | h <;> simp [h]
  refine ⟨heq, ?_⟩
  intro hexc
  rw [heq] at hexc ⊢
  obtain ⟨h1, h2⟩ := andThen_none hexc
  obtain ⟨h3, h4⟩ := andThen_none h1
  rw [h2, h4]
  simp only []
  refine ⟨?_, ?_, ?_⟩
  · have := runFrames_trace i .exit (w.framers i).actives.reverse w h3
    simpa [setStatus, setDesire, setActives, World.modF, actsOf] using this
  · simp [setStatus, setDesire, setActives, World.modF]
  · simp [setStatus, World.modF]

/-- STOP does the same (and ends STOPPED) -/
theorem C03_stop_exits_bottom_up (i : Nat) (w : World τ)
    (hlive : (w.framers i).status = .running ∨ (w.framers i).status = .started)
    (hexc : (table i .stop w).exc = none) :
    ((table i .stop w).w.framers i).actives = [] ∧ ((table i .stop w).w.framers i).status = .stopped := by
  have heq : table i .stop w = stopLive i w := by
    unfold table
    rcases hlive with h | h <;> simp [h]
  rw [heq] at hexc ⊢
  refine ⟨stopLive_actives i w hexc, ?_⟩
  unfold stopLive at hexc ⊢
  obtain ⟨_, h2⟩ := andThen_none hexc
  rw [h2]; exact status_setStatus i _ _

/-- **No frame stays entered.** At the end of every run of every well-formed program — whatever crash
plan, however the loop ended — every framer whose generator is still alive and which is not started or
running has no entered frame; and every send of the abort sweep that came back, came back ABORTED. So
each framer that the sweep reached without a crash has exited all its frames before `run` returns. -/
theorem C03_entered_empty_at_return (p : Program τ) (hwf : p.wellFormed = true) (fuel : Nat) :
    IdleEmpty (p.run fuel).2.world ∧
    ∀ ev ∈ (p.run fuel).2.events, ev.phase = .final → ∀ x, ev.result = .yielded x → x = .aborted := by
  have hinit : ∀ k, (p.world.framers k).actives = [] := by
    intro k
    unfold Program.wellFormed at hwf
    simp only [Bool.and_eq_true, List.all_eq_true] at hwf
    simp only [Program.world]
    by_cases hk : k < p.framers.length
    · simp only [List.getD_eq_getElem?_getD, List.getElem?_eq_getElem hk, Option.getD_some]
      have := hwf.2 p.framers[k] (List.getElem_mem hk)
      simpa using this.1.1.1.2
    · have : p.framers[k]? = none := by simp; omega
      simp [List.getD_eq_getElem?_getD, this]
  have hstart : (fun s : St τ (World τ) => ∀ k, (s.world.framers k).actives = [])
      (start LoopEnv p.period p.stamp p.houses p.world) := by
    apply start_inv (I := fun s : St τ (World τ) => ∀ k, (s.world.framers k).actives = [])
    · intro s i hi k
      show ((setStatus i .stopped (setDesire i _ s.world)).framers k).actives = []
      simp only [setStatus, setDesire, World.modF]
      split
      · rename_i h; subst h; simpa using hi k
      · exact hi k
    · exact hinit
  have hidle : IdleEmpty (start LoopEnv p.period p.stamp p.houses p.world).world :=
    fun k _ _ => hstart k
  have hev : ∀ ev ∈ (start LoopEnv p.period p.stamp p.houses p.world).events,
      ev.phase = .final → ∀ x, ev.result = .yielded x → x = .aborted := by
    rw [(start_fields LoopEnv p.period p.stamp p.houses p.world).2.1]; simp
  exact ⟨run_inv idleEmpty_step fuel _ hidle, run_inv sweepYield_step fuel _ hev⟩

/-- **START enters the outline of the first frame — every time.** Whatever happened to the framer before
(earlier visits, stops, transitions to other outlines and back), a START of a stopped or readied framer makes
the entered frames exactly the outline of its first frame, top frame first, as the program gives it — not a
list left over from an earlier visit. (This holds also when an enter action crashes.) -/
theorem C03_start_enters_first_outline (i : Nat) (w : World τ)
    (hidle : (w.framers i).status = .stopped ∨ (w.framers i).status = .readied) :
    ((table i .start w).w.framers i).actives = outline (w.framers i).frames (w.framers i).first ∧
    ((table i .start w).w.framers i).frames = (w.framers i).frames := by
  have heq : table i .start w = startIdle i w := by
    unfold table
    rcases hidle with h | h <;> simp [h]
  rw [heq]
  have hk : KeepA (enterAll i (setDesire i .run w)).w (startIdle i w).w := by
    unfold startIdle
    exact keepA_andThen (keepA_andThen (keepA_refl _) (fun w1 => keepA_runFrames i .recur _ w1))
      (fun w2 => keepA_setStatus i .started w2)
  obtain ⟨ha, hf⟩ := enterAll_actives i (setDesire i .run w)
  have hd := keepA_setDesire i .run w i
  rw [(hk i).2, (hk i).1, ha, hf, hd.1]
  have : ((setDesire i .run w).framers i).first = (w.framers i).first := by
    simp [setDesire, World.modF]
  rw [this]; exact ⟨rfl, rfl⟩

/-- **Exits are bottom-up on every visit, not only the first.** In every state that any run of any
well-formed program reaches — after any number of passes, stops and restarts, transitions from one outline to
another and back, crashes — and in the state `run` returns, the entered frames of every framer are either
none or exactly the outline of one frame of its program: that frame's chain of over frames, top first, as
the program gives it. So whenever a started or running framer is resumed with ABORT, on whichever visit, the
exit marks it leaves are those of such an outline reversed: each under frame before its over frame. -/
theorem C03_exits_bottom_up_every_visit (p : Program τ) (hwf : p.wellFormed = true) (fuel : Nat) :
    let F := fun k => (p.world.framers k).frames
    let s0 := start LoopEnv p.period p.stamp p.houses p.world
    (∀ n s, stateAt LoopEnv n s0 = some s → Outlined F s.world) ∧
    Outlined F (p.run fuel).2.world ∧
    (∀ (w : World τ) (i : Nat), Outlined F w →
      ((w.framers i).status = .running ∨ (w.framers i).status = .started) →
      (table i .abort w).exc = none →
      ∃ l, (l = [] ∨ ∃ f, l = outline (F i) f) ∧ (w.framers i).actives = l ∧
        (table i .abort w).w.trace = w.trace ++ l.reverse.flatMap
          (fun g => marksOf i g .exit (frameOf (w.framers i) g).exacts)) := by
  intro F s0
  have hinit : ∀ k, (p.world.framers k).actives = [] := by
    intro k
    unfold Program.wellFormed at hwf
    simp only [Bool.and_eq_true, List.all_eq_true] at hwf
    simp only [Program.world]
    by_cases hk : k < p.framers.length
    · simp only [List.getD_eq_getElem?_getD, List.getElem?_eq_getElem hk, Option.getD_some]
      have := hwf.2 p.framers[k] (List.getElem_mem hk)
      simpa using this.1.1.1.2
    · have : p.framers[k]? = none := by simp; omega
      simp [List.getD_eq_getElem?_getD, this]
  have hstart : Outlined F s0.world := by
    apply start_inv (I := fun s : St τ (World τ) => Outlined F s.world)
    · intro s i hi k
      exact keepA_aok (keepA_trans (keepA_setDesire i _ s.world) (keepA_setStatus i .stopped _)) (hi k)
    · intro k; exact ⟨rfl, Or.inl (hinit k)⟩
  refine ⟨fun n s hs => stateAt_inv (outlined_step F) hstart n s hs, run_inv (outlined_step F) fuel _ hstart, ?_⟩
  intro w i ho hlive hexc
  refine ⟨(w.framers i).actives, (ho i).2, rfl, ?_⟩
  exact ((C03_abort_exits_bottom_up i w hlive).2 hexc).1

/-- non-vacuity: a framer whose first frame 1 lies under frame 0 goes 1 → 2 (another top-level frame) → back
to 1 and is interrupted there; both visits enter 0 then 1 and leave 1 then 0 -/
def demoRound : Program Rat :=
  { period := 1/8, stamp := 0, houses := [{ fronts := [], mids := [0], backs := [] }],
    framers := [
      { active := true, period := 0, first := 1, frames := [
          { enacts := [.record], exacts := [.record] },
          { over := some 0, enacts := [.record], exacts := [.record], trans := [(1, 2)] },
          { enacts := [.record], exacts := [.record], trans := [(1, 1)] }] }],
    boundaryCrash := some (2, .keyboardInterrupt) }

example :
    demoRound.wellFormed = true ∧ (demoRound.run 50).1 = .returned .interrupted ∧
    (demoRound.run 50).2.world.trace.filterMap (fun o => match o with | .mark _ f ctx => some (f, ctx) | _ => none) =
      [(0, .enter), (1, .enter), (1, .exit), (0, .exit), (2, .enter), (2, .exit),
       (0, .enter), (1, .enter), (1, .exit), (0, .exit)] ∧
    (match stateAt LoopEnv 1 (start LoopEnv demoRound.period demoRound.stamp demoRound.houses demoRound.world) with
     | some s => (s.world.framers 0).actives | none => []) = [0, 1] ∧
    (match stateAt LoopEnv 2 (start LoopEnv demoRound.period demoRound.stamp demoRound.houses demoRound.world) with
     | some s => (s.world.framers 0).actives | none => []) = [2] := by
  decide +kernel

/-- part 1 applies to every run of a well-formed program: the start state satisfies the world invariant
of `C03_loopEnv_faithful`, has distinct ids in the deque (if no framer is declared twice) and nothing aborted -/
theorem C03_program_applies (p : Program τ) (hwf : p.wellFormed = true) (hnd : (declared p.houses).Nodup) :
    let s0 := start LoopEnv p.period p.stamp p.houses p.world
    DeadAborted s0.world ∧ (ids s0.ready).Nodup ∧ s0.aborted = [] := by
  have hwf' := hwf
  unfold Program.wellFormed at hwf'
  simp only [Bool.and_eq_true, List.all_eq_true, decide_eq_true_eq] at hwf'
  let n := p.framers.length
  have h0 : (fun s : St τ (World τ) => (∀ k, k < n → (s.world.framers k).alive = true) ∧
      (∀ k, ¬ k < n → (s.world.framers k).status = .aborted) ∧ s.aborted = [])
      (start LoopEnv p.period p.stamp p.houses p.world) := by
    apply start_inv_mem (I := fun s : St τ (World τ) => (∀ k, k < n → (s.world.framers k).alive = true) ∧
      (∀ k, ¬ k < n → (s.world.framers k).status = .aborted) ∧ s.aborted = [])
    · intro s i hi hI
      have hin : i < n := hwf'.1.1 i hi
      refine ⟨?_, ?_, hI.2.2⟩
      · intro k hk
        show ((setStatus i .stopped (setDesire i _ s.world)).framers k).alive = true
        simp only [setStatus, setDesire, World.modF]
        split
        · rename_i h; subst h; simpa using hI.1 k hk
        · exact hI.1 k hk
      · intro k hk
        show ((setStatus i .stopped (setDesire i _ s.world)).framers k).status = .aborted
        have hki : k ≠ i := fun h => hk (h ▸ hin)
        simp only [setStatus, setDesire, World.modF, hki, if_false]
        exact hI.2.1 k hk
    · refine ⟨?_, ?_, rfl⟩
      · intro k hk
        simp only [Program.world, List.getD_eq_getElem?_getD, List.getElem?_eq_getElem hk, Option.getD_some]
        have := hwf'.2 p.framers[k] (List.getElem_mem hk)
        simpa using this.1.1.2
      · intro k hk
        have : p.framers[k]? = none := by simp; omega
        simp [Program.world, List.getD_eq_getElem?_getD, this]
  refine ⟨?_, ?_, h0.2.2⟩
  · intro k hk
    by_cases hkn : k < n
    · rw [h0.1 k hkn] at hk; simp at hk
    · exact h0.2.1 k hkn
  · rw [(start_fields LoopEnv p.period p.stamp p.houses p.world).1]; exact hnd

/-! ## non-vacuity: two framers with nested frames, an interrupt after pass 0, a crash in the sweep -/

def demoLoop : Program Rat :=
  { period := 1/8, stamp := 0, houses := [{ fronts := [], mids := [0, 1], backs := [] }],
    framers := [
      { active := true, period := 0, first := 1, frames := [
          { enacts := [.record], exacts := [.record] },
          { over := some 0, enacts := [.record, .step], exacts := [.record] }] },
      { active := true, period := 0, frames := [{ enacts := [.record], exacts := [.record] }] }],
    boundaryCrash := some (0, .keyboardInterrupt) }

example : demoLoop.wellFormed = true := by decide +kernel

/-- interrupt after pass 0: `run` returns; the sweep aborts both; framer 0 exits frame 1 then frame 0 -/
example :
    (demoLoop.run 50).1 = .returned .interrupted ∧
    (demoLoop.run 50).2.world.trace.filterMap (fun o => match o with | .mark i f ctx => some (i, f, ctx) | _ => none) =
      [(0, 0, .enter), (0, 1, .enter), (1, 0, .enter), (0, 1, .exit), (0, 0, .exit), (1, 0, .exit)] ∧
    ((demoLoop.run 50).2.events.filter (·.phase = .final)).map (fun e => (e.id, e.control, e.result)) =
      [(0, .abort, .yielded .aborted), (1, .abort, .yielded .aborted)] := by
  decide +kernel

/-- the same with the 5th action (framer 0's first exit action, in the sweep) raising an `Exception`: the sweep
goes on, framer 1 exits its frame and is aborted, then the exception leaves `run` -/
example :
    let p := { demoLoop with crash := some (5, .exception "RuntimeError") }
    (p.run 50).1 = .raised (.exception "RuntimeError") ∧
    ((p.run 50).2.events.filter (·.phase = .final)).map (·.id) = [0, 1] ∧
    ((p.run 50).2.world.framers 1).actives = [] := by
  decide +kernel

/-- … and raising a second `KeyboardInterrupt` (D03b): framer 1 is never aborted and keeps its frame entered -/
example :
    let p := { demoLoop with crash := some (5, .keyboardInterrupt) }
    (p.run 50).1 = .raised .keyboardInterrupt ∧
    ((p.run 50).2.events.filter (·.phase = .final)).map (·.id) = [0] ∧
    ((p.run 50).2.world.framers 1).actives = [0] := by
  decide +kernel

/-- non-vacuity of `C03_stops_first_idle_tick`: a framer that bids `stop me` on entry is started in pass 0
(so the loop goes on), stopped in pass 1, and pass 1 ends the run with "no running or started taskers" -/
def demoStop : Program Rat :=
  { period := 1/8, stamp := 0, houses := [{ fronts := [], mids := [0], backs := [] }],
    framers := [{ active := true, period := 0, frames := [{ enacts := [.record, .bid [0] .stop], exacts := [.record] }] }] }

example :
    (match stateAt LoopEnv 1 (start LoopEnv demoStop.period demoStop.stamp demoStop.houses demoStop.world) with
     | some s => (match tick LoopEnv s with | .done .noMore _ => true | _ => false)
     | none => false) = true ∧ demoStop.wellFormed = true := by
  decide +kernel

end Ioflo.SkedLoop
