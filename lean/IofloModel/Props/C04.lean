import IofloModel.Lemmas.Bids
/-!
# C04 — bids and fiats change a tasker's state at its next run, last bid wins

Property theorems only. Model: `Model/Bids.lean` (the framer runner table, `Want*`/`Fiat*` actions,
flat frames) on top of `Model/Sked.lean` (`Skedder.run`). `H` is the way a fiat issued by a
framer is carried out: `fiatTop` for scheduled framers (sends into the slave's runner), `noFiat`
inside slaves. The run-level theorems are about the observation trace `World.trace`, which the
correspondence check compares entry by entry with the running code.
-/
namespace Ioflo.Bids
open Ioflo.Sked

variable {τ : Type} [TimeLike τ]

/-! ## the runner table -/

/-- **The framer runner is the documented control × status table**, for every program, every fiat
handler and every world: the status yielded by one resumption with control `c` depends only on `c`,
the status before and (for START/READY from stopped/readied) on `checkStart()`, whatever the
frames' actions do in between. -/
theorem C04_runner_table (H : FiatH τ) (i : Nat) (c : Control) (w : World τ) :
    (table H i c w).1 = docStatus c (stat w i) (checkStart H i w).1 ∧
    stat (table H i c w).2 i = (table H i c w).1 :=
  ⟨table_status H i c w, rfl⟩

/-- **The table is total and is this one** (rows: control STOP, START, RUN, ABORT, READY, anything else;
per row `checkStart` false / true; columns: status STOPPED, STARTED, RUNNING, ABORTED, READIED before). -/
theorem C04_runner_table_total :
    ([Control.stop, .start, .run, .abort, .ready, .other].map fun c => [false, true].map fun chk =>
      [Status.stopped, .started, .running, .aborted, .readied].map fun st => docStatus c st chk) =
    [ -- STOP: running/started → stopped, else unchanged
      [[.stopped, .stopped, .stopped, .aborted, .readied], [.stopped, .stopped, .stopped, .aborted, .readied]],
      -- START: stopped/readied → started if checkStart else stopped; running/started unchanged
      [[.stopped, .started, .running, .aborted, .stopped], [.started, .started, .running, .aborted, .started]],
      -- RUN: started/running → running; stopped/readied unchanged (the framer asks for START)
      [[.stopped, .running, .running, .aborted, .readied], [.stopped, .running, .running, .aborted, .readied]],
      -- ABORT
      [[.aborted, .aborted, .aborted, .aborted, .aborted], [.aborted, .aborted, .aborted, .aborted, .aborted]],
      -- READY: stopped/readied → readied if checkStart else stopped; running/started unchanged
      [[.stopped, .started, .running, .aborted, .stopped], [.readied, .started, .running, .aborted, .readied]],
      -- anything that is not a control aborts
      [[.aborted, .aborted, .aborted, .aborted, .aborted], [.aborted, .aborted, .aborted, .aborted, .aborted]] ] := by
  decide

/-- **A start (or ready) whose first-frame conditions fail leaves the tasker stopped**, asking for STOP
— even if an entry guard had side effects (a fiat in the benter context, whose slave bid on this framer). -/
theorem C04_failed_start_leaves_stopped (H : FiatH τ) (i : Nat) (c : Control) (w : World τ)
    (hc : c = .start ∨ c = .ready) (hst : stat w i = .stopped ∨ stat w i = .readied)
    (hchk : (checkStart H i w).1 = false) :
    (table H i c w).1 = .stopped ∧ stat (table H i c w).2 i = .stopped ∧ des (table H i c w).2 i = .stop := by
  have hs : (w.framers i).status = stat w i := rfl
  refine ⟨?_, ?_, ?_⟩
  · rw [table_status, hchk]
    rcases hc with h | h <;> rcases hst with h' | h' <;> subst h <;> rw [h'] <;> rfl
  · rw [← table_yields, table_status, hchk]
    rcases hc with h | h <;> rcases hst with h' | h' <;> subst h <;> rw [h'] <;> rfl
  · unfold table
    rcases hc with h | h <;> rcases hst with h' | h' <;> subst h <;>
      simp [hs, h', startIdle, readyIdle, hchk, des, setStatus, writeDesire, World.modF, World.log]

/-! ## bids -/

/-- **A bid writes the target's desire** (and, for start/run/ready with `at period`, its period
`max(0, period)`); stop/abort bids ignore the period. -/
theorem C04_bid_writes (by_ : Nat) (c : Control) (period : Option τ) (t : Nat) (w : World τ) :
    des (bidOne by_ c period t w) t = c ∧
    (bidOne by_ c period t w).trace = w.trace ++ [.write t c, .bid by_ t c (bidPeriod c period)] ∧
    ((bidOne by_ c period t w).framers t).period =
      (match bidPeriod c period with | some p => p | none => (w.framers t).period) ∧
    (c = .stop ∨ c = .abort → bidPeriod c period = none) := by
  refine ⟨by simp [des, bidOne, writeDesire, World.modF, World.log], ?_, ?_, ?_⟩
  · cases h : bidPeriod c period <;> simp [bidOne, writeDesire, World.log, World.modF, setPeriod, h]
  · cases h : bidPeriod c period <;> simp [bidOne, writeDesire, World.log, World.modF, setPeriod, h]
  · intro h; rcases h with h | h <;> subst h <;> cases period <;> rfl

/-- **The control a tasker receives is the last bid.** In the observation trace of any run of any
program: whenever the main loop resumes framer `i` with control `c`, `c` is the value of the most
recent assignment to `i`'s desire recorded before that point — by a bid of any framer (earlier in
the same pass if the bidder runs earlier, in an earlier pass otherwise), by the framer's own
runner at its previous run, or by `addReadyTask` —; and every send of the abort sweep carries ABORT.
Together with C02 (when the next run is) this is the timing clause of the property. -/
theorem C04_control_is_last_bid (p : Program τ) (fuel : Nat) (a b : List (Obs τ)) (ph : Phase) (i : Nat)
    (c : Control) (h : (p.run fuel).2.world.trace = a ++ .recv ph i c :: b) :
    (ph = .loop → lastWrite a i = some c) ∧ (ph = .final → c = .abort) := by
  have hstart : BidInv (start FramerEnv p.period p.stamp p.houses p.world) :=
    start_inv (I := BidInv) (fun s i hi => bidInv_addReady s i hi) _ _ _ _
      ⟨fun k c hk => by simp [lastWrite, Program.world] at hk, TraceOK.nil, fun e he => by simp at he⟩
  exact (run_inv bidInv_step fuel _ hstart).trace a ph i c b h

/-! ## fiats and slaves -/

/-- **A fiat reports the truth**: `Fiat<c>.action(slave)` returns exactly "the slave's status after the
send is the requested one" (READIED for ready, STARTED for start, RUNNING for run, STOPPED for stop,
ABORTED for abort), that status is the table's, and the observation it leaves says so. -/
theorem C04_fiat_reports_truth (by_ : Nat) (c : Control) (sl : Nat) (w : World τ) (hne : sl ≠ by_) :
    (fiatTop by_ c sl w).2 = decide (stat (fiatTop by_ c sl w).1 sl = expected c) ∧
    stat (fiatTop by_ c sl w).1 sl = docStatus c (stat w sl) (checkStart noFiat sl w).1 ∧
    ∃ tr, (fiatTop by_ c sl w).1.trace =
      tr ++ [.fiat by_ sl c (stat (fiatTop by_ c sl w).1 sl) (fiatTop by_ c sl w).2] := by
  unfold fiatTop
  simp only [hne, if_false]
  refine ⟨rfl, ?_, ⟨_, rfl⟩⟩
  show stat (table noFiat sl c w).2 sl = _
  rw [← table_yields, table_status]

/-- when a fiat returns true, by the table: e.g. `start` succeeds exactly from stopped/readied with passing
entry guards, or on a slave that is STARTED already (not on a RUNNING one) -/
theorem C04_fiat_truth_table :
    ([Control.stop, .start, .run, .abort, .ready].map fun c => [false, true].map fun chk =>
      [Status.stopped, .started, .running, .aborted, .readied].map fun st =>
        decide (docStatus c st chk = expected c)) =
    [ [[true, true, true, false, false], [true, true, true, false, false]],        -- stop
      [[false, true, false, false, false], [true, true, false, false, true]],     -- start
      [[false, true, true, false, false], [false, true, true, false, false]],     -- run
      [[true, true, true, true, true], [true, true, true, true, true]],           -- abort
      [[false, false, false, false, false], [true, false, false, false, true]] ]  -- ready
    := by
  decide

/-- **Slaves are never run by the scheduler and change state only through fiats.** For every framer `k`
that is not in the declared `fronts + mids + backs` of a house (every slave, see
`C04_slave_not_declared`): the scheduler never resumes it, and its status at the end of the run is its
initial status updated by exactly the fiats recorded on it, each of which reports the truth. -/
theorem C04_slaves_only_by_fiat (p : Program τ) (fuel : Nat) (k : Nat) (hk : k ∉ declared p.houses) :
    (∀ ph c, Obs.recv ph k c ∉ (p.run fuel).2.world.trace) ∧
    stat (p.run fuel).2.world k = applyFiats (p.run fuel).2.world.trace k (stat p.world k) ∧
    (∀ b sl c st ret, Obs.fiat b sl c st ret ∈ (p.run fuel).2.world.trace → ret = decide (st = expected c)) := by
  have hstart : SlaveInv (declared p.houses) (stat p.world) (start FramerEnv p.period p.stamp p.houses p.world) :=
    start_inv_mem (I := SlaveInv (declared p.houses) (stat p.world)) _ _ _ _
      (fun s i hD hi => slaveInv_addReady _ _ s i hD hi)
      ⟨fun e he => by simp at he, fun k _ => by simp [applyFiats, Program.world],
       fun _ _ _ h => by simp [Program.world] at h, fun o h => by simp [Program.world] at h⟩
  have hfin := run_inv (slaveInv_step (declared p.houses) (stat p.world)) fuel _ hstart
  refine ⟨fun ph c hmem => hk (hfin.norecv ph k c hmem), hfin.status k hk, ?_⟩
  intro b sl c st ret hmem
  exact hfin.fiats _ hmem

/-- in a well-formed program a slave framer is in no house's `fronts`, `mids` or `backs` -/
theorem C04_slave_not_declared (p : Program τ) (hwf : p.wellFormed = true) (k : Nat)
    (hs : (p.world.framers k).sched = .slave) : k ∉ declared p.houses := by
  intro hmem
  unfold Program.wellFormed at hwf
  simp only [Bool.and_eq_true, List.all_eq_true] at hwf
  have := hwf.1.1 k hmem
  simp only [decide_eq_true_eq, Bool.not_eq_true'] at this
  have hlt := this.1
  have hns := this.2
  simp only [Program.world] at hs
  simp only [List.getD_eq_getElem?_getD, List.getElem?_eq_getElem hlt, Option.getD_some] at hs hns
  rw [hs] at hns
  simp at hns

/-! ## non-vacuity: a supervisor `0` that bids, a guarded inactive framer `1`, a slave `2` -/

def demoProgram : Program Rat :=
  { period := 1/8, stamp := 0,
    houses := [{ fronts := [], mids := [0, 1], backs := [] }],
    framers := [
      { sched := .active, period := 0, frames := [
          { enacts := [.bid [1] .start (some (1/4))], preacts := [⟨[.recurredGe 2], 1⟩] },
          { beacts := [.fiat .ready 2], enacts := [.fiat .start 2], reacts := [.fiat .run 2],
            exacts := [.fiat .stop 2], preacts := [⟨[.recurredGe 3], 2⟩] },
          { enacts := [.put 0 1, .bid [0, 1] .stop none] }] },
      { sched := .inactive, period := 0, frames := [
          { beacts := [.cond (.flagEq 0 1)], reacts := [.bid [1] .stop none] }] },
      { sched := .slave, period := 0, frames := [
          { preacts := [⟨[.always], 1⟩] },
          { reacts := [.bid [0] .stop none] }] }] }

example : demoProgram.wellFormed = true := by decide +kernel

/-- the controls received in the main loop, in order: framer 1 gets START in pass 0 (bid by 0 earlier in
the same pass), fails its guard and from then on receives its own STOP; framer 0 receives STOP after the
slave's bid; the fiats on the slave return true -/
example :
    ((demoProgram.run 50).2.world.trace.filterMap fun o =>
      match o with | .recv .loop i c => some (i, c) | _ => none) =
      [(0, .start), (1, .start), (0, .run), (0, .run), (1, .stop), (0, .stop)] ∧
    ((demoProgram.run 50).2.world.trace.filterMap fun o =>
      match o with | .fiat _ sl c st r => some (sl, c, st, r) | _ => none) =
      [(2, .ready, .readied, true), (2, .start, .started, true), (2, .run, .running, true),
       (2, .stop, .stopped, true)] ∧
    ((demoProgram.run 50).2.world.trace.filterMap fun o =>
      match o with | .check i ok => some (i, ok) | _ => none) = [(0, true), (1, false), (2, true), (2, true)] := by
  decide +kernel

end Ioflo.Bids
