import IofloModel.Lemmas.Bids
/-!
# C04 — bids and fiats change a tasker's state at its next run, last bid wins

Property theorems only. Model: `Model/Bids.lean` (the framer runner table, `Want*`/`Fiat*` actions,
flat frames) on top of `Model/Sked.lean` (`Skedder.run`). `H` is the way a fiat issued by a
framer is carried out: `fiatTop` for scheduled framers (sends into the slave's runner), `noFiat`
inside slaves. The run-level theorems are about the observation trace `World.trace`, which the
correspondence check compares entry by entry with the running code.
-/
namespace Ioflo.Bids
open Ioflo.Sked

variable {τ : Type} [TimeLike τ]

/-! ## the runner table -/

/-- **The framer runner is the documented control × status table**, for every program, every fiat
handler and every world: the status yielded by one resumption with control `c` depends only on `c`,
the status before and (for START/READY from stopped/readied) on `checkStart()`, whatever the
frames' actions do in between. -/
theorem C04_runner_table (H : FiatH τ) (i : Nat) (c : Control) (w : World τ) :
    (table H i c w).1 = docStatus c (stat w i) (checkStart H i w).1 ∧
    stat (table H i c w).2 i = (table H i c w).1 :=
  ⟨table_status H i c w, rfl⟩

/-- **The table is total and is this one** (rows: control STOP, START, RUN, ABORT, READY, anything else;
per row `checkStart` false / true; columns: status STOPPED, STARTED, RUNNING, ABORTED, READIED before). -/
theorem C04_runner_table_total :
    ([Control.stop, .start, .run, .abort, .ready, .other].map fun c => [false, true].map fun chk =>
      [Status.stopped, .started, .running, .aborted, .readied].map fun st => docStatus c st chk) =
    [ -- STOP: running/started → stopped, else unchanged
      [[.stopped, .stopped, .stopped, .aborted, .readied], [.stopped, .stopped, .stopped, .aborted, .readied]],
      -- START: stopped/readied → started if checkStart else stopped; running/started unchanged
      [[.stopped, .started, .running, .aborted, .stopped], [.started, .started, .running, .aborted, .started]],
      -- RUN: started/running → running; stopped/readied unchanged (the framer asks for START)
      [[.stopped, .running, .running, .aborted, .readied], [.stopped, .running, .running, .aborted, .readied]],
      -- ABORT
      [[.aborted, .aborted, .aborted, .aborted, .aborted], [.aborted, .aborted, .aborted, .aborted, .aborted]],
      -- READY: stopped/readied → readied if checkStart else stopped; running/started unchanged
      [[.stopped, .started, .running, .aborted, .stopped], [.readied, .started, .running, .aborted, .readied]],
      -- anything that is not a control aborts
      [[.aborted, .aborted, .aborted, .aborted, .aborted], [.aborted, .aborted, .aborted, .aborted, .aborted]] ] := by
  decide

/-- **A start (or ready) whose first-frame conditions fail leaves the tasker stopped**, asking for STOP
— even if an entry guard had side effects (a fiat in the benter context, whose slave bid on this framer). -/
theorem C04_failed_start_leaves_stopped (H : FiatH τ) (i : Nat) (c : Control) (w : World τ)
    (hc : c = .start ∨ c = .ready) (hst : stat w i = .stopped ∨ stat w i = .readied)
    (hchk : (checkStart H i w).1 = false) :
    (table H i c w).1 = .stopped ∧ stat (table H i c w).2 i = .stopped ∧ des (table H i c w).2 i = .stop := by
  have hs : (w.framers i).status = stat w i := rfl
  refine ⟨?_, ?_, ?_⟩
  · rw [table_status, hchk]
    rcases hc with h | h <;> rcases hst with h' | h' <;> subst h <;> rw [h'] <;> rfl
  · rw [← table_yields, table_status, hchk]
    rcases hc with h | h <;> rcases hst with h' | h' <;> subst h <;> rw [h'] <;> rfl
  · unfold table
    rcases hc with h | h <;> rcases hst with h' | h' <;> subst h <;>
      simp [hs, h', startIdle, readyIdle, hchk, des, setStatus, writeDesire, World.modF, World.log]

/-! ## bids -/

/-- **A bid writes the target's desire** (and, for start/run/ready with `at period`, its period
`max(0, period)`); stop/abort bids ignore the period. -/
theorem C04_bid_writes (by_ : Nat) (c : Control) (period : Option τ) (t : Nat) (w : World τ) :
    des (bidOne by_ c period t w) t = c ∧
    (bidOne by_ c period t w).trace = w.trace ++ [.write t c, .bid by_ t c (bidPeriod c period)] ∧
    ((bidOne by_ c period t w).framers t).period =
      (match bidPeriod c period with | some p => p | none => (w.framers t).period) ∧
    (c = .stop ∨ c = .abort → bidPeriod c period = none) := by
  refine ⟨by simp [des, bidOne, writeDesire, World.modF, World.log], ?_, ?_, ?_⟩
  · cases h : bidPeriod c period <;> simp [bidOne, writeDesire, World.log, World.modF, setPeriod, h]
  · cases h : bidPeriod c period <;> simp [bidOne, writeDesire, World.log, World.modF, setPeriod, h]
  · intro h; rcases h with h | h <;> subst h <;> cases period <;> rfl

/-- **The control a tasker receives is the last bid.** In the observation trace of any run of any
program: whenever the main loop resumes framer `i` with control `c`, `c` is the value of the most
recent assignment to `i`'s desire recorded before that point — by a bid of any framer (earlier in
the same pass if the bidder runs earlier, in an earlier pass otherwise), by the framer's own
runner at its previous run, or by `addReadyTask` —; and every send of the abort sweep carries ABORT.
Together with C02 (when the next run is) this is the timing clause of the property. -/
theorem C04_control_is_last_bid (p : Program τ) (fuel : Nat) (a b : List (Obs τ)) (ph : Phase) (i : Nat)
    (c : Control) (h : (p.run fuel).2.world.trace = a ++ .recv ph i c :: b) :
    (ph = .loop → lastWrite a i = some c) ∧ (ph = .final → c = .abort) := by
  have hstart : BidInv (start FramerEnv p.period p.stamp p.houses p.world) :=
    start_inv (I := BidInv) (fun s i hi => bidInv_addReady s i hi) _ _ _ _
      ⟨fun k c hk => by simp [lastWrite, Program.world] at hk, TraceOK.nil, fun e he => by simp at he⟩
  exact (run_inv bidInv_step fuel _ hstart).trace a ph i c b h

/-! ## fiats and slaves -/

/-- **A fiat reports the truth, at every depth of the master/slave tree.** `Fiat<c>.action(slave)` issued by
framer `by_` — a scheduled framer, or a slave whose own runner was resumed by a fiat of its master (`chain` = the
framers executing above it) — returns exactly "the slave's status after the send is the requested one" (READIED
for ready, STARTED for start, RUNNING for run, STOPPED for stop, ABORTED for abort); that status is the runner
table's, evaluated with the slave's own fiats carried out one level further down; and the observation it leaves
says so. -/
theorem C04_fiat_reports_truth (d : Nat) (chain : List Nat) (by_ : Nat) (c : Control) (sl : Nat) (w : World τ)
    (hne : sl ∉ by_ :: chain) :
    (fiatD (d+1) chain by_ c sl w).2 = decide (stat (fiatD (d+1) chain by_ c sl w).1 sl = expected c) ∧
    stat (fiatD (d+1) chain by_ c sl w).1 sl =
      docStatus c (stat w sl) (checkStart (fiatD d (by_ :: chain)) sl w).1 ∧
    ∃ tr, (fiatD (d+1) chain by_ c sl w).1.trace =
      tr ++ [Obs.fiat by_ sl c (stat (fiatD (d+1) chain by_ c sl w).1 sl) (fiatD (d+1) chain by_ c sl w).2] := by
  simp only [fiatD, hne, if_false]
  refine ⟨rfl, ?_, ⟨_, rfl⟩⟩
  show stat (table (fiatD d (by_ :: chain)) sl c w).2 sl = _
  rw [← table_yields, table_status]

/-- **The bid and fiat laws hold through the whole tree of masters and slaves** (induction over the depth):
carrying out any fiat — the slave's runner is resumed, its frames may fiat their own slaves, and so on down —
only appends to the observation trace; what it appends contains no scheduler send and only truthful fiat
entries (`ret = (status == requested)`, at every level); every framer's status afterwards is its status before
updated by exactly the fiats recorded on it (so nothing but a fiat changes a slave, however deep); and every
framer's desire is still the last value written to it (bids made by slaves at any depth included). -/
theorem C04_fiat_tree_sound (d : Nat) (chain : List Nat) (by_ : Nat) (c : Control) (sl : Nat) (w : World τ) :
    ∃ n, (fiatD d chain by_ c sl w).1.trace = w.trace ++ n ∧
      (∀ o ∈ n, o.isRecv = false ∧ o.fiatTrue) ∧
      (∀ k, stat (fiatD d chain by_ c sl w).1 k = applyFiats n k (stat w k)) ∧
      (DesireOK w → DesireOK (fiatD d chain by_ c sl w).1) := by
  have h := fiatD_spec (τ := τ) d chain by_ c sl w
  obtain ⟨n, h1, h2, h3⟩ := h.ext
  exact ⟨n, h1, h2, h3, h.desire⟩

/-- when a fiat returns true, by the table: e.g. `start` succeeds exactly from stopped/readied with passing
entry guards, or on a slave that is STARTED already (not on a RUNNING one) -/
theorem C04_fiat_truth_table :
    ([Control.stop, .start, .run, .abort, .ready].map fun c => [false, true].map fun chk =>
      [Status.stopped, .started, .running, .aborted, .readied].map fun st =>
        decide (docStatus c st chk = expected c)) =
    [ [[true, true, true, false, false], [true, true, true, false, false]],        -- stop
      [[false, true, false, false, false], [true, true, false, false, true]],     -- start
      [[false, true, true, false, false], [false, true, true, false, false]],     -- run
      [[true, true, true, true, true], [true, true, true, true, true]],           -- abort
      [[false, false, false, false, false], [true, false, false, false, true]] ]  -- ready
    := by
  decide

/-- **Slaves are never run by the scheduler and change state only through fiats.** For every framer `k`
that is not in the declared `fronts + mids + backs` of a house (every slave, see
`C04_slave_not_declared`): the scheduler never resumes it, and its status at the end of the run is its
initial status updated by exactly the fiats recorded on it, each of which reports the truth. -/
theorem C04_slaves_only_by_fiat (p : Program τ) (fuel : Nat) (k : Nat) (hk : k ∉ declared p.houses) :
    (∀ ph c, Obs.recv ph k c ∉ (p.run fuel).2.world.trace) ∧
    stat (p.run fuel).2.world k = applyFiats (p.run fuel).2.world.trace k (stat p.world k) ∧
    (∀ b sl c st ret, Obs.fiat b sl c st ret ∈ (p.run fuel).2.world.trace → ret = decide (st = expected c)) := by
  have hstart : SlaveInv (declared p.houses) (stat p.world) (start FramerEnv p.period p.stamp p.houses p.world) :=
    start_inv_mem (I := SlaveInv (declared p.houses) (stat p.world)) _ _ _ _
      (fun s i hD hi => slaveInv_addReady _ _ s i hD hi)
      ⟨fun e he => by simp at he, fun k _ => by simp [applyFiats, Program.world],
       fun _ _ _ h => by simp [Program.world] at h, fun o h => by simp [Program.world] at h⟩
  have hfin := run_inv (slaveInv_step (declared p.houses) (stat p.world)) fuel _ hstart
  refine ⟨fun ph c hmem => hk (hfin.norecv ph k c hmem), hfin.status k hk, ?_⟩
  intro b sl c st ret hmem
  exact hfin.fiats _ hmem

/-- in a well-formed program a slave framer is in no house's `fronts`, `mids` or `backs` -/
theorem C04_slave_not_declared (p : Program τ) (hwf : p.wellFormed = true) (k : Nat)
    (hs : (p.world.framers k).sched = .slave) : k ∉ declared p.houses := by
  intro hmem
  unfold Program.wellFormed at hwf
  simp only [Bool.and_eq_true, List.all_eq_true] at hwf
  have := hwf.1.1 k hmem
  simp only [decide_eq_true_eq, Bool.not_eq_true'] at this
  have hlt := this.1
  have hns := this.2
  simp only [Program.world] at hs
  simp only [List.getD_eq_getElem?_getD, List.getElem?_eq_getElem hlt, Option.getD_some] at hs hns
  rw [hs] at hns
  simp at hns

/-! ## non-vacuity: a supervisor `0` that bids, a guarded inactive framer `1`, a slave `2` -/

def demoProgram : Program Rat :=
  { period := 1/8, stamp := 0,
    houses := [{ fronts := [], mids := [0, 1], backs := [] }],
    framers := [
      { sched := .active, period := 0, frames := [
          { enacts := [.bid [1] .start (some (1/4))], preacts := [⟨[.recurredGe 2], 1⟩] },
          { beacts := [.fiat .ready 2], enacts := [.fiat .start 2], reacts := [.fiat .run 2],
            exacts := [.fiat .stop 2], preacts := [⟨[.recurredGe 3], 2⟩] },
          { enacts := [.put 0 1, .bid [0, 1] .stop none] }] },
      { sched := .inactive, period := 0, frames := [
          { beacts := [.cond (.flagEq 0 1)], reacts := [.bid [1] .stop none] }] },
      { sched := .slave, period := 0, frames := [
          { preacts := [⟨[.always], 1⟩] },
          { reacts := [.bid [0] .stop none] }] }] }

example : demoProgram.wellFormed = true := by decide +kernel

/-- the controls received in the main loop, in order: framer 1 gets START in pass 0 (bid by 0 earlier in
the same pass), fails its guard and from then on receives its own STOP; framer 0 receives STOP after the
slave's bid; the fiats on the slave return true -/
example :
    ((demoProgram.run 50).2.world.trace.filterMap fun o =>
      match o with | .recv .loop i c => some (i, c) | _ => none) =
      [(0, .start), (1, .start), (0, .run), (0, .run), (1, .stop), (0, .stop)] ∧
    ((demoProgram.run 50).2.world.trace.filterMap fun o =>
      match o with | .fiat _ sl c st r => some (sl, c, st, r) | _ => none) =
      [(2, .ready, .readied, true), (2, .start, .started, true), (2, .run, .running, true),
       (2, .stop, .stopped, true)] ∧
    ((demoProgram.run 50).2.world.trace.filterMap fun o =>
      match o with | .check i ok => some (i, ok) | _ => none) = [(0, true), (1, false), (2, true), (2, true)] := by
  decide +kernel

/-! ## nested frames: a start / stop / abort (bid or fiat) enters and exits the whole outline -/

/-- **STOP and ABORT exit the entered outline bottom-up.** A framer at any level of the master/slave tree (`H` =
how its own fiats are carried out) that is started or running and is resumed with STOP or ABORT — by the
scheduler after a bid, or by a fiat of its master — runs, for each entered frame from the innermost to the
outermost, the recorder mark and then the exit actions of that frame (`exitFrames … actives.reverse`), has no
frame entered afterwards, and ends STOPPED resp. ABORTED. -/
theorem C04_stop_abort_exit_outline (H : FiatH τ) (i : Nat) (w : World τ)
    (hlive : stat w i = .running ∨ stat w i = .started) :
    (table H i .stop w).2 =
      setStatus i .stopped (setActives i [] (exitFrames H i (w.framers i).actives.reverse (writeDesire i .stop w))) ∧
    (table H i .abort w).2 =
      setStatus i .aborted (writeDesire i .abort (setActives i [] (exitFrames H i (w.framers i).actives.reverse w))) ∧
    ((table H i .stop w).2.framers i).actives = [] ∧ ((table H i .abort w).2.framers i).actives = [] ∧
    (table H i .stop w).1 = .stopped ∧ (table H i .abort w).1 = .aborted := by
  have hs : (w.framers i).status = stat w i := rfl
  have hact : ((writeDesire i .stop w).framers i).actives = (w.framers i).actives := by
    simp [writeDesire, World.modF, World.log]
  rcases hlive with h | h <;>
    simp [table, hs, h, stopLive, abortAny, exitAll, hact, setStatus, setActives, writeDesire, World.modF, World.log]

/-- one frame of the way out: first the recorder mark of the frame, then its exit actions, then the frames above -/
theorem C04_exit_order (H : FiatH τ) (i f : Nat) (rest : List Nat) (w : World τ) :
    exitFrames H i (f :: rest) w =
      exitFrames H i rest (runActs H i (frameOf (w.framers i) f).exacts (w.log (.mark i f false))) ∧
    enterFrames H i (f :: rest) w =
      enterFrames H i rest (runActs H i (frameOf (w.framers i) f).enacts (w.log (.mark i f true))) := ⟨rfl, rfl⟩

/-- **START enters the outline of the first frame top-down.** A stopped or readied framer whose entry guards (of
every frame of that outline) pass and that is resumed with START asks for RUN, makes the outline of its first
frame (ancestors, the frame, primary unders down to the bottom) its entered frames, restarts the counter, runs
mark and enter actions of each of these frames from the top, then the recur actions, and ends STARTED. -/
theorem C04_start_enters_outline (H : FiatH τ) (i : Nat) (w : World τ)
    (hidle : stat w i = .stopped ∨ stat w i = .readied) (hchk : (checkStart H i w).1 = true) :
    (table H i .start w).2 =
      (let w1 := writeDesire i .run (checkStart H i w).2
       let ol := outline (w1.framers i).frames 0
       setStatus i .started (recur H i (enterFrames H i ol (setRecurred i 0 (setActives i ol w1))))) ∧
    (table H i .start w).1 = .started := by
  have hs : (w.framers i).status = stat w i := rfl
  rcases hidle with h | h <;>
    simp [table, hs, h, startIdle, hchk, enterAll, setStatus, World.modF]

/-! ## non-vacuity of the tree theorems: a scheduled framer `0` drives slave `1`, whose frame drives slave `2` -/

def nestedProgram : Program Rat :=
  { period := 1/8, stamp := 0, houses := [{ fronts := [], mids := [0], backs := [] }],
    framers := [
      { sched := .active, period := 0, frames := [
          { beacts := [.fiat .ready 1], enacts := [.fiat .start 1], reacts := [.fiat .run 1],
            exacts := [.fiat .stop 1], preacts := [⟨[.recurredGe 2], 1⟩] },
          { enacts := [.bid [0] .stop none] }] },
      { sched := .slave, period := 0, frames := [
          { beacts := [.fiat .ready 2], enacts := [.fiat .start 2], reacts := [.fiat .run 2],
            exacts := [.fiat .abort 2] }] },
      { sched := .slave, period := 0, frames := [{ reacts := [.put 0 1] }] }] }

/-- the run stays inside the model (`unsupported = false`); the fiats of slave 1 on slave 2 are carried out inside
the fiats of framer 0 on slave 1 (inner entries first), every one reports the truth, and at the end each slave's
status is the one of the last fiat on it -/
example :
    nestedProgram.wellFormed = true ∧ (nestedProgram.run 50).2.world.unsupported = false ∧
    ((nestedProgram.run 50).2.world.trace.filterMap fun o =>
      match o with | .fiat b sl c st r => some (b, sl, c, st, r) | _ => none) =
      [(1, 2, .ready, .readied, true), (0, 1, .ready, .readied, true),
       (1, 2, .ready, .readied, true), (1, 2, .start, .started, true), (1, 2, .run, .running, true),
       (0, 1, .start, .started, true),
       (1, 2, .run, .running, true), (0, 1, .run, .running, true),
       (1, 2, .run, .running, true), (0, 1, .run, .running, true),
       (1, 2, .abort, .aborted, true), (0, 1, .stop, .stopped, true)] ∧
    (List.range 3).map (fun i => ((nestedProgram.run 50).2.world.framers i).status) = [.aborted, .stopped, .aborted] := by
  decide +kernel

/-- a cycle (slave 1 fiats slave 2, slave 2 fiats slave 1) is rejected by `wellFormed`, and running it anyway
leaves the model (`unsupported`): in Python the inner fiat raises `ValueError: generator already executing` -/
example :
    let p : Program Rat := { nestedProgram with framers := [
      { sched := .active, period := 0, frames := [{ enacts := [.fiat .start 1, .bid [0] .stop none] }] },
      { sched := .slave, period := 0, frames := [{ enacts := [.fiat .start 2] }] },
      { sched := .slave, period := 0, frames := [{ enacts := [.fiat .start 1] }] }] }
    p.wellFormed = false ∧ (p.run 50).2.world.unsupported = true := by
  decide +kernel

/-- nested frames under a fiat: slave 1 has frames 0 ⊃ 1 ⊃ 2 (first = 0, so its outline is 0,1,2); the START fiat of
framer 0 enters them top-down, the STOP fiat (exit action of framer 0 when it is told to stop) exits them
bottom-up, and no frame stays entered -/
def outlineProgram : Program Rat :=
  { period := 1/8, stamp := 0, houses := [{ fronts := [], mids := [0], backs := [] }],
    framers := [
      { sched := .active, period := 0, frames := [
          { enacts := [.fiat .start 1], reacts := [.fiat .run 1], exacts := [.fiat .stop 1],
            preacts := [⟨[.recurredGe 2], 1⟩] },
          { enacts := [.bid [0] .stop none] }] },
      { sched := .slave, period := 0, frames := [{}, { over := some 0 }, { over := some 1 }] }] }

example :
    outlineProgram.wellFormed = true ∧
    ((outlineProgram.run 50).2.world.trace.filterMap fun o =>
      match o with | .mark 1 f en => some (f, en) | _ => none) =
      [(0, true), (1, true), (2, true), (2, false), (1, false), (0, false)] ∧
    ((outlineProgram.run 50).2.world.framers 1).actives = [] ∧
    ((outlineProgram.run 50).2.world.framers 1).status = .stopped := by
  decide +kernel

/-! ## every visit: the entered frames are an outline of the program, and the lower frame bids last -/

/-- **The bid of the lower frame is issued after the upper frame's — on every visit.**
(1, 2) In every state any run of any program reaches (after any number of passes, stops and restarts, bids,
fiats at any depth, transitions from one outline to another and back) and in the state `run` returns, no
framer's program has changed and the entered frames of every framer — scheduled or slave — are none or exactly
the outline of one frame of its program: ancestors top first, the frame, its primary unders; never a list left
over (or reordered) from an earlier visit. (3) START enters, and every RUN recurs, those frames in list order,
each frame's actions in the world that all the frames above it left (`l1 ++ l2`). (4) So when the enter (recur)
actions of the lowest frame `g` of the entered list end with a bid `c` for `t`, the desire of `t` after the
whole enter (recur) is `c`, whatever the frames above `g` bid for `t` — with `C04_control_is_last_bid`: that is
the control the scheduler sends. -/
theorem C04_lower_frame_bids_last_every_visit (p : Program τ) (h0 : Outl p.world) (fuel : Nat) :
    let F := fun k => (p.world.framers k).frames
    let s0 := start FramerEnv p.period p.stamp p.houses p.world
    (∀ n s, stateAt FramerEnv n s0 = some s → OutlP F s.world) ∧
    OutlP F (p.run fuel).2.world ∧
    (∀ (H : FiatH τ) (i : Nat) (l1 l2 : List Nat) (w : World τ),
      enterFrames H i (l1 ++ l2) w = enterFrames H i l2 (enterFrames H i l1 w) ∧
      recurFrames H i (l1 ++ l2) w = recurFrames H i l2 (recurFrames H i l1 w)) ∧
    (∀ (d : Nat) (chain : List Nat) (i : Nat) (l : List Nat) (g : Nat) (w : World τ)
       (pre : List (Act τ)) (t : Nat) (c : Control) (per : Option τ),
      ((frameOf (w.framers i) g).enacts = pre ++ [.bid [t] c per] →
        des (enterFrames (fiatD d chain) i (l ++ [g]) w) t = c) ∧
      ((frameOf (w.framers i) g).reacts = pre ++ [.bid [t] c per] →
        des (recurFrames (fiatD d chain) i (l ++ [g]) w) t = c)) := by
  intro F s0
  have hstart : OutlP F s0.world := by
    apply start_inv (I := fun s : St τ (World τ) => OutlP F s.world)
    · intro s i hi
      exact (Ok.trans (ok_writeDesire i _ s.world) (ok_setStatus i .stopped _)).outlP hi
    · exact ⟨fun _ => rfl, h0⟩
  refine ⟨fun n s hs => stateAt_inv (outlP_step F) hstart n s hs, run_inv (outlP_step F) fuel _ hstart,
    fun H i l1 l2 w => ⟨enterFrames_append H i l1 l2 w, recurFrames_append H i l1 l2 w⟩, ?_⟩
  intro d chain i l g w pre t c per
  have hH := hok_fiatD (τ := τ) d chain
  constructor
  · intro he
    rw [enterFrames_append]
    simp only [enterFrames]
    have hfr : frameOf ((enterFrames (fiatD d chain) i l w).framers i) g = frameOf (w.framers i) g := by
      unfold frameOf
      rw [(ok_enterFrames hH i l w).frames i]
    rw [hfr, he]
    exact runActs_last_bid _ _ _ _ _ _ _
  · intro he
    rw [recurFrames_append]
    simp only [recurFrames]
    have hfr : frameOf ((recurFrames (fiatD d chain) i l w).framers i) g = frameOf (w.framers i) g := by
      unfold frameOf
      rw [(ok_recurFrames hH i l w).frames i]
    rw [hfr, he]
    exact runActs_last_bid _ _ _ _ _ _ _

/-- non-vacuity: framer 0 — frame 0 bids `stop 1` on entry, its under frame 1 bids `start 1` — goes from the outline
0,1 to the top-level frame 2 and back; on both visits the bids are issued upper first, lower last, so framer 1
is sent START in pass 0 and again in pass 2 (it was bid to stop and then to start, the last bid wins); and in a\nreached state the entered frames are the outline 0,1 again -/
def roundProgram : Program Rat :=
  { period := 1/8, stamp := 0, houses := [{ fronts := [], mids := [0, 1], backs := [] }],
    framers := [
      { sched := .active, period := 0, frames := [
          { enacts := [.bid [1] .stop none] },
          { over := some 0, enacts := [.bid [1] .start none], preacts := [⟨[.recurredGe 1], 2⟩] },
          { preacts := [⟨[.recurredGe 1], 1⟩] }] },
      { sched := .inactive, period := 0, frames := [{}] }] }

example :
    roundProgram.wellFormed = true ∧ Outl roundProgram.world ∧
    ((roundProgram.run 4).2.world.trace.filterMap fun o =>
      match o with | .bid 0 1 c _ => some c | .mark 0 f true => (if f = 2 then some .other else none) | _ => none) =
      [.stop, .start, .other, .stop, .start, .other] ∧
    (match stateAt FramerEnv 3 (start FramerEnv roundProgram.period roundProgram.stamp roundProgram.houses roundProgram.world) with
     | some s => (s.world.framers 0).actives | none => []) = [0, 1] ∧
    ((roundProgram.run 4).2.events.filter (·.id = 1)).map (fun e => (e.tick, e.control)) =
      [(0, .start), (1, .run), (2, .start), (3, .run)] := by
  refine ⟨by decide +kernel, fun k => Or.inl ?_, by decide +kernel, by decide +kernel, by decide +kernel⟩
  simp only [roundProgram, Program.world]
  rcases k with _ | _ | k <;> simp

end Ioflo.Bids
