import IofloModel.Lemmas.Flo
/-!
# C05 — a running framer's active frames are exactly its active frame's outline

Model: `Model/Flo.lean` (framer core, plain auxiliaries, Suspender, minimal scheduler loop).
Lemmas: `Lemmas/Flo.lean` (the invariant `FInv` is carried through every operation of every auxiliary level).

The invariant `FInv P i s` of framer `i`:
* `none_nil` — no active frame ⇒ no active frames;
* `full`     — no conditional auxiliary of a frame of `i` is running ⇒ `actives = outline active`;
* `cut`      — conditional auxiliary `x` of frame `m` running ⇒ `actives = head m`;
* `single`   — at most one conditional auxiliary of `i` is running.

The code does **not** satisfy this for all runs (defect D3: a second Suspender truncates the outline while
another conditional auxiliary of the same framer is still running; when the outer one completes,
`framer.reactivate()` restores the full outline although the inner one is still running).  Therefore:
* `C05_full` is the full statement, `C05_counterexample_D3` refutes it on a concrete program;
* the `_partial` theorems carry the decidable hypothesis `s.bad = false` on the reached state, where
  `bad = overlap ∨ reenter` are two ghost flags maintained by the model (never read by it):
  `overlap` is raised exactly when a Suspender truncates while another conditional auxiliary of the same
  framer is running (the region of D3), `reenter` when `enterAll` is called on a framer that is still
  active (an effect of frames left un-exited below a truncated outline, see C06).
All theorems are for every well-formed program (`WF`, decidable), every semantics of the opaque actions and
needs, every auxiliary depth, every sequence of controls.
-/
namespace Ioflo.Flo
open Ioflo.Outline (Fid)

variable {W : Type}

/-- framer `i` is scheduled by the skedder, i.e. is nobody's auxiliary -/
def Top (P : Prog) (i : Frid) : Prop := ∀ j, ¬ Child P j i

/-- a scheduled framer is not claimed by any frame -/
theorem top_claimed {P : Prog} {i : Frid} (ht : Top P i) (s : St W) : Claimed P i s :=
  fun f hf _ => absurd ⟨f, rfl, hf⟩ (ht _)

/-- the status part of the property, for scheduled framers -/
structure StatusInv (i : Frid) (s : St W) : Prop where
  down : isUp (s.fr i).status = false → (s.fr i).active = none ∧ (s.fr i).actives = []
  up : isUp (s.fr i).status = true → (s.fr i).active ≠ none

/-- the whole invariant at the boundaries of framer runs -/
structure AllInv (P : Prog) (s : St W) : Prop where
  owned : Owned P s
  finv : ∀ i, FInv P i s
  status : ∀ i, Top P i → StatusInv i s

section step
variable {P : Prog} {rank : Frid → Nat} (wf : WF P rank) {sem : Sem W} {lo : Ops W} (hlo : LoSpec P lo)
include wf hlo

omit hlo in
/-- an operation of a scheduled framer leaves the invariant of every framer outside its subtree alone -/
theorem lift_top {i : Frid} (ht : Top P i) {s s' : St W} (hm : Mod (Reach P i) s s')
    (hi : InvR P i s → InvR P i s') (h : ∀ j, FInv P j s) : ∀ j, FInv P j s' := by
  intro j
  by_cases hr : Reach P i j
  · exact hi (fun k _ => h k) j hr
  · exact (h j).of_mod wf hm hr (ht j)

omit wf hlo in
theorem reach_is_child {k y j : Frid} (hc : Child P k y) (hr : Reach P y j) : ∃ k', Child P k' j := by
  induction hr generalizing k with
  | refl _ => exact ⟨k, hc⟩
  | step hc' _ ih => exact ih hc'

omit wf hlo in
theorem status_other {i j : Frid} (ht : Top P j) (hji : j ≠ i) {s s' : St W} (hm : Mod (Reach P i) s s')
    (h : StatusInv j s) : StatusInv j s' := by
  have hnr : ¬ Reach P i j := by
    intro hr
    cases hr with
    | refl => exact hji rfl
    | step hc hr' =>
      -- `j` would be reachable through a child edge, hence somebody's child
      obtain ⟨k, hk⟩ := reach_is_child hc hr'
      exact ht k hk
  have hc := hm.same j hnr
  constructor
  · intro hu; rw [core_status hc] at hu
    rw [core_active hc, core_actives hc]; exact h.down hu
  · intro hu; rw [core_status hc] at hu
    rw [core_active hc]; exact h.up hu

omit wf hlo in
theorem setDesire1_step (i : Frid) (c : Control) (s : St W) :
    Step P i s (setDesire1 i c s) ∧ Keep i s (setDesire1 i c s) :=
  ⟨step_modFr P i _ s, by simp [Keep, setDesire1]⟩

omit wf hlo in
theorem setStatus_step (i : Frid) (st : Status) (s : St W) :
    Step P i s (setStatus i st s) ∧ Keep i s (setStatus i st s) :=
  ⟨step_modFr P i _ s, by simp [Keep, setStatus]⟩

omit wf hlo in
/-- assemble the invariant after a last local step on `i` -/
theorem finish {i : Frid} (ht : Top P i) {s2 s' : St W} (st : Step P i s2 s' ∧ Keep i s2 s')
    (ho : Owned P s2) (hf : ∀ j, FInv P j s2) (hoth : ∀ j, Top P j → j ≠ i → StatusInv j s2)
    (hstat : StatusInv i s') : AllInv P s' := by
  refine ⟨owned_of_step st.1 st.2 ho, ?_, ?_⟩
  · intro j
    apply (hf j).congr
    · by_cases e : j = i
      · subst e; exact st.2.1
      · exact st.1.active j e
    · by_cases e : j = i
      · subst e; exact st.2.2
      · exact st.1.actives j e
    · intro m x hm hx
      apply st.1.done
      intro e; subst e
      have : Child P j x := by rw [← hm]; exact susp_child hx
      exact ht j this
  · intro j hj
    by_cases e : j = i
    · subst e; exact hstat
    · exact status_other hj e ⟨st.1.core, st.1.flags⟩ (hoth j hj e)

omit wf hlo in
theorem status_set {i : Frid} {st : Status} {s : St W}
    (h : isUp st = true ∨ ((s.fr i).active = none ∧ (s.fr i).actives = []))
    (hup : isUp st = true → (s.fr i).active ≠ none) : StatusInv i (setStatus i st s) := by
  constructor
  · intro hu
    simp only [setStatus, fr_modFr, if_true] at hu ⊢
    rcases h with h | h
    · rw [h] at hu; cases hu
    · exact h
  · intro hu
    simp only [setStatus, fr_modFr, if_true] at hu ⊢
    exact hup hu

/-- what an operation (`segue`, `recur`, `enterAll`, `exitAll`) of the scheduled framer `i` guarantees -/
def TopOp (P : Prog) (i : Frid) (s s' : St W) : Prop :=
  Mod (Reach P i) s s' ∧ Owned P s' ∧ (s'.bad = false → InvR P i s → InvR P i s')

omit hlo in
theorem TopOp.lift {i : Frid} (ht : Top P i) {s s' : St W} (h : TopOp P i s s') (hb : s'.bad = false)
    (hf : ∀ j, FInv P j s) (hoth : ∀ j, Top P j → j ≠ i → StatusInv j s) :
    Owned P s' ∧ (∀ j, FInv P j s') ∧ (∀ j, Top P j → j ≠ i → StatusInv j s') :=
  ⟨h.2.1, lift_top wf ht h.1 (h.2.2 hb) hf, fun j hj e => status_other hj e h.1 (hoth j hj e)⟩

omit wf hlo in
theorem bad_of_step {i : Frid} {s s' : St W} (st : Step P i s s') (hb : s'.bad = false) : s.bad = false := by
  cases hq : s.bad with
  | false => rfl
  | true => rw [st.flags hq] at hb; cases hb

omit wf hlo in
theorem isUp_isDown {st : Status} (h : isDown st = true) : isUp st = false := by
  cases st <;> simp [isUp, isDown] at *

/-- **C05 (partial), one framer run.**  For a scheduled framer, every control and every state satisfying
the invariant: if the run does not raise a ghost flag, the invariant holds afterwards. -/
theorem C05_step_partial {i : Frid} (ht : Top P i) (c : Control) {s s' : St W} (h : AllInv P s)
    (hs : framerStep P sem lo i c s = .ok s') (hb : s'.bad = false) : AllInv P s' := by
  have hst := h.status i ht
  have hoth : ∀ j, Top P j → j ≠ i → StatusInv j s := fun j hj _ => h.status j hj
  -- `desire` only
  have desire_case : ∀ d, AllInv P (setDesire1 i d s) := by
    intro d
    apply finish ht (setDesire1_step i d s) h.owned h.finv hoth
    constructor
    · intro hu; simp only [setDesire1, fr_modFr, if_true] at hu ⊢; exact hst.down hu
    · intro hu; simp only [setDesire1, fr_modFr, if_true] at hu ⊢; exact hst.up hu
  -- `desire` and a status that is not up, from a state where `i` is not up
  have down_case : ∀ d st, isUp st = false → isUp (s.fr i).status = false →
      AllInv P (setStatus i st (setDesire1 i d s)) := by
    intro d st hst' hdown
    have st1 := setDesire1_step (P := P) i d s
    have st2 := setStatus_step (P := P) i st (setDesire1 i d s)
    apply finish ht ⟨st1.1.trans st2.1, st1.2.trans st2.2⟩ h.owned h.finv hoth
    apply status_set
    · right
      have := hst.down hdown
      simpa [setDesire1] using this
    · intro hu; rw [hst'] at hu; cases hu
  unfold framerStep at hs
  simp only [] at hs
  by_cases hup : isUp (s.fr i).status = true
  · -- started or running
    cases c with
    | run =>
      simp only [hup, if_true] at hs
      cases h1 : segue P sem lo i s with
      | error e => simp [h1] at hs
      | ok s1 =>
        simp only [h1] at hs
        cases h2 : recur P sem lo i s1 with
        | error e => simp [h2] at hs
        | ok s2 =>
          simp only [h2, Except.ok.injEq] at hs
          have r1 := segue_spec wf hlo h.owned h1
          have r2 := recur_spec wf hlo r1.2.1 h2
          have st3 := setStatus_step (P := P) i .running s2
          have hb2 : s2.bad = false := bad_of_step st3.1 (hs ▸ hb)
          have hb1 : s1.bad = false := r2.1.bad_false hb2
          have l1 := TopOp.lift wf ht ⟨r1.1, r1.2.1, r1.2.2.1⟩ hb1 h.finv hoth
          have l2 := TopOp.lift wf ht ⟨r2.1, r2.2.1, r2.2.2.1⟩ hb2 l1.2.1 l1.2.2
          have hact1 : (s1.fr i).active ≠ none := r1.2.2.2 hb1 (fun k _ => h.finv k) (hst.up hup)
          have hact2 : (s2.fr i).active ≠ none := by rw [r2.2.2.2]; exact hact1
          rw [← hs]
          exact finish ht st3 l2.1 l2.2.1 l2.2.2 (status_set (Or.inl rfl) (fun _ => hact2))
    | ready =>
      have hnd : isDown (s.fr i).status = false := by
        revert hup; cases (s.fr i).status <;> simp [isUp, isDown]
      simp only [hup, hnd, if_true, if_false, Except.ok.injEq, Bool.false_eq_true] at hs
      rw [← hs]; exact h
    | start =>
      have hnd : isDown (s.fr i).status = false := by
        revert hup; cases (s.fr i).status <;> simp [isUp, isDown]
      simp only [hup, hnd, if_true, if_false, Except.ok.injEq, Bool.false_eq_true] at hs
      rw [← hs]; exact desire_case .run
    | stop =>
      simp only [hup, if_true] at hs
      cases h1 : exitAll P sem lo true i (setDesire1 i .stop s) with
      | error e => simp [h1] at hs
      | ok s1 =>
        simp only [h1, Except.ok.injEq] at hs
        have a0 := desire_case .stop
        have r1 := exitAll_spec wf hlo a0.owned h1
        have st3 := setStatus_step (P := P) i .stopped s1
        have hb1 : s1.bad = false := bad_of_step st3.1 (hs ▸ hb)
        have l1 := TopOp.lift wf ht ⟨r1.1, r1.2.1, r1.2.2.1⟩ hb1 a0.finv (fun j hj _ => a0.status j hj)
        rw [← hs]
        exact finish ht st3 l1.1 l1.2.1 l1.2.2
          (status_set (Or.inr ⟨r1.2.2.2.1, r1.2.2.2.2.1⟩) (fun hu => by cases hu))
    | abort =>
      simp only [hup, if_true] at hs
      cases h1 : exitAll P sem lo false i s with
      | error e => simp [h1] at hs
      | ok s1 =>
        simp only [h1, Except.ok.injEq] at hs
        have r1 := exitAll_spec wf hlo h.owned h1
        have st2 := setDesire1_step (P := P) i .abort s1
        have st3 := setStatus_step (P := P) i .aborted (setDesire1 i .abort s1)
        have st23 : Step P i s1 s' ∧ Keep i s1 s' := hs ▸ ⟨st2.1.trans st3.1, st2.2.trans st3.2⟩
        have hb1 : s1.bad = false := bad_of_step st23.1 hb
        have l1 := TopOp.lift wf ht ⟨r1.1, r1.2.1, r1.2.2.1⟩ hb1 h.finv hoth
        apply finish ht st23 l1.1 l1.2.1 l1.2.2
        rw [← hs]
        apply status_set
        · right; simp only [setDesire1, fr_modFr, if_true]; exact ⟨r1.2.2.2.1, r1.2.2.2.2.1⟩
        · intro hu; cases hu
  · -- not started/running
    have hup' : isUp (s.fr i).status = false := by
      cases hq : isUp (s.fr i).status with
      | false => rfl
      | true => exact absurd hq hup
    by_cases hdn : isDown (s.fr i).status = true
    · -- stopped or readied
      cases c with
      | run =>
        simp only [hup', hdn, if_true, if_false, Except.ok.injEq, Bool.false_eq_true] at hs
        rw [← hs]; exact desire_case .start
      | ready =>
        simp only [hup', hdn, if_true, if_false, Bool.false_eq_true] at hs
        cases h1 : checkStart P sem lo i s with
        | error e => simp [h1] at hs
        | ok b =>
          cases b with
          | true =>
            simp only [h1, Except.ok.injEq] at hs
            rw [← hs]
            apply finish ht (setStatus_step i .readied s) h.owned h.finv hoth
            exact status_set (Or.inr (hst.down hup')) (fun hu => by cases hu)
          | false =>
            simp only [h1, Except.ok.injEq] at hs
            rw [← hs]; exact down_case .stop .stopped rfl hup'
      | start =>
        simp only [hup', hdn, if_true, if_false, Bool.false_eq_true] at hs
        cases h0 : checkStart P sem lo i s with
        | error e => simp [h0] at hs
        | ok b =>
          cases b with
          | false =>
            simp only [h0, Except.ok.injEq] at hs
            rw [← hs]; exact down_case .stop .stopped rfl hup'
          | true =>
            simp only [h0] at hs
            cases h1 : enterAll P sem lo i (setDesire1 i .run s) with
            | error e => simp [h1] at hs
            | ok s1 =>
              simp only [h1] at hs
              cases h2 : recur P sem lo i s1 with
              | error e => simp [h2] at hs
              | ok s2 =>
                simp only [h2, Except.ok.injEq] at hs
                have a0 := desire_case .run
                have r1 := enterAll_spec wf hlo a0.owned (top_claimed ht _) h1
                have r2 := recur_spec wf hlo r1.2.1 h2
                have st3 := setStatus_step (P := P) i .started s2
                have hb2 : s2.bad = false := bad_of_step st3.1 (hs ▸ hb)
                have hb1 : s1.bad = false := r2.1.bad_false hb2
                have l1 := TopOp.lift wf ht ⟨r1.1, r1.2.1, r1.2.2.1⟩ hb1 a0.finv (fun j hj _ => a0.status j hj)
                have l2 := TopOp.lift wf ht ⟨r2.1, r2.2.1, r2.2.2.1⟩ hb2 l1.2.1 l1.2.2
                have hact2 : (s2.fr i).active ≠ none := by rw [r2.2.2.2, r1.2.2.2]; simp
                rw [← hs]
                exact finish ht st3 l2.1 l2.2.1 l2.2.2 (status_set (Or.inl rfl) (fun _ => hact2))
      | stop =>
        simp only [hup', hdn, if_true, if_false, Except.ok.injEq, Bool.false_eq_true] at hs
        rw [← hs]; exact h
      | abort =>
        simp only [hup', if_false, Except.ok.injEq, Bool.false_eq_true] at hs
        rw [← hs]; exact down_case .abort .aborted rfl hup'
    · -- aborted
      have hdn' : isDown (s.fr i).status = false := by
        cases hq : isDown (s.fr i).status with
        | false => rfl
        | true => exact absurd hq hdn
      cases c <;>
        (simp only [hup', hdn', if_false, Except.ok.injEq, Bool.false_eq_true] at hs
         rw [← hs]; exact down_case .abort .aborted rfl hup')

/-! ### ownership and the ghost flags along a run (no invariant needed) -/

/-- ownership is kept and flags only rise -/
def FO (P : Prog) (s s' : St W) : Prop := Owned P s → Owned P s' ∧ (s.bad = true → s'.bad = true)

omit wf hlo in
theorem FO.refl (s : St W) : FO P s s := fun ho => ⟨ho, id⟩
omit wf hlo in
theorem FO.trans {a b c : St W} (h1 : FO P a b) (h2 : FO P b c) : FO P a c := fun ho =>
  have r1 := h1 ho
  have r2 := h2 r1.1
  ⟨r2.1, fun h => r2.2 (r1.2 h)⟩
omit wf hlo in
theorem FO.of_step {i : Frid} {s s' : St W} (st : Step P i s s' ∧ Keep i s s') : FO P s s' :=
  fun ho => ⟨owned_of_step st.1 st.2 ho, st.1.flags⟩
omit wf hlo in
theorem FO.of_spec {D : Frid → Prop} {s s' : St W} (h : Owned P s → Mod D s s' ∧ Owned P s') : FO P s s' :=
  fun ho => ⟨(h ho).2, (h ho).1.flags⟩

theorem framerStep_fo (i : Frid) (ht : Top P i) (c : Control) {s s' : St W}
    (hs : framerStep P sem lo i c s = .ok s') : FO P s s' := by
  have hbad : ∀ t : St W, FO P t (setStatus i .aborted (setDesire1 i .abort t)) := fun t =>
    (FO.of_step (setDesire1_step i .abort t)).trans (FO.of_step (setStatus_step i .aborted _))
  have hstop : FO P s (setStatus i .stopped (setDesire1 i .stop s)) :=
    (FO.of_step (setDesire1_step i .stop s)).trans (FO.of_step (setStatus_step i .stopped _))
  unfold framerStep at hs
  simp only [] at hs
  by_cases hup : isUp (s.fr i).status = true
  · have hnd : isDown (s.fr i).status = false := by
      revert hup; cases (s.fr i).status <;> simp [isUp, isDown]
    cases c with
    | run =>
      simp only [hup, if_true] at hs
      cases h1 : segue P sem lo i s with
      | error e => simp [h1] at hs
      | ok s1 =>
        simp only [h1] at hs
        cases h2 : recur P sem lo i s1 with
        | error e => simp [h2] at hs
        | ok s2 =>
          simp only [h2, Except.ok.injEq] at hs
          rw [← hs]
          exact ((FO.of_spec (fun ho => ⟨(segue_spec wf hlo ho h1).1, (segue_spec wf hlo ho h1).2.1⟩)).trans
            (FO.of_spec (fun ho => ⟨(recur_spec wf hlo ho h2).1, (recur_spec wf hlo ho h2).2.1⟩))).trans
            (FO.of_step (setStatus_step i .running s2))
    | ready =>
      simp only [hup, hnd, if_true, if_false, Except.ok.injEq, Bool.false_eq_true] at hs
      rw [← hs]; exact FO.refl s
    | start =>
      simp only [hup, hnd, if_true, if_false, Except.ok.injEq, Bool.false_eq_true] at hs
      rw [← hs]; exact FO.of_step (setDesire1_step i .run s)
    | stop =>
      simp only [hup, if_true] at hs
      cases h1 : exitAll P sem lo true i (setDesire1 i .stop s) with
      | error e => simp [h1] at hs
      | ok s1 =>
        simp only [h1, Except.ok.injEq] at hs
        rw [← hs]
        exact ((FO.of_step (setDesire1_step i .stop s)).trans
          (FO.of_spec (fun ho => ⟨(exitAll_spec wf hlo ho h1).1, (exitAll_spec wf hlo ho h1).2.1⟩))).trans
          (FO.of_step (setStatus_step i .stopped s1))
    | abort =>
      simp only [hup, if_true] at hs
      cases h1 : exitAll P sem lo false i s with
      | error e => simp [h1] at hs
      | ok s1 =>
        simp only [h1, Except.ok.injEq] at hs
        rw [← hs]
        exact (FO.of_spec (fun ho => ⟨(exitAll_spec wf hlo ho h1).1, (exitAll_spec wf hlo ho h1).2.1⟩)).trans (hbad s1)
  · have hup' : isUp (s.fr i).status = false := by
      cases hq : isUp (s.fr i).status with
      | false => rfl
      | true => exact absurd hq hup
    by_cases hdn : isDown (s.fr i).status = true
    · cases c with
      | run =>
        simp only [hup', hdn, if_true, if_false, Except.ok.injEq, Bool.false_eq_true] at hs
        rw [← hs]; exact FO.of_step (setDesire1_step i .start s)
      | ready =>
        simp only [hup', hdn, if_true, if_false, Bool.false_eq_true] at hs
        cases h1 : checkStart P sem lo i s with
        | error e => simp [h1] at hs
        | ok b =>
          cases b with
          | true => simp only [h1, Except.ok.injEq] at hs; rw [← hs]; exact FO.of_step (setStatus_step i .readied s)
          | false => simp only [h1, Except.ok.injEq] at hs; rw [← hs]; exact hstop
      | start =>
        simp only [hup', hdn, if_true, if_false, Bool.false_eq_true] at hs
        cases h0 : checkStart P sem lo i s with
        | error e => simp [h0] at hs
        | ok b =>
          cases b with
          | false => simp only [h0, Except.ok.injEq] at hs; rw [← hs]; exact hstop
          | true =>
            simp only [h0] at hs
            cases h1 : enterAll P sem lo i (setDesire1 i .run s) with
            | error e => simp [h1] at hs
            | ok s1 =>
              simp only [h1] at hs
              cases h2 : recur P sem lo i s1 with
              | error e => simp [h2] at hs
              | ok s2 =>
                simp only [h2, Except.ok.injEq] at hs
                rw [← hs]
                exact (((FO.of_step (setDesire1_step i .run s)).trans
                  (FO.of_spec (fun ho => ⟨(enterAll_spec wf hlo ho (top_claimed ht _) h1).1,
                    (enterAll_spec wf hlo ho (top_claimed ht _) h1).2.1⟩))).trans
                  (FO.of_spec (fun ho => ⟨(recur_spec wf hlo ho h2).1, (recur_spec wf hlo ho h2).2.1⟩))).trans
                  (FO.of_step (setStatus_step i .started s2))
      | stop =>
        simp only [hup', hdn, if_true, if_false, Except.ok.injEq, Bool.false_eq_true] at hs
        rw [← hs]; exact FO.refl s
      | abort =>
        simp only [hup', if_false, Except.ok.injEq, Bool.false_eq_true] at hs
        rw [← hs]; exact hbad s
    · have hdn' : isDown (s.fr i).status = false := by
        cases hq : isDown (s.fr i).status with
        | false => rfl
        | true => exact absurd hq hdn
      cases c <;>
        (simp only [hup', hdn', if_false, Except.ok.injEq, Bool.false_eq_true] at hs
         rw [← hs]; exact hbad s)

end step

/-! ### runs -/

/-- a run: at each step the clock is set and one scheduled framer receives one control -/
def runSteps (P : Prog) (sem : Sem W) (lo : Ops W) : List (Frid × Control × Nat) → St W → Except Err (St W)
  | [], s => .ok s
  | (i, c, t) :: rest, s =>
    match framerStep P sem lo i c { s with now := t } with
    | .error e => .error e
    | .ok s' => runSteps P sem lo rest s'

/-- before anything ran: nothing active, every auxiliary done, nobody started -/
def Fresh (s : St W) : Prop :=
  ∀ i, (s.fr i).active = none ∧ (s.fr i).actives = [] ∧ (s.fr i).done = true ∧ isUp (s.fr i).status = false

theorem C05_init (P : Prog) {s : St W} (h : Fresh s) : AllInv P s := by
  have hnr : ∀ m x, ¬ Running P s m x := fun m x ⟨_, hd⟩ => by rw [(h x).2.2.1] at hd; cases hd
  refine ⟨⟨?_, ?_, ?_⟩, ?_, ?_⟩
  · intro i f hf; rw [(h i).2.1] at hf; cases hf
  · intro i a ha; rw [(h i).1] at ha; cases ha
  · intro f x _ _ hd; rw [(h x).2.2.1] at hd; cases hd
  · intro i
    constructor
    · intro _; exact (h i).2.1
    · intro a ha; rw [(h i).1] at ha; cases ha
    · intro a ha; rw [(h i).1] at ha; cases ha
    · intro m x _ hr; exact absurd hr (hnr m x)
    · intro m x _ _ _ _ hr; exact absurd hr (hnr m x)
  · intro i _
    constructor
    · intro _; exact ⟨(h i).1, (h i).2.1⟩
    · intro hu; rw [(h i).2.2.2] at hu; cases hu

theorem allInv_now {P : Prog} {s : St W} (h : AllInv P s) (t : Nat) : AllInv P { s with now := t } :=
  ⟨⟨h.owned.actives, h.owned.active, h.owned.main⟩,
   fun i => ⟨(h.finv i).none_nil, (h.finv i).own, (h.finv i).full, (h.finv i).cut, (h.finv i).single⟩,
   fun i hi => ⟨(h.status i hi).down, (h.status i hi).up⟩⟩

/-- **C05 (partial), all runs.**  From a fresh state, for every sequence of (scheduled framer, control, time):
if no ghost flag is up at the end, the invariant holds at the end — hence at every boundary of the run at
which no flag is up. -/
theorem C05_reachable_partial {P : Prog} {rank : Frid → Nat} (wf : WF P rank) (sem : Sem W) (n : Nat)
    (steps : List (Frid × Control × Nat)) (htop : ∀ x, x ∈ steps → Top P x.1) {s0 s : St W}
    (h0 : AllInv P s0) (hrun : runSteps P sem (opsAt P sem n) steps s0 = .ok s) (hb : s.bad = false) :
    AllInv P s := by
  have hlo := opsAt_spec wf sem n
  -- flags only rise along the rest of a run
  have mono : ∀ (l : List (Frid × Control × Nat)) (a b : St W), (∀ x, x ∈ l → Top P x.1) → Owned P a →
      runSteps P sem (opsAt P sem n) l a = .ok b → (a.bad = true → b.bad = true) := by
    intro l
    induction l with
    | nil => intro a b _ _ h hq; simp only [runSteps, Except.ok.injEq] at h; rw [← h]; exact hq
    | cons x xs ih =>
      intro a b hta ho h hq
      obtain ⟨i, c, t⟩ := x
      simp only [runSteps] at h
      cases h1 : framerStep P sem (opsAt P sem n) i c { a with now := t } with
      | error e => simp [h1] at h
      | ok a1 =>
        simp only [h1] at h
        have ho' : Owned P { a with now := t } := ⟨ho.actives, ho.active, ho.main⟩
        have r := framerStep_fo wf hlo i (hta (i, c, t) (by simp)) c h1 ho'
        exact ih a1 b (fun y hy => hta y (by simp [hy])) r.1 h (r.2 hq)
  induction steps generalizing s0 with
  | nil => simp only [runSteps, Except.ok.injEq] at hrun; rw [← hrun]; exact h0
  | cons x xs ih =>
    obtain ⟨i, c, t⟩ := x
    simp only [runSteps] at hrun
    cases h1 : framerStep P sem (opsAt P sem n) i c { s0 with now := t } with
    | error e => simp [h1] at hrun
    | ok s1 =>
      simp only [h1] at hrun
      have a0 := allInv_now h0 t
      have r := framerStep_fo wf hlo i (htop (i, c, t) (by simp)) c h1 a0.owned
      have hb1 : s1.bad = false := by
        cases hq : s1.bad with
        | false => rfl
        | true => rw [mono xs s1 s (fun y hy => htop y (by simp [hy])) r.1 hrun hq] at hb; cases hb
      have a1 := C05_step_partial wf hlo (htop (i, c, t) (by simp)) c a0 h1 hb1
      exact ih (fun y hy => htop y (by simp [hy])) a1 hrun

/-- flags only rise along the tasker loop of one tick -/
theorem tickLoop_mono {P : Prog} {rank : Frid → Nat} (wf : WF P rank) (sem : Sem W) (n : Nat) :
    ∀ (l r a : List Frid) (m : Bool) (s : St W) (res : List Frid × List Frid × Bool × St W),
      (∀ i, i ∈ l → Top P i) → Owned P s →
      tickLoop P sem (opsAt P sem n) l r a m s = .ok res → (s.bad = true → res.2.2.2.bad = true) := by
  have hlo := opsAt_spec wf sem n
  intro l
  induction l with
  | nil => intro r a m s res _ _ h hq; simp only [tickLoop, Except.ok.injEq] at h; rw [← h]; exact hq
  | cons i rest ih =>
    intro r a m s res htl ho h hq
    simp only [tickLoop] at h
    cases h1 : framerStep P sem (opsAt P sem n) i (s.fr i).desire s with
    | error e => simp [h1] at h
    | ok s1 =>
      simp only [h1] at h
      have fo := framerStep_fo wf hlo i (htl i (by simp)) _ h1 ho
      split at h
      · exact ih _ _ _ s1 res (fun j hj => htl j (by simp [hj])) fo.1 h (fo.2 hq)
      · exact ih _ _ _ s1 res (fun j hj => htl j (by simp [hj])) fo.1 h (fo.2 hq)

/-- **C05 (partial), the scheduler's loop over the ready taskers of one tick** (`Skedder.run`). -/
theorem C05_tick_partial {P : Prog} {rank : Frid → Nat} (wf : WF P rank) (sem : Sem W) (n : Nat) :
    ∀ (l r a : List Frid) (m : Bool) (s : St W) (res : List Frid × List Frid × Bool × St W),
      (∀ i, i ∈ l → Top P i) → AllInv P s →
      tickLoop P sem (opsAt P sem n) l r a m s = .ok res → res.2.2.2.bad = false → AllInv P res.2.2.2 := by
  have hlo := opsAt_spec wf sem n
  intro l
  induction l with
  | nil => intro r a m s res _ h0 h _; simp only [tickLoop, Except.ok.injEq] at h; rw [← h]; exact h0
  | cons i rest ih =>
    intro r a m s res htop h0 h hb
    simp only [tickLoop] at h
    cases h1 : framerStep P sem (opsAt P sem n) i (s.fr i).desire s with
    | error e => simp [h1] at h
    | ok s1 =>
      simp only [h1] at h
      have fo := framerStep_fo wf hlo i (htop i (by simp)) _ h1 h0.owned
      have hb1 : s1.bad = false := by
        cases hq : s1.bad with
        | false => rfl
        | true =>
          exfalso
          split at h
          · rw [tickLoop_mono wf sem n _ _ _ _ s1 res (fun j hj => htop j (by simp [hj])) fo.1 h hq] at hb; cases hb
          · rw [tickLoop_mono wf sem n _ _ _ _ s1 res (fun j hj => htop j (by simp [hj])) fo.1 h hq] at hb; cases hb
      have a1 := C05_step_partial wf hlo (htop i (by simp)) _ h0 h1 hb1
      split at h
      · exact ih _ _ _ s1 res (fun j hj => htop j (by simp [hj])) a1 h hb
      · exact ih _ _ _ s1 res (fun j hj => htop j (by simp [hj])) a1 h hb

/-- **C05, as the property words it** (for scheduled framers, at a boundary where the invariant holds). -/
theorem C05_actives_outline {P : Prog} {s : St W} (h : AllInv P s) (i : Frid) (hi : Top P i) :
    (isUp (s.fr i).status = true →
      ∃ a, (s.fr i).active = some a ∧
        ((∀ m x, (P.frame m).framer = i → ¬ Running P s m x) → (s.fr i).actives = (P.frame a).outline) ∧
        (∀ m x, (P.frame m).framer = i → Running P s m x → (s.fr i).actives = (P.frame m).head)) ∧
    (isUp (s.fr i).status = false → (s.fr i).actives = []) := by
  constructor
  · intro hu
    have := (h.status i hi).up hu
    cases ha : (s.fr i).active with
    | none => exact absurd ha this
    | some a => exact ⟨a, rfl, (h.finv i).full a ha, (h.finv i).cut⟩
  · intro hd; exact ((h.status i hi).down hd).2

/-- **C05, full statement**: the invariant at the end of every run from a fresh state. -/
def C05_full : Prop :=
  ∀ (P : Prog) (rank : Frid → Nat), WF P rank → ∀ (sem : Sem Unit) (n : Nat)
    (steps : List (Frid × Control × Nat)), (∀ x, x ∈ steps → Top P x.1) → ∀ (s0 s : St Unit), Fresh s0 →
    runSteps P sem (opsAt P sem n) steps s0 = .ok s → AllInv P s

/-! ### the counterexample (defect D3) -/

namespace CexD3

def fr0 (i : Frid) (ol hd : List Fid) (pre : List Preact) (en : List Act) : FrameDef :=
  { framer := i, outline := ol, head := hd, beacts := [], enacts := en, renacts := [], reacts := [],
    exacts := [], rexacts := [], preacts := pre, auxes := [] }

/-- main framer 0 with frames A=0 > B=1 > C=2; `aux x1 if …` in A (framer 1, frames 3 → 4, done on entering 4),
`aux x2 if …` in B (framer 2, frame 5, never done).  Frames ≥ 6 / framers ≥ 3 are unused singletons. -/
def prog : Prog :=
  { frame := fun f => match f with
      | 0 => fr0 0 [0, 1, 2] [0] [.suspend [1] 1 []] []
      | 1 => fr0 0 [0, 1, 2] [0, 1] [.suspend [0] 2 []] []
      | 2 => fr0 0 [0, 1, 2] [0, 1, 2] [] []
      | 3 => fr0 1 [3] [3] [.transit [2] 4 []] []
      | 4 => fr0 1 [4] [4] [] [.done [1]]
      | 5 => fr0 2 [5] [5] [] []
      | n + 6 => fr0 (n + 3) [n + 6] [n + 6] [] [],
    framer := fun i => match i with
      | 0 => { first := 0 }
      | 1 => { first := 3 }
      | 2 => { first := 5 }
      | n + 3 => { first := n + 6 },
    frames := fun i => match i with
      | 0 => [0, 1, 2]
      | 1 => [3, 4]
      | 2 => [5]
      | n + 3 => [n + 6] }

/-- need 0: `now ≥ 1`; need 1: `now ≥ 2`; need 2: `recurred ≥ 1` of framer 1 -/
def sem : Sem Unit :=
  { act := fun _ _ _ w => (w, false),
    need := fun id frs now _ => match id with
      | 0 => decide (1 ≤ now)
      | 1 => decide (2 ≤ now)
      | 2 => decide (1 ≤ (frs 1).recurred)
      | _ => false }

def rank : Frid → Nat := fun i => match i with
  | 0 => 2
  | _ => 1

def init : St Unit := { frs := fun _ => {}, world := (), now := 0 }

/-- start at t = 0, then three runs -/
def steps : List (Frid × Control × Nat) := [(0, .start, 0), (0, .run, 1), (0, .run, 2), (0, .run, 3)]

def run : Except Err (St Unit) := runSteps prog sem (opsAt prog sem 2) steps init

/-- what the run ends in: the full outline `[A, B, C]` is active although `x2` (conditional auxiliary of `B`)
is still running; the overlap flag is up -/
theorem end_state :
    (match run with
     | .ok s => (s.fr 0).actives == [0, 1, 2] && !(s.fr 2).done && (s.fr 1).done && s.overlap
     | .error _ => false) = true := by decide

theorem top0 : Top prog 0 := by
  intro j ⟨f, _, hy⟩
  match f with
  | 0 | 1 | 2 | 3 | 4 | 5 => simp [kids, prog, fr0, suspAuxes] at hy
  | n + 6 => simp [kids, prog, fr0, suspAuxes] at hy

theorem kids_eq (f : Fid) : kids prog f = if f = 0 then [1] else if f = 1 then [2] else [] := by
  match f with
  | 0 | 1 | 2 | 3 | 4 | 5 => simp [kids, prog, fr0, suspAuxes]
  | n + 6 => simp [kids, prog, fr0, suspAuxes]

theorem kids_cases {f : Fid} {y : Frid} (h : y ∈ kids prog f) : (f = 0 ∧ y = 1) ∨ (f = 1 ∧ y = 2) := by
  rw [kids_eq] at h
  by_cases h0 : f = 0
  · simp [h0] at h; exact Or.inl ⟨h0, h⟩
  · by_cases h1 : f = 1
    · simp [h1] at h; exact Or.inr ⟨h1, h⟩
    · simp [h0, h1] at h

/-- the program is well formed: the counterexample lies inside the class the `_partial` theorems are about -/
theorem wf : WF prog rank := by
  constructor
  · intro f y hy
    rcases kids_cases hy with ⟨hf, hy'⟩ | ⟨hf, hy'⟩ <;> subst hf <;> subst hy' <;> decide
  · intro f g y hf hg
    rcases kids_cases hf with ⟨h1, h2⟩ | ⟨h1, h2⟩ <;> rcases kids_cases hg with ⟨h3, h4⟩ | ⟨h3, h4⟩
    · rw [h1, h3]
    · rw [h2] at h4; cases h4
    · rw [h2] at h4; cases h4
    · rw [h1, h3]
  · intro f; rw [kids_eq]
    by_cases h0 : f = 0
    · simp [h0]
    · by_cases h1 : f = 1 <;> simp [h0, h1]
  · intro f a ha
    match f with
    | 0 | 1 | 2 | 3 | 5 => simp [prog, fr0] at ha
    | 4 => simp [prog, fr0] at ha; subst ha; simp [DoneOnly, prog, fr0]
    | n + 6 => simp [prog, fr0] at ha
  · intro f a ha
    match f with
    | 0 | 1 | 2 | 3 | 4 | 5 => simp [prog, fr0] at ha
    | n + 6 => simp [prog, fr0] at ha
  · intro f a ha
    match f with
    | 0 | 1 | 2 | 3 | 4 | 5 => simp [prog, fr0] at ha
    | n + 6 => simp [prog, fr0] at ha
  · intro f a ha
    match f with
    | 0 | 1 | 2 | 3 | 4 | 5 => simp [prog, fr0] at ha
    | n + 6 => simp [prog, fr0] at ha
  · intro f a ha
    match f with
    | 0 | 1 | 2 | 3 | 4 | 5 => simp [prog, fr0] at ha
    | n + 6 => simp [prog, fr0] at ha
  · intro f p hp
    match f with
    | 0 | 1 | 3 => simp [prog, fr0] at hp; subst hp; simp [PreactDoneOnly]
    | 2 | 4 | 5 => simp [prog, fr0] at hp
    | n + 6 => simp [prog, fr0] at hp
  · intro m
    match m with
    | 0 | 1 | 2 | 3 | 4 | 5 => simp [prog, fr0]
    | n + 6 => simp [prog, fr0]
  · intro a f hf
    match a with
    | 0 | 1 | 2 => simp [prog, fr0] at hf; rcases hf with h | h | h <;> subst h <;> simp [prog, fr0]
    | 3 | 4 | 5 => simp [prog, fr0] at hf; subst hf; simp [prog, fr0]
    | n + 6 => simp [prog, fr0] at hf; subst hf; simp [prog, fr0]
  · intro m f hf
    match m with
    | 0 => simp [prog, fr0] at hf; subst hf; simp [prog, fr0]
    | 1 => simp [prog, fr0] at hf; rcases hf with h | h <;> subst h <;> simp [prog, fr0]
    | 2 => simp [prog, fr0] at hf; rcases hf with h | h | h <;> subst h <;> simp [prog, fr0]
    | 3 | 4 | 5 => simp [prog, fr0] at hf; subst hf; simp [prog, fr0]
    | n + 6 => simp [prog, fr0] at hf; subst hf; simp [prog, fr0]
  · intro a
    match a with
    | 0 | 1 | 2 | 3 | 4 | 5 => simp [prog, fr0]
    | n + 6 => simp [prog, fr0]
  · intro i
    match i with
    | 0 | 1 | 2 => simp [prog, fr0]
    | n + 3 => simp [prog, fr0]
  · intro f needs far tr hp
    match f with
    | 3 => simp [prog, fr0] at hp; obtain ⟨_, h, _⟩ := hp; subst h; simp [prog, fr0]
    | 0 | 1 | 2 | 4 | 5 => simp [prog, fr0] at hp
    | n + 6 => simp [prog, fr0] at hp
  · intro m
    match m with
    | 0 | 1 | 2 | 3 | 4 | 5 => simp [prog, fr0]
    | n + 6 => simp [prog, fr0]

end CexD3

/-- **The full statement is false of the code as modelled** (D3): in the well-formed program `CexD3.prog`, after
`start, run, run, run`, the main framer's active frames are the whole outline `[A, B, C]` while the
conditional auxiliary `x2` of frame `B` is running — `FInv.cut` demands `[A, B]`. -/
theorem C05_counterexample_D3 : ¬ C05_full := by
  intro h
  have hfacts := CexD3.end_state
  cases hrun : CexD3.run with
  | error e => rw [hrun] at hfacts; cases hfacts
  | ok s =>
    rw [hrun] at hfacts
    simp only [Bool.and_eq_true, beq_iff_eq, Bool.not_eq_true'] at hfacts
    have hall := h CexD3.prog CexD3.rank CexD3.wf CexD3.sem 2 CexD3.steps
      (by intro x hx; simp [CexD3.steps] at hx; rcases hx with h | h | h | h <;> subst h <;> exact CexD3.top0)
      CexD3.init s (by intro i; simp [CexD3.init, St.fr, isUp]) hrun
    have hcut := (hall.finv 0).cut 1 2 (by simp [CexD3.prog, CexD3.fr0])
      ⟨by simp [IsSusp, CexD3.prog, CexD3.fr0, suspAuxes], hfacts.1.1.2⟩
    rw [hfacts.1.1.1] at hcut
    simp [CexD3.prog, CexD3.fr0] at hcut

/-- the hypothesis of the `_partial` theorems fails on it, as it must: the overlap flag is up -/
theorem C05_counterexample_in_region :
    (match CexD3.run with
     | .ok s => s.bad
     | .error _ => false) = true := by decide

/-- non-vacuity of the `_partial` theorems: the same program, stopped one run earlier, ends with no flag up
and with the conditional auxiliary `x2` of `B` running and the outline cut at `B` -/
example :
    (match runSteps CexD3.prog CexD3.sem (opsAt CexD3.prog CexD3.sem 2)
        [(0, .start, 0), (0, .run, 1)] CexD3.init with
     | .ok s => !s.bad && (s.fr 0).actives == [0, 1] && !(s.fr 2).done && (s.fr 0).status == .running
     | .error _ => false) = true := by decide

end Ioflo.Flo
