import IofloModel.Lemmas.Outline
/-!
# C06 — enter/exit bracketing and transition order

## Pure part: the outline-difference computation `Framer.ExEn`, for all pairs of outlines

Model: `Model/Outline.lean` (`exEn` transcribes the loop of `Framer.ExEn`).  `nears` is the
framer's current `.actives`, `fars = far.outline`; the result is `(exits, enters, reexens)`.
All theorems are for arbitrary lists; the only hypothesis used is the one the code comment
itself states: `far` is a member of its own outline (`far ∈ fars`).
-/
namespace Ioflo.Outline

theorem take_eq_take_of_agree (ns fs : List Fid) (i : Nat)
    (h : ∀ j, j < i → ns[j]? = fs[j]?) : ns.take i = fs.take i := by
  apply List.ext_getElem?
  intro j
  simp only [List.getElem?_take]
  by_cases hj : j < i
  · simp [hj, h j hj]
  · simp [hj]

/-- **exen_split.** `ExEn` cuts both outlines at the least index `i` (below both lengths) at which
`nears[i] is far` or `nears[i] is not fars[i]`; when there is no such index it returns
`([], [], nears)`. -/
theorem C06_exen_split (far : Fid) (nears fars : List Fid) :
    (∃ i, i < nears.length ∧ i < fars.length ∧ StopAt far nears fars i
        ∧ (∀ j, j < i → ¬ StopAt far nears fars j)
        ∧ exEn far nears fars = (nears.drop i, fars.drop i, nears.take i))
    ∨ ((∀ j, j < nears.length → j < fars.length → ¬ StopAt far nears fars j)
        ∧ exEn far nears fars = ([], [], nears)) := by
  cases hs : stopIndex far nears fars with
  | some i =>
    left
    have hl := stopIndex_lt far nears fars i hs
    exact ⟨i, hl.1, hl.2, stopIndex_stop far nears fars i hs, stopIndex_first far nears fars i hs,
      exEn_of_stop far nears fars i hs⟩
  | none =>
    right
    exact ⟨stopIndex_none far nears fars hs, exEn_of_noStop far nears fars hs⟩

example : exEn 2 [0, 1, 2, 3] [0, 1, 2, 5] = ([2, 3], [2, 5], [0, 1]) := by decide
example : exEn 7 [0, 1, 2, 3] [0, 4, 7] = ([1, 2, 3], [4, 7], [0]) := by decide
example : exEn 7 [0, 1] [0, 1, 7] = ([], [], [0, 1]) := by decide

/-- **exen_exits_suffix.** The exits are a suffix of the current outline and the re-exit/re-enter
frames are the rest: `reexens ++ exits = nears`, always. -/
theorem C06_exen_exits_suffix (far : Fid) (nears fars : List Fid) :
    (exEn far nears fars).2.2 ++ (exEn far nears fars).1 = nears := by
  rcases C06_exen_split far nears fars with ⟨i, _, _, _, _, h⟩ | ⟨_, h⟩
  · rw [h]; simp
  · rw [h]; simp

/-- **exen_common_prefix.** With `far ∈ far.outline`: the re-exit/re-enter frames are a common
prefix of both outlines, they do not contain `far`, and (when anything is entered at all) the
enters are exactly the rest of the target's outline. -/
theorem C06_exen_common_prefix (far : Fid) (nears fars : List Fid) (hfar : far ∈ fars) :
    let r := exEn far nears fars
    r.2.2 <+: nears ∧ r.2.2 <+: fars ∧ far ∉ r.2.2 ∧ (r.2.1 ≠ [] → r.2.2 ++ r.2.1 = fars) := by
  intro r
  rcases C06_exen_split far nears fars with ⟨i, h1, h2, _, hfirst, h⟩ | ⟨hno, h⟩
  · have hagree : ∀ j, j < i → nears[j]? = fars[j]? := by
      intro j hj
      have := (not_stopAt_iff far nears fars j (by omega) (by omega)).1 (hfirst j hj)
      simp [List.getElem?_eq_getElem (show j < nears.length by omega),
        List.getElem?_eq_getElem (show j < fars.length by omega), this.1]
    have htake := take_eq_take_of_agree nears fars i hagree
    have hr : r = (nears.drop i, fars.drop i, nears.take i) := h
    rw [hr]
    refine ⟨List.take_prefix i nears, ?_, ?_, ?_⟩
    · show nears.take i <+: fars
      rw [htake]; exact List.take_prefix i fars
    · show far ∉ nears.take i
      intro hm
      rcases List.getElem_of_mem hm with ⟨j, hj, hje⟩
      have hji : j < i := by
        have := hj; simp only [List.length_take] at this; omega
      have := (not_stopAt_iff far nears fars j (by omega) (by omega)).1 (hfirst j hji)
      rw [List.getElem_take] at hje
      exact this.2 hje
    · intro _
      show nears.take i ++ fars.drop i = fars
      rw [htake]; exact List.take_append_drop i fars
  · -- falling through is only possible when `nears` is a proper prefix of `fars` without `far`
    have hr : r = ([], [], nears) := h
    have hlen : nears.length < fars.length := by
      apply Nat.lt_of_not_le
      intro hle
      rcases List.getElem_of_mem hfar with ⟨j, hj, hje⟩
      have := (not_stopAt_iff far nears fars j (by omega) hj).1 (hno j (by omega) hj)
      exact this.2 (by rw [this.1]; exact hje)
    have hagree : ∀ j, j < nears.length → nears[j]? = fars[j]? := by
      intro j hj
      have := (not_stopAt_iff far nears fars j hj (by omega)).1 (hno j hj (by omega))
      simp [List.getElem?_eq_getElem hj, List.getElem?_eq_getElem (show j < fars.length by omega), this.1]
    have htake := take_eq_take_of_agree nears fars nears.length hagree
    rw [List.take_length] at htake
    rw [hr]
    refine ⟨List.prefix_refl _, ?_, ?_, ?_⟩
    · show nears <+: fars
      rw [htake]; exact List.take_prefix _ fars
    · show far ∉ nears
      intro hm
      rcases List.getElem_of_mem hm with ⟨j, hj, hje⟩
      have := (not_stopAt_iff far nears fars j hj (by omega)).1 (hno j hj (by omega))
      exact this.2 hje
    · intro hne; exact absurd rfl hne

example : (exEn 2 [0, 1, 2, 3] [0, 1, 2, 5]).2.2 = [0, 1] ∧ (2 : Fid) ∈ [0, 1, 2, 5] := by decide

/-- **exen_enters_nonempty_iff.** With `far ∈ far.outline`: nothing is entered (and the
transition is therefore refused by `checkEnter`) exactly when the current outline is a prefix of
the target's outline that does not contain the target — e.g. the outline truncated by a
conditional auxiliary above the target. -/
theorem C06_exen_enters_nonempty_iff (far : Fid) (nears fars : List Fid) (hfar : far ∈ fars) :
    (exEn far nears fars).2.1 = [] ↔ (nears <+: fars ∧ far ∉ nears) := by
  rcases C06_exen_split far nears fars with ⟨i, h1, h2, hstop, hfirst, h⟩ | ⟨hno, h⟩
  · rw [h]
    constructor
    · intro he
      have : fars.drop i = [] := he
      rw [List.drop_eq_nil_iff] at this
      omega
    · intro ⟨hpre, hnot⟩
      exfalso
      rcases hpre with ⟨t, ht⟩
      have hi : nears[i]? = fars[i]? := by
        rw [← ht, List.getElem?_append_left h1]
      unfold StopAt at hstop
      rcases hstop with hs | hs
      · exact hnot (List.mem_of_getElem? hs)
      · exact hs hi
  · rw [h]
    have := C06_exen_common_prefix far nears fars hfar
    simp only [h] at this
    exact ⟨fun _ => ⟨this.2.1, this.2.2.1⟩, fun _ => rfl⟩

example : (exEn 7 [0, 1] [0, 1, 7]).2.1 = [] ∧ ([0, 1] : List Fid) <+: [0, 1, 7] := by decide

/-- **exen_target_reentered.** A forced transition: if the target is in the current outline it
is both exited and entered again. -/
theorem C06_exen_target_reentered (far : Fid) (nears fars : List Fid)
    (hn : far ∈ nears) (hfar : far ∈ fars) :
    far ∈ (exEn far nears fars).1 ∧ far ∈ (exEn far nears fars).2.1 := by
  rcases C06_exen_split far nears fars with ⟨i, h1, h2, hstop, hfirst, h⟩ | ⟨hno, h⟩
  · rw [h]
    constructor
    · show far ∈ nears.drop i
      rcases List.getElem_of_mem hn with ⟨k, hk, hke⟩
      have hik : i ≤ k := by
        apply Nat.le_of_not_lt
        intro hki
        have := (not_stopAt_iff far nears fars k hk (by omega)).1 (hfirst k hki)
        exact this.2 hke
      rw [List.mem_iff_getElem]
      refine ⟨k - i, by simp only [List.length_drop]; omega, ?_⟩
      rw [List.getElem_drop]
      have : i + (k - i) = k := by omega
      simp only [this, hke]
    · show far ∈ fars.drop i
      rcases List.getElem_of_mem hfar with ⟨p, hp, hpe⟩
      have hip : i ≤ p := by
        apply Nat.le_of_not_lt
        intro hpi
        have := (not_stopAt_iff far nears fars p (by omega) hp).1 (hfirst p hpi)
        exact this.2 (by rw [this.1]; exact hpe)
      rw [List.mem_iff_getElem]
      refine ⟨p - i, by simp only [List.length_drop]; omega, ?_⟩
      rw [List.getElem_drop]
      have : i + (p - i) = p := by omega
      simp only [this, hpe]
  · exfalso
    have := (C06_exen_enters_nonempty_iff far nears fars hfar).1 (by rw [h])
    exact this.2 hn

example : (1 : Fid) ∈ (exEn 1 [0, 1, 2] [0, 1, 2]).1 ∧ (1 : Fid) ∈ (exEn 1 [0, 1, 2] [0, 1, 2]).2.1 := by
  decide

/-- The first exited frame and the first entered frame differ, unless it is the target itself
(forced re-entry). -/
theorem C06_exen_first_differs (far : Fid) (nears fars : List Fid) (x y : Fid)
    (hx : (exEn far nears fars).1.head? = some x) (hy : (exEn far nears fars).2.1.head? = some y) :
    x = far ∨ x ≠ y := by
  rcases C06_exen_split far nears fars with ⟨i, h1, h2, hstop, _, h⟩ | ⟨_, h⟩
  · rw [h] at hx hy
    simp only [List.head?_drop] at hx hy
    unfold StopAt at hstop
    rcases hstop with hs | hs
    · left; rw [hx] at hs; exact Option.some.inj hs
    · right; intro hxy; apply hs; rw [hx, hy, hxy]
  · rw [h] at hx; simp at hx

end Ioflo.Outline
