import IofloModel.Lemmas.FloTrace
import IofloModel.Props.C05
/-!
# C06, trace part — enter/exit bracketing along runs

Model: `Model/Flo.lean`.  `Frame.enter` / `Frame.exit` are the only places where `.enter f` / `.exit f` events are
emitted (`noteEnter` / `noteExit`); in the same step they update the ghost map `St.ent` (entered and not exited)
and raise the ghost flag `St.dbl` when a frame is entered while entered or exited while not entered.  So
* `dbl = false`  ⇔  for every frame the enter/exit events alternate, starting with enter  (**bracket_alternate**);
* `EInv`         =  a frame is entered iff it lies on the full outline of its framer's active frame — including the
                    frames suspended under a conditional auxiliary, which stay entered  (**entered_eq_outlines**).

The code violates both when a framer is stopped, aborted or makes a transition while its outline is truncated
(defect D3c: `exitAll` / `Transiter.action` use the truncated `.actives`), hence the `_partial` theorems carry the
decidable hypothesis `bad2 = false` on the reached state (`bad2 = left ∨ reenter`, ghost flags) and
`C06_counterexample_D3c` refutes the full statement.  Lemmas: `Lemmas/FloTrace.lean`.
-/
namespace Ioflo.Flo
open Ioflo.Outline (Fid)

variable {W : Type}

/-- the bracket invariant of a whole state -/
structure EAll (P : Prog) (s : St W) : Prop where
  einv : ∀ i, EInv P i s
  dbl : s.dbl = false

/-- what one framer run (or a part of it) does to `EAll` -/
def ET (P : Prog) (s s' : St W) : Prop :=
  Owned P s → Owned P s' ∧ (s.bad2 = true → s'.bad2 = true) ∧ (s'.bad2 = false → EAll P s → EAll P s')

theorem ET.refl (P : Prog) (s : St W) : ET P s s := fun ho => ⟨ho, id, fun _ h => h⟩

theorem ET.trans {P : Prog} {a b c : St W} (h1 : ET P a b) (h2 : ET P b c) : ET P a c := by
  intro ho
  have r1 := h1 ho
  have r2 := h2 r1.1
  refine ⟨r2.1, fun h => r2.2.1 (r1.2.1 h), ?_⟩
  intro hb he
  have hb1 : b.bad2 = false := by
    cases hq : b.bad2 with
    | false => rfl
    | true => rw [r2.2.1 hq] at hb; cases hb
  exact r2.2.2 hb (r1.2.2 hb1 he)

/-- a step that touches neither the ghost map nor anybody's active frame -/
theorem ET.of_local {P : Prog} {i : Frid} {s s' : St W} (hE : EStep s s') (hS : Step P i s s' ∧ Keep i s s') :
    ET P s s' := by
  intro ho
  refine ⟨owned_of_step hS.1 hS.2 ho, hE.flags, ?_⟩
  intro _ he
  refine ⟨?_, by rw [hE.dbl]; exact he.dbl⟩
  intro j
  apply (he.einv j).congr
  · by_cases e : j = i
    · subst e; exact hS.2.1
    · exact hS.1.active j e
  · intro f _; rw [hE.ent]

/-- the structure of `Framer.makeRunner`: any reflexive-transitive relation that holds of the four framer
operations and of the `desire` / `status` assignments holds of a whole run of the framer -/
theorem framerStep_rel {P : Prog} {sem : Sem W} {lo : Ops W} {i : Frid} (R : St W → St W → Prop)
    (hrefl : ∀ t, R t t) (htrans : ∀ a b c, R a b → R b c → R a c)
    (hdes : ∀ c t, R t (setDesire1 i c t)) (hstat : ∀ st t, R t (setStatus i st t))
    (hseg : ∀ t t', segue P sem lo i t = .ok t' → R t t') (hrec : ∀ t t', recur P sem lo i t = .ok t' → R t t')
    (hent : ∀ t t', enterAll P sem lo i t = .ok t' → R t t')
    (hex : ∀ ab t t', exitAll P sem lo ab i t = .ok t' → R t t')
    (c : Control) {s s' : St W} (hs : framerStep P sem lo i c s = .ok s') : R s s' := by
  have hbad : ∀ t, R t (setStatus i .aborted (setDesire1 i .abort t)) := fun t => htrans _ _ _ (hdes _ t) (hstat _ _)
  have hstop : R s (setStatus i .stopped (setDesire1 i .stop s)) := htrans _ _ _ (hdes _ s) (hstat _ _)
  unfold framerStep at hs
  simp only [] at hs
  by_cases hup : isUp (s.fr i).status = true
  · have hnd : isDown (s.fr i).status = false := by
      revert hup; cases (s.fr i).status <;> simp [isUp, isDown]
    cases c with
    | run =>
      simp only [hup, if_true] at hs
      cases h1 : segue P sem lo i s with
      | error e => simp [h1] at hs
      | ok s1 =>
        simp only [h1] at hs
        cases h2 : recur P sem lo i s1 with
        | error e => simp [h2] at hs
        | ok s2 =>
          simp only [h2, Except.ok.injEq] at hs
          rw [← hs]
          exact htrans _ _ _ (htrans _ _ _ (hseg _ _ h1) (hrec _ _ h2)) (hstat _ _)
    | ready =>
      simp only [hup, hnd, if_true, if_false, Except.ok.injEq, Bool.false_eq_true] at hs
      rw [← hs]; exact hrefl s
    | start =>
      simp only [hup, hnd, if_true, if_false, Except.ok.injEq, Bool.false_eq_true] at hs
      rw [← hs]; exact hdes _ s
    | stop =>
      simp only [hup, if_true] at hs
      cases h1 : exitAll P sem lo true i (setDesire1 i .stop s) with
      | error e => simp [h1] at hs
      | ok s1 =>
        simp only [h1, Except.ok.injEq] at hs
        rw [← hs]
        exact htrans _ _ _ (htrans _ _ _ (hdes _ s) (hex _ _ _ h1)) (hstat _ _)
    | abort =>
      simp only [hup, if_true] at hs
      cases h1 : exitAll P sem lo false i s with
      | error e => simp [h1] at hs
      | ok s1 =>
        simp only [h1, Except.ok.injEq] at hs
        rw [← hs]
        exact htrans _ _ _ (hex _ _ _ h1) (hbad s1)
  · have hup' : isUp (s.fr i).status = false := by
      cases hq : isUp (s.fr i).status with
      | false => rfl
      | true => exact absurd hq hup
    by_cases hdn : isDown (s.fr i).status = true
    · cases c with
      | run =>
        simp only [hup', hdn, if_true, if_false, Except.ok.injEq, Bool.false_eq_true] at hs
        rw [← hs]; exact hdes _ s
      | ready =>
        simp only [hup', hdn, if_true, if_false, Bool.false_eq_true] at hs
        cases h1 : checkStart P sem lo i s with
        | error e => simp [h1] at hs
        | ok b =>
          cases b with
          | true => simp only [h1, Except.ok.injEq] at hs; rw [← hs]; exact hstat _ s
          | false => simp only [h1, Except.ok.injEq] at hs; rw [← hs]; exact hstop
      | start =>
        simp only [hup', hdn, if_true, if_false, Bool.false_eq_true] at hs
        cases h0 : checkStart P sem lo i s with
        | error e => simp [h0] at hs
        | ok b =>
          cases b with
          | false => simp only [h0, Except.ok.injEq] at hs; rw [← hs]; exact hstop
          | true =>
            simp only [h0] at hs
            cases h1 : enterAll P sem lo i (setDesire1 i .run s) with
            | error e => simp [h1] at hs
            | ok s1 =>
              simp only [h1] at hs
              cases h2 : recur P sem lo i s1 with
              | error e => simp [h2] at hs
              | ok s2 =>
                simp only [h2, Except.ok.injEq] at hs
                rw [← hs]
                exact htrans _ _ _ (htrans _ _ _ (htrans _ _ _ (hdes _ s) (hent _ _ h1)) (hrec _ _ h2)) (hstat _ _)
      | stop =>
        simp only [hup', hdn, if_true, if_false, Except.ok.injEq, Bool.false_eq_true] at hs
        rw [← hs]; exact hrefl s
      | abort =>
        simp only [hup', if_false, Except.ok.injEq, Bool.false_eq_true] at hs
        rw [← hs]; exact hbad s
    · have hdn' : isDown (s.fr i).status = false := by
        cases hq : isDown (s.fr i).status with
        | false => rfl
        | true => exact absurd hq hdn
      cases c <;>
        (simp only [hup', hdn', if_false, Except.ok.injEq, Bool.false_eq_true] at hs
         rw [← hs]; exact hbad s)

section top
variable {P : Prog} {rank : Frid → Nat} (wf : WF P rank) (wfe : WFE P)
include wf wfe

omit wf wfe in
/-- an operation of a scheduled framer `i` (given by its two specifications) as an `ET` -/
theorem ET.of_op {i : Frid} {s s' : St W}
    (hmod : Owned P s → Mod (Reach P i) s s' ∧ Owned P s') (hep : EP P i s s') : ET P s s' := by
  intro ho
  have r := hep ho
  have m := hmod ho
  refine ⟨r.2.1, r.1.flags, ?_⟩
  intro hb he
  have q := r.2.2 hb he.dbl (fun j _ => he.einv j)
  refine ⟨?_, q.2⟩
  intro j
  by_cases hr : Reach P i j
  · exact q.1 j hr
  · exact (he.einv j).congr (core_active (m.1.same j hr)) (fun f hf => r.1.ent f (by rw [hf]; exact hr))

/-- **C06 (partial), one framer run**: bracketing and `entered = outlines` are kept by every run of a framer
that raises neither `left` nor `reenter`. -/
theorem C06_bracket_step_partial (sem : Sem W) (n : Nat) (i : Frid) (ht : Top P i) (c : Control) {s s' : St W}
    (hs : framerStep P sem (opsAt P sem n) i c s = .ok s') : ET P s s' := by
  have hlo := opsAt_spec wf sem n
  have hle := opsAt_specE wf wfe sem n
  apply framerStep_rel (ET P) (ET.refl P) (fun _ _ _ => ET.trans) _ _ _ _ _ _ c hs
  · intro d t
    exact ET.of_local (i := i) (estep_modFr i _ t) ⟨step_modFr P i _ t, by simp [Keep, setDesire1]⟩
  · intro st t
    exact ET.of_local (i := i) (estep_modFr i _ t) ⟨step_modFr P i _ t, by simp [Keep, setStatus]⟩
  · intro t t' h
    exact ET.of_op (fun ho => ⟨(segue_spec wf hlo ho h).1, (segue_spec wf hlo ho h).2.1⟩)
      (segue_ep wf hlo hle wfe h)
  · intro t t' h
    exact ET.of_op (fun ho => ⟨(recur_spec wf hlo ho h).1, (recur_spec wf hlo ho h).2.1⟩)
      (EP.of_eqo wf (recur_eqo wf hlo hle h))
  · intro t t' h
    have hc := top_claimed ht t
    exact ET.of_op (fun ho => ⟨(enterAll_spec wf hlo ho hc h).1, (enterAll_spec wf hlo ho hc h).2.1⟩)
      (fun ho => ⟨(enterAll_e wf hlo hle wfe ho hc h).1, (enterAll_spec wf hlo ho hc h).2.1,
        (enterAll_e wf hlo hle wfe ho hc h).2⟩)
  · intro ab t t' h
    exact ET.of_op (fun ho => ⟨(exitAll_spec wf hlo ho h).1, (exitAll_spec wf hlo ho h).2.1⟩)
      (fun ho => ⟨(exitAll_e wf hlo hle wfe ho h).1, (exitAll_spec wf hlo ho h).2.1, (exitAll_e wf hlo hle wfe ho h).2⟩)

/-- **C06 (partial), all runs**: from a state satisfying the invariant (e.g. a fresh one), for every sequence
of (framer, control, time): if neither `left` nor `reenter` is up at the end, then at the end
* no frame was ever entered while entered or exited while not entered (`dbl = false`: **bracket_alternate**), and
* the entered frames are exactly the full outlines of the active frames of all framers (**entered_eq_outlines**). -/
theorem C06_bracket_reachable_partial (sem : Sem W) (n : Nat) (steps : List (Frid × Control × Nat))
    (htop : ∀ x, x ∈ steps → Top P x.1)
    {s0 s : St W} (ho : Owned P s0) (h0 : EAll P s0)
    (hrun : runSteps P sem (opsAt P sem n) steps s0 = .ok s) (hb : s.bad2 = false) : EAll P s := by
  have key : ∀ (l : List (Frid × Control × Nat)) (a b : St W), (∀ x, x ∈ l → Top P x.1) →
      runSteps P sem (opsAt P sem n) l a = .ok b → ET P a b := by
    intro l
    induction l with
    | nil => intro a b _ h; simp only [runSteps, Except.ok.injEq] at h; rw [← h]; exact ET.refl P a
    | cons x xs ih =>
      intro a b hta h
      obtain ⟨i, c, t⟩ := x
      simp only [runSteps] at h
      cases h1 : framerStep P sem (opsAt P sem n) i c { a with now := t } with
      | error e => simp [h1] at h
      | ok a1 =>
        simp only [h1] at h
        have e0 : ET P a { a with now := t } := fun hoa =>
          ⟨⟨hoa.actives, hoa.active, hoa.main⟩, id, fun _ he => ⟨he.einv, he.dbl⟩⟩
        exact ET.trans e0 (ET.trans (C06_bracket_step_partial wf wfe sem n i (hta (i, c, t) (by simp)) c h1)
          (ih a1 b (fun y hy => hta y (by simp [hy])) h))
  exact (key steps s0 s htop hrun ho).2.2 hb h0

omit wf wfe in
/-- a fresh state satisfies the invariant -/
theorem C06_bracket_init {s : St W} (hf : Fresh s) (he : ∀ f, s.ent f = false) (hd : s.dbl = false) :
    Owned P s ∧ EAll P s := by
  refine ⟨⟨?_, ?_, ?_⟩, ⟨?_, hd⟩⟩
  · intro i f hm; rw [(hf i).2.1] at hm; cases hm
  · intro i a ha; rw [(hf i).1] at ha; cases ha
  · intro f x _ _ hdn; rw [(hf x).2.2.1] at hdn; cases hdn
  · intro i f _
    rw [he f, (hf i).1]
    constructor
    · intro h; cases h
    · intro ⟨a, ha, _⟩; cases ha

omit wf wfe in
/-- **stop_abort_exit_all**: when the invariant holds, a framer without active frame (stopped, aborted) has no
entered frame -/
theorem C06_inactive_nothing_entered {s : St W} (h : EAll P s) (i : Frid) (hn : (s.fr i).active = none)
    (f : Fid) (hf : (P.frame f).framer = i) : s.ent f = false := by
  cases hq : s.ent f with
  | false => rfl
  | true =>
    obtain ⟨a, ha, _⟩ := (h.einv i f hf).1 hq
    rw [hn] at ha; cases ha

end top

/-! ### the full statement and its refutation (defect D3c) -/

/-- **full statement**: bracketing and `entered = outlines` at the end of every run from a fresh state -/
def C06_bracket_full : Prop :=
  ∀ (P : Prog) (rank : Frid → Nat), WF P rank → WFE P → ∀ (sem : Sem Unit) (n : Nat)
    (steps : List (Frid × Control × Nat)) (s0 s : St Unit), (∀ x, x ∈ steps → Top P x.1) →
    Fresh s0 → (∀ f, s0.ent f = false) → s0.dbl = false →
    runSteps P sem (opsAt P sem n) steps s0 = .ok s → EAll P s

theorem CexD3.wfe : WFE CexD3.prog := by
  constructor
  intro a
  match a with
  | 0 | 1 | 2 | 3 | 4 | 5 => simp [CexD3.prog, CexD3.fr0]
  | n + 6 => simp [CexD3.prog, CexD3.fr0]

/-- in `CexD3.prog` (main frames A > B > C, `aux x2 if …` in B): start, run (x2 starts, C is suspended), stop.
`exitAll` exits B and A only: C stays entered although the framer has no active frame any more. -/
theorem C06_counterexample_D3c : ¬ C06_bracket_full := by
  intro h
  have hfacts : (match runSteps CexD3.prog CexD3.sem (opsAt CexD3.prog CexD3.sem 2)
                    [(0, .start, 0), (0, .run, 1), (0, .stop, 2)] CexD3.init with
                 | .ok s => s.ent 2 && (s.fr 0).active.isNone && s.left && !s.ent 1
                 | .error _ => false) = true := by decide
  cases hrun : runSteps CexD3.prog CexD3.sem (opsAt CexD3.prog CexD3.sem 2)
      [(0, .start, 0), (0, .run, 1), (0, .stop, 2)] CexD3.init with
  | error e => rw [hrun] at hfacts; cases hfacts
  | ok s =>
    rw [hrun] at hfacts
    simp only [Bool.and_eq_true, Option.isNone_iff_eq_none, Bool.not_eq_true'] at hfacts
    have hall := h CexD3.prog CexD3.rank CexD3.wf CexD3.wfe CexD3.sem 2 _ CexD3.init s
      (by intro x hx; simp at hx; rcases hx with h | h | h <;> subst h <;> exact CexD3.top0)
      (by intro i; simp [CexD3.init, St.fr, isUp]) (fun _ => rfl) rfl hrun
    have := C06_inactive_nothing_entered hall 0 hfacts.1.1.2 2 (by simp [CexD3.prog, CexD3.fr0])
    rw [hfacts.1.1.1] at this
    cases this

/-- non-vacuity of the partial theorems: the same program without the stop ends with no flag up, the suspended
frame C entered, and the invariant's right-hand side true of it -/
example :
    (match runSteps CexD3.prog CexD3.sem (opsAt CexD3.prog CexD3.sem 2)
        [(0, .start, 0), (0, .run, 1)] CexD3.init with
     | .ok s => !s.bad2 && !s.dbl && s.ent 2 && ((s.fr 0).actives == [0, 1]) && ((s.fr 0).active == some 0)
     | .error _ => false) = true := by decide

end Ioflo.Flo
