import IofloModel.Model.Flo
/-!
# C07 — agreement with a reference interpreter of FloScript

The Lean interpreter (`Model/Flo.lean`) *is* the reference; that ioflo agrees with it is established by the
correspondence check (harness/props/c07.py).  The theorems here pin down the evaluation order that the
property spells out "in particular": conditions are evaluated top-down through the active outline, in
declaration order, and the first transition whose conditions and entry guards pass is taken and ends the
evaluation for that run; a transition evaluates its needs, then the entry guards, then acts.
All statements are for every program, every semantics of the opaque actions/needs and every auxiliary level.
-/
namespace Ioflo.Flo
open Ioflo.Outline (Fid exEn)

variable {W : Type} (P : Prog) (sem : Sem W) (lo : Ops W)

/-- the preacts of the given frames, top-down, each frame's in declaration order -/
def flatPreacts : List Fid → List (Fid × Preact)
  | [] => []
  | f :: fs => (P.frame f).preacts.map (fun p => (f, p)) ++ flatPreacts fs

/-- evaluate `(frame, preact)` pairs in order up to the first one that returns truthy -/
def firstMatch (i : Frid) : List (Fid × Preact) → St W → Except Err (Bool × St W)
  | [], s => .ok (false, s)
  | (f, p) :: rest, s =>
    match runPreact P sem lo i f p s with
    | .error e => .error e
    | .ok (true, s') => .ok (true, s')
    | .ok (false, s') => firstMatch i rest s'

theorem firstMatch_append (i : Frid) (l1 l2 : List (Fid × Preact)) (s : St W) :
    firstMatch P sem lo i (l1 ++ l2) s =
      match firstMatch P sem lo i l1 s with
      | .error e => .error e
      | .ok (true, s') => .ok (true, s')
      | .ok (false, s') => firstMatch P sem lo i l2 s' := by
  induction l1 generalizing s with
  | nil => simp [firstMatch]
  | cons x xs ih =>
    obtain ⟨f, p⟩ := x
    simp only [List.cons_append, firstMatch]
    cases h : runPreact P sem lo i f p s with
    | error e => rfl
    | ok r =>
      obtain ⟨b, s'⟩ := r
      cases b with
      | true => rfl
      | false => exact ih s'

theorem precurLoop_eq_firstMatch (i : Frid) (f : Fid) (ps : List Preact) (s : St W) :
    precurLoop P sem lo i f ps s = firstMatch P sem lo i (ps.map (fun p => (f, p))) s := by
  induction ps generalizing s with
  | nil => rfl
  | cons p ps ih =>
    simp only [precurLoop, List.map_cons, firstMatch]
    cases h : runPreact P sem lo i f p s with
    | error e => rfl
    | ok r =>
      obtain ⟨b, s'⟩ := r
      cases b with
      | true => rfl
      | false => exact ih s'

/-- **segue_first_match.** The transition part of `Framer.segue` evaluates the preacts of the active frames
top-down, each frame's in declaration order, and stops at the first one that returns truthy (a taken
transition, a running conditional auxiliary, a truthy deed): later preacts and lower frames are not evaluated. -/
theorem C07_segue_first_match (i : Frid) (fs : List Fid) (s : St W) :
    segueLoop P sem lo i fs s =
      match firstMatch P sem lo i (flatPreacts P fs) s with
      | .error e => .error e
      | .ok r => .ok r.2 := by
  induction fs generalizing s with
  | nil => rfl
  | cons f fs ih =>
    simp only [segueLoop, flatPreacts, framePrecur, precurLoop_eq_firstMatch, firstMatch_append]
    cases h : firstMatch P sem lo i ((P.frame f).preacts.map (fun p => (f, p))) s with
    | error e => rfl
    | ok r =>
      obtain ⟨b, s'⟩ := r
      cases b with
      | true => rfl
      | false => exact ih s'

/-- `Framer.segue`: clocks, then the auxiliaries of every active frame top-down, then the preacts; the list of
frames whose preacts are evaluated is the outline as it is when that loop starts. -/
theorem C07_segue_order (i : Frid) (s : St W) :
    segue P sem lo i s =
      match forEach (fun f s => forEach lo.segue (P.frame f).auxes s) ((updateClocks i s).fr i).actives
              (updateClocks i s) with
      | .error e => .error e
      | .ok s1 => segueLoop P sem lo i (s1.fr i).actives s1 := rfl

/-! ### transitions -/

/-- what `Transiter.action` would exit / enter / re-exit-re-enter in state `s` -/
def exits (i : Frid) (far : Fid) (s : St W) : List Fid := (exEn far (s.fr i).actives (P.frame far).outline).1
def enters (i : Frid) (far : Fid) (s : St W) : List Fid := (exEn far (s.fr i).actives (P.frame far).outline).2.1
def reexens (i : Frid) (far : Fid) (s : St W) : List Fid := (exEn far (s.fr i).actives (P.frame far).outline).2.2

/-- **transiter_order (1).** A transition whose needs do not all hold does nothing and is not taken
(the entry guards are not even consulted). -/
theorem C07_transit_needs_first (i : Frid) (f : Fid) (needs : List NeedId) (far : Fid) (tracts : List Act)
    (s : St W) (h : needsHold sem needs s = false) :
    transit P sem lo i f needs far tracts s = .ok (false, s) := by
  simp [transit, h]

/-- **transiter_order (2).** Needs hold but the entry check refuses: not taken, state unchanged, no action run. -/
theorem C07_transit_refused (i : Frid) (f : Fid) (needs : List NeedId) (far : Fid) (tracts : List Act)
    (s : St W) (h : needsHold sem needs s = true)
    (hc : checkEnter P sem lo (enters P i far s) (exits P i far s) s = .ok false) :
    transit P sem lo i f needs far tracts s = .ok (false, s) := by
  unfold enters exits at hc
  simp [transit, h, hc]

/-- **transiter_order (3).** Needs hold and the entry check passes: the transit acts run, then the exits
bottom-up, the re-exits bottom-up, the re-enters top-down, the enters top-down, then the target is activated;
the lists are those computed from the outline *before* any of these acts ran. -/
theorem C07_transit_taken (i : Frid) (f : Fid) (needs : List NeedId) (far : Fid) (tracts : List Act)
    (s s1 s2 : St W) (h : needsHold sem needs s = true)
    (hc : checkEnter P sem lo (enters P i far s) (exits P i far s) s = .ok true)
    (hx : exit P sem lo (exits P i far s) (runActs sem .transit f tracts (markLeft (truncated P i s) s)) = .ok s1)
    (he : enter P sem lo i (enters P i far s)
            (renter P sem (reexens P i far s) (rexit P sem (reexens P i far s) s1)) = .ok s2) :
    transit P sem lo i f needs far tracts s = .ok (true, activate P i far s2) := by
  unfold enters exits at hc
  unfold exits at hx
  unfold enters reexens at he
  simp [transit, h, hc, hx, he]

/-- a transition is *disabled* in `s`: some need fails, or the entry check refuses -/
def Disabled (i : Frid) (s : St W) (x : Fid × Preact) : Prop :=
  match x.2 with
  | .transit needs far _ =>
    needsHold sem needs s = false ∨
      checkEnter P sem lo (enters P i far s) (exits P i far s) s = .ok false
  | _ => False

theorem runPreact_disabled (i : Frid) (s : St W) (x : Fid × Preact) (h : Disabled P sem lo i s x) :
    runPreact P sem lo i x.1 x.2 s = .ok (false, s) := by
  obtain ⟨f, p⟩ := x
  cases p with
  | act a => exact absurd h (by simp [Disabled])
  | suspend n a t => exact absurd h (by simp [Disabled])
  | transit needs far tracts =>
    simp only [Disabled] at h
    simp only [runPreact]
    rcases h with h | h
    · exact C07_transit_needs_first P sem lo i f needs far tracts s h
    · cases hn : needsHold sem needs s with
      | false => exact C07_transit_needs_first P sem lo i f needs far tracts s hn
      | true => exact C07_transit_refused P sem lo i f needs far tracts s hn h

/-- **first enabled transition is taken.** If every preact before `x` (over all active frames, top-down) is a
transition that is disabled in `s`, the evaluation reaches `x` in the unchanged state `s`; if `x` then returns
truthy (a transition whose needs and guards pass) the evaluation ends there: nothing after it is evaluated. -/
theorem C07_first_enabled_transition_taken (i : Frid) (pre post : List (Fid × Preact)) (x : Fid × Preact)
    (s s' : St W) (hpre : ∀ y, y ∈ pre → Disabled P sem lo i s y)
    (hx : runPreact P sem lo i x.1 x.2 s = .ok (true, s')) :
    firstMatch P sem lo i (pre ++ x :: post) s = .ok (true, s') := by
  induction pre with
  | nil =>
    obtain ⟨f, p⟩ := x
    simp only [List.nil_append, firstMatch]
    simp only [] at hx
    rw [hx]
  | cons y ys ih =>
    obtain ⟨g, q⟩ := y
    have hy := runPreact_disabled P sem lo i s (g, q) (hpre (g, q) (by simp))
    simp only [] at hy
    simp only [List.cons_append, firstMatch, hy]
    exact ih (fun z hz => hpre z (by simp [hz]))

/-- non-vacuity: with no needs and an accepting entry check a transition is taken -/
example (i : Frid) (f far : Fid) (s s1 s2 : St W)
    (hc : checkEnter P sem lo (enters P i far s) (exits P i far s) s = .ok true)
    (hx : exit P sem lo (exits P i far s) (runActs sem .transit f [] (markLeft (truncated P i s) s)) = .ok s1)
    (he : enter P sem lo i (enters P i far s)
            (renter P sem (reexens P i far s) (rexit P sem (reexens P i far s) s1)) = .ok s2) :
    firstMatch P sem lo i [(f, .transit [] far [])] s = .ok (true, activate P i far s2) := by
  have := C07_transit_taken P sem lo i f [] far [] s s1 s2 (by simp [needsHold]) hc hx he
  simp [firstMatch, runPreact, this]

/-! ### the runner is a function of (control, status): determinism is by construction; what is worth stating is
that a run in a down status never touches frames -/

/-- `RUN` sent to a stopped/readied framer only asks for a start. -/
theorem C07_run_when_down (i : Frid) (s : St W) (h : isDown (s.fr i).status = true) :
    framerStep P sem lo i .run s = .ok (setDesire1 i .start s) := by
  have hup : isUp (s.fr i).status = false := by
    revert h; cases (s.fr i).status <;> simp [isDown, isUp]
  simp [framerStep, h, hup]

end Ioflo.Flo
