import IofloModel.Lemmas.FloMono
/-!
# C07 (addendum) — the auxiliary-depth fuel of the reference interpreter is harmless

The interpreter is parameterised by a nesting depth (`opsAt n`; depth 0 fails with `Err.depth`, the model's
`RecursionError`).  These theorems show that the parameter only matters for failing: a step, a tick or the
final abort round that succeeds at depth `n` gives the same result at every greater depth.  So the depth the
driver is run with (chosen by the harness above the nesting depth of the program) does not select among
different behaviours.  For every program, semantics, state.
-/
namespace Ioflo.Flo

variable {W : Type} (P : Prog) (sem : Sem W)

/-- one call of a framer's runner: a result obtained with depth `n` is the result with depth `n + k` -/
theorem C07_depth_monotone_step (n k : Nat) (i : Frid) (c : Control) (s v : St W)
    (h : framerStep P sem (opsAt P sem n) i c s = .ok v) :
    framerStep P sem (opsAt P sem (n + k)) i c s = .ok v :=
  framerStep_le P sem (opsAt_mono P sem n k) i c s v h

/-- one skedder tick: ready / aborted lists, `more` flag and state do not depend on the depth once it suffices -/
theorem C07_depth_monotone_tick (n k : Nat) (sk : Sked) (s : St W) (v : Sked × Bool × St W)
    (h : tick P sem (opsAt P sem n) sk s = .ok v) :
    tick P sem (opsAt P sem (n + k)) sk s = .ok v :=
  tick_le P sem (opsAt_mono P sem n k) sk s v h

/-- the final abort round -/
theorem C07_depth_monotone_finalize (n k : Nat) (sk : Sked) (s v : St W)
    (h : finalize P sem (opsAt P sem n) sk s = .ok v) :
    finalize P sem (opsAt P sem (n + k)) sk s = .ok v :=
  finalize_le P sem (opsAt_mono P sem n k) sk s v h

/-- two sufficient depths agree: if both succeed the results are equal -/
theorem C07_depth_irrelevant_tick (n m : Nat) (sk : Sked) (s : St W) (v w : Sked × Bool × St W)
    (hn : tick P sem (opsAt P sem n) sk s = .ok v) (hm : tick P sem (opsAt P sem m) sk s = .ok w) : v = w := by
  rcases Nat.le_total n m with h | h
  · obtain ⟨k, rfl⟩ := Nat.exists_eq_add_of_le h
    have := C07_depth_monotone_tick P sem n k sk s v hn
    rw [this] at hm; exact Except.ok.inj hm
  · obtain ⟨k, rfl⟩ := Nat.exists_eq_add_of_le h
    have := C07_depth_monotone_tick P sem m k sk s w hm
    rw [this] at hn; exact (Except.ok.inj hn).symm

end Ioflo.Flo
