import IofloModel.Model.Flo
/-!
# C08 — entry guards are never bypassed and refused transitions have no effect

Model: `Model/Flo.lean`.  `checkEnter` / `frameCheckEnter` / `auxCheck` / `checkStart` transcribe
`Framer.checkEnter`, `Frame.checkEnter` (beacts, then for every auxiliary the ownership test and
`aux.checkStart()`), `Framer.checkStart`; `transit` = `Transiter.action`, `suspendStart` = the
`if aux.done:` branch of `Suspender.action`, `framerStep` = `Framer.makeRunner`.

Needs are pure in the model (`Sem.need … : Bool`), so "checked" is a statement about the state in which the
attempt is made; "at the moment of the attempt" is the check time: the transit acts and the exit acts of the
same transition run *after* the check (and may falsify a guard before the enter acts run) — the code does that
by design, and the theorems say "checked", not "still true".
All statements: every program, every action semantics, every auxiliary level.
-/
namespace Ioflo.Flo
open Ioflo.Outline (Fid exEn)

variable {W : Type} (P : Prog) (sem : Sem W) (lo : Ops W)

/-! ### what a passed check means -/

theorem allM_true {α : Type} (p : α → Except Err Bool) (l : List α) (h : allM p l = .ok true) :
    ∀ x, x ∈ l → p x = .ok true := by
  induction l with
  | nil => intro x hx; cases hx
  | cons y ys ih =>
    intro x hx
    simp only [allM] at h
    cases hy : p y with
    | error e => simp [hy] at h
    | ok b =>
      cases b with
      | false => simp [hy] at h
      | true =>
        simp only [hy] at h
        rcases List.mem_cons.1 hx with e | hx'
        · subst e; exact hy
        · exact ih h x hx'

/-- the ownership test of `Frame.checkEnter`: `aux.main` is free, is this frame, or is a frame being exited -/
def Available (s : St W) (f : Fid) (exits : List Fid) (aux : Frid) : Prop :=
  (s.fr aux).main = none ∨ (s.fr aux).main = some f ∨ ∃ m, (s.fr aux).main = some m ∧ m ∈ exits

theorem auxCheck_true {f : Fid} {exits : List Fid} {s : St W} {aux : Frid}
    (h : auxCheck lo f exits s aux = .ok true) : Available s f exits aux ∧ lo.checkStart aux s = .ok true := by
  unfold auxCheck at h
  cases hm : (s.fr aux).main with
  | none => simp only [hm] at h; exact ⟨Or.inl hm, h⟩
  | some m =>
    simp only [hm] at h
    by_cases hc : m ≠ f ∧ m ∉ exits
    · simp [hc] at h
    · simp only [hc, if_false] at h
      refine ⟨?_, h⟩
      by_cases e : m = f
      · exact Or.inr (Or.inl (e ▸ hm))
      · right; right
        refine ⟨m, hm, ?_⟩
        apply Classical.byContradiction
        intro hne; exact hc ⟨e, hne⟩

/-- **a frame passes `Frame.checkEnter`** only if all its before-enter needs hold and each of its auxiliaries is
available to it and passes its own `checkStart` (first-frame guards, recursively) -/
theorem C08_frame_check {exits : List Fid} {s : St W} {f : Fid}
    (h : frameCheckEnter P sem lo exits s f = .ok true) :
    needsHold sem (P.frame f).beacts s = true ∧
    ∀ aux, aux ∈ (P.frame f).auxes → Available s f exits aux ∧ lo.checkStart aux s = .ok true := by
  unfold frameCheckEnter at h
  by_cases hn : needsHold sem (P.frame f).beacts s = true
  · simp only [hn, if_true] at h
    exact ⟨hn, fun aux ha => auxCheck_true lo (allM_true _ _ h aux ha)⟩
  · simp [hn] at h

/-- **`Framer.checkEnter` passes** only for a non-empty list all of whose frames pass -/
theorem C08_check_enter {enters exits : List Fid} {s : St W}
    (h : checkEnter P sem lo enters exits s = .ok true) :
    enters ≠ [] ∧ ∀ f, f ∈ enters →
      needsHold sem (P.frame f).beacts s = true ∧
      ∀ aux, aux ∈ (P.frame f).auxes → Available s f exits aux ∧ lo.checkStart aux s = .ok true := by
  unfold checkEnter at h
  by_cases he : enters.isEmpty = true
  · simp [he] at h
  · simp only [he, if_false, Bool.false_eq_true] at h
    refine ⟨fun e => he (by rw [e]; rfl), fun f hf => C08_frame_check P sem lo (allM_true _ _ h f hf)⟩

/-- nothing to enter is a refusal (`if not enters: return False`) -/
theorem C08_empty_enters_refused (exits : List Fid) (s : St W) : checkEnter P sem lo [] exits s = .ok false := rfl

/-- the auxiliaries' own check is the same check one level down: `checkStart` = `checkEnter(first.outline)` -/
theorem C08_checkStart_unfold (i : Frid) (s : St W) :
    (nextOps P sem lo).checkStart i s = checkEnter P sem lo (P.frame (P.framer i).first).outline [] s := rfl

/-! ### transitions -/

/-- **enter_implies_checked (transition).**  A transition that is taken passed `checkEnter` for exactly the frames
it enters and the frames it exits, evaluated in the state of the attempt — before any transit, exit, rexit,
renter or enter act of this transition ran. -/
theorem C08_transit_enter_implies_checked (i : Frid) (f : Fid) (needs : List NeedId) (far : Fid) (tracts : List Act)
    (s s' : St W) (h : transit P sem lo i f needs far tracts s = .ok (true, s')) :
    needsHold sem needs s = true ∧
    checkEnter P sem lo (exEn far (s.fr i).actives (P.frame far).outline).2.1
      (exEn far (s.fr i).actives (P.frame far).outline).1 s = .ok true := by
  unfold transit at h
  by_cases hn : needsHold sem needs s = true
  · simp only [hn, Bool.not_true, Bool.false_eq_true, if_false] at h
    refine ⟨hn, ?_⟩
    cases hc : checkEnter P sem lo (exEn far (s.fr i).actives (P.frame far).outline).2.1
        (exEn far (s.fr i).actives (P.frame far).outline).1 s with
    | error e => simp [hc] at h
    | ok b =>
      cases b with
      | true => rfl
      | false => simp [hc] at h
  · have : needsHold sem needs s = false := by
      cases hq : needsHold sem needs s with
      | true => exact absurd hq hn
      | false => rfl
    simp [this] at h

/-- the frames a taken transition enters are those that were checked: `enter` is called with the very list
that `checkEnter` approved, and only in that branch -/
theorem C08_transit_enters_checked_list (i : Frid) (f : Fid) (needs : List NeedId) (far : Fid) (tracts : List Act)
    (s s' : St W) (h : transit P sem lo i f needs far tracts s = .ok (true, s')) :
    ∃ s1 s2,
      exit P sem lo (exEn far (s.fr i).actives (P.frame far).outline).1 (runActs sem .transit f tracts (markLeft (truncated P i s) s)) = .ok s1 ∧
      enter P sem lo i (exEn far (s.fr i).actives (P.frame far).outline).2.1
        (renter P sem (exEn far (s.fr i).actives (P.frame far).outline).2.2
          (rexit P sem (exEn far (s.fr i).actives (P.frame far).outline).2.2 s1)) = .ok s2 ∧
      s' = activate P i far s2 := by
  have hchk := C08_transit_enter_implies_checked P sem lo i f needs far tracts s s' h
  unfold transit at h
  simp only [hchk.1, Bool.not_true, Bool.false_eq_true, if_false, hchk.2] at h
  cases hx : exit P sem lo (exEn far (s.fr i).actives (P.frame far).outline).1 (runActs sem .transit f tracts (markLeft (truncated P i s) s)) with
  | error e => simp [hx] at h
  | ok s1 =>
    simp only [hx] at h
    cases he : enter P sem lo i (exEn far (s.fr i).actives (P.frame far).outline).2.1
        (renter P sem (exEn far (s.fr i).actives (P.frame far).outline).2.2
          (rexit P sem (exEn far (s.fr i).actives (P.frame far).outline).2.2 s1)) with
    | error e => simp [he] at h
    | ok s2 =>
      simp only [he, Except.ok.injEq, Prod.mk.injEq, true_and] at h
      exact ⟨s1, s2, rfl, he, h.symm⟩

/-- **refused_is_noop (transition).**  If the needs fail, or the entry check refuses (including the empty
`enters` case), the transition returns falsy and the state is *identical*: no action ran, no event was
emitted, outline, elapsed and recurred are what they were. -/
theorem C08_transit_refused_is_noop (i : Frid) (f : Fid) (needs : List NeedId) (far : Fid) (tracts : List Act)
    (s : St W)
    (hr : needsHold sem needs s = false ∨
      checkEnter P sem lo (exEn far (s.fr i).actives (P.frame far).outline).2.1
        (exEn far (s.fr i).actives (P.frame far).outline).1 s = .ok false) :
    transit P sem lo i f needs far tracts s = .ok (false, s) := by
  unfold transit
  cases hn : needsHold sem needs s with
  | false => simp
  | true =>
    rcases hr with h | h
    · rw [hn] at h; cases h
    · simp [h]

/-- a transition never changes the state unless it is taken -/
theorem C08_transit_false_unchanged (i : Frid) (f : Fid) (needs : List NeedId) (far : Fid) (tracts : List Act)
    (s s' : St W) (h : transit P sem lo i f needs far tracts s = .ok (false, s')) : s' = s := by
  unfold transit at h
  by_cases hn : needsHold sem needs s = true
  · simp only [hn, Bool.not_true, Bool.false_eq_true, if_false] at h
    cases hc : checkEnter P sem lo (exEn far (s.fr i).actives (P.frame far).outline).2.1
        (exEn far (s.fr i).actives (P.frame far).outline).1 s with
    | error e => simp [hc] at h
    | ok b =>
      cases b with
      | false => simp only [hc, Except.ok.injEq, Prod.mk.injEq, true_and] at h; exact h.symm
      | true =>
        simp only [hc] at h
        cases hx : exit P sem lo (exEn far (s.fr i).actives (P.frame far).outline).1 (runActs sem .transit f tracts (markLeft (truncated P i s) s)) with
        | error e => simp [hx] at h
        | ok s1 =>
          simp only [hx] at h
          cases he : enter P sem lo i (exEn far (s.fr i).actives (P.frame far).outline).2.1
              (renter P sem (exEn far (s.fr i).actives (P.frame far).outline).2.2
                (rexit P sem (exEn far (s.fr i).actives (P.frame far).outline).2.2 s1)) with
          | error e => simp [he] at h
          | ok s2 => simp [he] at h
  · have : needsHold sem needs s = false := by
      cases hq : needsHold sem needs s with
      | true => exact absurd hq hn
      | false => rfl
    simp only [this, Bool.not_false, if_true, Except.ok.injEq, Prod.mk.injEq, true_and] at h
    exact h.symm

/-! ### conditional auxiliaries -/

/-- a conditional auxiliary is only entered after its needs, the ownership test and its own `checkStart`
(first-frame guards) passed, in the state of the attempt; otherwise nothing happens -/
theorem C08_suspend_start_checked (i : Frid) (f : Fid) (needs : List NeedId) (aux : Frid) (tracts : List Act)
    (s : St W) :
    suspendStart P sem lo i f needs aux tracts s =
      (if needsHold sem needs s = true ∧ ownedElsewhere aux f s = false then
        match lo.checkStart aux s with
        | .error e => .error e
        | .ok false => .ok (false, s)
        | .ok true => suspendEnter P sem lo i f aux tracts s
       else .ok (false, s)) := by
  unfold suspendStart
  cases hn : needsHold sem needs s <;> cases ho : ownedElsewhere aux f s <;> simp
  cases lo.checkStart aux s with
  | error e => rfl
  | ok b => cases b <;> rfl

/-! ### start -/

/-- **start_checks_first / refused start.**  `START` (and `READY`) sent to a stopped or readied framer evaluates
`checkStart` first; when it fails nothing is entered: only `desire := STOP`, `status := STOPPED` are written. -/
theorem C08_start_refused_is_noop (i : Frid) (s : St W) (hd : isDown (s.fr i).status = true)
    (hc : checkStart P sem lo i s = .ok false) :
    framerStep P sem lo i .start s = .ok (setStatus i .stopped (setDesire1 i .stop s)) ∧
    framerStep P sem lo i .ready s = .ok (setStatus i .stopped (setDesire1 i .stop s)) := by
  have hu : isUp (s.fr i).status = false := by
    revert hd; cases (s.fr i).status <;> simp [isUp, isDown]
  constructor <;> simp [framerStep, hd, hc]

/-- what a refused start leaves untouched: world, trace (no action, no event), and of every framer everything
but `desire`/`status` of the framer itself -/
theorem C08_start_refused_untouched (i : Frid) (s : St W) :
    let s' := setStatus i .stopped (setDesire1 i .stop s)
    s'.world = s.world ∧ s'.trace = s.trace ∧
    (∀ j, (s'.fr j).active = (s.fr j).active ∧ (s'.fr j).actives = (s.fr j).actives ∧
          (s'.fr j).elapsed = (s.fr j).elapsed ∧ (s'.fr j).recurred = (s.fr j).recurred ∧
          (s'.fr j).stamp = (s.fr j).stamp ∧ (s'.fr j).done = (s.fr j).done) := by
  refine ⟨rfl, rfl, ?_⟩
  intro j
  by_cases e : j = i <;> simp [setStatus, setDesire1, St.fr, St.modFr, St.setFr, e]

/-- when the check passes, `enterAll` runs on the state of the check (only `desire` was written in between) -/
theorem C08_start_checks_first (i : Frid) (s : St W) (hd : isDown (s.fr i).status = true)
    (hc : checkStart P sem lo i s = .ok true) :
    framerStep P sem lo i .start s =
      (match enterAll P sem lo i (setDesire1 i .run s) with
       | .error e => .error e
       | .ok s1 =>
         match recur P sem lo i s1 with
         | .error e => .error e
         | .ok s2 => .ok (setStatus i .started s2)) := by
  have hu : isUp (s.fr i).status = false := by
    revert hd; cases (s.fr i).status <;> simp [isUp, isDown]
  simp only [framerStep, hd, hu, hc, if_true, if_false, Bool.false_eq_true]
  cases enterAll P sem lo i (setDesire1 i .run s) with
  | error e => rfl
  | ok s1 =>
    simp only []
    cases recur P sem lo i s1 with
    | error e => rfl
    | ok s2 => rfl

/-- non-vacuity: a frame with a failing `let` guard is refused -/
example (s : St W) (f : Fid) (n : NeedId) (hb : (P.frame f).beacts = [n])
    (hn : sem.need n s.frs s.now s.world = false) :
    checkEnter P sem lo [f] [] s = .ok false := by
  simp [checkEnter, allM, frameCheckEnter, needsHold, hb, hn]

end Ioflo.Flo
