import IofloModel.Model.Flo
import IofloModel.Model.FloProg
/-!
# C08 — entry guards are never bypassed and refused transitions have no effect

Model: `Model/Flo.lean`.  `checkEnter` / `checkEnterC` / `frameCheckEnter` / `auxCheck` / `auxClaim` /
`checkStart` transcribe `Framer.checkEnter`, `Frame.checkEnter` (beacts, then for every auxiliary the ownership
test, the `claimed` test of fix D3d and `aux.checkStart(claimed)`), `Framer.checkStart`; `transit` = `Transiter.action`, `suspendStart` = the
`if aux.done:` branch of `Suspender.action`, `framerStep` = `Framer.makeRunner`.

Needs are pure in the model (`Sem.need … : Bool`), so "checked" is a statement about the state in which the
attempt is made; "at the moment of the attempt" is the check time: the transit acts and the exit acts of the
same transition run *after* the check (and may falsify a guard before the enter acts run) — the code does that
by design, and the theorems say "checked", not "still true".
All statements: every program, every action semantics, every auxiliary level.
-/
namespace Ioflo.Flo
open Ioflo.Outline (Fid exEn)

variable {W : Type} (P : Prog) (sem : Sem W) (lo : Ops W)

/-! ### what a passed check means -/

theorem allC_some {α : Type} (p : List Frid → α → Except Err (Option (List Frid))) (l : List α)
    (cl cl' : List Frid) (h : allC p l cl = .ok (some cl')) :
    ∀ x, x ∈ l → ∃ c c', p c x = .ok (some c') := by
  induction l generalizing cl with
  | nil => intro x hx; cases hx
  | cons y ys ih =>
    intro x hx
    simp only [allC] at h
    cases hy : p cl y with
    | error e => simp [hy] at h
    | ok b =>
      cases b with
      | none => simp [hy] at h
      | some c1 =>
        simp only [hy] at h
        rcases List.mem_cons.1 hx with e | hx'
        · subst e; exact ⟨cl, c1, hy⟩
        · exact ih c1 h x hx'

/-- the ownership test of `Frame.checkEnter`: `aux.main` is free, is this frame, or is a frame being exited -/
def Available (s : St W) (f : Fid) (exits : List Fid) (aux : Frid) : Prop :=
  (s.fr aux).main = none ∨ (s.fr aux).main = some f ∨ ∃ m, (s.fr aux).main = some m ∧ m ∈ exits

theorem auxClaim_some {s : St W} {cl cl' : List Frid} {aux : Frid}
    (h : auxClaim P lo s cl aux = .ok (some cl')) :
    ((P.framer aux).original = true → aux ∉ cl) ∧ ∃ c, lo.checkStart aux c s = .ok (some cl') := by
  unfold auxClaim at h
  cases ho : (P.framer aux).original with
  | false => simp only [ho, Bool.false_eq_true, if_false] at h; exact ⟨(fun hh => nomatch hh), ⟨cl, h⟩⟩
  | true =>
    simp only [ho, if_true] at h
    by_cases hc : cl.contains aux = true
    · rw [if_pos hc] at h; cases h
    · rw [if_neg hc] at h
      exact ⟨fun _ => by simpa using hc, ⟨_, h⟩⟩

theorem auxCheck_some {f : Fid} {exits : List Fid} {s : St W} {cl cl' : List Frid} {aux : Frid}
    (h : auxCheck P lo f exits s cl aux = .ok (some cl')) :
    Available s f exits aux ∧ ((P.framer aux).original = true → aux ∉ cl) ∧
      ∃ c, lo.checkStart aux c s = .ok (some cl') := by
  unfold auxCheck at h
  cases hm : (s.fr aux).main with
  | none => simp only [hm] at h; exact ⟨Or.inl hm, auxClaim_some P lo h⟩
  | some m =>
    simp only [hm] at h
    by_cases hc : m ≠ f ∧ m ∉ exits
    · simp [hc] at h
    · simp only [hc, if_false] at h
      refine ⟨?_, auxClaim_some P lo h⟩
      by_cases e : m = f
      · exact Or.inr (Or.inl (e ▸ hm))
      · right; right
        refine ⟨m, hm, ?_⟩
        apply Classical.byContradiction
        intro hne; exact hc ⟨e, hne⟩

/-- **a frame passes `Frame.checkEnter`** only if all its before-enter needs hold and each of its auxiliaries is
available to it and passes its own `checkStart` (first-frame guards, recursively) -/
theorem C08_frame_check {exits : List Fid} {s : St W} {cl cl' : List Frid} {f : Fid}
    (h : frameCheckEnter P sem lo exits s cl f = .ok (some cl')) :
    needsHold sem (P.frame f).beacts s = true ∧
    ∀ aux, aux ∈ (P.frame f).auxes →
      Available s f exits aux ∧ ∃ c c', lo.checkStart aux c s = .ok (some c') := by
  unfold frameCheckEnter at h
  by_cases hn : needsHold sem (P.frame f).beacts s = true
  · simp only [hn, if_true] at h
    refine ⟨hn, fun aux ha => ?_⟩
    obtain ⟨c, c', hc⟩ := allC_some _ _ _ _ h aux ha
    have r := auxCheck_some P lo hc
    obtain ⟨c2, hc2⟩ := r.2.2
    exact ⟨r.1, c2, c', hc2⟩
  · simp [hn] at h

/-- **`Framer.checkEnter` passes** only for a non-empty list all of whose frames pass -/
theorem C08_check_enter {enters exits : List Fid} {s : St W}
    (h : checkEnter P sem lo enters exits s = .ok true) :
    enters ≠ [] ∧ ∀ f, f ∈ enters →
      needsHold sem (P.frame f).beacts s = true ∧
      ∀ aux, aux ∈ (P.frame f).auxes →
        Available s f exits aux ∧ ∃ c c', lo.checkStart aux c s = .ok (some c') := by
  unfold checkEnter at h
  cases hc : checkEnterC P sem lo enters exits [] s with
  | error e => simp [hc] at h
  | ok r =>
    cases r with
    | none => simp [hc] at h
    | some cl' =>
      unfold checkEnterC at hc
      by_cases he : enters.isEmpty = true
      · simp [he] at hc
      · simp only [he, if_false, Bool.false_eq_true] at hc
        refine ⟨fun e => he (by rw [e]; rfl), fun f hf => ?_⟩
        obtain ⟨c, c', hcc⟩ := allC_some _ _ _ _ hc f hf
        exact C08_frame_check P sem lo hcc

/-- nothing to enter is a refusal (`if not enters: return False`) -/
theorem C08_empty_enters_refused (exits : List Fid) (s : St W) : checkEnter P sem lo [] exits s = .ok false := rfl

/-- the auxiliaries' own check is the same check one level down: `checkStart(claimed)` =
`checkEnter(first.outline, claimed=claimed)` -/
theorem C08_checkStart_unfold (i : Frid) (cl : List Frid) (s : St W) :
    (nextOps P sem lo).checkStart i cl s = checkEnterC P sem lo (P.frame (P.framer i).first).outline [] cl s := rfl

/-! ### one check never approves two entries of the same original auxiliary (fix D3d) -/

/-- the claim of one `aux` clause -/
def claimOf (P : Prog) (a : Frid) : List Frid := if (P.framer a).original then [a] else []

/-- the original plain auxiliaries that the frames of `l` name directly, with multiplicity -/
def directClaims (P : Prog) (l : List Fid) : List Frid :=
  l.flatMap (fun f => (P.frame f).auxes.flatMap (claimOf P))

/-- what is assumed of `checkStart` of the level below: it only appends to `claimed`, keeping it duplicate-free -/
def ClaimSpec (lo : Ops W) : Prop :=
  ∀ aux cl s cl', lo.checkStart aux cl s = .ok (some cl') → cl.Nodup → cl'.Nodup ∧ cl <+: cl'

/-- a passed check that started with `cl`, ended with `cl'` and had to claim `need` on the way -/
def Ext (cl cl' need : List Frid) : Prop := cl'.Nodup ∧ ∃ ext, cl' = cl ++ ext ∧ need.Sublist ext

theorem allC_ext {α : Type} (p : List Frid → α → Except Err (Option (List Frid))) (claims : α → List Frid)
    (hp : ∀ x cl cl', p cl x = .ok (some cl') → cl.Nodup → Ext cl cl' (claims x)) :
    ∀ (l : List α) (cl cl' : List Frid), allC p l cl = .ok (some cl') → cl.Nodup →
      Ext cl cl' (l.flatMap claims) := by
  intro l
  induction l with
  | nil =>
    intro cl cl' h hnd
    simp only [allC, Except.ok.injEq, Option.some.injEq] at h
    subst h
    exact ⟨hnd, [], by simp, by simp⟩
  | cons x xs ih =>
    intro cl cl' h hnd
    simp only [allC] at h
    cases hx : p cl x with
    | error e => simp [hx] at h
    | ok b =>
      cases b with
      | none => simp [hx] at h
      | some c1 =>
        simp only [hx] at h
        obtain ⟨hn1, e1, he1, hs1⟩ := hp x cl c1 hx hnd
        obtain ⟨hn2, e2, he2, hs2⟩ := ih c1 cl' h hn1
        refine ⟨hn2, e1 ++ e2, by rw [he2, he1, List.append_assoc], ?_⟩
        rw [List.flatMap_cons]
        exact hs1.append hs2

theorem auxCheck_ext (hlo : ClaimSpec lo) (f : Fid) (exits : List Fid) (s : St W) (aux : Frid) (cl cl' : List Frid)
    (h : auxCheck P lo f exits s cl aux = .ok (some cl')) (hnd : cl.Nodup) : Ext cl cl' (claimOf P aux) := by
  have key : auxClaim P lo s cl aux = .ok (some cl') := by
    unfold auxCheck at h
    cases hm : (s.fr aux).main with
    | none => simpa only [hm] using h
    | some m =>
      simp only [hm] at h
      by_cases hc : m ≠ f ∧ m ∉ exits
      · simp [hc] at h
      · simpa only [hc, if_false] using h
  unfold auxClaim at key
  unfold claimOf
  cases ho : (P.framer aux).original with
  | false =>
    simp only [ho, Bool.false_eq_true, if_false] at key ⊢
    obtain ⟨hn, t, ht⟩ := hlo aux cl s cl' key hnd
    exact ⟨hn, t, ht.symm, by simp⟩
  | true =>
    simp only [ho, if_true] at key ⊢
    by_cases hc : cl.contains aux = true
    · rw [if_pos hc] at key; cases key
    · rw [if_neg hc] at key
      have hni : aux ∉ cl := by simpa using hc
      have hnd1 : (cl ++ [aux]).Nodup := by
        rw [List.nodup_append]
        refine ⟨hnd, by simp, ?_⟩
        intro a ha b hb e
        simp only [List.mem_singleton] at hb
        subst hb; subst e; exact hni ha
      obtain ⟨hn, t, ht⟩ := hlo aux (cl ++ [aux]) s cl' key hnd1
      refine ⟨hn, [aux] ++ t, by rw [← ht, List.append_assoc], by simp⟩

theorem checkEnterC_ext (hlo : ClaimSpec lo) (enters exits : List Fid) (s : St W) (cl cl' : List Frid)
    (h : checkEnterC P sem lo enters exits cl s = .ok (some cl')) (hnd : cl.Nodup) :
    Ext cl cl' (directClaims P enters) := by
  unfold checkEnterC at h
  by_cases he : enters.isEmpty = true
  · simp [he] at h
  · simp only [he, if_false, Bool.false_eq_true] at h
    refine allC_ext _ (fun f => (P.frame f).auxes.flatMap (claimOf P)) ?_ enters cl cl' h hnd
    intro f c c' hf hc
    unfold frameCheckEnter at hf
    by_cases hn : needsHold sem (P.frame f).beacts s = true
    · simp only [hn, if_true] at hf
      exact allC_ext _ (claimOf P) (fun a c1 c2 h1 h2 => auxCheck_ext P lo hlo f exits s a c1 c2 h1 h2) _ c c' hf hc
    · simp [hn] at hf

theorem claimSpec_next (hlo : ClaimSpec lo) : ClaimSpec (nextOps P sem lo) := by
  intro aux cl s cl' h hnd
  obtain ⟨hn, t, ht, _⟩ := checkEnterC_ext P sem lo hlo _ _ s cl cl' h hnd
  exact ⟨hn, t, ht.symm⟩

theorem claimSpec_opsAt : ∀ n, ClaimSpec (opsAt P sem n)
  | 0 => by intro aux cl s cl' h; simp [opsAt, Ops.bottom] at h
  | n + 1 => claimSpec_next P sem _ (claimSpec_opsAt n)

/-- **no double claim.**  When `Framer.checkEnter(enters, exits)` passes, the original auxiliaries named by the
`aux` clauses of the frames of `enters` are pairwise different clauses' auxiliaries: no original auxiliary is
named twice (by two of the frames, or twice by one).  With the recursion through `aux.checkStart(claimed)` the
same holds for the whole tree of auxiliaries about to be entered (`claimed` is one list for the whole check). -/
theorem C08_claims_distinct (n : Nat) {enters exits : List Fid} {s : St W}
    (h : checkEnter P sem (opsAt P sem n) enters exits s = .ok true) : (directClaims P enters).Nodup := by
  unfold checkEnter at h
  cases hc : checkEnterC P sem (opsAt P sem n) enters exits [] s with
  | error e => simp [hc] at h
  | ok r =>
    cases r with
    | none => simp [hc] at h
    | some cl' =>
      obtain ⟨hn, ext, he, hs⟩ := checkEnterC_ext P sem _ (claimSpec_opsAt P sem n) enters exits s [] cl' hc (by simp)
      rw [List.nil_append] at he
      subst he
      exact hs.nodup hn

/-- … in particular two different frames of `enters` that both name the original auxiliary `a` are refused -/
theorem C08_shared_aux_refused (n : Nat) {enters exits : List Fid} {s : St W} {l1 l2 l3 : List Fid} {f g : Fid}
    {a : Frid} (he : enters = l1 ++ f :: l2 ++ g :: l3) (ha : (P.framer a).original = true)
    (hf : a ∈ (P.frame f).auxes) (hg : a ∈ (P.frame g).auxes) :
    checkEnter P sem (opsAt P sem n) enters exits s ≠ .ok true := by
  intro h
  have hnd := C08_claims_distinct P sem n h
  have hmem : ∀ k, a ∈ (P.frame k).auxes → a ∈ (P.frame k).auxes.flatMap (claimOf P) := by
    intro k hk
    rw [List.mem_flatMap]
    exact ⟨a, hk, by simp [claimOf, ha]⟩
  subst he
  unfold directClaims at hnd
  simp only [List.flatMap_append, List.flatMap_cons, List.append_assoc] at hnd
  rw [List.nodup_append] at hnd
  have h2 := hnd.2.1
  rw [List.nodup_append] at h2
  exact h2.2.2 a (hmem f hf) a (by simp [hmem g hg]) rfl

/-! ### transitions -/

/-- **enter_implies_checked (transition).**  A transition that is taken passed `checkEnter` for exactly the frames
it enters and the frames it exits, evaluated in the state of the attempt — before any transit, exit, rexit,
renter or enter act of this transition ran. -/
theorem C08_transit_enter_implies_checked (i : Frid) (f : Fid) (needs : List NeedId) (far : Fid) (tracts : List Act)
    (s s' : St W) (h : transit P sem lo i f needs far tracts s = .ok (true, s')) :
    needsHold sem needs s = true ∧
    checkEnter P sem lo (exEn far (s.fr i).actives (P.frame far).outline).2.1
      (exEn far (s.fr i).actives (P.frame far).outline).1 s = .ok true := by
  unfold transit at h
  by_cases hn : needsHold sem needs s = true
  · simp only [hn, Bool.not_true, Bool.false_eq_true, if_false] at h
    refine ⟨hn, ?_⟩
    cases hc : checkEnter P sem lo (exEn far (s.fr i).actives (P.frame far).outline).2.1
        (exEn far (s.fr i).actives (P.frame far).outline).1 s with
    | error e => simp [hc] at h
    | ok b =>
      cases b with
      | true => rfl
      | false => simp [hc] at h
  · have : needsHold sem needs s = false := by
      cases hq : needsHold sem needs s with
      | true => exact absurd hq hn
      | false => rfl
    simp [this] at h

/-- the frames a taken transition enters are those that were checked: `enter` is called with the very list
that `checkEnter` approved, and only in that branch -/
theorem C08_transit_enters_checked_list (i : Frid) (f : Fid) (needs : List NeedId) (far : Fid) (tracts : List Act)
    (s s' : St W) (h : transit P sem lo i f needs far tracts s = .ok (true, s')) :
    ∃ s1 s2,
      exit P sem lo (exEn far (s.fr i).actives (P.frame far).outline).1 (runActs sem .transit f tracts (markLeft (truncated P i s) s)) = .ok s1 ∧
      enter P sem lo i (exEn far (s.fr i).actives (P.frame far).outline).2.1
        (renter P sem (exEn far (s.fr i).actives (P.frame far).outline).2.2
          (rexit P sem (exEn far (s.fr i).actives (P.frame far).outline).2.2 s1)) = .ok s2 ∧
      s' = activate P i far s2 := by
  have hchk := C08_transit_enter_implies_checked P sem lo i f needs far tracts s s' h
  unfold transit at h
  simp only [hchk.1, Bool.not_true, Bool.false_eq_true, if_false, hchk.2] at h
  cases hx : exit P sem lo (exEn far (s.fr i).actives (P.frame far).outline).1 (runActs sem .transit f tracts (markLeft (truncated P i s) s)) with
  | error e => simp [hx] at h
  | ok s1 =>
    simp only [hx] at h
    cases he : enter P sem lo i (exEn far (s.fr i).actives (P.frame far).outline).2.1
        (renter P sem (exEn far (s.fr i).actives (P.frame far).outline).2.2
          (rexit P sem (exEn far (s.fr i).actives (P.frame far).outline).2.2 s1)) with
    | error e => simp [he] at h
    | ok s2 =>
      simp only [he, Except.ok.injEq, Prod.mk.injEq, true_and] at h
      exact ⟨s1, s2, rfl, he, h.symm⟩

/-- **refused_is_noop (transition).**  If the needs fail, or the entry check refuses (including the empty
`enters` case), the transition returns falsy and the state is *identical*: no action ran, no event was
emitted, outline, elapsed and recurred are what they were. -/
theorem C08_transit_refused_is_noop (i : Frid) (f : Fid) (needs : List NeedId) (far : Fid) (tracts : List Act)
    (s : St W)
    (hr : needsHold sem needs s = false ∨
      checkEnter P sem lo (exEn far (s.fr i).actives (P.frame far).outline).2.1
        (exEn far (s.fr i).actives (P.frame far).outline).1 s = .ok false) :
    transit P sem lo i f needs far tracts s = .ok (false, s) := by
  unfold transit
  cases hn : needsHold sem needs s with
  | false => simp
  | true =>
    rcases hr with h | h
    · rw [hn] at h; cases h
    · simp [h]

/-- a transition never changes the state unless it is taken -/
theorem C08_transit_false_unchanged (i : Frid) (f : Fid) (needs : List NeedId) (far : Fid) (tracts : List Act)
    (s s' : St W) (h : transit P sem lo i f needs far tracts s = .ok (false, s')) : s' = s := by
  unfold transit at h
  by_cases hn : needsHold sem needs s = true
  · simp only [hn, Bool.not_true, Bool.false_eq_true, if_false] at h
    cases hc : checkEnter P sem lo (exEn far (s.fr i).actives (P.frame far).outline).2.1
        (exEn far (s.fr i).actives (P.frame far).outline).1 s with
    | error e => simp [hc] at h
    | ok b =>
      cases b with
      | false => simp only [hc, Except.ok.injEq, Prod.mk.injEq, true_and] at h; exact h.symm
      | true =>
        simp only [hc] at h
        cases hx : exit P sem lo (exEn far (s.fr i).actives (P.frame far).outline).1 (runActs sem .transit f tracts (markLeft (truncated P i s) s)) with
        | error e => simp [hx] at h
        | ok s1 =>
          simp only [hx] at h
          cases he : enter P sem lo i (exEn far (s.fr i).actives (P.frame far).outline).2.1
              (renter P sem (exEn far (s.fr i).actives (P.frame far).outline).2.2
                (rexit P sem (exEn far (s.fr i).actives (P.frame far).outline).2.2 s1)) with
          | error e => simp [he] at h
          | ok s2 => simp [he] at h
  · have : needsHold sem needs s = false := by
      cases hq : needsHold sem needs s with
      | true => exact absurd hq hn
      | false => rfl
    simp only [this, Bool.not_false, if_true, Except.ok.injEq, Prod.mk.injEq, true_and] at h
    exact h.symm

/-! ### conditional auxiliaries -/

/-- a conditional auxiliary is only entered after its needs, the ownership test and its own `checkStart`
(first-frame guards) passed, in the state of the attempt; otherwise nothing happens -/
theorem C08_suspend_start_checked (i : Frid) (f : Fid) (needs : List NeedId) (aux : Frid) (tracts : List Act)
    (s : St W) :
    suspendStart P sem lo i f needs aux tracts s =
      (if needsHold sem needs s = true ∧ ownedElsewhere aux f s = false then
        match lo.checkStart aux [] s with
        | .error e => .error e
        | .ok none => .ok (false, s)
        | .ok (some _) => suspendEnter P sem lo i f aux tracts s
       else .ok (false, s)) := by
  unfold suspendStart
  cases hn : needsHold sem needs s <;> cases ho : ownedElsewhere aux f s <;> simp
  cases lo.checkStart aux [] s with
  | error e => rfl
  | ok b => cases b <;> rfl

/-! ### start -/

/-- **start_checks_first / refused start.**  `START` (and `READY`) sent to a stopped or readied framer evaluates
`checkStart` first; when it fails nothing is entered: only `desire := STOP`, `status := STOPPED` are written. -/
theorem C08_start_refused_is_noop (i : Frid) (s : St W) (hd : isDown (s.fr i).status = true)
    (hc : checkStart P sem lo i s = .ok false) :
    framerStep P sem lo i .start s = .ok (setStatus i .stopped (setDesire1 i .stop s)) ∧
    framerStep P sem lo i .ready s = .ok (setStatus i .stopped (setDesire1 i .stop s)) := by
  have hu : isUp (s.fr i).status = false := by
    revert hd; cases (s.fr i).status <;> simp [isUp, isDown]
  constructor <;> simp [framerStep, hd, hc]

/-- what a refused start leaves untouched: world, trace (no action, no event), and of every framer everything
but `desire`/`status` of the framer itself -/
theorem C08_start_refused_untouched (i : Frid) (s : St W) :
    let s' := setStatus i .stopped (setDesire1 i .stop s)
    s'.world = s.world ∧ s'.trace = s.trace ∧
    (∀ j, (s'.fr j).active = (s.fr j).active ∧ (s'.fr j).actives = (s.fr j).actives ∧
          (s'.fr j).elapsed = (s.fr j).elapsed ∧ (s'.fr j).recurred = (s.fr j).recurred ∧
          (s'.fr j).stamp = (s.fr j).stamp ∧ (s'.fr j).done = (s.fr j).done) := by
  refine ⟨rfl, rfl, ?_⟩
  intro j
  by_cases e : j = i <;> simp [setStatus, setDesire1, St.fr, St.modFr, St.setFr, e]

/-- when the check passes, `enterAll` runs on the state of the check (only `desire` was written in between) -/
theorem C08_start_checks_first (i : Frid) (s : St W) (hd : isDown (s.fr i).status = true)
    (hc : checkStart P sem lo i s = .ok true) :
    framerStep P sem lo i .start s =
      (match enterAll P sem lo i (setDesire1 i .run s) with
       | .error e => .error e
       | .ok s1 =>
         match recur P sem lo i s1 with
         | .error e => .error e
         | .ok s2 => .ok (setStatus i .started s2)) := by
  have hu : isUp (s.fr i).status = false := by
    revert hd; cases (s.fr i).status <;> simp [isUp, isDown]
  simp only [framerStep, hd, hu, hc, if_true, if_false, Bool.false_eq_true]
  cases enterAll P sem lo i (setDesire1 i .run s) with
  | error e => rfl
  | ok s1 =>
    simp only []
    cases recur P sem lo i s1 with
    | error e => rfl
    | ok s2 => rfl

/-! ### update / change marks (the transit acts of `is updated` / `is changed` conditions)

The marker acts are the `tracts` of the transition: `C08_transit_refused_is_noop` says they do not run when the
transition is refused.  On the concrete store of `Model/FloProg.lean`: -/

/-- a taken transition consumes the update: right after its transit marker ran, `is updated` is false -/
theorem C08_mark_consumes_update (w : World) (sh key now : Nat) (h : ∀ st, w.stamp sh = some st → st ≤ now) :
    updatedNeed ((CAct.markU sh key true).run now w).1 sh key = false := by
  simp only [CAct.run, updatedNeed, World.setMark]
  cases hs : w.stamp sh with
  | none => rfl
  | some st =>
    have := h st hs
    simp only [and_self, if_true]
    have h1 : decide (st > now) = false := by simp; omega
    simp [h1]

/-- a transition that is refused leaves the update pending: in the unchanged store the condition still holds
(with `C08_transit_refused_is_noop`: the state after a refusal *is* the state before) -/
theorem C08_refused_keeps_update_pending (i : Frid) (f : Fid) (needs : List NeedId) (far : Fid) (tracts : List Act)
    (s s' : St W) (n : NeedId) (h : transit P sem lo i f needs far tracts s = .ok (false, s')) :
    sem.need n s'.frs s'.now s'.world = sem.need n s.frs s.now s.world := by
  have := C08_transit_false_unchanged P sem lo i f needs far tracts s s' h
  rw [this]

/-- the enter marker of `in frame` does not hide a write made at the same time after it: the condition is
true until a taken transition uses that time -/
theorem C08_enter_mark_sees_same_time_write (w : World) (sh key now : Nat) (v : Int)
    (hu : (w.mark sh key).used ≠ some now) :
    updatedNeed ((((CAct.markU sh key false).run now w).1).set sh v now) sh key = true := by
  simp [CAct.run, updatedNeed, World.setMark, World.set, hu]

/-- non-vacuity: a frame with a failing `let` guard is refused -/
example (s : St W) (f : Fid) (n : NeedId) (hb : (P.frame f).beacts = [n])
    (hn : sem.need n s.frs s.now s.world = false) :
    checkEnter P sem lo [f] [] s = .ok false := by
  simp [checkEnter, checkEnterC, allC, frameCheckEnter, needsHold, hb, hn]

end Ioflo.Flo
