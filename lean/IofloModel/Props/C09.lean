import IofloModel.Props.C05
import IofloModel.Model.FloProg
/-!
# C09 — auxiliary framers live exactly as long as their main frame

Model: `Model/Flo.lean` — `frameEnter` / `frameExit` / `frameRecur` / `segue` (= `Frame.enter`, `Frame.exit`,
`Frame.recur`, `Frame.segueAuxes` inside `Framer.segue`), `claim` / `release` (= `aux.main = self` /
`aux.main = None` for original auxiliaries), `Act.done` (= `CompleteDone`), and in `Model/FloProg.lean` the
done-conditions `CNeed.done` (NeedDone) and `CNeed.auxAny/auxAll/auxNamed` (NeedDoneAux).

The single-owner part of the property is false of the code (defect D3d: `Framer.checkEnter` tests the ownership of
all frames of `enters` before any of them is entered, so two frames of one outline naming the same original
auxiliary are both entered): `C09_single_owner_full` with `C09_counterexample_D3d`; what the check does
guarantee is `C08_check_enter` (availability *at check time*).
-/
namespace Ioflo.Flo
open Ioflo.Outline (Fid)

variable {W : Type} (P : Prog) (sem : Sem W) (lo : Ops W)

/-! ### entered and exited with the main frame -/

/-- **aux_entered_with_main.**  `Frame.enter`: the enter acts, then every plain auxiliary in order gets
`main := frame` (if original) and `enterAll()` — it starts at its first frame each time the frame is entered. -/
theorem C09_aux_entered_with_main (f : Fid) (s : St W) :
    frameEnter P sem lo f s =
      forEach (fun aux s => lo.enterAll aux (claim P aux f s)) (P.frame f).auxes
        (runActs sem .enter f (P.frame f).enacts (noteEnter f s)) := rfl

theorem C09_claim_original (aux : Frid) (f : Fid) (s : St W) (h : (P.framer aux).original = true) :
    ((claim P aux f s).fr aux).main = some f := by
  simp [claim, h]

/-- **aux_exited_with_main.**  `Frame.exit`: first every plain auxiliary is fully exited (`exitAll`, then
`main := None` if original), then the frame's exit acts run, then the conditional auxiliaries are deactivated. -/
theorem C09_aux_exited_with_main (f : Fid) (s : St W) :
    frameExit P sem lo f s =
      (match forEach (deactivateAux P lo) (P.frame f).auxes (noteExit f s) with
       | .error e => .error e
       | .ok s1 => forEach (deactivize P lo) (suspAuxes (P.frame f).preacts)
                     (runActs sem .exit f (P.frame f).exacts s1)) := rfl

theorem C09_deactivateAux (aux : Frid) (s : St W) :
    deactivateAux P lo aux s =
      (match lo.exitAll aux s with
       | .error e => .error e
       | .ok s' => .ok (release P aux s')) := rfl

theorem C09_release_original (aux : Frid) (s : St W) (h : (P.framer aux).original = true) :
    ((release P aux s).fr aux).main = none := by
  simp [release, h]

/-- after `Frame.exit` every plain auxiliary of the frame is done and inactive (for well-formed programs) -/
theorem C09_exit_leaves_aux_done {P : Prog} {rank : Frid → Nat} (wf : WF P rank) (sem : Sem W) (n : Nat)
    (aux : Frid) (s s' : St W) (ho : Owned P s)
    (h : (nextOps P sem (opsAt P sem n)).exitAll aux s = .ok s') :
    (s'.fr aux).done = true ∧ (s'.fr aux).active = none ∧ (s'.fr aux).actives = [] := by
  have r := exitAll_spec wf (opsAt_spec wf sem n) ho h
  exact ⟨r.2.2.2.2.2 rfl, r.2.2.2.1, r.2.2.2.2.1⟩

/-! ### run once per run of the main framer -/

/-- **aux_runs_once_per_main_run (segue).**  In `Framer.segue` the plain auxiliaries of every frame in `.actives`
get one `segue()` each, frame by frame top-down, *before* any preact (transition) of the main framer is
evaluated; auxiliaries of frames that are not in `.actives` (suspended, not active) get none. -/
theorem C09_aux_segue_before_transitions (i : Frid) (s : St W) :
    segue P sem lo i s =
      (match forEach (fun f s => forEach lo.segue (P.frame f).auxes s) ((updateClocks i s).fr i).actives
               (updateClocks i s) with
       | .error e => .error e
       | .ok s1 => segueLoop P sem lo i (s1.fr i).actives s1) := rfl

/-- **aux_runs_once_per_main_run (recur).**  `Frame.recur`: the frame's recur acts, then one `recur()` of each
of its plain auxiliaries, in order. -/
theorem C09_aux_recur_after_reacts (f : Fid) (s : St W) :
    frameRecur P sem lo f s =
      forEach lo.recur (P.frame f).auxes (runActs sem .recur f (P.frame f).reacts (s.emit (.recur f))) := rfl

/-- `forEach` calls its function exactly once per list element, in order (what "one per auxiliary" means) -/
theorem C09_forEach_cons {α : Type} (g : α → St W → Except Err (St W)) (x : α) (xs : List α) (s : St W) :
    forEach g (x :: xs) s = (match g x s with
                             | .error e => .error e
                             | .ok s' => forEach g xs s') := rfl

/-! ### `done` -/

/-- **done_sets_done.**  `done t₁ … tₙ` sets `.done` of exactly the named framers (and nothing else of anybody). -/
theorem C09_done_sets_done (ctx : Ctx) (f : Fid) (frs : List Frid) (s : St W) (j : Frid) :
    (((runAct sem ctx f (.done frs) s).1).fr j).done = (if j ∈ frs then true else (s.fr j).done) ∧
    (((runAct sem ctx f (.done frs) s).1).fr j).active = (s.fr j).active ∧
    (((runAct sem ctx f (.done frs) s).1).fr j).actives = (s.fr j).actives ∧
    (((runAct sem ctx f (.done frs) s).1).fr j).main = (s.fr j).main := by
  simp only [runAct]
  induction frs generalizing s with
  | nil => simp [setDone]
  | cons k ks ih =>
    simp only [setDone, List.foldl_cons]
    have := ih (s.modFr k (fun x => { x with done := true }))
    simp only [setDone] at this
    refine ⟨?_, this.2.1.trans ?_, this.2.2.1.trans ?_, this.2.2.2.trans ?_⟩
    · rw [this.1]
      by_cases hk : j = k
      · subst hk; simp
      · by_cases hm : j ∈ ks <;> simp [hk, hm]
    all_goals (by_cases hk : j = k <;> simp [hk])

/-- **need_done_aux_semantics.**  `any … is done`: some plain auxiliary of the frame is done; `all … is done`: the
frame has auxiliaries and all are done — with no auxiliaries it is *false*; `<aux> in frame f is done`: it is an
auxiliary of that frame and done; `<tasker> is done`: its `.done`. -/
theorem C09_need_done_aux_semantics (auxOf : Fid → List Frid) (frs : Frid → FramerSt) (w : World) (f : Fid) (x : Frid) :
    (CNeed.eval auxOf (.auxAny f) frs w = true ↔ ∃ y, y ∈ auxOf f ∧ (frs y).done = true) ∧
    (CNeed.eval auxOf (.auxAll f) frs w = true ↔ auxOf f ≠ [] ∧ ∀ y, y ∈ auxOf f → (frs y).done = true) ∧
    (CNeed.eval auxOf (.auxNamed f x) frs w = true ↔ x ∈ auxOf f ∧ (frs x).done = true) ∧
    (CNeed.eval auxOf (.done x) frs w = true ↔ (frs x).done = true) := by
  refine ⟨?_, ?_, ?_, ?_⟩
  · simp [CNeed.eval, List.any_eq_true]
  · simp [CNeed.eval, List.all_eq_true]
  · simp [CNeed.eval]
  · simp [CNeed.eval]

example (frs : Frid → FramerSt) (w : World) : CNeed.eval (fun _ => []) (.auxAll 0) frs w = false := rfl

/-! ### single owner: the full statement and its refutation (D3d) -/

namespace CexD3d

def fr0 (i : Frid) (ol hd : List Fid) (auxes : List Frid) : FrameDef :=
  { framer := i, outline := ol, head := hd, beacts := [], enacts := [], renacts := [], reacts := [],
    exacts := [], rexacts := [], preacts := [], auxes := auxes }

/-- main framer 0 with frames A=0 > B=1, both with the plain auxiliary 1 (one frame 2) -/
def prog : Prog :=
  { frame := fun f => match f with
      | 0 => fr0 0 [0, 1] [0] [1]
      | 1 => fr0 0 [0, 1] [0, 1] [1]
      | 2 => fr0 1 [2] [2] []
      | n + 3 => fr0 (n + 2) [n + 3] [n + 3] [],
    framer := fun i => match i with
      | 0 => { first := 0 }
      | 1 => { first := 2 }
      | n + 2 => { first := n + 3 },
    frames := fun i => match i with
      | 0 => [0, 1]
      | 1 => [2]
      | n + 2 => [n + 3] }

def sem1 : Sem Unit := { act := fun _ _ _ w => (w, false), need := fun _ _ _ _ => true }

def init : St Unit := { frs := fun _ => {}, world := (), now := 0 }

def run : Except Err (St Unit) := runSteps prog sem1 (opsAt prog sem1 2) [(0, .start, 0)] init

end CexD3d

/-- **single owner, full statement**: along every run, `Frame.enter` is never called on a frame that is entered
and `Frame.exit` never on one that is not (so in particular an auxiliary is never entered under a second frame
while it is entered under a first). -/
def C09_single_owner_full : Prop :=
  ∀ (P : Prog) (sem : Sem Unit) (n : Nat) (steps : List (Frid × Control × Nat)) (s0 s : St Unit),
    Fresh s0 → s0.dbl = false → (∀ f, s0.ent f = false) →
    runSteps P sem (opsAt P sem n) steps s0 = .ok s → s.dbl = false

/-- starting `CexD3d.prog` enters the auxiliary's frame twice: both `A` and `B` pass the ownership test
(`aux.main` is still `None` when `checkEnter` runs), then `A.enter` and `B.enter` both call `aux.enterAll()` -/
theorem C09_counterexample_D3d : ¬ C09_single_owner_full := by
  intro h
  have hfacts : (match CexD3d.run with
                 | .ok s => s.dbl && s.reenter && ((s.fr 1).main == some 1)
                 | .error _ => false) = true := by decide
  cases hrun : CexD3d.run with
  | error e => rw [hrun] at hfacts; cases hfacts
  | ok s =>
    rw [hrun] at hfacts
    simp only [Bool.and_eq_true] at hfacts
    have := h CexD3d.prog CexD3d.sem1 2 [(0, .start, 0)] CexD3d.init s
      (by intro i; simp [CexD3d.init, St.fr, isUp]) rfl (fun _ => rfl) hrun
    rw [this] at hfacts
    exact absurd hfacts.1.1 (by simp)

end Ioflo.Flo
