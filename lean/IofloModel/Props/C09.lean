import IofloModel.Props.C05
import IofloModel.Props.C08
import IofloModel.Model.FloProg
/-!
# C09 — auxiliary framers live exactly as long as their main frame

Model: `Model/Flo.lean` — `frameEnter` / `frameExit` / `frameRecur` / `segue` (= `Frame.enter`, `Frame.exit`,
`Frame.recur`, `Frame.segueAuxes` inside `Framer.segue`), `claim` / `release` (= `aux.main = self` /
`aux.main = None` for original auxiliaries), `Act.done` (= `CompleteDone`), and in `Model/FloProg.lean` the
done-conditions `CNeed.done` (NeedDone) and `CNeed.auxAny/auxAll/auxNamed` (NeedDoneAux).

The single-owner part of the property was false of the original code (defect D3d: `Framer.checkEnter` tested the
ownership of all frames of `enters` before any of them was entered, so two frames of one outline naming the same
original auxiliary were both entered).  The model follows the repaired code (fixes/D3d-…patch: the list
`claimed` threaded through one check): `C09_single_owner_checked` (such an entry is refused),
`C09_fixed_D3d` (the former counterexample program: its start is refused, nothing is entered) and
`C09_owner_invariant` (along every run of a well-formed program an original auxiliary that is not done belongs
to the frame that names it).
-/
namespace Ioflo.Flo
open Ioflo.Outline (Fid)

variable {W : Type} (P : Prog) (sem : Sem W) (lo : Ops W)

/-! ### entered and exited with the main frame -/

/-- **aux_entered_with_main.**  `Frame.enter`: the enter acts, then every plain auxiliary in order gets
`main := frame` (if original) and `enterAll()` — it starts at its first frame each time the frame is entered. -/
theorem C09_aux_entered_with_main (f : Fid) (s : St W) :
    frameEnter P sem lo f s =
      forEach (fun aux s => lo.enterAll aux (claim P aux f s)) (P.frame f).auxes
        (runActs sem .enter f (P.frame f).enacts (noteEnter f s)) := rfl

theorem C09_claim_original (aux : Frid) (f : Fid) (s : St W) (h : (P.framer aux).original = true) :
    ((claim P aux f s).fr aux).main = some f := by
  simp [claim, h]

/-- **aux_exited_with_main.**  `Frame.exit`: first every plain auxiliary is fully exited (`exitAll`, then
`main := None` if original), then the frame's exit acts run, then the conditional auxiliaries are deactivated. -/
theorem C09_aux_exited_with_main (f : Fid) (s : St W) :
    frameExit P sem lo f s =
      (match forEach (deactivateAux P lo) (P.frame f).auxes (noteExit f s) with
       | .error e => .error e
       | .ok s1 => forEach (deactivize P lo f) (suspAuxes (P.frame f).preacts)
                     (runActs sem .exit f (P.frame f).exacts s1)) := rfl

theorem C09_deactivateAux (aux : Frid) (s : St W) :
    deactivateAux P lo aux s =
      (match lo.exitAll aux s with
       | .error e => .error e
       | .ok s' => .ok (release P aux s')) := rfl

theorem C09_release_original (aux : Frid) (s : St W) (h : (P.framer aux).original = true) :
    ((release P aux s).fr aux).main = none := by
  simp [release, h]

/-- after `Frame.exit` every plain auxiliary of the frame is done and inactive (for well-formed programs) -/
theorem C09_exit_leaves_aux_done {P : Prog} {rank : Frid → Nat} (wf : WF P rank) (sem : Sem W) (n : Nat)
    (aux : Frid) (s s' : St W) (ho : Owned P s)
    (h : (nextOps P sem (opsAt P sem n)).exitAll aux s = .ok s') :
    (s'.fr aux).done = true ∧ (s'.fr aux).active = none ∧ (s'.fr aux).actives = [] := by
  have r := exitAll_spec wf (opsAt_spec wf sem n) ho h
  exact ⟨r.2.2.2.2.2 rfl, r.2.2.2.1, r.2.2.2.2.1⟩

/-! ### run once per run of the main framer -/

/-- **aux_runs_once_per_main_run (segue).**  In `Framer.segue` the plain auxiliaries of every frame in `.actives`
get one `segue()` each, frame by frame top-down, *before* any preact (transition) of the main framer is
evaluated; auxiliaries of frames that are not in `.actives` (suspended, not active) get none. -/
theorem C09_aux_segue_before_transitions (i : Frid) (s : St W) :
    segue P sem lo i s =
      (match forEach (fun f s => forEach lo.segue (P.frame f).auxes s) ((updateClocks i s).fr i).actives
               (updateClocks i s) with
       | .error e => .error e
       | .ok s1 => segueLoop P sem lo i (s1.fr i).actives s1) := rfl

/-- **aux_runs_once_per_main_run (recur).**  `Frame.recur`: the frame's recur acts, then one `recur()` of each
of its plain auxiliaries, in order. -/
theorem C09_aux_recur_after_reacts (f : Fid) (s : St W) :
    frameRecur P sem lo f s =
      forEach lo.recur (P.frame f).auxes (runActs sem .recur f (P.frame f).reacts (s.emit (.recur f))) := rfl

/-- `forEach` calls its function exactly once per list element, in order (what "one per auxiliary" means) -/
theorem C09_forEach_cons {α : Type} (g : α → St W → Except Err (St W)) (x : α) (xs : List α) (s : St W) :
    forEach g (x :: xs) s = (match g x s with
                             | .error e => .error e
                             | .ok s' => forEach g xs s') := rfl

/-! ### `done` -/

/-- **done_sets_done.**  `done t₁ … tₙ` sets `.done` of exactly the named framers (and nothing else of anybody). -/
theorem C09_done_sets_done (ctx : Ctx) (f : Fid) (frs : List Frid) (s : St W) (j : Frid) :
    (((runAct sem ctx f (.done frs) s).1).fr j).done = (if j ∈ frs then true else (s.fr j).done) ∧
    (((runAct sem ctx f (.done frs) s).1).fr j).active = (s.fr j).active ∧
    (((runAct sem ctx f (.done frs) s).1).fr j).actives = (s.fr j).actives ∧
    (((runAct sem ctx f (.done frs) s).1).fr j).main = (s.fr j).main := by
  simp only [runAct]
  induction frs generalizing s with
  | nil => simp [setDone]
  | cons k ks ih =>
    simp only [setDone, List.foldl_cons]
    have := ih (s.modFr k (fun x => { x with done := true }))
    simp only [setDone] at this
    refine ⟨?_, this.2.1.trans ?_, this.2.2.1.trans ?_, this.2.2.2.trans ?_⟩
    · rw [this.1]
      by_cases hk : j = k
      · subst hk; simp
      · by_cases hm : j ∈ ks <;> simp [hk, hm]
    all_goals (by_cases hk : j = k <;> simp [hk])

/-- **need_done_aux_semantics.**  `any … is done`: some plain auxiliary of the frame is done; `all … is done`: the
frame has auxiliaries and all are done — with no auxiliaries it is *false*; `<aux> in frame f is done`: it is an
auxiliary of that frame and done; `<tasker> is done`: its `.done`. -/
theorem C09_need_done_aux_semantics (auxOf : Fid → List Frid) (frs : Frid → FramerSt) (w : World) (f : Fid) (x : Frid) :
    (CNeed.eval auxOf (.auxAny f) frs w = true ↔ ∃ y, y ∈ auxOf f ∧ (frs y).done = true) ∧
    (CNeed.eval auxOf (.auxAll f) frs w = true ↔ auxOf f ≠ [] ∧ ∀ y, y ∈ auxOf f → (frs y).done = true) ∧
    (CNeed.eval auxOf (.auxNamed f x) frs w = true ↔ x ∈ auxOf f ∧ (frs x).done = true) ∧
    (CNeed.eval auxOf (.done x) frs w = true ↔ (frs x).done = true) := by
  refine ⟨?_, ?_, ?_, ?_⟩
  · simp [CNeed.eval, List.any_eq_true]
  · simp [CNeed.eval, List.all_eq_true]
  · simp [CNeed.eval]
  · simp [CNeed.eval]

example (frs : Frid → FramerSt) (w : World) : CNeed.eval (fun _ => []) (.auxAll 0) frs w = false := rfl

/-! ### single owner: the full statement and its refutation (D3d) -/

namespace CexD3d

def fr0 (i : Frid) (ol hd : List Fid) (auxes : List Frid) : FrameDef :=
  { framer := i, outline := ol, head := hd, beacts := [], enacts := [], renacts := [], reacts := [],
    exacts := [], rexacts := [], preacts := [], auxes := auxes }

/-- main framer 0 with frames A=0 > B=1, both with the plain auxiliary 1 (one frame 2) -/
def prog : Prog :=
  { frame := fun f => match f with
      | 0 => fr0 0 [0, 1] [0] [1]
      | 1 => fr0 0 [0, 1] [0, 1] [1]
      | 2 => fr0 1 [2] [2] []
      | n + 3 => fr0 (n + 2) [n + 3] [n + 3] [],
    framer := fun i => match i with
      | 0 => { first := 0 }
      | 1 => { first := 2 }
      | n + 2 => { first := n + 3 },
    frames := fun i => match i with
      | 0 => [0, 1]
      | 1 => [2]
      | n + 2 => [n + 3] }

def sem1 : Sem Unit := { act := fun _ _ _ w => (w, false), need := fun _ _ _ _ => true }

def init : St Unit := { frs := fun _ => {}, world := (), now := 0 }

def run : Except Err (St Unit) := runSteps prog sem1 (opsAt prog sem1 2) [(0, .start, 0)] init

end CexD3d

/-- **single owner (check).**  An entry (transition or start) whose list of frames to enter contains two frames
that name the same original auxiliary is refused by `Framer.checkEnter` — at every nesting depth, whatever
the state (fix D3d; the general statement, also for nested auxiliaries, is `C08_claims_distinct`). -/
theorem C09_single_owner_checked (n : Nat) {enters exits : List Fid} {s : St W} {l1 l2 l3 : List Fid} {f g : Fid}
    {a : Frid} (he : enters = l1 ++ f :: l2 ++ g :: l3) (ha : (P.framer a).original = true)
    (hf : a ∈ (P.frame f).auxes) (hg : a ∈ (P.frame g).auxes) :
    checkEnter P sem (opsAt P sem n) enters exits s ≠ .ok true :=
  C08_shared_aux_refused P sem n he ha hf hg

/-- the program that showed D3d (frames A > B both with the plain auxiliary 1): the start is refused now, the
framer stays stopped and inactive, the auxiliary is entered by nobody (`dbl`, `reenter` stay down) -/
theorem C09_fixed_D3d :
    (match CexD3d.run with
     | .ok s => !s.dbl && !s.reenter && ((s.fr 1).main == none) && (s.fr 1).done && (s.fr 0).active.isNone &&
                ((s.fr 0).status == .stopped) && !s.ent 0 && !s.ent 1 && !s.ent 2
     | .error _ => false) = true := by decide

/-- **single owner (invariant).**  Along every run of a well-formed program from a fresh state — whatever the
ghost flags — an original auxiliary that is entered (not done) belongs to the frame whose `aux` clause names
it: `aux.main is frame`.  (This is what makes the ownership tests of the repaired `Suspender.action` /
`deactivize` pass for the owner, `C10_running_is_owned`.) -/
theorem C09_owner_invariant {P : Prog} {rank : Frid → Nat} (wf : WF P rank) (sem : Sem W) (n : Nat)
    (steps : List (Frid × Control × Nat)) (htop : ∀ x, x ∈ steps → Top P x.1) {s0 s : St W} (h0 : Fresh s0)
    (hrun : runSteps P sem (opsAt P sem n) steps s0 = .ok s) :
    ∀ f x, x ∈ kids P f → (P.framer x).original = true → (s.fr x).done = false → (s.fr x).main = some f := by
  have hlo := opsAt_spec wf sem n
  have key : ∀ (l : List (Frid × Control × Nat)) (a b : St W), (∀ x, x ∈ l → Top P x.1) → Owned P a →
      runSteps P sem (opsAt P sem n) l a = .ok b → Owned P b := by
    intro l
    induction l with
    | nil => intro a b _ ho h; simp only [runSteps, Except.ok.injEq] at h; rw [← h]; exact ho
    | cons x xs ih =>
      intro a b hta ho h
      obtain ⟨i, c, t⟩ := x
      simp only [runSteps] at h
      cases h1 : framerStep P sem (opsAt P sem n) i c { a with now := t } with
      | error e => simp [h1] at h
      | ok a1 =>
        simp only [h1] at h
        have ho' : Owned P { a with now := t } := ⟨ho.actives, ho.active, ho.main⟩
        have r := framerStep_fo wf hlo i (hta (i, c, t) (by simp)) c h1 ho'
        exact ih a1 b (fun y hy => hta y (by simp [hy])) r.1 h
  exact (key steps s0 s htop (C05_init P h0).owned hrun).main

end Ioflo.Flo
