import IofloModel.Props.C05
/-!
# C10 — a conditional auxiliary suspends the frames below its main frame

Model: `Model/Flo.lean` — `suspend` (= `Suspender.action`) with its two branches `suspendStart` / `suspendEnter`
(`if aux.done:`) and `suspendRun` (`if not aux.done:`, after the ownership test of fix D3b), `deactivize` (the exit side act that
`Suspender._resolve` appends to the main frame's exit acts, modelled by `suspAuxes` in `frameExit`),
`truncate` (= `framer.change(main.head, …)`), `reactivate`.

The statement of the property has a known exception (defect D3, see C05): with two conditional auxiliaries of
one framer running at the same time the frames below the inner main frame are not suspended.  The theorems
that need "the outline is cut at the main frame" therefore take the C05 invariant as hypothesis
(`AllInv`, established by `C05_reachable_partial` for runs without ghost flag), and
`C10_counterexample_D3` exhibits the exception.
-/
namespace Ioflo.Flo
open Ioflo.Outline (Fid)

variable {W : Type} (P : Prog) (sem : Sem W) (lo : Ops W)

/-! ### starting -/

/-- **suspender_first_run (1).**  A conditional auxiliary that is done is (re)started only if its needs hold, it
is not owned by another frame and its own `checkStart` passes — all evaluated in the state of the attempt;
otherwise the preact returns falsy and nothing changes. -/
theorem C10_start_conditions (i : Frid) (f : Fid) (needs : List NeedId) (aux : Frid) (tracts : List Act)
    (s : St W) (hpl : (P.frame f).auxes.contains aux = false) (hd : (s.fr aux).done = true) :
    suspend P sem lo i f needs aux tracts s =
      (if needsHold sem needs s = true ∧ ownedElsewhere aux f s = false then
        match lo.checkStart aux [] s with
        | .error e => .error e
        | .ok none => .ok (false, s)
        | .ok (some _) => suspendEnter P sem lo i f aux tracts s
       else .ok (false, s)) := by
  unfold suspend
  simp only [hpl, hd, if_true, Bool.false_eq_true, if_false]
  unfold suspendStart
  cases hn : needsHold sem needs s <;> cases ho : ownedElsewhere aux f s <;> simp
  cases lo.checkStart aux [] s with
  | error e => rfl
  | ok b => cases b <;> rfl

/-- **suspender_first_run (2).**  The first run: transit acts, `aux.main := main`, `aux.enterAll()`, `aux.recur()`;
if the auxiliary is not done afterwards the framer's outline is cut at the main frame and the preact returns
truthy (ending the framer's transition evaluation for this run). -/
theorem C10_first_run_stays (i : Frid) (f : Fid) (aux : Frid) (tracts : List Act) (s s1 s2 : St W)
    (h1 : lo.enterAll aux (claim P aux f (runActs sem .transit f tracts s)) = .ok s1)
    (h2 : lo.recur aux s1 = .ok s2) (hnd : (s2.fr aux).done = false) :
    suspendEnter P sem lo i f aux tracts s = .ok (true, truncate P i f (markOverlap (otherRunning P i aux s2) s2)) ∧
    ((truncate P i f (markOverlap (otherRunning P i aux s2) s2)).fr i).actives = (P.frame f).head := by
  constructor
  · simp [suspendEnter, h1, h2, hnd]
  · simp [truncate]

/-- **suspender_first_run (3).**  If the auxiliary is done after its first run it is exited at once
(`exitAll`, `main := None`), the outline is *not* cut, and the preact returns falsy: later preacts of the main
frame and the lower frames are evaluated in this same run. -/
theorem C10_first_run_completes (i : Frid) (f : Fid) (aux : Frid) (tracts : List Act) (s s1 s2 s3 : St W)
    (h1 : lo.enterAll aux (claim P aux f (runActs sem .transit f tracts s)) = .ok s1)
    (h2 : lo.recur aux s1 = .ok s2) (hd : (s2.fr aux).done = true)
    (h3 : lo.exitAll aux s2 = .ok s3) :
    suspendEnter P sem lo i f aux tracts s = .ok (false, release P aux s3) := by
  simp [suspendEnter, h1, h2, hd, deactivateAux, h3]

/-! ### running -/

/-- **suspender_runs_until_done (1).**  While the auxiliary is not done and belongs to this clause's frame the
preact does not look at its needs: it runs `aux.segue(); aux.recur()`. -/
theorem C10_runs_irrespective_of_needs (i : Frid) (f : Fid) (needs : List NeedId) (aux : Frid) (tracts : List Act)
    (s : St W) (hpl : (P.frame f).auxes.contains aux = false) (hnd : (s.fr aux).done = false)
    (hown : notOwner P aux f s = false) :
    suspend P sem lo i f needs aux tracts s = suspendRun P lo i aux s := by
  simp only [suspend, hpl, hnd, hown, Bool.false_eq_true, if_false]

/-- (fix D3b) an original auxiliary that is running for another frame is neither run nor started by this
clause: the preact returns falsy and nothing changes -/
theorem C10_not_owner_noop (i : Frid) (f : Fid) (needs : List NeedId) (aux : Frid) (tracts : List Act)
    (s : St W) (hnd : (s.fr aux).done = false) (hno : notOwner P aux f s = true) :
    suspend P sem lo i f needs aux tracts s = .ok (false, s) := by
  unfold suspend
  split
  · rfl
  · simp [hnd, hno]

/-- (fix D3e) a conditional clause whose auxiliary is also a plain auxiliary of the same frame does nothing: the
auxiliary is entered, run and exited with the frame (`C09_aux_entered_with_main` …) and by nothing else -/
theorem C10_plain_and_conditional_noop (i : Frid) (f : Fid) (needs : List NeedId) (aux : Frid) (tracts : List Act)
    (s : St W) (hpl : (P.frame f).auxes.contains aux = true) :
    suspend P sem lo i f needs aux tracts s = .ok (false, s) := by
  unfold suspend
  rw [if_pos hpl]

/-- in a well-formed program (every auxiliary named by one clause) the ownership test never fails: a
conditional auxiliary that is not done belongs to the frame that names it (invariant `Owned.main`, kept by every
operation — `opsAt_spec`) -/
theorem C10_running_is_owned {P : Prog} {rank : Frid → Nat} (wf : WF P rank) {f : Fid} {x : Frid}
    (hx : IsSusp P f x) {s : St W} (ho : Owned P s) (hd : (s.fr x).done = false) :
    notOwner P x f s = false :=
  owner_of_running wf hx ho hd

/-- **suspender_runs_until_done (2).**  One segue and one recur of the auxiliary; still not done ⇒ truthy result
with the main framer untouched by the preact itself: the remaining preacts of the main frame and all lower frames
are skipped in this run (`C07_segue_first_match`). -/
theorem C10_run_continues (i : Frid) (aux : Frid) (s s1 s2 : St W)
    (h1 : lo.segue aux s = .ok s1) (h2 : lo.recur aux s1 = .ok s2) (hnd : (s2.fr aux).done = false) :
    suspendRun P lo i aux s = .ok (true, s2) := by
  simp [suspendRun, h1, h2, hnd]

/-- **resume_same_tick_no_reenter (1).**  Completion: the auxiliary is exited (`exitAll`, `main := None`), the
framer's outline is restored to the full outline of its active frame — by assignment, no frame is entered — and
the preact returns falsy. -/
theorem C10_run_completes (i : Frid) (aux : Frid) (a : Fid) (s s1 s2 s3 : St W)
    (h1 : lo.segue aux s = .ok s1) (h2 : lo.recur aux s1 = .ok s2) (hd : (s2.fr aux).done = true)
    (h3 : lo.exitAll aux s2 = .ok s3) (ha : ((release P aux s3).fr i).active = some a) :
    ∃ s', suspendRun P lo i aux s = .ok (false, s') ∧ (s'.fr i).actives = (P.frame a).outline ∧
      (s'.fr i).active = some a ∧ s'.ent = (release P aux s3).ent ∧ s'.world = (release P aux s3).world := by
  refine ⟨((release P aux s3).modFr i (fun x => { x with actives := (P.frame a).outline })).emit (.reactivate i), ?_, ?_, ?_, rfl, rfl⟩
  · simp [suspendRun, h1, h2, hd, deactivateAux, h3, reactivate, ha]
  · simp
  · simpa using ha

/-- **resume_same_tick_no_reenter (2).**  `Framer.recur` runs the recur actions of exactly the frames in
`.actives`, top-down — after a completion that is the full outline again, in the very same run. -/
theorem C10_recur_over_actives (i : Frid) (s : St W) :
    recur P sem lo i s = forEach (frameRecur P sem lo) (s.fr i).actives s := rfl

/-- while a conditional auxiliary of frame `m` runs (and the C05 invariant holds) the frames that recur and
whose preacts are evaluated are those of `head m`: the frames below `m` are suspended -/
theorem C10_suspended_frames (s : St W) (h : AllInv P s) (m : Fid) (x : Frid) (hr : Running P s m x) :
    (s.fr (P.frame m).framer).actives = (P.frame m).head :=
  (h.finv (P.frame m).framer).cut m x rfl hr

/-! ### the main frame's exit exits the auxiliary -/

/-- **main_exit_exits_aux.**  `Frame.exit` of a frame ends with the `deactivize` side acts of its conditional
auxiliaries: afterwards each of them is done (it was, or it has been exited). -/
theorem C10_main_exit_exits_aux {P : Prog} {rank : Frid → Nat} (wf : WF P rank) (sem : Sem W) (n : Nat)
    (f : Fid) (s s' : St W) (ho : Owned P s) (h : frameExit P sem (opsAt P sem n) f s = .ok s') :
    ∀ x, IsSusp P f x → (s'.fr x).done = true :=
  (frameExit_sk wf (opsAt_spec wf sem n) ho h).2.1

/-- the side act itself: a running auxiliary of this frame is exited and released; a done one, or (fix D3b) an
original one that is in use by another frame, is left alone -/
theorem C10_deactivize (f : Fid) (aux : Frid) (s : St W) :
    deactivize P lo f aux s =
      (if (s.fr aux).done = true ∨ notOwner P aux f s = true then .ok s
       else match lo.exitAll aux s with
            | .error e => .error e
            | .ok s' => .ok (release P aux s')) := by
  unfold deactivize deactivateAux
  cases (s.fr aux).done <;> cases notOwner P aux f s <;> simp
  cases lo.exitAll aux s <;> rfl

/-! ### the exception (defect D3) -/

/-- In the well-formed program `CexD3.prog` the run `start, run, run, run` ends with the conditional auxiliary
`x2` of frame `B` running while frame `C` below `B` is among the active frames (it recurs, unsuspended). -/
theorem C10_counterexample_D3 :
    (match CexD3.run with
     | .ok s => !(s.fr 2).done && (s.fr 0).actives.contains 2 && ((CexD3.prog.frame 1).head == [0, 1])
     | .error _ => false) = true := by decide

end Ioflo.Flo
