import IofloModel.Lemmas.FloClock
/-!
# C11 — framer elapsed / recurred clocks drive `timeout` and `repeat` exactly

Model: `Model/FloClock.lean` (one framer, flat frames, generic number type).
A run is the list of per-tick observations `Obs` (`now`, the `evalElapsed` / `evalRecurred` the
needs saw, `entered` = the outline changed in this tick, the state `after`).  A *segment* of a run is
`pre ++ oe :: (mid ++ oi :: post)` with `oe.entered` and nothing in `mid` entered: `oe` is the last
outline change before the evaluation `oi`, which happens `mid.length + 1` iterations later.

The first group of theorems holds for every number type (`Int`, `Float`, …), every program and every
sequence of store stamps; the exact-time group is for `τ = Int` (time in units of a quantum) with
the Skedder's stamps `0, P, 2P, …`.
-/
namespace Ioflo.FloClock

section generic
variable {τ : Type} [Sub τ] [LE τ] [LT τ] [DecidableLE τ] [DecidableLT τ] [OfNat τ 0]

/-- a segment of a run: `oe` changed the outline, nothing in `mid` did, `oi` is the next evaluation -/
theorem run_segment (tr : Nat → List (Trans τ)) (nows : List τ)
    (pre : List (Obs τ)) (oe : Obs τ) (mid : List (Obs τ)) (oi : Obs τ) (post : List (Obs τ))
    (h : run tr nows = pre ++ oe :: (mid ++ oi :: post))
    (he : oe.entered = true) (hm : ∀ m ∈ mid, m.entered = false) :
    oe.after.stamp = oe.now ∧ oe.after.recurred = 0 ∧
    ∃ nows', runFrom tr oe.after nows' = mid ++ oi :: post := by
  cases nows with
  | nil => simp [run] at h
  | cons now0 rest =>
    simp only [run] at h
    cases pre with
    | nil =>
      simp only [List.nil_append, List.cons.injEq] at h
      obtain ⟨h0, h1⟩ := h
      subst h0
      exact ⟨rfl, rfl, rest, h1⟩
    | cons p pre' =>
      simp only [List.cons_append, List.cons.injEq] at h
      obtain ⟨s', now, nows', ho, hr⟩ := runFrom_split tr pre' _ _ oe _ h.2
      have := segue_enter tr now s' (by rw [← ho]; exact he)
      rw [← ho] at this
      refine ⟨by rw [this.1, ho, segue_now], this.2.1, nows', hr.symm⟩

/-- **C11, the clocks**: whenever transition conditions are evaluated (`oi`), the elapsed they see is
the store time since the outline last changed (`oe`: start, transition or forced re-entry) and the
recurred they see is the number of iterations since then — for every program and every sequence of
store stamps. -/
theorem C11_clocks_since_outline_change (tr : Nat → List (Trans τ)) (nows : List τ)
    (pre : List (Obs τ)) (oe : Obs τ) (mid : List (Obs τ)) (oi : Obs τ) (post : List (Obs τ))
    (h : run tr nows = pre ++ oe :: (mid ++ oi :: post))
    (he : oe.entered = true) (hm : ∀ m ∈ mid, m.entered = false) :
    oi.evalElapsed = some (oi.now - oe.now) ∧ oi.evalRecurred = some (mid.length + 1) := by
  obtain ⟨h1, h2, nows', h3⟩ := run_segment tr nows pre oe mid oi post h he hm
  obtain ⟨a, b, _⟩ := runFrom_segment tr mid _ _ oi post h3 hm
  rw [h1] at a; rw [h2] at b
  exact ⟨a, by simpa using b⟩

theorem firstTrans_some_iff (s : St τ) (ts : List (Trans τ)) :
    (∃ t, firstTrans s ts = some t) ↔ ∃ t ∈ ts, t.needs.all (evalNeed s) = true := by
  induction ts with
  | nil => simp [firstTrans]
  | cons t ts ih =>
    simp only [firstTrans]
    by_cases hc : t.needs.all (evalNeed s) = true
    · simp only [hc, if_true]
      exact ⟨fun _ => ⟨t, List.mem_cons_self, hc⟩, fun _ => ⟨t, rfl⟩⟩
    · simp only [hc]
      simp only [Bool.false_eq_true, if_false, ih, List.mem_cons]
      constructor
      · rintro ⟨x, hx, hh⟩; exact ⟨x, Or.inr hx, hh⟩
      · rintro ⟨x, hx | hx, hh⟩
        · subst hx; exact absurd hh hc
        · exact ⟨x, hx, hh⟩

/-- **C11, leaving a frame**: at the evaluation `oi`, `k = mid.length + 1` iterations after frame `a`
was entered at `oe`, the frame is left iff some transition of `a` has all its needs true of
(elapsed = now − now_e, recurred = k); it is then left through the first such transition. -/
theorem C11_leaves_iff_a_condition_holds (tr : Nat → List (Trans τ)) (nows : List τ)
    (pre : List (Obs τ)) (oe : Obs τ) (mid : List (Obs τ)) (oi : Obs τ) (post : List (Obs τ))
    (h : run tr nows = pre ++ oe :: (mid ++ oi :: post))
    (he : oe.entered = true) (hm : ∀ m ∈ mid, m.entered = false) :
    let seen : St τ := ⟨oe.after.active, oe.now, oi.now - oe.now, mid.length + 1⟩
    (oi.entered = true ↔ ∃ t ∈ tr oe.after.active, t.needs.all (evalNeed seen) = true) ∧
    (oi.entered = true → ∃ t, firstTrans seen (tr oe.after.active) = some t ∧ oi.after.active = t.far) ∧
    (oi.entered = false → oi.after.active = oe.after.active) := by
  obtain ⟨h1, h2, nows', h3⟩ := run_segment tr nows pre oe mid oi post h he hm
  obtain ⟨_, _, s', c1, c2, c3, c4⟩ := runFrom_segment tr mid _ _ oi post h3 hm
  have hs : evalState oi.now s' = ⟨oe.after.active, oe.now, oi.now - oe.now, mid.length + 1⟩ := by
    unfold evalState
    rw [c1, c2, c3, h1, h2]
    simp
  intro seen
  rcases segue_cases tr oi.now s' with ⟨t, ht, hseg⟩ | ⟨ht, hseg⟩
  · rw [hs, c3] at ht
    have ho : oi = _ := c4.trans hseg
    refine ⟨?_, ?_, ?_⟩
    · rw [ho]
      simp only [true_iff]
      exact (firstTrans_some_iff _ _).1 ⟨t, ht⟩
    · intro _; exact ⟨t, ht, by rw [ho]; rfl⟩
    · intro hf; rw [ho] at hf; cases hf
  · rw [hs, c3] at ht
    have ho : oi = _ := c4.trans hseg
    refine ⟨?_, ?_, ?_⟩
    · rw [ho]
      constructor
      · intro hf; cases hf
      · intro hx
        obtain ⟨t, ht'⟩ := (firstTrans_some_iff _ _).2 hx
        rw [ht] at ht'; cases ht'
    · intro hf; rw [ho] at hf; cases hf
    · intro _; rw [ho]; exact c3

/-- a frame whose only transition has the single need `nd` -/
theorem single_need (tr : Nat → List (Trans τ)) (nows : List τ)
    (pre : List (Obs τ)) (oe : Obs τ) (mid : List (Obs τ)) (oi : Obs τ) (post : List (Obs τ))
    (nd : Need τ) (far : Nat)
    (hprog : tr oe.after.active = [⟨[nd], far⟩])
    (h : run tr nows = pre ++ oe :: (mid ++ oi :: post))
    (he : oe.entered = true) (hm : ∀ m ∈ mid, m.entered = false) :
    (oi.entered = true ↔ evalNeed ⟨oe.after.active, oe.now, oi.now - oe.now, mid.length + 1⟩ nd = true) ∧
    (oi.entered = true → oi.after.active = far) := by
  have g := C11_leaves_iff_a_condition_holds tr nows pre oe mid oi post h he hm
  simp only [hprog] at g
  obtain ⟨g1, g2, _⟩ := g
  constructor
  · rw [g1]; simp
  · intro hx
    obtain ⟨t, ht, hfar⟩ := g2 hx
    have hc := g1.1 hx
    simp only [List.mem_singleton, exists_eq_left, List.all_cons, List.all_nil, Bool.and_true] at hc
    simp only [firstTrans, List.all_cons, List.all_nil, Bool.and_true, hc, if_true, Option.some.injEq] at ht
    rw [hfar, ← ht]

/-- **`timeout T`** (the only transition of the frame): the frame is left at the first evaluation
whose elapsed is at least `T` — at `oi` iff `T ≤ now − now_e`, and no earlier evaluation since the
frame was entered had reached `T`. -/
theorem C11_timeout_fires_first (tr : Nat → List (Trans τ)) (nows : List τ)
    (pre : List (Obs τ)) (oe : Obs τ) (mid : List (Obs τ)) (oi : Obs τ) (post : List (Obs τ))
    (T : τ) (far : Nat)
    (hprog : tr oe.after.active = [⟨[.elapsed .ge T], far⟩])
    (h : run tr nows = pre ++ oe :: (mid ++ oi :: post))
    (he : oe.entered = true) (hm : ∀ m ∈ mid, m.entered = false) :
    (oi.entered = true ↔ T ≤ oi.now - oe.now) ∧ (oi.entered = true → oi.after.active = far) ∧
    (∀ m ∈ mid, ¬ T ≤ m.now - oe.now) := by
  have g := single_need tr nows pre oe mid oi post _ far hprog h he hm
  refine ⟨by rw [g.1]; simp [evalNeed, check], g.2, ?_⟩
  intro m hmem
  obtain ⟨m1, m2, rfl⟩ := List.append_of_mem hmem
  have h' : run tr nows = pre ++ oe :: (m1 ++ m :: (m2 ++ oi :: post)) := by
    rw [h]; simp
  have g' := single_need tr nows pre oe m1 m (m2 ++ oi :: post) _ far hprog h' he
    (fun x hx => hm x (List.mem_append_left _ hx))
  have hme := hm m (by simp)
  intro hT
  have : m.entered = true := g'.1.2 (by simpa [evalNeed, check] using hT)
  rw [hme] at this; cases this

/-- **`repeat N`** (the only transition of the frame): the frame is left at the first evaluation
whose recurred is at least `N`, i.e. exactly `max 1 N` iterations after it was entered. -/
theorem C11_repeat_fires_first (tr : Nat → List (Trans τ)) (nows : List τ)
    (pre : List (Obs τ)) (oe : Obs τ) (mid : List (Obs τ)) (oi : Obs τ) (post : List (Obs τ))
    (N : Nat) (far : Nat)
    (hprog : tr oe.after.active = [⟨[.recurred .ge N], far⟩])
    (h : run tr nows = pre ++ oe :: (mid ++ oi :: post))
    (he : oe.entered = true) (hm : ∀ m ∈ mid, m.entered = false) :
    (oi.entered = true ↔ N ≤ mid.length + 1) ∧ (oi.entered = true → oi.after.active = far) ∧
    (oi.entered = true → mid.length + 1 = max 1 N) := by
  have g := single_need tr nows pre oe mid oi post _ far hprog h he hm
  have g1 : oi.entered = true ↔ N ≤ mid.length + 1 := by rw [g.1]; simp [evalNeed, check]
  refine ⟨g1, g.2, ?_⟩
  intro hx
  have hN := g1.1 hx
  cases hmid : mid.reverse with
  | nil =>
    have : mid = [] := by simpa using hmid
    subst this; simp only [List.length_nil] at hN ⊢; omega
  | cons m rm =>
    have hmid' : mid = rm.reverse ++ [m] := by
      have := congrArg List.reverse hmid; simpa using this
    have h' : run tr nows = pre ++ oe :: (rm.reverse ++ m :: ([] ++ oi :: post)) := by
      rw [h, hmid']; simp
    have g' := single_need tr nows pre oe rm.reverse m ([] ++ oi :: post) _ far hprog h' he
      (fun x hx => hm x (by rw [hmid']; exact List.mem_append_left _ hx))
    have hme := hm m (by rw [hmid']; simp)
    have : ¬ N ≤ rm.reverse.length + 1 := by
      intro hh
      have : m.entered = true := g'.1.2 (by simpa [evalNeed, check] using hh)
      rw [hme] at this; cases this
    have hl : mid.length = rm.reverse.length + 1 := by rw [hmid']; simp
    omega

end generic

/-! ## what the verbs build -/

/-- `timeout v` is `go next if elapsed >= abs(v)`, `repeat v` is `go next if recurred >= int(abs(v))` -/
theorem C11_verbs_desugar {τ : Type} [Lit τ] (n home : Nat) (v : τ) (h : home + 1 < n) :
    resolveVerb n home (Verb.timeout v) = .ok ⟨[.elapsed .ge (Lit.abs v)], home + 1⟩ ∧
    resolveVerb n home (Verb.rep v) = .ok ⟨[.recurred .ge (Lit.trunc v)], home + 1⟩ := by
  simp [resolveVerb, resolveFar, h, bind, Except.bind, pure, Except.pure]

theorem resolveFrames_get {τ : Type} [Lit τ] (n : Nat) :
    ∀ (p : Program τ) (i : Nat) (prog : List (RFrame τ)), resolveFrames n i p = .ok prog →
    ∀ (k : Nat) (f : FrameSrc τ), p[k]? = some f →
      ∃ ts, prog[k]? = some ⟨f.over, ts⟩ ∧ List.mapM (resolveVerb n (i + k)) f.verbs = Except.ok ts := by
  intro p
  induction p with
  | nil => intro i prog _ k f hk; simp at hk
  | cons f0 fs ih =>
    intro i prog h k f hk
    simp only [resolveFrames, bind, Except.bind] at h
    cases h1 : f0.verbs.mapM (resolveVerb n i) with
    | error e => simp [h1] at h
    | ok ts0 =>
      simp only [h1] at h
      cases h2 : resolveFrames n (i + 1) fs with
      | error e => simp [h2] at h
      | ok rest =>
        simp only [h2, pure, Except.pure, Except.ok.injEq] at h
        subst h
        cases k with
        | zero =>
          simp only [List.getElem?_cons_zero, Option.some.injEq] at hk
          subst hk
          exact ⟨ts0, by simp, by simpa using h1⟩
        | succ k =>
          simp only [List.getElem?_cons_succ] at hk
          obtain ⟨ts, a, b⟩ := ih (i + 1) rest h2 k f hk
          exact ⟨ts, by simpa using a, by
            have : i + 1 + k = i + (k + 1) := by omega
            rw [← this]; exact b⟩

/-- a frame written as the single line `timeout v` (resp. `repeat v`) resolves to the single-need
transition of `C11_timeout_fires_first` with `T = abs v` (resp. `C11_repeat_fires_first` with
`N = int(abs v)`), going to the lexically next frame -/
theorem C11_resolved_timeout_frame {τ : Type} [Lit τ] (p : Program τ) (prog : List (RFrame τ))
    (h : resolve p = .ok prog) (a : Nat) (ov : Option Nat) (v : τ) :
    (p[a]? = some ⟨ov, [Verb.timeout v]⟩ → prog[a]? = some ⟨ov, [⟨[.elapsed .ge (Lit.abs v)], a + 1⟩]⟩) ∧
    (p[a]? = some ⟨ov, [Verb.rep v]⟩ → prog[a]? = some ⟨ov, [⟨[.recurred .ge (Lit.trunc v)], a + 1⟩]⟩) := by
  unfold resolve at h
  constructor
  · intro ha
    obtain ⟨ts, h1, h2⟩ := resolveFrames_get _ p 0 prog h a _ ha
    by_cases hlt : a + 1 < p.length
    · have := (C11_verbs_desugar p.length a v hlt).1
      simp only [List.mapM_cons, List.mapM_nil, Nat.zero_add, bind, Except.bind, this, pure, Except.pure,
        Except.ok.injEq] at h2
      rw [h1, ← h2]
    · simp [resolveVerb, resolveFar, hlt, bind, Except.bind] at h2
  · intro ha
    obtain ⟨ts, h1, h2⟩ := resolveFrames_get _ p 0 prog h a _ ha
    by_cases hlt : a + 1 < p.length
    · have := (C11_verbs_desugar p.length a v hlt).2
      simp only [List.mapM_cons, List.mapM_nil, Nat.zero_add, bind, Except.bind, this, pure, Except.pure,
        Except.ok.injEq] at h2
      rw [h1, ← h2]
    · simp [resolveVerb, resolveFar, hlt, bind, Except.bind] at h2

/-- a frame that stands alone (no over frame, no under frame) has exactly its own transitions in effect -/
theorem C11_lone_frame_transitions {τ : Type} (fr : List (RFrame τ)) (a : Nat) (f : RFrame τ)
    (ha : fr[a]? = some f) (hover : f.over = none) (hunder : firstUnder fr a = none) :
    transOf fr a = f.trans := by
  have hlen : 0 < fr.length := by
    cases fr with
    | nil => simp at ha
    | cons x t => simp
  obtain ⟨n, hn⟩ : ∃ n, fr.length = n + 1 := ⟨fr.length - 1, by omega⟩
  have ho : overOf fr a = none := by simp [overOf, ha, hover]
  simp [transOf, outline, hn, headOf, tailOf, ho, hunder, ha]

/-- nested frames: the transitions of the over frames come first — when the first transition in
effect has all its needs true at `oi`, it is the one taken, whatever the frames below say -/
theorem C11_outer_transition_first {τ : Type} [Sub τ] [LE τ] [LT τ] [DecidableLE τ] [DecidableLT τ] [OfNat τ 0]
    (tr : Nat → List (Trans τ)) (nows : List τ)
    (pre : List (Obs τ)) (oe : Obs τ) (mid : List (Obs τ)) (oi : Obs τ) (post : List (Obs τ))
    (t0 : Trans τ) (rest : List (Trans τ)) (htr : tr oe.after.active = t0 :: rest)
    (h : run tr nows = pre ++ oe :: (mid ++ oi :: post))
    (he : oe.entered = true) (hm : ∀ m ∈ mid, m.entered = false)
    (hneeds : t0.needs.all (evalNeed ⟨oe.after.active, oe.now, oi.now - oe.now, mid.length + 1⟩) = true) :
    oi.entered = true ∧ oi.after.active = t0.far := by
  have g := C11_leaves_iff_a_condition_holds tr nows pre oe mid oi post h he hm
  simp only [htr] at g
  obtain ⟨g1, g2, _⟩ := g
  have hent : oi.entered = true := g1.2 ⟨t0, by simp, hneeds⟩
  obtain ⟨t, ht, hfar⟩ := g2 hent
  simp only [firstTrans, hneeds, if_true, Option.some.injEq] at ht
  exact ⟨hent, by rw [hfar, ← ht]⟩

/-! ## exact time: the Skedder's stamps `0, P, 2P, …`; the instance is started at tick `s`
(`s = 0` for an active framer, the tick its main frame is entered for an auxiliary framer or a clone) -/

/-- under the Skedder the elapsed seen `k` iterations after the outline changed is exactly `k·P` -/
theorem C11_elapsed_is_k_periods (tr : Nat → List (Trans Int)) (P : Int) (s n : Nat)
    (pre : List (Obs Int)) (oe : Obs Int) (mid : List (Obs Int)) (oi : Obs Int) (post : List (Obs Int))
    (h : run tr (stampsFrom P s n) = pre ++ oe :: (mid ++ oi :: post))
    (he : oe.entered = true) (hm : ∀ m ∈ mid, m.entered = false) :
    oi.evalElapsed = some (((mid.length + 1 : Nat) : Int) * P) := by
  rw [(C11_clocks_since_outline_change tr _ pre oe mid oi post h he hm).1]
  have h1 := now_at tr P s n pre oe _ h
  have h2 : oi.now = ((s + (pre ++ oe :: mid).length : Nat) : Int) * P :=
    now_at tr P s n (pre ++ oe :: mid) oi post (by rw [h]; simp)
  rw [h1, h2]
  congr 1
  simp only [List.length_append, List.length_cons, Int.natCast_add, Int.natCast_one]
  simp only [Int.add_mul]
  omega

/-- **exact transition tick of `timeout T`**: with tick period `P > 0` the frame is left `k` ticks
after it was entered, where `k ≥ 1` is the least number of periods with `k·P ≥ T` … -/
theorem C11_timeout_tick_exact (tr : Nat → List (Trans Int)) (P : Int) (s n : Nat)
    (pre : List (Obs Int)) (oe : Obs Int) (mid : List (Obs Int)) (oi : Obs Int) (post : List (Obs Int))
    (T : Int) (far : Nat)
    (hprog : tr oe.after.active = [⟨[.elapsed .ge T], far⟩])
    (h : run tr (stampsFrom P s n) = pre ++ oe :: (mid ++ oi :: post))
    (he : oe.entered = true) (hm : ∀ m ∈ mid, m.entered = false) (hent : oi.entered = true) :
    T ≤ ((mid.length + 1 : Nat) : Int) * P ∧
    ∀ j : Nat, 1 ≤ j → j < mid.length + 1 → (j : Int) * P < T := by
  have g := C11_timeout_fires_first tr _ pre oe mid oi post T far hprog h he hm
  have hoe := now_at tr P s n pre oe _ h
  constructor
  · have h2 : oi.now = ((s + (pre ++ oe :: mid).length : Nat) : Int) * P :=
      now_at tr P s n (pre ++ oe :: mid) oi post (by rw [h]; simp)
    have := g.1.1 hent
    rw [hoe, h2] at this
    simp only [List.length_append, List.length_cons, Int.natCast_add, Int.natCast_one] at this ⊢
    simp only [Int.add_mul] at this ⊢
    omega
  · intro j h1 hj
    -- the observation j iterations after `oe` is `mid[j-1]`
    have hlt : j - 1 < mid.length := by omega
    have hsplit : mid = mid.take (j - 1) ++ mid[j - 1] :: mid.drop j := by
      have := (List.take_append_drop (j - 1) mid).symm
      rw [List.drop_eq_getElem_cons hlt] at this
      have e : j - 1 + 1 = j := by omega
      rw [e] at this; exact this
    have hmem : mid[j - 1] ∈ mid := List.getElem_mem hlt
    have hnot := g.2.2 _ hmem
    have hnow : (mid[j - 1]).now = ((s + (pre ++ oe :: mid.take (j - 1)).length : Nat) : Int) * P :=
      now_at tr P s n (pre ++ oe :: mid.take (j - 1)) (mid[j - 1]) (mid.drop j ++ oi :: post) (by
        rw [h]; conv => lhs; rw [hsplit]
        simp)
    rw [hnow, hoe] at hnot
    simp only [List.length_append, List.length_cons, List.length_take, Int.natCast_add, Int.natCast_one] at hnot
    have hmin : min (j - 1) mid.length = j - 1 := by omega
    rw [hmin] at hnot
    have hj : ((j - 1 : Nat) : Int) = (j : Int) - 1 := by omega
    rw [hj] at hnot
    simp only [Int.add_mul, Int.sub_mul] at hnot
    omega

/-- … which is `max 1 ⌈T/P⌉` (pure arithmetic; `(T + P − 1) / P` is the integer ceiling of `T/P`) -/
theorem C11_first_multiple_is_ceil (P T : Int) (k : Nat) (hP : 0 < P) (hk : 1 ≤ k)
    (h1 : T ≤ (k : Int) * P) (h2 : ∀ j : Nat, 1 ≤ j → j < k → (j : Int) * P < T) :
    (k : Int) = max 1 ((T + P - 1) / P) := by
  by_cases hk1 : k = 1
  · subst hk1
    have : (T + P - 1) / P ≤ 1 := by
      have h3 : (T + P - 1) / P < 2 := by
        apply Int.ediv_lt_of_lt_mul hP
        simp at h1; omega
      omega
    simp only [Int.natCast_one]
    omega
  · have hk2 := h2 (k - 1) (by omega) (by omega)
    have hkc : ((k - 1 : Nat) : Int) = (k : Int) - 1 := by omega
    rw [hkc, Int.sub_mul, Int.one_mul] at hk2
    have lo : (k : Int) ≤ (T + P - 1) / P := by
      apply Int.le_ediv_of_mul_le hP
      omega
    have hi : (T + P - 1) / P < (k : Int) + 1 := by
      apply Int.ediv_lt_of_lt_mul hP
      rw [Int.add_mul, Int.one_mul]
      omega
    omega

/-- non-vacuity (exact): period 3, frame 0 has `timeout 7` → left ⌈7/3⌉ = 3 ticks after the start;
frame 1 has `repeat 2` → left 2 ticks later; frame 2 re-enters itself every tick. -/
example :
    (resolve (τ := Int) [⟨none, [.timeout (-7)]⟩, ⟨none, [.rep 2]⟩, ⟨none, [.go .me []]⟩]).toOption.map
      (fun prog => (run (transOf prog) (stamps 3 8)).map (fun o => (o.after.active, o.entered, o.after.elapsed)))
    = some [(0, true, 0), (0, false, 3), (0, false, 6), (1, true, 0), (1, false, 3), (2, true, 0),
            (2, true, 0), (2, true, 0)] := by
  decide

/-- nested: frame 0 (`timeout 5`, period 2) holds frames 1 and 2, which hand over to each other every
second tick (`repeat 2`, `go 1 if recurred >= 2`): every hand-over changes the outline and restarts
the framer's clock, so the outer timeout (it needs 3 quiet ticks) never fires; with `timeout 4` it
fires at the first evaluation with elapsed 4. -/
example :
    ((resolve (τ := Int) [⟨none, [.timeout 5]⟩, ⟨some 0, [.rep 2]⟩, ⟨some 0, [.go (.idx 1) [.recurred .ge 2]]⟩,
        ⟨none, []⟩]).toOption.map
      (fun prog => (run (transOf prog) (stamps 2 7)).map (fun o => (o.after.active, o.after.elapsed))))
    = some [(0, 0), (0, 2), (2, 0), (2, 2), (1, 0), (1, 2), (2, 0)] ∧
    ((resolve (τ := Int) [⟨none, [.timeout 4]⟩, ⟨some 0, [.rep 3]⟩, ⟨some 0, []⟩, ⟨none, []⟩]).toOption.map
      (fun prog => (run (transOf prog) (stamps 2 4)).map (fun o => (o.after.active, o.after.elapsed))))
    = some [(0, 0), (0, 2), (1, 0), (1, 2)] := by
  decide

/-! ## conditional auxiliaries: suspending and resuming is not an outline change

`decideS frames helper` is the tick decision of a framer one of whose frames holds `aux helper if …`
(`Model/FloClock.lean`); `runG d x0` is the machine over any decision function `d` with extra state. -/

section conditionalAux
variable {τ : Type} [Sub τ] [LE τ] [LT τ] [DecidableLE τ] [DecidableLT τ] [OfNat τ 0] {σ : Type}

/-- **the clocks, for every decision function** (in particular `decideS`: suspenders starting, iterating
and finishing their helper between `oe` and `oi`): the elapsed / recurred seen at an evaluation are
counted from the last tick in which a transition was TAKEN (`entered`), nothing else restarts them. -/
theorem C11_clocks_any_decision (d : τ → σ → St τ → Option Nat × σ) (x0 : σ) (nows : List τ)
    (pre : List (Obs τ)) (oe : Obs τ) (mid : List (Obs τ)) (oi : Obs τ) (post : List (Obs τ))
    (h : runG d x0 nows = pre ++ oe :: (mid ++ oi :: post))
    (he : oe.entered = true) (hm : ∀ m ∈ mid, m.entered = false) :
    oi.evalElapsed = some (oi.now - oe.now) ∧ oi.evalRecurred = some (mid.length + 1) := by
  cases nows with
  | nil => simp [runG] at h
  | cons now0 rest =>
    simp only [runG] at h
    cases pre with
    | nil =>
      simp only [List.nil_append, List.cons.injEq] at h
      obtain ⟨h0, h1⟩ := h
      subst h0
      have := runFromG_segment d mid _ _ _ oi post h1 hm
      exact ⟨this.1, by simpa [enter] using this.2⟩
    | cons p pre' =>
      simp only [List.cons_append, List.cons.injEq] at h
      obtain ⟨s', x', now, nows', ho, hr⟩ := runFromG_split d pre' _ _ _ oe _ h.2
      have hen := segueG_enter d now s' x' (by rw [← ho]; exact he)
      rw [← ho] at hen
      have := runFromG_segment d mid _ _ _ oi post hr.symm hm
      rw [hen.1, hen.2] at this
      have hnow : oe.now = now := by rw [ho, segueG_now]
      exact ⟨by rw [hnow]; exact this.1, by simpa using this.2⟩

/-- the same, spelled out for a framer with a conditional auxiliary -/
theorem C11_clocks_with_conditional_aux (fr : List (SFrame τ)) (hp : Helper τ) (nows : List τ)
    (pre : List (Obs τ)) (oe : Obs τ) (mid : List (Obs τ)) (oi : Obs τ) (post : List (Obs τ))
    (h : runG (decideS fr hp) {} nows = pre ++ oe :: (mid ++ oi :: post))
    (he : oe.entered = true) (hm : ∀ m ∈ mid, m.entered = false) :
    oi.evalElapsed = some (oi.now - oe.now) ∧ oi.evalRecurred = some (mid.length + 1) :=
  C11_clocks_any_decision (decideS fr hp) {} nows pre oe mid oi post h he hm

/-- **a tick without a taken transition keeps the clocks running** — whether the suspender started its
helper (outline truncated), iterated it, or saw it finish (outline restored) in that tick -/
theorem C11_suspension_is_not_an_outline_change (fr : List (SFrame τ)) (hp : Helper τ) (now : τ)
    (s : St τ) (x : Aux τ)
    (hstay : (decideS fr hp now x { s with elapsed := now - s.stamp, recurred := s.recurred + 1 }).1 = none) :
    let o := (segueG (decideS fr hp) now s x).1
    o.entered = false ∧ o.after.stamp = s.stamp ∧ o.after.recurred = s.recurred + 1 ∧
      o.after.elapsed = now - s.stamp ∧ o.after.active = s.active := by
  rcases segueG_cases (decideS fr hp) now s x with ⟨far, x', hd, _⟩ | ⟨x', _, hs⟩
  · unfold evalState at hd; rw [hd] at hstay; cases hstay
  · rw [hs]; exact ⟨rfl, rfl, rfl, rfl, rfl⟩

/-- the machine of the first part is the instance without extra state, so all its theorems are about
this machine too -/
theorem C11_plain_machine_is_instance (tr : Nat → List (Trans τ)) (nows : List τ) :
    runG (decideT tr) () nows = run tr nows := by
  cases nows with
  | nil => rfl
  | cons now rest => simp only [runG, run, runFromG_decideT]

end conditionalAux

/-- non-vacuity: period 1; frame 0 (over) has `go 2 if elapsed >= 6`; frame 1 in 0 has
`aux helper if recurred >= 2` then `repeat 8`; the helper (`repeat 3`, then a `done` frame) runs from
tick 2, finishes at tick 5; the main clocks run through: elapsed 1 … 5, transition at tick 6. -/
example :
    let fr : List (SFrame Int) :=
      [⟨none, [.trans ⟨[.elapsed .ge 6], 2⟩]⟩,
       ⟨some 0, [.susp [.recurred .ge 2], .trans ⟨[.recurred .ge 8], 2⟩]⟩,
       ⟨none, [.trans ⟨[], 0⟩]⟩]
    let hp : Helper Int := ⟨[⟨none, [⟨[.recurred .ge 3], 1⟩]⟩, ⟨none, []⟩], [1]⟩
    (runG (decideS fr hp) {} (stamps 1 9)).map (fun o => (o.after.active, o.entered, o.after.elapsed, o.after.recurred))
      = [(0, true, 0, 0), (0, false, 1, 1), (0, false, 2, 2), (0, false, 3, 3), (0, false, 4, 4), (0, false, 5, 5),
         (2, true, 0, 0), (0, true, 0, 0), (0, false, 1, 1)] := by
  decide

/-! ## framer periods (`framer x be active at Q`): the framer is run, and its clocks move, only in the
ticks the Skedder's `retime` rule selects; every theorem above holds for the stamps it is run at
(they quantify over all stamp lists), and in exact time those stamps are -/

/-- period 0 (the default): run in every tick -/
theorem C11_framer_period_zero (P : Int) (hP : 0 ≤ P) (n : Nat) : framerStamps P 0 n = stamps P n := by
  unfold framerStamps
  rw [runsAt_zero_period P hP n 0 (by omega)]
  unfold stamps
  have e : ∀ m : Nat, List.replicate m true = (List.range m).map (fun _ => true) := by
    intro m
    induction m with
    | zero => rfl
    | succ m ih => rw [List.range_succ, List.map_append, ← ih, List.replicate_succ']; rfl
  rw [e n, zip_filterMap_flag (List.range n) (stampAt P) (fun _ => true)]
  congr 1
  exact List.filter_eq_self.2 (fun _ _ => rfl)

/-- **a framer whose period is a whole number `k ≥ 1` of ticks is run exactly in the ticks divisible by
`k`** (every tick period `P > 0`) … -/
theorem C11_framer_period_runs (P : Int) (hP : 0 < P) (k : Nat) (hk : 1 ≤ k) (n : Nat) :
    runsAt P ((k : Int) * P) n 0 0 = (List.range n).map (fun i => decide (k ∣ i)) := by
  have := runsAt_multiple P hP k n 0 0 (by omega) (by omega)
  simpa using this

/-- … so the stamps its clocks see are `0, kP, 2kP, …`: its elapsed advances `kP` per iteration and
`recurred` counts runs, `timeout T` leaves `max 1 ⌈T/(kP)⌉` runs after entry (`C11_timeout_tick_exact`
with period `kP`) -/
theorem C11_framer_period_stamps (P : Int) (hP : 0 < P) (k : Nat) (hk : 1 ≤ k) (n : Nat) :
    framerStamps P ((k : Int) * P) n = ((List.range n).filter (fun i => decide (k ∣ i))).map (fun (i : Nat) => (i : Int) * P) := by
  unfold framerStamps
  rw [C11_framer_period_runs P hP k hk n]
  unfold stamps
  have e : (List.range n).map (stampAt P) = (List.range n).map (fun (i : Nat) => (i : Int) * P) := by
    apply List.map_congr_left; intro i _; exact stampAt_int P i
  rw [e]
  exact zip_filterMap_flag (List.range n) (fun (i : Nat) => (i : Int) * P) (fun i => decide (k ∣ i))

/-- non-vacuity: tick period 2, framer period 6: run at 0, 6, 12, 18 of the first 10 ticks -/
example : framerStamps (2 : Int) 6 10 = [0, 6, 12, 18] ∧ framerStamps (2 : Int) 3 6 = [0, 4, 6, 10] := by
  decide

/-! ## a clock that does not advance: `recurred` counts iterations, not time

All theorems of the first part quantify over ARBITRARY lists of store stamps — increasing, constant
(tick period 0 "asap"; a start stamp so large that `stamp + P = stamp` in binary64; a framer iterated
twice in one tick) or even decreasing.  Spelled out for the counter: -/

/-- **`recurred` is the number of completed iterations since the outline last changed, whatever the
store stamps are** (no monotonicity assumed), for every decision function (conditional auxiliaries
included) -/
theorem C11_recurred_counts_iterations_any_clock {τ σ : Type} [Sub τ] [LE τ] [LT τ] [DecidableLE τ] [DecidableLT τ]
    [OfNat τ 0] (d : τ → σ → St τ → Option Nat × σ) (x0 : σ) (nows : List τ)
    (pre : List (Obs τ)) (oe : Obs τ) (mid : List (Obs τ)) (oi : Obs τ) (post : List (Obs τ))
    (h : runG d x0 nows = pre ++ oe :: (mid ++ oi :: post))
    (he : oe.entered = true) (hm : ∀ m ∈ mid, m.entered = false) :
    oi.evalRecurred = some (mid.length + 1) :=
  (C11_clocks_any_decision d x0 nows pre oe mid oi post h he hm).2

/-- with tick period 0 every tick has the start stamp -/
theorem C11_zero_tick_period_constant_stamp (b : Int) (n : Nat) : stampsB b 0 n = List.replicate n b := by
  have h : ∀ k : Nat, stampAtB b 0 k = b := by
    intro k; induction k with
    | zero => rfl
    | succ k ih => simp [stampAtB, ih]
  unfold stampsB
  induction n with
  | zero => rfl
  | succ n ih => rw [List.range_succ, List.map_append, ih, List.replicate_succ']; simp [h]

/-- non-vacuity: all ticks at store stamp 7 (period 0): `repeat 3` still leaves after 3 iterations, the
elapsed stays 0, `timeout 0` leaves at the first evaluation -/
example :
    (resolve (τ := Int) [⟨none, [.rep 3]⟩, ⟨none, [.timeout 0]⟩, ⟨none, []⟩]).toOption.map
      (fun prog => (run (transOf prog) (stampsB 7 0 7)).map (fun o => (o.after.active, o.after.elapsed, o.after.recurred)))
    = some [(0, 0, 0), (0, 0, 1), (0, 0, 2), (1, 0, 0), (2, 0, 0), (2, 0, 1), (2, 0, 2)] := by
  decide

/-! ## plain auxiliaries nested inside the timed framer (`aux pa` in one of its frames)

The auxiliary is a framer of its own: its clocks start when its main frame is entered, restart on every
re-entry of that frame, and follow the same machine (`run`) in between — so every theorem above is also a
theorem about the auxiliary, over the stamps since the entry.  The timed framer's own clocks and decisions are
those of the program without the auxiliary. -/

section plainAux
variable {τ : Type} [Sub τ] [LE τ] [LT τ] [DecidableLE τ] [DecidableLT τ] [OfNat τ 0]

theorem segueG_decideP_fst (fr : List (RFrame τ)) (pa : PAux τ) (now : τ) (s : St τ) (x : Option (Obs τ)) :
    (segueG (decideP fr pa) now s x).1 = segue (transOf fr) now s := by
  simp only [segueG, decideP, segue]
  cases h : firstTrans { s with elapsed := now - s.stamp, recurred := s.recurred + 1 } (transOf fr s.active) <;>
    simp

theorem runFromP_fst (fr : List (RFrame τ)) (pa : PAux τ) (nows : List τ) :
    ∀ (s : St τ) (x : Option (Obs τ)), (runFromP fr pa s x nows).map (·.1) = runFrom (transOf fr) s nows := by
  induction nows with
  | nil => intro s x; rfl
  | cons now rest ih =>
    intro s x
    simp only [runFromP, runFrom, List.map_cons, ih, segueG_decideP_fst]

/-- **The timed framer's own clock is unaffected by a plain auxiliary**: what the framer shows in every tick
(clock values seen by its needs, outline changes, state) is exactly the run of the same frames without the
auxiliary — for every program, every auxiliary, every stamp list. -/
theorem C11_plain_aux_leaves_framer_clocks (fr : List (RFrame τ)) (pa : PAux τ) (nows : List τ) :
    (runP fr pa nows).map (·.1) = run (transOf fr) nows := by
  cases nows with
  | nil => rfl
  | cons now rest => simp only [runP, run, List.map_cons, runFromP_fst]

/-- **The auxiliary's clocks restart on every entry of its main frame**: when the transition the timed framer
takes in a tick enters the main frame (re-entry `go me` and entry through an over or under frame included), the
auxiliary is in its first frame with stamp = now, elapsed 0, recurred 0 — whatever it was before. -/
theorem C11_plain_aux_restarts_with_main_frame (fr : List (RFrame τ)) (pa : PAux τ) (now : τ) (s : St τ)
    (x : Option (Obs τ)) (t : Trans τ)
    (ht : firstTrans { s with elapsed := now - s.stamp, recurred := s.recurred + 1 } (transOf fr s.active) = some t)
    (hin : (entersOf (outline fr s.active) (outline fr t.far) t.far).contains pa.main = true) :
    (segueG (decideP fr pa) now s x).2 = some ⟨now, none, none, true, enter now 0⟩ := by
  simp at hin
  simp [segueG, decideP, ht, auxAfter, hin]

/-- the auxiliary is gone when its main frame is exited and not entered again -/
theorem C11_plain_aux_stops_with_main_frame (fr : List (RFrame τ)) (pa : PAux τ) (now : τ) (s : St τ)
    (x : Option (Obs τ)) (t : Trans τ)
    (ht : firstTrans { s with elapsed := now - s.stamp, recurred := s.recurred + 1 } (transOf fr s.active) = some t)
    (hin : (entersOf (outline fr s.active) (outline fr t.far) t.far).contains pa.main = false)
    (hex : (exitsOf (outline fr s.active) (outline fr t.far) t.far).contains pa.main = true) :
    (segueG (decideP fr pa) now s x).2 = none := by
  simp at hin hex
  simp [segueG, decideP, ht, auxAfter, hin, hex]

/-- during the ticks `nows` from state `s`, no transition the timed framer takes enters or exits the
auxiliary's main frame (it may take none, or move among other frames / under frames of the main frame) -/
def mainUntouched (fr : List (RFrame τ)) (pa : PAux τ) : St τ → List τ → Prop
  | _, [] => True
  | s, now :: rest =>
    (∀ t, firstTrans { s with elapsed := now - s.stamp, recurred := s.recurred + 1 } (transOf fr s.active) = some t →
      (entersOf (outline fr s.active) (outline fr t.far) t.far).contains pa.main = false ∧
      (exitsOf (outline fr s.active) (outline fr t.far) t.far).contains pa.main = false) ∧
    mainUntouched fr pa (segue (transOf fr) now s).after rest

theorem runFromP_snd (fr : List (RFrame τ)) (pa : PAux τ) (nows : List τ) :
    ∀ (s : St τ) (o : Obs τ), mainUntouched fr pa s nows →
      (runFromP fr pa s (some o) nows).map (·.2) = (runFrom (transOf pa.frames) o.after nows).map some := by
  induction nows with
  | nil => intro s o _; rfl
  | cons now rest ih =>
    intro s o hu
    obtain ⟨h1, h2⟩ := hu
    have hfst := segueG_decideP_fst fr pa now s (some o)
    have hsnd : (segueG (decideP fr pa) now s (some o)).2 = some (segue (transOf pa.frames) now o.after) := by
      cases ht : firstTrans { s with elapsed := now - s.stamp, recurred := s.recurred + 1 } (transOf fr s.active) with
      | none => simp [segueG, decideP, ht, auxAfter]
      | some t =>
        obtain ⟨a, b⟩ := h1 t ht
        simp at a b
        simp [segueG, decideP, ht, auxAfter, a, b]
    simp only [runFromP, runFrom, List.map_cons, hsnd, hfst]
    rw [ih _ _ h2]

/-- **Between entries of its main frame the auxiliary is the same clock machine, started at the entry**:
entered at stamp `now0` (`C11_plain_aux_restarts_with_main_frame`, or the start tick), then over any stretch
of ticks in which the timed framer does not enter or exit the main frame, the auxiliary's observations are
exactly `run` of its own frames over the stamps `now0 :: nows` — elapsed counted from ITS last outline change,
recurred ITS iterations since, its `timeout` / `repeat` firing by `C11_timeout_fires_first` /
`C11_repeat_fires_first` — whatever the timed framer's own clocks read. -/
theorem C11_plain_aux_is_clock_machine_from_entry (fr : List (RFrame τ)) (pa : PAux τ) (s : St τ)
    (now0 : τ) (nows : List τ) (hu : mainUntouched fr pa s nows) :
    some ⟨now0, none, none, true, enter now0 0⟩ ::
        (runFromP fr pa s (some ⟨now0, none, none, true, enter now0 0⟩) nows).map (·.2)
      = (run (transOf pa.frames) (now0 :: nows)).map some := by
  rw [runFromP_snd fr pa nows s _ hu]
  simp [run]

/-- without the auxiliary being active nothing of it appears until its main frame is entered -/
theorem C11_plain_aux_inactive_until_entered (fr : List (RFrame τ)) (pa : PAux τ) (now : τ) (s : St τ)
    (h : ∀ t, firstTrans { s with elapsed := now - s.stamp, recurred := s.recurred + 1 } (transOf fr s.active) = some t →
      (entersOf (outline fr s.active) (outline fr t.far) t.far).contains pa.main = false) :
    (segueG (decideP fr pa) now s none).2 = none := by
  cases ht : firstTrans { s with elapsed := now - s.stamp, recurred := s.recurred + 1 } (transOf fr s.active) with
  | none => simp [segueG, decideP, ht, auxAfter]
  | some t =>
    have a := h t ht
    simp at a
    simp [segueG, decideP, ht, auxAfter, a]

end plainAux

/-- non-vacuity: period 1.  Timed framer: frame 0 `go 1 if elapsed >= 2`; frame 1 (carries `aux pa`)
`go 1 if elapsed >= 3` (forced re-entry).  Auxiliary: frame 0 `repeat 2`, frame 1 `go 0 if elapsed >= 1`.
The auxiliary appears at tick 2 with clocks 0/0, runs on its own clocks, and restarts at ticks 5 and 8
when frame 1 is re-entered; the timed framer's column is that of the program without it. -/
example :
    let fr : List (RFrame Int) := [⟨none, [⟨[.elapsed .ge 2], 1⟩]⟩, ⟨none, [⟨[.elapsed .ge 3], 1⟩]⟩]
    let pa : PAux Int := ⟨1, [⟨none, [⟨[.recurred .ge 2], 1⟩]⟩, ⟨none, [⟨[.elapsed .ge 1], 0⟩]⟩]⟩
    (runP fr pa (stamps 1 9)).map (fun r => ((r.1.after.active, r.1.after.elapsed),
        r.2.map (fun o => (o.after.active, o.entered, o.after.elapsed, o.after.recurred))))
      = [((0, 0), none), ((0, 1), none), ((1, 0), some (0, true, 0, 0)), ((1, 1), some (0, false, 1, 1)),
         ((1, 2), some (1, true, 0, 0)), ((1, 0), some (0, true, 0, 0)), ((1, 1), some (0, false, 1, 1)),
         ((1, 2), some (1, true, 0, 0)), ((1, 0), some (0, true, 0, 0))] := by
  decide

end Ioflo.FloClock
