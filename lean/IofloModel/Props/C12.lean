import IofloModel.Lemmas.Clones
import IofloModel.Lemmas.ClonesLeaf
import IofloModel.Lemmas.ClonesRaze
import IofloModel.Lemmas.ClonesTree
import IofloModel.Lemmas.ClonesRear
/-!
# C12 — cloned framers run like their originals and never share relative state; rear and raze

Model: `Model/Clones.lean` (Framer.clone / Frame.clone / Act.clone, resolveMoots, newMootTag / newAuxTag, the
presolve / resolve worklists, Rearer, Razer, Framer.prune and the framer core that runs the clones) on top of
`Model/ResolvePath.lean` (Act.resolvePath, C13).
-/
namespace Ioflo.Clones
open Ioflo.ResolvePath

/-! ## relative store data of distinct clones live at distinct paths -/

/-- **Own name.**  A framer-, frame- or actor-relative reference (`… of framer`, `… of frame`, `… of actor`, the default
inode `framer.me.frame.me.actor.me`: every relative path that starts `framer.me`) resolves, in every context and
under every act inode, to a path whose second segment is the name of the framer object that holds the act. -/
theorem C12_relative_path_has_own_name (c : Ctx) (inode : Option (List String)) (rest r : List String)
    (h : resolveParts c inode ("framer" :: "me" :: rest) = .ok r) :
    ∃ t, r = "framer" :: c.framerName :: t := by
  rw [resolveParts_framer_me] at h
  split at h
  · cases h
  rw [substFramer_me] at h
  cases ht : substTail c rest with
  | error e => rw [ht] at h; cases h
  | ok t =>
    rw [ht] at h
    exact ⟨t, by cases h; rfl⟩

example : (resolveParts { frames := [⟨"a0", []⟩], framerName := "ha_c1", framerInode := [], mains := [], actor := none }
    none ["framer", "me", "frame", "me", "lim"]).toOption = some ["framer", "ha_c1", "frame", "a0", "lim"] := by
  decide +kernel

/-- **Disjoint.**  Two framer objects with different names never resolve relative references — the same or different
ones, whatever their inodes, frames, main chains — to the same path. -/
theorem C12_relative_paths_disjoint (c1 c2 : Ctx) (i1 i2 : Option (List String)) (rest1 rest2 r1 r2 : List String)
    (hn : c1.framerName ≠ c2.framerName)
    (h1 : resolveParts c1 i1 ("framer" :: "me" :: rest1) = .ok r1)
    (h2 : resolveParts c2 i2 ("framer" :: "me" :: rest2) = .ok r2) : r1 ≠ r2 := by
  obtain ⟨t1, e1⟩ := C12_relative_path_has_own_name c1 i1 rest1 r1 h1
  obtain ⟨t2, e2⟩ := C12_relative_path_has_own_name c2 i2 rest2 r2 h2
  subst e1 e2
  intro e
  injection e with _ e
  injection e with e _
  exact hn e

example : (["framer", "ha_c1", "cnt"] : List String) ≠ ["framer", "ha_c2", "cnt"] := by decide

/-- **Substituted.**  A clone and its original (or two clones) — contexts that agree on the name of the act's frame, on
the main frame's name and on the actor — resolve a relative reference to the same path up to the framer name in
the second segment: the clone's path is the original's path with the name segment substituted.  (For a reference
that does not use `frame main` the main frames need not agree: `C12_relative_path_is_substituted_nomain`.) -/
theorem C12_relative_path_is_substituted (c1 c2 : Ctx) (i1 i2 : Option (List String)) (rest : List String)
    (hf : c1.frames.head?.map (·.name) = c2.frames.head?.map (·.name))
    (hm : c1.mains.head?.map (fun m => m.chain.head?.map (·.name)) = c2.mains.head?.map (fun m => m.chain.head?.map (·.name)))
    (ha : c1.actor = c2.actor) :
    resolveParts c2 i2 ("framer" :: "me" :: rest)
      = (resolveParts c1 i1 ("framer" :: "me" :: rest)).map (setName c2.framerName) := by
  rw [resolveParts_framer_me, substFramer_me, resolveParts_framer_me, substFramer_me,
      substTail_congr c1 c2 rest hf hm ha]
  split
  · rfl
  · cases substTail c2 rest <;> rfl

example :
    (resolveParts { frames := [⟨"a0", ["fin"]⟩], framerName := "ha_c2", framerInode := ["zed"],
                    mains := [⟨[⟨"f1", []⟩], "ha", ["hin"]⟩], actor := some ["ck", "io"] } none
        ["framer", "me", "actor", "me", "n"]).toOption = some ["framer", "ha_c2", "actor", "ck", "io", "n"] ∧
    (resolveParts { frames := [⟨"a0", ["fin"]⟩], framerName := "ha_c1", framerInode := [],
                    mains := [⟨[⟨"f1", []⟩], "ha", ["hin"]⟩], actor := some ["ck", "io"] } none
        ["framer", "me", "actor", "me", "n"]).toOption = some ["framer", "ha_c1", "actor", "ck", "io", "n"] := by
  decide +kernel

/-- **`of framer main` is the clone's own main framer.**  A reference relative to the main framer (`… of framer main`,
`… of frame main`, `framer.main.…`) resolves to a path whose second segment is the name of the framer that owns the
clone's main frame — the first entry of the main chain, at every nesting depth — not the outermost framer of the chain. -/
theorem C12_main_relative_path_has_main_name (c : Ctx) (inode : Option (List String)) (rest r : List String)
    (h : resolveParts c inode ("framer" :: "main" :: rest) = .ok r) :
    ∃ m ms t, c.mains = m :: ms ∧ r = "framer" :: m.framerName :: t := by
  have hr : resolveParts c inode ("framer" :: "main" :: rest)
      = if incompletePath ("framer" :: "main" :: rest) then .error .incomplete else substFramer c ("main" :: rest) := by
    unfold resolveParts prepend
    have h1 : addInode (framerParts c) (overParts c) inode ("framer" :: "main" :: rest) = "framer" :: "main" :: rest := by
      unfold addInode
      cases inode <;> simp
    simp [h1, addCtx, absOrFramer]
  rw [hr] at h
  split at h
  · cases h
  unfold substFramer at h
  cases hm : c.mains with
  | nil => simp [substFramerName, hm, bind, Except.bind] at h
  | cons m ms =>
    refine ⟨m, ms, ?_⟩
    simp only [substFramerName, hm, bind, Except.bind, pure, Except.pure] at h
    simp at h
    cases rest with
    | nil => simp at h; exact ⟨[], rfl, h.symm⟩
    | cons p2 rest3 =>
      simp only [] at h
      split at h
      · cases rest3 with
        | nil => simp at h
        | cons p3 rest4 =>
          simp only [] at h
          cases hq : substFrameName c p3 with
          | error e => simp [hq] at h
          | ok q3 =>
            simp only [hq] at h
            cases rest4 with
            | nil => simp at h; exact ⟨_, rfl, h.symm⟩
            | cons p4 rest5 =>
              simp only [] at h
              split at h
              · cases hs : substActor c rest5 with
                | error e => simp [hs] at h
                | ok tl => simp [hs] at h; exact ⟨_, rfl, h.symm⟩
              · simp at h; exact ⟨_, rfl, h.symm⟩
      · split at h
        · cases hs : substActor c rest3 with
          | error e => simp [hs] at h
          | ok tl => simp [hs] at h; exact ⟨_, rfl, h.symm⟩
        · simp at h; exact ⟨_, rfl, h.symm⟩

def exNested : Ctx :=
  { frames := [{ name := "c0", inode := [] }], framerName := "ha_c1_n1", framerInode := [],
    mains := [{ chain := [{ name := "b0", inode := [] }], framerName := "ha_c1", framerInode := [] },
              { chain := [{ name := "f0", inode := [] }], framerName := "ha", framerInode := [] }],
    actor := none }

example : (resolveParts exNested none ["framer", "main", "frame", "main", "mf"]).toOption
    = some ["framer", "ha_c1", "frame", "b0", "mf"] := by decide +kernel

/-! ## what a clone is -/

/-- **Frame.clone copies the whole script of a frame**: name, inode, over / next / under names, auxiliary links
and every item (act, transition, need) with its context, in order.  (`Act.clone` is a deep copy: the copy is an
equal value, a new object.) -/
theorem C12_frame_clone_copies_script (f : Frame) :
    (Frame.clone f).name = f.name ∧ (Frame.clone f).inode = f.inode ∧ (Frame.clone f).over = f.over ∧
    (Frame.clone f).next = f.next ∧ (Frame.clone f).unders = f.unders ∧ (Frame.clone f).links = f.links ∧
    (Frame.clone f).items = f.items ∧
    (∀ c, (Frame.clone f).acts c = f.acts c) ∧ (Frame.clone f).preacts = f.preacts :=
  ⟨rfl, rfl, rfl, rfl, rfl, rfl, rfl, fun _ => rfl, rfl⟩

/-- **Cloning preserves the kind of every act.**  In the model the kind of an act is the constructor of its item —
an entry condition (`Act` for a plain need, `Nact` for a negated one: the flag `neg`), a transition with its needs
(again plain or negated), a store / recorder / done / rear / raze action with its context — and `Frame.clone` hands
every item over unchanged: the entry conditions with their negation flags, the acts of each context, the precur list. -/
theorem C12_clone_preserves_act_kinds (f : Frame) :
    (Frame.clone f).items = f.items ∧ (Frame.clone f).beacts = f.beacts ∧
    (Frame.clone f).beacts.map (·.neg) = f.beacts.map (·.neg) ∧
    (∀ c, (Frame.clone f).acts c = f.acts c) ∧ (Frame.clone f).preacts = f.preacts :=
  ⟨rfl, rfl, rfl, fun _ => rfl, rfl⟩

example : (Frame.clone { name := "b", inode := "", over := none, next := none, links := [],
                         items := [.cond [⟨true, .state "framer.me.blocked" .eq 1⟩, ⟨false, .allDone⟩]] }).beacts.map (·.neg)
    = [true, false] := by decide

/-- a frame nobody resolved yet (what every frame of a moot framer is) is cloned to an equal frame -/
theorem C12_frame_clone_of_unresolved (f : Frame) (h1 : f.overRes = false) (h2 : f.outline = []) (h3 : f.auxes = []) :
    Frame.clone f = f := by
  cases f
  simp_all [Frame.clone]

/-- **Same frame forest, same outlines.**  The frames of a framer nobody resolved (a moot) are cloned to an equal list of
frames — over names, the primary-under choices of the `under` verb (`.unders`), next names, aux links, items — so
everything `Framer.resolve` computes from them (the attachment of unders to overs in `resolveOverLinks`, every
`frame.outline` of `traceOutline`, hence the frames entered from the first frame or by a transition to an over frame)
is computed from the same input for the clone as for the original. -/
theorem C12_clone_same_frame_forest (frames : List Frame)
    (h : ∀ f ∈ frames, f.overRes = false ∧ f.outline = [] ∧ f.auxes = []) :
    frames.map Frame.clone = frames ∧
    (∀ n, traceOutline (frames.map Frame.clone) n = traceOutline frames n) ∧
    (∀ self fuel under climbed, climbOver self fuel under climbed (frames.map Frame.clone)
        = climbOver self fuel under climbed frames) := by
  have e : frames.map Frame.clone = frames := by
    induction frames with
    | nil => rfl
    | cons f rest ih =>
      rw [List.map_cons, C12_frame_clone_of_unresolved f (h f (by simp)).1 (h f (by simp)).2.1 (h f (by simp)).2.2,
          ih (fun g hg => h g (by simp [hg]))]
  exact ⟨e, fun n => by rw [e], fun a b c d => by rw [e]⟩

example : (traceOutline
    [{ name := "top", inode := "", over := none, next := none, unders := ["c", "a", "b"], links := [], items := [] },
     { name := "a", inode := "", over := some "top", next := none, links := [], items := [] },
     { name := "b", inode := "", over := some "top", next := none, links := [], items := [] },
     { name := "c", inode := "", over := some "top", next := none, links := [], items := [] }] "top").toOption
    = some ["top", "c"] := by decide +kernel

/-- **Framer.clone copies the definition**: a successful clone has the requested name and tag, the original's first
frame, moots, inode and the clones of all its frames in order; it is a new object (`uid` never used before), not yet
presolved or resolved, `done`, not active, and it is the object registered under its name. -/
theorem C12_clone_copies_definition (s s' : St) (orig c : Fr) (name tag : String)
    (h : cloneFramer s orig name tag = .ok (s', c)) :
    c.name = name ∧ c.tag = (if tag = "" then name else tag) ∧ c.uid = s.nextUid ∧
    c.first = orig.first ∧ c.moots = orig.moots ∧ c.inode = orig.inode ∧
    c.frames = orig.frames.map Frame.clone ∧ c.sched = .aux ∧
    c.presolved = false ∧ c.resolved = false ∧ c.main = none ∧ c.auxes = [] ∧ c.ctl = {} := by
  unfold cloneFramer at h
  split at h
  · cases h
  · split at h
    · cases h
    · split at h
      · cases h
      · simp only [newFramer] at h
        injection h with h
        injection h with h1 h2
        subst h2
        simp

/-- the clone fails exactly on an invalid name, a registered name, or an already resolved original -/
theorem C12_clone_fails_iff (s : St) (orig : Fr) (name tag : String) :
    (∃ e, cloneFramer s orig name tag = .error e) ↔
      ((name ≠ "" ∧ ¬ isIdentPub name) ∨ (lookup s.names name).isSome ∨ (orig.resolved ∨ orig.presolved)) := by
  unfold cloneFramer
  constructor
  · intro ⟨e, h⟩
    split at h
    · left; assumption
    · split at h
      · right; left; assumption
      · split at h
        · right; right; assumption
        · cases h
  · intro h
    split
    · exact ⟨_, rfl⟩
    · split
      · exact ⟨_, rfl⟩
      · split
        · exact ⟨_, rfl⟩
        · rcases h with h | h | h <;> contradiction

/-! ## names and tags -/

/-- **A clone gets a name nobody has.**  `Framer.clone` succeeds only if the name is not registered; afterwards the
name is registered to the new object and every other registration is as before. -/
theorem C12_clone_registers_fresh_name (s s' : St) (orig c : Fr) (name tag : String)
    (h : cloneFramer s orig name tag = .ok (s', c)) :
    lookup s.names name = none ∧ lookup s'.names name = some c.uid ∧
    (∀ n, n ≠ name → lookup s'.names n = lookup s.names n) ∧ s'.nextUid = s.nextUid + 1 := by
  unfold cloneFramer at h
  split at h
  · cases h
  · split at h
    · cases h
    · rename_i hn
      split at h
      · cases h
      · simp only [newFramer] at h
        injection h with h
        injection h with h1 h2
        subst h1 h2
        refine ⟨?_, ?_, ?_, rfl⟩
        · cases hl : lookup s.names name with
          | none => rfl
          | some x => simp [hl] at hn
        · exact lookup_assign_self _ _ _
        · intro n hne
          exact lookup_assign_other _ _ _ _ hne

/-- the registry stays a function with distinct names: no two live framer objects are registered under one name -/
theorem C12_clone_keeps_names_distinct (s s' : St) (orig c : Fr) (name tag : String)
    (h : cloneFramer s orig name tag = .ok (s', c)) (hd : (keys s.names).Nodup) : (keys s'.names).Nodup := by
  have hfresh := (C12_clone_registers_fresh_name s s' orig c name tag h).1
  unfold cloneFramer at h
  split at h
  · cases h
  · split at h
    · cases h
    · split at h
      · cases h
      · simp only [newFramer] at h
        injection h with h
        injection h with h1 h2
        subst h1
        have hk : name ∉ keys s.names := (lookup_none_iff _ _).mp hfresh
        show (keys (assign s.names name s.nextUid)).Nodup
        rw [keys_assign_fresh _ _ _ hk]
        exact List.nodup_append.mpr ⟨hd, by simp, by
          intro a ha b hb
          simp at hb
          subst hb
          intro e; subst e; exact hk ha⟩

/-- **A new tag is new** (`newMootTag` for `as mine`, `newAuxTag` for `rear`): the tag returned is `base` followed
by a positive count and is not among the tags in use. -/
theorem C12_new_tag_fresh (ks : List String) (base t : String) (h : newTag ks base = .ok t) :
    t ∉ ks ∧ ∃ n, 1 ≤ n ∧ t = base ++ toString n := by
  unfold newTag at h
  split at h
  · rename_i n hf
    cases h
    have hp := List.find?_some hf
    have hm := List.mem_of_find?_eq_some hf
    refine ⟨by simpa using hp, n, ?_, rfl⟩
    have := List.mem_range'.mp hm
    omega
  · cases h

example : (newTag ["ma1", "c1", "ma2"] "ma").toOption = some "ma3" := by decide +kernel

/-- **The naming scheme.**  The name parts of a clone are the name parts of the framer of its main frame followed by
its own tag (`surname = "_".join(parts)`, the clone is then named `surname_tag` by its main framer). -/
theorem C12_surname_of_clone (s : St) (fuel u m : Nat) (fn : String) (o : Fr)
    (ho : s.get? u = some o) (hc : o.original = false) (hm : o.main = some (m, fn)) :
    surnameParts s (fuel + 1) u = (surnameParts s fuel m).map (· ++ [o.tag]) := by
  simp only [surnameParts, ho, hc, hm]
  cases surnameParts s fuel m <;> rfl

theorem C12_surname_of_original (s : St) (fuel u : Nat) (o : Fr) (ho : s.get? u = some o) (hc : o.original = true) :
    surnameParts s (fuel + 1) u = .ok [o.name] := by
  simp [surnameParts, ho, hc]

/-- … and on name parts the scheme is injective: two clones with different tags, or under framers with different name
parts, have different name parts (the text `"_".join` can still clash when names contain `_`; that clash is refused
by `Framer.clone`: `C12_clone_registers_fresh_name`). -/
theorem C12_name_parts_injective (p1 p2 : List String) (t1 t2 : String) (h : p1 ++ [t1] = p2 ++ [t2]) :
    p1 = p2 ∧ t1 = t2 := by
  have := List.append_inj' h rfl
  exact ⟨this.1, by simpa using this.2⟩

/-! ## raze -/

/-- **Raze selects only razeable insular clones of the named frame**: every object `Razer.action` prunes and drops is
an entry of that frame's aux list that is insular and razeable. -/
theorem C12_raze_selects_only_razeable_insular (s : St) (who : Who) (auxes : List Nat) (a : Nat)
    (h : a ∈ razeables s who auxes) :
    a ∈ auxes ∧ ∃ o, s.get? a = some o ∧ o.insular = true ∧ o.razeable = true := by
  have key : ∀ x, isRazeable s x = true → ∃ o, s.get? x = some o ∧ o.insular = true ∧ o.razeable = true := by
    intro x hx
    unfold isRazeable at hx
    cases hg : s.get? x with
    | none => simp [hg] at hx
    | some o => simp [hg] at hx; exact ⟨o, rfl, hx.1, hx.2⟩
  unfold razeables at h
  cases who with
  | all =>
    simp only [List.mem_filter] at h
    exact ⟨h.1, key a h.2⟩
  | first =>
    simp only [Option.mem_toList] at h
    exact ⟨List.mem_of_find?_eq_some h, key a (List.find?_some h)⟩
  | last =>
    simp only [Option.mem_toList] at h
    exact ⟨List.mem_reverse.mp (List.mem_of_find?_eq_some h), key a (List.find?_some h)⟩

/-- `raze all` selects all of them, `raze first` / `raze last` the first / last one in the aux list -/
theorem C12_raze_all_first_last (s : St) (auxes : List Nat) :
    razeables s .all auxes = auxes.filter (isRazeable s) ∧
    razeables s .first auxes = ((auxes.filter (isRazeable s)).head?).toList ∧
    razeables s .last auxes = ((auxes.filter (isRazeable s)).getLast?).toList := by
  refine ⟨rfl, ?_, ?_⟩
  · simp [razeables, List.head?_filter]
  · simp [razeables, List.getLast?_filter]

/-- **A razed clone's name becomes free.**  `Framer.prune` ends by removing the registration of the pruned object:
afterwards its name is not registered to it, whatever the auxiliaries below it did; and if the registry maps the name
to this object (as it does for every live framer), the name is registered to nobody. -/
theorem C12_unregister_frees_name (s : St) (o : Fr) :
    lookup (unregister s o).names o.name ≠ some o.uid ∧
    (lookup s.names o.name = some o.uid → lookup (unregister s o).names o.name = none) ∧
    (∀ n, n ≠ o.name → lookup (unregister s o).names n = lookup s.names n) := by
  unfold unregister
  by_cases h : lookup s.names o.name = some o.uid
  · rw [if_pos h]
    refine ⟨by rw [lookup_erase_self]; simp, fun _ => lookup_erase_self _ _, fun n hn => lookup_erase_other _ _ _ hn⟩
  · rw [if_neg h]
    exact ⟨h, fun e => absurd e h, fun _ _ => rfl⟩

theorem C12_pruned_name_freed (lo : Ops) (u : Nat) (s s' : St) (me : Fr) (hme : s.get? u = some me)
    (h : prune lo u s = .ok s') : lookup s'.names me.name ≠ some me.uid := by
  unfold prune at h
  simp only [St.fr, hme] at h
  split at h
  · cases h
  · split at h
    · cases h
    · injection h with h
      subst h
      exact (C12_unregister_frees_name _ me).1

/-- … and a freed name can be given to the next clone: `Framer.clone` no longer refuses it -/
theorem C12_freed_name_reusable (s : St) (orig : Fr) (name tag : String)
    (hfree : lookup s.names name = none) (hn : isIdentPub name = true) (ho : orig.resolved = false ∧ orig.presolved = false) :
    ∃ s' c, cloneFramer s orig name tag = .ok (s', c) := by
  unfold cloneFramer
  simp [hfree, hn, ho.1, ho.2]

/-! ## every house has its own names -/

/-- **Switching houses changes no registry.**  `House.assignRegistries` only moves the class-level pointer
`Framer.Names`: the tasker registry of every house is what it was, and the pointer is at the house asked for. -/
theorem C12_assign_registries_keeps_registries (s : St) (h h' : String) :
    (assignRegistries h s).regOf h' = s.regOf h' ∧ (assignRegistries h s).cur = h := by
  unfold assignRegistries
  by_cases hc : s.cur = h
  · rw [if_pos hc]; exact ⟨rfl, hc⟩
  · rw [if_neg hc]
    refine ⟨?_, rfl⟩
    unfold St.regOf
    simp only
    by_cases e1 : h = h'
    · subst e1; simp [hc]
    · simp only [e1, if_false]
      by_cases e2 : s.cur = h'
      · subst e2
        simp [lookup_assign_self]
      · have : h' ≠ s.cur := fun e => e2 e.symm
        simp [e2, lookup_assign_other _ _ _ _ this]

/-- **A razed clone's name is freed in its own house**, wherever the class-level registry pointer stood (another house
of the same skedder may have cloned in between): after `Framer.prune` the registry of the pruned framer's house does not
map its name to it. -/
theorem C12_pruned_name_freed_in_own_house (lo : Ops) (u : Nat) (s s' : St) (me : Fr) (hme : s.get? u = some me)
    (h : prune lo u s = .ok s') : lookup (s'.regOf me.house) me.name ≠ some me.uid ∧ s'.cur = me.house := by
  unfold prune at h
  simp only [St.fr, hme] at h
  split at h
  · cases h
  · split at h
    · cases h
    · rename_i s2 _
      injection h with h
      subst h
      have hcur : (unregister (assignRegistries me.house s2) me).cur = me.house := by
        have : (unregister (assignRegistries me.house s2) me).cur = (assignRegistries me.house s2).cur := by
          unfold unregister; split <;> rfl
        rw [this]; exact (C12_assign_registries_keeps_registries s2 me.house me.house).2
      refine ⟨?_, hcur⟩
      unfold St.regOf
      rw [if_pos hcur]
      exact (C12_unregister_frees_name _ me).1

/-! ## a clone runs like its original -/

/-- the calls a main frame makes into an auxiliary framer (`Frame.enter`, `Frame.recur`, `Frame.segueAuxes`,
`Frame.exit` / `Framer.prune`) -/
inductive Entry | enterAll | recur | segue | exitAll
  deriving DecidableEq, Repr

def callEntry (lo : Ops) (u : Nat) : Entry → St → Except Err St
  | .enterAll => enterAll lo u
  | .recur => recur lo u
  | .segue => segue lo u
  | .exitAll => exitAll lo false u

/-- the same calls on the stand-alone interpreter of one framer without auxiliaries (Lemmas/ClonesLeaf.lean) -/
def lcallEntry (P : List Frame) (first : String) : Entry → LSt → Except Err LSt
  | .enterAll => lenterAll P first
  | .recur => lrecur P
  | .segue => lsegue P
  | .exitAll => lexitAll P false

/-- `Leafy P`: the script has no auxiliaries, rears, razes or aux-done needs (it acts on the store and its own
clocks only) -/
def Leafy (P : List Frame) : Prop := ∀ f ∈ P, f.leafy = true

/-- `Resolves ι house name`: the resolution map of a framer object named `name` — injective on references, and the two clock
references go to the framer's own state shares -/
structure Resolves (ι : String → String) (house name : String) : Prop where
  inj : ∀ a b, ι a = ι b → a = b
  elapsed : ι kElapsed = statePath house name "elapsed"
  recurred : ι kRecurred = statePath house name "recurred"

/-- **Refinement.**  A framer object without auxiliaries whose resolved script is the script `P` with every reference
`r` replaced by its resolved share `ι r` behaves, inside any house and under any entry point, exactly as the
stand-alone interpreter of `P` on the private memory `k ↦ store[ι k]`: same error or same next control state, same
memory, and the events it emits are the stand-alone events labelled with its name.  Nothing else about the object
(name, identity, tag, inode, main frame, the other objects of the house, the other shares) enters. -/
theorem C12_leaf_refines_partial (lo : Ops) (ι : String → String) (house name : String) (P : List Frame) (first : String)
    (u : Nat) (base : List String) (s0 : St) (hι : Resolves ι house name) (hP : Leafy P) (e : Entry) (s : St) (l : LSt)
    (h : Sim ι house name P first u base s0 s l) :
    CorrSt (Sim ι house name P first u base s0) (callEntry lo u e s) (lcallEntry P first e l) := by
  cases e with
  | enterAll => exact sim_enterAll lo ι house name P first u base s0 hι.inj hP hι.elapsed hι.recurred s l h
  | recur => exact sim_recur lo ι house name P first u base s0 hι.inj hP s l h
  | segue => exact sim_segue lo ι house name P first u base s0 hι.inj hP hι.elapsed hι.recurred s l h
  | exitAll => exact sim_exitAll lo ι house name P first u base s0 hι.inj hP false s l h

/-- … and `Framer.checkStart` gives the same answer -/
theorem C12_leaf_refines_checkStart_partial (lo : Ops) (ι : String → String) (house name : String) (P : List Frame)
    (first : String) (u : Nat) (base : List String) (s0 : St) (hP : Leafy P) (claimed : List Nat) (s : St) (l : LSt)
    (h : Sim ι house name P first u base s0 s l) :
    checkStart lo u claimed s = (lcheckStart P first l).map (fun b => (b, claimed)) :=
  sim_checkStart lo ι house name P first u base s0 hP claimed s l h

/-- **A clone runs like its original.**  Two framer objects — a clone and the original run as an ordinary auxiliary,
or two clones — in two houses (or in one), with different names, identities and resolution maps, whose resolved
scripts are the same leaf script `P` seen through their own resolution maps, and that are in the same situation
(`Sim … l` for one `l`: same control state, same clock, same values of the shares their references resolve to):
the same entry point either fails in both with the same error, or succeeds in both, and afterwards they are again in
one common situation `l'`.  In particular (`Sim.out`) they have emitted the same sequence of (frame, context, tag)
events, each under its own name, and their relative shares hold the same values. -/
theorem C12_clone_runs_like_original_partial
    (lo1 lo2 : Ops) (ι1 ι2 : String → String) (house1 house2 name1 name2 : String) (P : List Frame) (first : String)
    (u1 u2 : Nat) (base1 base2 : List String) (s01 s02 : St) (h1ι : Resolves ι1 house1 name1) (h2ι : Resolves ι2 house2 name2) (hP : Leafy P)
    (e : Entry) (s1 s2 : St) (l : LSt)
    (h1 : Sim ι1 house1 name1 P first u1 base1 s01 s1 l) (h2 : Sim ι2 house2 name2 P first u2 base2 s02 s2 l) :
    match callEntry lo1 u1 e s1, callEntry lo2 u2 e s2 with
    | .ok s1', .ok s2' => ∃ l', Sim ι1 house1 name1 P first u1 base1 s01 s1' l' ∧ Sim ι2 house2 name2 P first u2 base2 s02 s2' l'
    | .error e1, .error e2 => e1 = e2
    | _, _ => False := by
  have c1 := C12_leaf_refines_partial lo1 ι1 house1 name1 P first u1 base1 s01 h1ι hP e s1 l h1
  have c2 := C12_leaf_refines_partial lo2 ι2 house2 name2 P first u2 base2 s02 h2ι hP e s2 l h2
  cases r : lcallEntry P first e l with
  | error er =>
    rw [r] at c1 c2
    cases r1 : callEntry lo1 u1 e s1 with
    | ok s1' => rw [r1] at c1; exact c1.elim
    | error e1 =>
      cases r2 : callEntry lo2 u2 e s2 with
      | ok s2' => rw [r2] at c2; exact c2.elim
      | error e2 =>
        rw [r1] at c1; rw [r2] at c2
        exact c1.trans c2.symm
  | ok l' =>
    rw [r] at c1 c2
    cases r1 : callEntry lo1 u1 e s1 with
    | error e1 => rw [r1] at c1; exact c1.elim
    | ok s1' =>
      cases r2 : callEntry lo2 u2 e s2 with
      | error e2 => rw [r2] at c2; exact c2.elim
      | ok s2' =>
        rw [r1] at c1; rw [r2] at c2
        exact ⟨l', c1, c2⟩

/-- the events two such objects have emitted since they were in a common situation are equal up to the name -/
theorem C12_same_events (ι1 ι2 : String → String) (house1 house2 name1 name2 : String) (P : List Frame) (first : String)
    (u1 u2 : Nat) (base1 base2 : List String) (s01 s02 s1 s2 : St) (l : LSt)
    (h1 : Sim ι1 house1 name1 P first u1 base1 s01 s1 l) (h2 : Sim ι2 house2 name2 P first u2 base2 s02 s2 l) :
    ∃ evs : List (String × Ctxt × String), s1.out = evs.map (render name1) ++ base1 ∧ s2.out = evs.map (render name2) ++ base2 ∧
      (∀ k, s1.read (ι1 k) = s2.read (ι2 k)) :=
  ⟨l.ev, h1.out, h2.out, fun k => (h1.mem k).trans (h2.mem k).symm⟩

/-- **The rest of the house does not matter.**  Whatever happens between two calls — other framers run, other shares
change, objects are made and razed, time advances — as long as the object itself and the shares its references
resolve to are left alone, the object is in the same situation as before at the new time (events counted from the new
output on).  So two such objects that see the same times stay in one common situation over a whole run. -/
theorem C12_situation_stable (ι : String → String) (house name : String) (P : List Frame) (first : String) (u : Nat)
    (base : List String) (s0 s s' : St) (l : LSt)
    (h : Sim ι house name P first u base s0 s l)
    (hobj : s'.get? u = s.get? u) (hmem : ∀ k, s'.read (ι k) = s.read (ι k)) :
    Sim ι house name P first u s'.out s' s' { l with now := s'.now, ev := [] } :=
  { obj := by rw [hobj]; exact h.obj
    mem := fun k => (hmem k).trans (h.mem k)
    now := rfl
    out := by simp
    rest := Rest.refl ι u s'
    hs := fun o ho => h.hs o (hobj ▸ ho) }

/-- **A framer object without auxiliaries touches nothing but itself.**  While it runs (any number of entry points
from the situation `s0`), every other framer object, the name registry, the worklists, every field of its own object
other than the control state, and every share its references do not resolve to stay as they were in `s0`. -/
theorem C12_leaf_touches_only_itself (ι : String → String) (house name : String) (P : List Frame) (first : String) (u : Nat)
    (base : List String) (s0 s : St) (l : LSt) (h : Sim ι house name P first u base s0 s l) :
    (∀ v, v ≠ u → s.get? v = s0.get? v) ∧ s.names = s0.names ∧ s.nextUid = s0.nextUid ∧
    (∀ p, (∀ k, ι k ≠ p) → s.read p = s0.read p) ∧
    (∀ o, s.get? u = some o → ∃ o0, s0.get? u = some o0 ∧ o = { o0 with ctl := o.ctl }) :=
  ⟨h.rest.others, h.rest.names, h.rest.nextUid, h.rest.shares, h.rest.self⟩

/-- the resolution map of name-relative references: `framer.<name>.` in front -/
def prefixMap (house name : String) (k : String) : String := house ++ "/framer." ++ name ++ "." ++ k

theorem C12_prefix_map_resolves (house name : String) : Resolves (prefixMap house name) house name := by
  refine ⟨?_, ?_, ?_⟩
  · intro a b h
    unfold prefixMap at h
    exact (String.append_right_inj _).mp h
  · unfold prefixMap kElapsed statePath
    simp only [String.append_assoc]
    rfl
  · unfold prefixMap kRecurred statePath
    simp only [String.append_assoc]
    rfl

/-! non-vacuity: a concrete clone object in a concrete house is in a situation, and its script is a leaf script with
a transition, a counter and a `done` -/

def exP : List Frame :=
  [{ name := "a0", inode := "", over := none, next := some "a1", outline := ["a0"], links := [],
     items := [.act .enter (.put 0 "cnt"), .act .recur (.inc "cnt" 1), .act .recur (.record "r"),
               .go "a1" [⟨false, .state "cnt" .ge 2⟩, ⟨false, .state "state.elapsed" .ge 1⟩]] },
   { name := "a1", inode := "", over := none, next := none, outline := ["a1"], links := [],
     items := [.cond [⟨true, .state "cnt" .eq 5⟩], .act .enter .done, .act .exit (.record "x")] }]

example : ∀ f ∈ exP, f.leafy = true := by decide

def exHouse (name : String) (uid : Nat) : St :=
  { objs := [{ uid := uid, house := "verif", name := name, tag := "c1", sched := .aux, original := false, inode := "",
               first := "a0", frames := exP.map (Frame.mapRef (prefixMap "verif" name)) }],
    cur := "verif", houses := ["verif"], now := 3 }

example : Sim (prefixMap "verif" "ha_c1") "verif" "ha_c1" exP "a0" 7 [] (exHouse "ha_c1" 7) (exHouse "ha_c1" 7)
    { ctl := {}, mem := fun _ => none, now := 3 } :=
  { obj := ⟨_, rfl, rfl, rfl, rfl, rfl⟩, mem := fun _ => rfl, now := rfl, out := rfl, rest := Rest.refl _ _ _,
    hs := fun o ho => by injection ho with ho; rw [← ho] }

example : Sim (prefixMap "verif" "qma") "verif" "qma" exP "a0" 2 [] (exHouse "qma" 2) (exHouse "qma" 2)
    { ctl := {}, mem := fun _ => none, now := 3 } :=
  { obj := ⟨_, rfl, rfl, rfl, rfl, rfl⟩, mem := fun _ => rfl, now := rfl, out := rfl, rest := Rest.refl _ _ _,
    hs := fun o ho => by injection ho with ho; rw [← ho] }

/-! ### whole histories -/

/-- what happens to an auxiliary framer over a run: calls from its main frame, and the clock moving on -/
inductive Step | call (e : Entry) | tick (t : Int)

def runSteps (lo : Ops) (u : Nat) : List Step → St → Except Err St
  | [], s => .ok s
  | .call e :: rest, s =>
    match callEntry lo u e s with
    | .error er => .error er
    | .ok s' => runSteps lo u rest s'
  | .tick t :: rest, s => runSteps lo u rest { s with now := t }

def lrunSteps (P : List Frame) (first : String) : List Step → LSt → Except Err LSt
  | [], l => .ok l
  | .call e :: rest, l =>
    match lcallEntry P first e l with
    | .error er => .error er
    | .ok l' => lrunSteps P first rest l'
  | .tick t :: rest, l => lrunSteps P first rest { l with now := t }

/-- the refinement over any history of calls and clock ticks -/
theorem C12_leaf_history_refines_partial (lo : Ops) (ι : String → String) (house name : String) (P : List Frame)
    (first : String) (u : Nat) (base : List String) (hι : Resolves ι house name) (hP : Leafy P) (steps : List Step) :
    ∀ (s0 s : St) (l : LSt), Sim ι house name P first u base s0 s l →
      CorrSt (fun s' l' => ∃ s0', Sim ι house name P first u base s0' s' l') (runSteps lo u steps s) (lrunSteps P first steps l) := by
  induction steps with
  | nil => intro s0 s l h; exact ⟨s0, h⟩
  | cons st rest ih =>
    intro s0 s l h
    cases st with
    | call e =>
      simp only [runSteps, lrunSteps]
      have c := C12_leaf_refines_partial lo ι house name P first u base s0 hι hP e s l h
      cases r : callEntry lo u e s with
      | error er =>
        cases r' : lcallEntry P first e l with
        | error er' => rw [r, r'] at c; exact c
        | ok l' => rw [r, r'] at c; exact c.elim
      | ok s' =>
        cases r' : lcallEntry P first e l with
        | error er' => rw [r, r'] at c; exact c.elim
        | ok l' => rw [r, r'] at c; exact ih s0 s' l' c
    | tick t =>
      simp only [runSteps, lrunSteps]
      exact ih { s with now := t } { s with now := t } { l with now := t }
        { obj := h.obj, mem := h.mem, now := rfl, out := h.out, rest := Rest.refl ι u _, hs := h.hs }

/-- **A clone runs like its original over a whole history.**  Two framer objects without auxiliaries with the same
leaf script (seen through their own resolution maps), started in a common situation and given the same history of
calls and clock ticks — in two different houses or in one — either both fail with the same error at the same call or
end in a common situation: same control state, same values of all relative shares, and the same events emitted since
the start, each under its own name. -/
theorem C12_clone_history_like_original_partial
    (lo1 lo2 : Ops) (ι1 ι2 : String → String) (house1 house2 name1 name2 : String) (P : List Frame) (first : String)
    (u1 u2 : Nat) (base1 base2 : List String) (s01 s02 : St) (h1ι : Resolves ι1 house1 name1) (h2ι : Resolves ι2 house2 name2)
    (hP : Leafy P) (steps : List Step) (s1 s2 : St) (l : LSt)
    (h1 : Sim ι1 house1 name1 P first u1 base1 s01 s1 l) (h2 : Sim ι2 house2 name2 P first u2 base2 s02 s2 l) :
    match runSteps lo1 u1 steps s1, runSteps lo2 u2 steps s2 with
    | .ok s1', .ok s2' => ∃ (evs : List (String × Ctxt × String)),
        s1'.out = evs.map (render name1) ++ base1 ∧ s2'.out = evs.map (render name2) ++ base2 ∧
        (∀ k, s1'.read (ι1 k) = s2'.read (ι2 k)) ∧
        (∀ o1 o2, s1'.get? u1 = some o1 → s2'.get? u2 = some o2 → o1.ctl = o2.ctl)
    | .error e1, .error e2 => e1 = e2
    | _, _ => False := by
  have c1 := C12_leaf_history_refines_partial lo1 ι1 house1 name1 P first u1 base1 h1ι hP steps s01 s1 l h1
  have c2 := C12_leaf_history_refines_partial lo2 ι2 house2 name2 P first u2 base2 h2ι hP steps s02 s2 l h2
  cases r : lrunSteps P first steps l with
  | error er =>
    rw [r] at c1 c2
    cases r1 : runSteps lo1 u1 steps s1 with
    | ok s1' => rw [r1] at c1; exact c1.elim
    | error e1 =>
      cases r2 : runSteps lo2 u2 steps s2 with
      | ok s2' => rw [r2] at c2; exact c2.elim
      | error e2 =>
        rw [r1] at c1; rw [r2] at c2
        exact c1.trans c2.symm
  | ok l' =>
    rw [r] at c1 c2
    cases r1 : runSteps lo1 u1 steps s1 with
    | error e1 => rw [r1] at c1; exact c1.elim
    | ok s1' =>
      cases r2 : runSteps lo2 u2 steps s2 with
      | error e2 => rw [r2] at c2; exact c2.elim
      | ok s2' =>
        rw [r1] at c1; rw [r2] at c2
        obtain ⟨_, g1⟩ := c1
        obtain ⟨_, g2⟩ := c2
        refine ⟨l'.ev, g1.out, g2.out, fun k => (g1.mem k).trans (g2.mem k).symm, ?_⟩
        intro o1 o2 e1 e2
        obtain ⟨o1', q1, _, _, _, q1c⟩ := g1.obj
        obtain ⟨o2', q2, _, _, _, q2c⟩ := g2.obj
        rw [q1] at e1; rw [q2] at e2
        injection e1 with e1; injection e2 with e2
        subst e1 e2
        rw [q1c, q2c]

/-- **Clones do not interfere.**  Two framer objects without auxiliaries in ONE house whose references resolve to
disjoint sets of shares (as those of framers with different names do: `C12_distinct_names_disjoint`): whatever entry
point runs the first, the second is afterwards in exactly the situation it was in (same control state, same values
of all its shares, same clock).  So each clone runs as if the other were not there. -/
theorem C12_leaf_clones_do_not_interfere (lo : Ops)
    (ι1 ι2 : String → String) (house1 house2 name1 name2 : String) (P1 P2 : List Frame) (first1 first2 : String) (u1 u2 : Nat)
    (base1 base2 : List String) (s02 : St) (h1ι : Resolves ι1 house1 name1) (hP1 : Leafy P1)
    (hdisj : ∀ k k', ι1 k ≠ ι2 k') (hne : u2 ≠ u1) (e : Entry) (s s' : St) (l1 l2 : LSt)
    (h1 : Sim ι1 house1 name1 P1 first1 u1 base1 s s l1) (h2 : Sim ι2 house2 name2 P2 first2 u2 base2 s02 s l2)
    (hc : callEntry lo u1 e s = .ok s') :
    Sim ι2 house2 name2 P2 first2 u2 s'.out s' s' { l2 with ev := [] } := by
  have c1 := C12_leaf_refines_partial lo ι1 house1 name1 P1 first1 u1 base1 s h1ι hP1 e s l1 h1
  rw [hc] at c1
  cases r : lcallEntry P1 first1 e l1 with
  | error er => rw [r] at c1; exact c1.elim
  | ok l1' =>
    rw [r] at c1
    have hobj : s'.get? u2 = s.get? u2 := c1.rest.others u2 hne
    have hmem : ∀ k, s'.read (ι2 k) = s.read (ι2 k) := fun k => c1.rest.shares (ι2 k) (fun k' => hdisj k' k)
    have hst := C12_situation_stable ι2 house2 name2 P2 first2 u2 base2 s02 s s' l2 h2 hobj hmem
    have hnow : s'.now = l2.now := by rw [c1.rest.now]; exact h2.now
    rw [hnow] at hst
    exact hst

theorem append_sep_inj {α : Type} (c : α) : ∀ (l1 l2 r1 r2 : List α), c ∉ l1 → c ∉ l2 →
    l1 ++ c :: r1 = l2 ++ c :: r2 → l1 = l2
  | [], [], _, _, _, _, _ => rfl
  | [], b :: l2, r1, r2, _, h2, h => by
    simp at h
    exact absurd h.1 (fun e => h2 (by simp [e]))
  | a :: l1, [], r1, r2, h1, _, h => by
    simp at h
    exact absurd h.1 (fun e => h1 (by simp [e]))
  | a :: l1, b :: l2, r1, r2, h1, h2, h => by
    simp at h
    have := append_sep_inj c l1 l2 r1 r2 (fun e => h1 (by simp [e])) (fun e => h2 (by simp [e])) h.2
    rw [h.1, this]

/-- framers with different (dot-free) names resolve their relative references to disjoint sets of shares -/
theorem C12_distinct_names_disjoint (house n1 n2 : String) (hn : n1 ≠ n2) (h1 : '.' ∉ n1.toList) (h2 : '.' ∉ n2.toList)
    (k k' : String) : prefixMap house n1 k ≠ prefixMap house n2 k' := by
  intro e
  unfold prefixMap at e
  simp only [String.append_assoc] at e
  have e' := (String.append_right_inj _).mp e
  have e2 := congrArg String.toList e'
  simp only [String.toList_append] at e2
  have hd : ".".toList = ['.'] := rfl
  rw [hd] at e2
  have := append_sep_inj '.' n1.toList n2.toList k.toList k'.toList h1 h2 (by simpa using e2)
  exact hn (String.toList_inj.mp this)

example : ∀ k k', prefixMap "verif" "ha_c1" k ≠ prefixMap "verif" "ha_c2" k' :=
  C12_distinct_names_disjoint "verif" "ha_c1" "ha_c2" (by decide) (by decide) (by decide)

/-! ## razing clones that have no auxiliaries below them: the exact effect -/

/-- **Raze, exactly** (PARTIAL: the selected clones have no auxiliaries below them — `LeafObj`, a property of the
objects as they stand — and the aux list of the named frame has no duplicates).  After `raze who in frame F` by
framer `u` at any nesting level:
* frame `F` has lost exactly the selected razeable insular clones, every other entry keeps its place, and nothing else
  of the frame changed;
* every other frame of `u` is unchanged;
* every framer object that is neither `u` nor selected is unchanged (so a razed clone is in no aux list it was not
  in before: it is not run again);
* every selected clone is no longer entered (`active = none`: its active frames were exited bottom-up by `exitAll`
  if it was still entered, `prune_leaf`) and its name is no longer registered to it;
* no name was registered that was not registered before. -/
theorem C12_raze_leaf_clones_partial (lo' : Ops) (u : Nat) (who : Who) (F : String) (s s' : St) (f : Frame)
    (hf : s.frameOf u F = .ok f) (hnd : f.auxes.Nodup)
    (hl : ∀ a ∈ razeables s who f.auxes, a ≠ u ∧ LeafObj s a)
    (h : raze (nextOps lo') u who F s = .ok s') :
    (∃ f', s'.frameOf u F = .ok f' ∧ f'.auxes = f.auxes.filter (fun x => !(razeables s who f.auxes).contains x) ∧
        { f' with auxes := f.auxes } = f) ∧
    (∀ fn, fn ≠ F → s'.frameOf u fn = s.frameOf u fn) ∧
    (∀ v, v ≠ u → v ∉ razeables s who f.auxes → s'.get? v = s.get? v) ∧
    (∀ a ∈ razeables s who f.auxes, ∃ oa oa', s.get? a = some oa ∧ s'.get? a = some oa' ∧ oa'.ctl.active = none ∧
        lookup s'.names oa.name ≠ some a) ∧
    (∀ n x, lookup s'.names n = some x → lookup s.names n = some x) :=
  raze_leaf lo' u who F s s' f hf hnd hl h

/-- **Prune removes every nested clone, whatever its position in the aux list** (PARTIAL: the clones of the frame have
no auxiliaries below them; aux list without duplicates).  The frame loop of `Framer.prune` (`prunables = [clones of
frame.auxes]; for aux in prunables: aux.prune(); frame.auxes.remove(aux); del self.auxes[aux.tag]`): afterwards the
frame's aux list is the old one without ANY of its clones — two, three, four adjacent ones included — the originals
keep their order, every pruned clone is not entered and not registered, no other framer object changed and no name
appeared.  (A loop that removes from the list it walks skips every second adjacent clone: seeded change C12-7.) -/
theorem C12_prune_removes_all_nested_clones_partial (lo' : Ops) (u : Nat) (F : String) (s s' : St) (f : Frame)
    (hf : s.frameOf u F = .ok f) (hnd : f.auxes.Nodup)
    (hl : ∀ a ∈ f.auxes.filter (isCloneAux s), a ≠ u ∧ LeafObj s a)
    (h : pruneFrame (nextOps lo') u F s = .ok s') :
    (∃ f', s'.frameOf u F = .ok f' ∧ f'.auxes = f.auxes.filter (fun x => !isCloneAux s x) ∧
        { f' with auxes := f.auxes } = f) ∧
    (∀ fn, fn ≠ F → s'.frameOf u fn = s.frameOf u fn) ∧
    (∀ v, v ≠ u → v ∉ f.auxes.filter (isCloneAux s) → s'.get? v = s.get? v) ∧
    (∀ a ∈ f.auxes.filter (isCloneAux s), ∃ oa oa', s.get? a = some oa ∧ s'.get? a = some oa' ∧
        oa'.ctl.active = none ∧ lookup s'.names oa.name ≠ some a) ∧
    (∀ n x, lookup s'.names n = some x → lookup s.names n = some x) :=
  pruneFrame_leaf lo' u F s s' f hf hnd hl h

example : ([3, 4, 5, 6] : List Nat).filter (fun x => !([3, 4, 5, 6].filter (fun a => a != 5)).contains x) = [5] := by decide

/-- pruning such a clone: exit if entered (through the stand-alone `lexitAll`), then unregister in the clone's own
house (`assignRegistries`, fix D47a); nothing else -/
theorem C12_prune_leaf_clone_partial (lo : Ops) (ι : String → String) (house name : String) (P : List Frame) (first : String)
    (u : Nat) (base : List String) (hinj : ∀ a b, ι a = ι b → a = b) (hP : Leafy P)
    (s : St) (l : LSt) (h : Sim ι house name P first u base s s l) (s' : St) (hp : prune lo u s = .ok s') :
    ∃ s1 l1 me, s.get? u = some me ∧ Sim ι house name P first u base s s1 l1 ∧
      s' = unregister (assignRegistries me.house s1) me ∧ l1.ctl.active = none ∧
      (l.ctl.active.isSome = true → lexitAll P false l = .ok l1) ∧ (l.ctl.active.isSome = false → s1 = s ∧ l1 = l) :=
  prune_leaf lo ι house name P first u base hinj hP s l h s' hp

example : LeafObj (exHouse "ha_ma1" 4) 4 :=
  ⟨_, prefixMap "verif" "ha_ma1", exP, rfl, rfl, by decide, (C12_prefix_map_resolves "verif" "ha_ma1").inj, rfl⟩

/-! ## rear -/

/-- **Rear.**  The clone-making part of `Rearer.action` in a house whose next object identity is unused: the tag is
the original's tag followed by a positive count and is not in use in the rearing framer (`rear_tag_fresh`), the name is
`surname_tag` and was free, the new framer object is a copy of the original's definition flagged clone + insular +
razeable with the named frame as its fixed main frame, it is appended to that frame's aux list, entered in the framer's
`auxes` under the tag and queued for presolve; every other object is untouched. -/
theorem C12_rear_creates_fresh_insular_razeable (u : Nat) (moot frame : String) (s s' : St) (c : Fr)
    (hfresh : s.get? s.nextUid = none) (h : rearCreate u moot frame s = .ok (s', c)) :
    ∃ orig me tag sn, resolveFramer s moot none = .ok orig ∧ s.get? u = some me ∧
      (tag ∉ me.auxes.map (·.1) ∧ ∃ n, 1 ≤ n ∧ tag = orig.tag ++ toString n) ∧ surname s u = .ok sn ∧
      c.name = sn ++ "_" ++ tag ∧ c.uid = s.nextUid ∧ lookup s.names c.name = none ∧
      lookup s'.names c.name = some c.uid ∧
      (∃ c', s'.get? c.uid = some c' ∧ c'.name = c.name ∧ c'.tag = (if tag = "" then c.name else tag) ∧
        c'.original = false ∧ c'.insular = true ∧ c'.razeable = true ∧ c'.main = some (u, frame) ∧
        c'.frames = orig.frames.map Frame.clone ∧ c'.ctl = {}) ∧
      (∃ me', s'.get? u = some me' ∧ lookup me'.auxes tag = some c.uid ∧
        ∀ fn, me'.frame? fn = (me.frame? fn).map (fun f => if fn = frame then { f with auxes := f.auxes ++ [c.uid] } else f)) ∧
      (∀ v, v ≠ u → v ≠ c.uid → s'.get? v = s.get? v) ∧
      s'.presolvables = s.presolvables ++ [c.uid] := by
  obtain ⟨orig, me, tag, sn, h1, h2, h3, h4, h5, h6, h7, h8, h9, h10, h11, h12⟩ :=
    rearCreate_spec u moot frame s s' c hfresh h
  exact ⟨orig, me, tag, sn, h1, h2, C12_new_tag_fresh _ _ _ h3, h4, h5, h6, h7, h8, h9, h10, h11, h12⟩

/-- **A static clone** (`aux orig as tag [via inode]`, tag written or made by `as mine`; one entry of
`Framer.resolveMoots` of framer `u`): it is made only from a moot framer that is not in `u`'s lineage (no clone loop)
under a tag `u` does not use yet; its name `surname_tag` was free and is now registered to the new object; the object
is a copy of the original's definition, flagged clone, insular exactly for `as mine`, never razeable, without a main
frame yet (its frame's `resolveAuxLinks` fixes it), with the clause's inode — or the original's for `via mine` — and
the lineage extended by the original; `u` records it under the tag; it is queued for presolve; nothing else changes. -/
theorem C12_static_clone_created (u : Nat) (s s' : St) (tag : String) (d : Moot)
    (hfresh : s.get? s.nextUid = none) (h : resolveMoot u s (tag, d) = .ok s') :
    ∃ orig me sn, d.clone = tag ∧ tag ≠ "mine" ∧ resolveFramer s d.original (some .moot) = .ok orig ∧
      s.get? u = some me ∧ me.lineage.contains orig.name = false ∧ lookup me.auxes tag = none ∧
      surname s u = .ok sn ∧ lookup s.names (sn ++ "_" ++ tag) = none ∧
      lookup s'.names (sn ++ "_" ++ tag) = some s.nextUid ∧
      (∃ c', s'.get? s.nextUid = some c' ∧ c'.name = sn ++ "_" ++ tag ∧ c'.original = false ∧
        c'.insular = d.insular ∧ c'.razeable = false ∧ c'.main = none ∧
        c'.inode = (if d.inode ≠ "mine" then d.inode else orig.inode) ∧
        c'.lineage = me.lineage ++ [orig.name] ∧ c'.frames = orig.frames.map Frame.clone ∧ c'.first = orig.first ∧
        c'.moots = orig.moots ∧ c'.ctl = {}) ∧
      (∃ me', s'.get? u = some me' ∧ lookup me'.auxes tag = some s.nextUid ∧ me'.frames = me.frames) ∧
      (∀ v, v ≠ u → v ≠ s.nextUid → s'.get? v = s.get? v) ∧
      s'.presolvables = s.presolvables ++ [s.nextUid] :=
  resolveMoot_spec u s s' tag d hfresh h

/-! non-vacuity: a concrete host `ha` (frames `f0`, `f1`) rears the concrete moot `ma` into `f1` -/

def exRearHouse : St :=
  { objs := [{ uid := 0, house := "verif", name := "ha", tag := "ha", sched := .active, inode := "", first := "f0", presolved := true,
               resolved := true,
               frames := [{ name := "f0", inode := "", over := none, next := some "f1", outline := ["f0"], links := [],
                            items := [.act .enter (.rear "ma" "f1")] },
                          { name := "f1", inode := "", over := none, next := none, outline := ["f1"], links := [],
                            items := [] }] },
             { uid := 1, house := "verif", name := "ma", tag := "ma", sched := .moot, inode := "", first := "a0",
               frames := exP }],
    names := [("ha", 0), ("ma", 1)], cur := "verif", houses := ["verif"], nextUid := 2 }

example : exRearHouse.get? exRearHouse.nextUid = none := by decide +kernel

example : (rearCreate 0 "ma" "f1" exRearHouse).toOption.map (fun r => (r.2.name, r.2.uid, r.1.presolvables))
    = some ("ha_ma1", 2, [2]) := by decide +kernel

example : ((resolveMoot 0 exRearHouse ("c1", { original := "ma", clone := "c1", inode := "zed", insular := false })).toOption.map
    (fun s => (s.names.map (·.1), (s.get? 2).map (fun o => [o.name, o.inode] ++ o.lineage),
               (s.get? 2).map (fun o => [o.original, o.insular, o.razeable]))))
    = some (["ha", "ma", "ha_c1"], some ["ha_c1", "zed", "ma"], some [false, false, false]) := by decide +kernel

/-! ## rear, run, raze: the round trip -/

/-- **`Rearer.action`, exactly** (PARTIAL: the moot has neither clone clauses nor aux links).  At run time (both
worklists empty, the class registries pointing at the rearing framer's house) a successful rear is `rearCreate` — fresh
tag, free name `surname_tag`, one new object, one new entry in the frame's aux list and in the framer's `auxes` —
followed by steps that touch nothing but the new clone and the store (its presolve and resolve), and the worklists are
empty again. -/
theorem C12_rear_is_create_then_quiet_partial (u : Nat) (fn moot F : String) (s0 s2 : St) (me : Fr) (af : Frame)
    (hme : s0.get? u = some me) (hh : s0.cur = me.house) (haf : me.frame? fn = some af)
    (hout : af.outline.contains F = false)
    (hw : s0.presolvables = [] ∧ s0.resolvables = [])
    (hfresh : s0.get? s0.nextUid = none)
    (hm : ∀ orig, resolveFramer s0 moot none = .ok orig → orig.moots = [] ∧ ∀ f ∈ orig.frames, f.links = [])
    (h : rear u fn moot F s0 = .ok s2) :
    ∃ s1 c, rearCreate u moot F s0 = .ok (s1, c) ∧ Quiet c.uid s1 s2 ∧ s2.presolvables = [] ∧ s2.resolvables = [] :=
  rear_quiet u fn moot F s0 s2 me af hme hh haf hout hw hfresh hm h

/-- **Rear → raze round trip** (PARTIAL: the moot has neither clone clauses nor aux links and its clone runs as a
framer object without auxiliaries, `LeafObj`).  Framer `u` rears a clone of `moot` into its frame `F`; then anything
happens that touches only the clone and the store (`Quiet`: by `C12_leaf_touches_only_itself` every entry, recur, segue
and exit of the clone is of this kind); then the prune step that `Razer.action` and `Framer.prune` run on the clone.
Afterwards the name registry, the class pointers and the other houses' registries are EXACTLY those before the rear, and
every framer object that existed before the rear — the rearing framer with the aux list of `F` and its tag table
included — is EXACTLY as it was before the rear; the clone is left inactive and its name is free, so the next rear
finds the same tag and the same name free. -/
theorem C12_rear_raze_roundtrip_partial (lo' : Ops) (u : Nat) (fn moot F : String) (s0 s2 : St) (me : Fr) (af : Frame)
    (hme : s0.get? u = some me) (hh : s0.cur = me.house) (haf : me.frame? fn = some af)
    (hout : af.outline.contains F = false)
    (hw : s0.presolvables = [] ∧ s0.resolvables = [])
    (hfresh : s0.get? s0.nextUid = none)
    (hnc : ∀ f ∈ me.frames, s0.nextUid ∉ f.auxes)
    (hm : ∀ orig, resolveFramer s0 moot none = .ok orig → orig.moots = [] ∧ ∀ f ∈ orig.frames, f.links = [])
    (h : rear u fn moot F s0 = .ok s2) :
    ∃ c : Nat, c = s0.nextUid ∧ (∃ oc, s2.get? c = some oc) ∧
      ∀ s2' s3, Quiet c s2 s2' → LeafObj s2' c → pruneStep (nextOps lo') u F c s2' = .ok s3 →
        s3.names = s0.names ∧ s3.cur = s0.cur ∧ s3.regs = s0.regs ∧
        (∀ v, v ≠ c → s3.get? v = s0.get? v) ∧
        (∃ oc, s3.get? c = some oc ∧ oc.ctl.active = none ∧ lookup s3.names oc.name = none) := by
  obtain ⟨s1, c, hc, hq, _, _⟩ := rear_quiet u fn moot F s0 s2 me af hme hh haf hout hw hfresh hm h
  obtain ⟨_, _, _, _, _, _, hcu, _, _, _, _, _, _, ⟨c', hc', _⟩, _⟩ := rearCreate_exact u moot F s0 s1 c hfresh hc
  refine ⟨c.uid, hcu, ?_, ?_⟩
  · obtain ⟨o2, ho2, _⟩ := hq.self c' hc'
    exact ⟨o2, ho2⟩
  · intro s2' s3 hq' hl hp
    obtain ⟨r1, r2, r3, r4, ⟨oc, r5, r6, r7⟩, r8⟩ :=
      rear_raze_roundtrip lo' u moot F s0 s1 s2' s3 c hfresh
        (fun me' f hme' hf => by rw [hme] at hme'; injection hme' with hme'; subst hme'; exact hnc f hf)
        hc (hq.trans hq') hl hp
    exact ⟨r1, r2, r3, r4, oc, r5, r6, by rw [r7]; exact r8⟩

/-- the same through `Razer.action` when the reared clone is what it selects in `F` -/
theorem C12_rear_razer_roundtrip_partial (lo' : Ops) (u : Nat) (fn moot F : String) (who : Who) (s0 s2 : St) (me : Fr)
    (af : Frame) (hme : s0.get? u = some me) (hh : s0.cur = me.house) (haf : me.frame? fn = some af)
    (hout : af.outline.contains F = false)
    (hw : s0.presolvables = [] ∧ s0.resolvables = [])
    (hfresh : s0.get? s0.nextUid = none)
    (hnc : ∀ f ∈ me.frames, s0.nextUid ∉ f.auxes)
    (hm : ∀ orig, resolveFramer s0 moot none = .ok orig → orig.moots = [] ∧ ∀ f ∈ orig.frames, f.links = [])
    (h : rear u fn moot F s0 = .ok s2) :
    ∀ s2' s3 f', Quiet s0.nextUid s2 s2' → LeafObj s2' s0.nextUid → s2'.frameOf u F = .ok f' →
      razeables s2' who f'.auxes = [s0.nextUid] → raze (nextOps lo') u who F s2' = .ok s3 →
        s3.names = s0.names ∧ s3.cur = s0.cur ∧ s3.regs = s0.regs ∧ (∀ v, v ≠ s0.nextUid → s3.get? v = s0.get? v) := by
  obtain ⟨c, hc, _, hall⟩ := C12_rear_raze_roundtrip_partial lo' u fn moot F s0 s2 me af hme hh haf hout hw hfresh hnc hm h
  subst hc
  intro s2' s3 f' hq hl hf hrz hr
  unfold raze at hr
  rw [hf] at hr
  simp only [hrz, forEach] at hr
  cases hp : pruneStep (nextOps lo') u F s0.nextUid s2' with
  | error e => simp [hp] at hr
  | ok s3' =>
    simp only [hp] at hr
    injection hr with hr
    subst hr
    obtain ⟨r1, r2, r3, r4, _⟩ := hall s2' s3' hq hl hp
    exact ⟨r1, r2, r3, r4⟩

/-! non-vacuity: host `ha` rears the moot `mr` into `f1`, the clone is presolved and resolved, and the prune step
gives the registry and both earlier objects back -/

def exRoundHouse : St :=
  { objs := [{ uid := 0, house := "verif", name := "ha", tag := "ha", sched := .active, inode := "", first := "f0", presolved := true,
               resolved := true,
               frames := [{ name := "f0", inode := "", over := none, next := some "f1", outline := ["f0"], links := [],
                            items := [.act .enter (.rear "mr" "f1")] },
                          { name := "f1", inode := "", over := none, next := none, outline := ["f1"], links := [],
                            items := [] }] },
             { uid := 1, house := "verif", name := "mr", tag := "mr", sched := .moot, inode := "", first := "a0",
               frames := [{ name := "a0", inode := "", over := none, next := none, links := [],
                            items := [.act .enter (.record "e"), .act .recur (.record "r")] }] }],
    names := [("ha", 0), ("mr", 1)], cur := "verif", houses := ["verif"], nextUid := 2 }

example : (rear 0 "f0" "mr" "f1" exRoundHouse).toOption.map (fun s => (s.names, s.presolvables, s.resolvables))
    = some ([("ha", 0), ("mr", 1), ("ha_mr1", 2)], [], []) := by decide +kernel

example : (rear 0 "f0" "mr" "f1" exRoundHouse).toOption.map
    (fun s => ((s.get? 2).map (fun o => (o.name, o.resolved)), (s.frameOf 0 "f1").toOption.map (·.auxes)))
    = some (some ("ha_mr1", true), some [2]) := by decide +kernel

example : ((rear 0 "f0" "mr" "f1" exRoundHouse).bind (pruneStep (nextOps Ops.bottom) 0 "f1" 2)).toOption.map
    (fun s => (s.names == exRoundHouse.names, s.get? 0 == exRoundHouse.get? 0, s.get? 1 == exRoundHouse.get? 1,
               (s.get? 2).map (·.ctl.active)))
    = some (true, true, true, some none) := by decide +kernel

/-- **Rear → raze → rear: the second rear makes the same clone** (PARTIAL: the first clone runs as a framer object
without auxiliaries).  After the round trip of `C12_rear_raze_roundtrip_partial` a second `rear` of the same moot into
the same frame gives a clone with the tag, the name, the definition, the flags, the main frame and the (initial) control
state of the first one; only the object identity is new. -/
theorem C12_second_rear_like_first_partial (lo' : Ops) (u : Nat) (moot F : String) (s0 s1 s2 s3 s4 : St) (c c2 : Fr)
    (hfresh : s0.get? s0.nextUid = none)
    (hnc : ∀ me f, s0.get? u = some me → f ∈ me.frames → s0.nextUid ∉ f.auxes)
    (hc : rearCreate u moot F s0 = .ok (s1, c))
    (hq : Quiet c.uid s1 s2) (hl : LeafObj s2 c.uid)
    (hp : pruneStep (nextOps lo') u F c.uid s2 = .ok s3)
    (hfresh3 : s3.get? s3.nextUid = none)
    (h3 : rearCreate u moot F s3 = .ok (s4, c2)) :
    c2.name = c.name ∧
    ∃ o1 o2, s1.get? c.uid = some o1 ∧ s4.get? c2.uid = some o2 ∧ o2.name = o1.name ∧ o2.tag = o1.tag ∧
      o2.frames = o1.frames ∧ o2.main = o1.main ∧ o2.original = o1.original ∧ o2.insular = o1.insular ∧
      o2.razeable = o1.razeable ∧ o2.ctl = o1.ctl := by
  obtain ⟨r1, _, _, r4, _, _⟩ := rear_raze_roundtrip lo' u moot F s0 s1 s2 s3 c hfresh hnc hc hq hl hp
  exact second_rear_like_first u moot F s0 s1 s3 s4 c c2 hfresh hfresh3 r1 r4 hc h3

example : (((rear 0 "f0" "mr" "f1" exRoundHouse).bind (pruneStep (nextOps Ops.bottom) 0 "f1" 2)).bind
    (fun s => (rearCreate 0 "mr" "f1" s).map (fun r => (r.2.name, r.2.uid)))).toOption = some ("ha_mr1", 3) := by decide +kernel

/-! ## finding D12r: a rear between a transition's entry check and its enter -/

/-- the ghost bracket gives the pending list back -/
theorem C12_ghost_bracket_restores (p : List (Nat × String)) (k : St → Except Err St) (s s' : St)
    (h : ghosted p k s = .ok s') : s'.pending = s.pending := by
  unfold ghosted at h
  cases r : k { s with pending := s.pending ++ p } with
  | error e => simp [r] at h
  | ok s1 =>
    simp only [r] at h
    injection h with h
    rw [← h]

example : ghosted [(0, "f1")] (fun s => .ok (s.emit "x")) ({ pending := [(3, "g")] } : St)
    = .ok (({ pending := [(3, "g")] } : St).emit "x") := rfl

/-- **Outside the region of D12r the `rear` act is `Rearer.action` and nothing else** (PARTIAL: the target frame is
not pending, i.e. no entry check that covered it is waiting for its enter): the ghost flag is not touched. -/
theorem C12_rear_outside_region_partial (lo : Ops) (u : Nat) (fn : String) (c : Ctxt) (m f : String) (s s' : St)
    (hp : s.pending.contains (u, f) = false) (h : runAct lo u fn c (.rear m f) s = .ok s') :
    rear u fn m f s = .ok s' := by
  unfold runAct at h
  cases hme : s.fr u with
  | error e => simp [hme] at h
  | ok me =>
    simp only [hme] at h
    cases hr : rear u fn m f s with
    | error e => simp [hr, Except.map] at h
    | ok s1 =>
      simp only [hr, Except.map, hp, Bool.false_and] at h
      simpa using h

/-- non-vacuity and the witness of D12r: host `ha` (f0: exit-context `rear ma in frame f1`, `go f1 if recurred >= 1`)
and the moot `ma` whose first frame is guarded by `let me if all is done` (false: it has no auxiliaries) -/
def exLateHouse : St :=
  { objs := [{ uid := 0, house := "verif", name := "ha", tag := "ha", sched := .active, inode := "", first := "f0", presolved := true,
               resolved := true,
               frames := [{ name := "f0", inode := "", over := none, next := some "f1", outline := ["f0"], links := [],
                            items := [.act .enter (.record "e"), .act .exit (.record "x"), .act .exit (.rear "ma" "f1"),
                                      .go "f1" [⟨false, .state "verif/framer.ha.state.recurred" .ge 1⟩]] },
                          { name := "f1", inode := "", over := none, next := none, outline := ["f1"], links := [],
                            items := [.act .exit (.record "x"), .act .enter (.record "e")] }] },
             { uid := 1, house := "verif", name := "ma", tag := "ma", sched := .moot, inode := "", first := "a0",
               frames := [{ name := "a0", inode := "", over := none, next := none, links := [],
                            items := [.act .enter (.record "e"), .cond [⟨false, .allDone⟩], .act .exit (.record "x")] }] }],
    names := [("ha", 0), ("ma", 1)], cur := "verif", houses := ["verif"], nextUid := 2 }

/-- two ticks of the skedder -/
def exLateRun : Except Err (List Host × St) :=
  match hostsStep (opsAt 3) [{ uid := 0 }] exLateHouse with
  | .error e => .error e
  | .ok (hs, s) => hostsStep (opsAt 3) hs { s with now := 1 }

/-- **Counterexample (finding D12r, unchanged code).**  The transition f0 → f1 passes its entry check, then f0's exit
act rears a clone of `ma` into f1, then f1 is entered with the new auxiliary: the clone `ha_ma1` is active in its first
frame `a0` although its own start check (`checkStart`, the `let` guard of `a0`) is false — the original alone is
refused by the same check and never runs.  The ghost flag `St.lateRear` marks exactly this: the run is in the region. -/
theorem C12_counterexample_D12r :
    exLateRun.toOption.map (fun r => (r.2.lateRear, (r.2.get? 2).map (fun o => (o.name, o.ctl.active)),
      (checkStart (opsAt 2) 2 [] r.2).toOption.map (·.1)))
    = some (true, some ("ha_ma1", some "a0"), some false) := by decide +kernel

/-- the same house when the rear is a RECUR act (made before the transition's check): outside the region, and the
guarded clone blocks the transition instead of being entered unchecked -/
def exEarlyHouse : St :=
  { exLateHouse with
    objs := exLateHouse.objs.map (fun o => if o.uid == 0 then
      o.modFrame "f0" (fun f => { f with items := [.act .enter (.record "e"), .act .exit (.record "x"), .act .recur (.rear "ma" "f1"),
                                                    .go "f1" [⟨false, .state "verif/framer.ha.state.recurred" .ge 1⟩]] }) else o) }

def exEarlyRun : Except Err (List Host × St) :=
  match hostsStep (opsAt 3) [{ uid := 0 }] exEarlyHouse with
  | .error e => .error e
  | .ok (hs, s) => hostsStep (opsAt 3) hs { s with now := 1 }

example :
    exEarlyRun.toOption.map
      (fun r => (r.2.lateRear, (r.2.get? 0).map (fun o => o.ctl.active), (r.2.get? 2).map (fun o => o.ctl.active)))
    = some (false, some (some "f0"), some none) := by decide +kernel

/-! ## trees of clones: a clone that carries clones runs like its original -/

/-- the entry points of the stand-alone TREE interpreter (Lemmas/ClonesTree.lean) at nesting level `n` -/
def tcallEntry (TP : TProg) (n : Nat) (σ : String) : Entry → TSt → Except Err TSt
  | .enterAll => tenterAll TP (topsAt TP n) σ
  | .recur => trecur TP (topsAt TP n) σ
  | .segue => tsegue TP (topsAt TP n) σ
  | .exitAll => texitAll TP (topsAt TP n) false σ

/-- **Refinement for trees** (PARTIAL: static trees).  A framer whose frames carry auxiliaries that carry auxiliaries …
to any depth — `TP` maps every member, addressed by the suffix of its name below the root, to its script; the aux
links of a script frame are its child members; scripts may use every modelled act except `rear` / `raze` and every
need, including `all / any is done` and `aux T is done` of child members (`Frame.tok`) — behaves in any house, at
every `Ops` level and from every member downward, exactly as the name-free, identity-free tree interpreter on the
memory `(member, k) ↦ store[ι member k]`: same error or same next control states of ALL members, same memory, and the
events emitted are the tree interpreter's events labelled `root ++ member`. -/
theorem C12_tree_refines_partial (ι : String → String → String) (uid : String → Nat) (house root : String) (TP : TProg)
    (base : List String) (hok : TreeOK ι uid house root TP) (n : Nat) (σ : String) (hσ : (TP σ).isSome = true)
    (e : Entry) (s : St) (l : TSt) (h : TSim ι uid house root TP base s l) :
    CorrT (TSim ι uid house root TP base) (callEntry (opsAt n) (uid σ) e s) (tcallEntry TP n σ e l) := by
  have hk := tsim_level ι uid house root TP base hok n
  cases e with
  | enterAll => exact tsim_enterAll (opsAt n) (topsAt TP n) ι uid house root TP base hok hk σ hσ s l h
  | recur => exact tsim_recur (opsAt n) (topsAt TP n) ι uid house root TP base hok hk σ hσ s l h
  | segue => exact tsim_segue (opsAt n) (topsAt TP n) ι uid house root TP base hok hk σ hσ s l h
  | exitAll => exact tsim_exitAll (opsAt n) (topsAt TP n) ι uid house root TP base hok hk false σ hσ s l h

/-- … and `Framer.checkStart` (entry conditions of the first outline, then the auxiliaries' own `checkStart`, recursively) -/
theorem C12_tree_refines_checkStart_partial (ι : String → String → String) (uid : String → Nat) (house root : String)
    (TP : TProg) (base : List String) (hok : TreeOK ι uid house root TP) (n : Nat) (σ : String)
    (hσ : (TP σ).isSome = true) (claimed : List Nat) (s : St) (l : TSt) (h : TSim ι uid house root TP base s l) :
    checkStart (opsAt n) (uid σ) claimed s = (tcheckStart TP (topsAt TP n) σ l).map (fun b => (b, claimed)) :=
  tsim_checkStart (opsAt n) (topsAt TP n) ι uid house root TP base hok (tsim_level ι uid house root TP base hok n)
    σ hσ claimed s l h

/-- **A clone tree runs like the original tree.**  Two trees of framer objects — a clone with the clones it carries,
and the original run as an ordinary auxiliary with ITS clones; or two clones — in two houses or in one, with different
root names, identities and resolution maps, whose members have the same scripts (`TP`) and are in one common situation
`l` (same control state of every member, same clock, same values of every member's relative shares): the same entry
point on the same member at the same level fails in both with the same error or succeeds in both and leaves them in
one common situation — in particular the same events from the same members in the same order, each under its own name. -/
theorem C12_clone_tree_runs_like_original_partial
    (ι1 ι2 : String → String → String) (uid1 uid2 : String → Nat) (house1 house2 root1 root2 : String) (TP : TProg)
    (base1 base2 : List String) (h1ok : TreeOK ι1 uid1 house1 root1 TP) (h2ok : TreeOK ι2 uid2 house2 root2 TP)
    (n : Nat) (σ : String) (hσ : (TP σ).isSome = true) (e : Entry) (s1 s2 : St) (l : TSt)
    (h1 : TSim ι1 uid1 house1 root1 TP base1 s1 l) (h2 : TSim ι2 uid2 house2 root2 TP base2 s2 l) :
    match callEntry (opsAt n) (uid1 σ) e s1, callEntry (opsAt n) (uid2 σ) e s2 with
    | .ok s1', .ok s2' => ∃ l', TSim ι1 uid1 house1 root1 TP base1 s1' l' ∧ TSim ι2 uid2 house2 root2 TP base2 s2' l'
    | .error e1, .error e2 => e1 = e2
    | _, _ => False := by
  have c1 := C12_tree_refines_partial ι1 uid1 house1 root1 TP base1 h1ok n σ hσ e s1 l h1
  have c2 := C12_tree_refines_partial ι2 uid2 house2 root2 TP base2 h2ok n σ hσ e s2 l h2
  cases r : tcallEntry TP n σ e l with
  | error er =>
    rw [r] at c1 c2
    cases r1 : callEntry (opsAt n) (uid1 σ) e s1 with
    | ok s1' => rw [r1] at c1; exact c1.elim
    | error e1 =>
      cases r2 : callEntry (opsAt n) (uid2 σ) e s2 with
      | ok s2' => rw [r2] at c2; exact c2.elim
      | error e2 =>
        rw [r1] at c1; rw [r2] at c2
        exact c1.trans c2.symm
  | ok l' =>
    rw [r] at c1 c2
    cases r1 : callEntry (opsAt n) (uid1 σ) e s1 with
    | error e1 => rw [r1] at c1; exact c1.elim
    | ok s1' =>
      cases r2 : callEntry (opsAt n) (uid2 σ) e s2 with
      | error e2 => rw [r2] at c2; exact c2.elim
      | ok s2' =>
        rw [r1] at c1; rw [r2] at c2
        exact ⟨l', c1, c2⟩

/-- what a common situation of two trees says: same events, same relative shares, same control state per member -/
theorem C12_tree_same_events (ι1 ι2 : String → String → String) (uid1 uid2 : String → Nat)
    (house1 house2 root1 root2 : String) (TP : TProg) (base1 base2 : List String) (s1 s2 : St) (l : TSt)
    (h1 : TSim ι1 uid1 house1 root1 TP base1 s1 l) (h2 : TSim ι2 uid2 house2 root2 TP base2 s2 l) :
    ∃ evs : List (String × String × Ctxt × String),
      s1.out = evs.map (renderT root1) ++ base1 ∧ s2.out = evs.map (renderT root2) ++ base2 ∧
      (∀ σ k, (TP σ).isSome = true → s1.read (ι1 σ k) = s2.read (ι2 σ k)) :=
  ⟨l.ev, h1.out, h2.out, fun σ k hσ => (h1.mem σ k hσ).trans (h2.mem σ k hσ).symm⟩

/-- the resolution maps of name-relative references over a tree: `<house>/framer.<root><member>.` in front -/
def prefixMapT (house root : String) (σ k : String) : String := house ++ "/framer." ++ (root ++ σ) ++ "." ++ k

/-- … satisfy the side conditions of the tree theorems when the members' names are dot-free, the members are different
objects and the scripts stay inside the tree -/
theorem C12_tree_prefix_maps_ok (uid : String → Nat) (house root : String) (TP : TProg)
    (hdot : ∀ σ, (TP σ).isSome = true → '.' ∉ (root ++ σ).toList)
    (huid : ∀ σ τ, (TP σ).isSome = true → (TP τ).isSome = true → uid σ = uid τ → σ = τ)
    (hscr : ∀ σ fs first, TP σ = some (fs, first) → ∀ f ∈ fs, f.tok TP = true) :
    TreeOK (prefixMapT house root) uid house root TP := by
  refine { inj := ?_, uinj := huid, clkE := ?_, clkR := ?_, ok := hscr }
  · intro σ k σ' k' hσ hσ' e
    unfold prefixMapT at e
    simp only [String.append_assoc] at e
    have e1 := (String.append_right_inj _).mp e
    have e1' := (String.append_right_inj _).mp e1
    have e2 := congrArg String.toList e1'
    simp only [String.toList_append] at e2
    have hd : ".".toList = ['.'] := rfl
    rw [hd] at e2
    have e3 : (root ++ σ).toList ++ '.' :: k.toList = (root ++ σ').toList ++ '.' :: k'.toList := by
      simpa [String.toList_append] using e2
    have hn := append_sep_inj '.' _ _ _ _ (hdot σ hσ) (hdot σ' hσ') e3
    have hnames : root ++ σ = root ++ σ' := String.toList_inj.mp hn
    have hσσ : σ = σ' := (String.append_right_inj _).mp hnames
    subst hσσ
    refine ⟨rfl, ?_⟩
    rw [hn] at e3
    have := List.append_cancel_left e3
    injection this with _ hk
    exact String.toList_inj.mp hk
  · intro σ
    unfold prefixMapT kElapsed statePath
    simp only [String.append_assoc]
    rfl
  · intro σ
    unfold prefixMapT kRecurred statePath
    simp only [String.append_assoc]
    rfl

/-! non-vacuity: a concrete tree — the clone `ha_c1` whose frame `p0` carries the clone `ha_c1_n1` (script `exP`), with
`all is done` / `not aux _n1 is done` needs about it — satisfies the side conditions and is in a situation -/

def exTop : List Frame :=
  [{ name := "p0", inode := "", over := none, next := none, outline := ["p0"], links := [.tag "_n1"],
     items := [.act .enter (.put 0 "cnt"), .act .recur (.record "r"),
               .go "p0" [⟨false, .allDone⟩, ⟨true, .auxTag "_n1"⟩]] }]

def exTP : TProg := fun σ => if σ = "" then some (exTop, "p0") else if σ = "_n1" then some (exP, "a0") else none

def exUid (σ : String) : Nat := if σ = "" then 7 else 8

theorem exTP_members (σ : String) (h : (exTP σ).isSome = true) : σ = "" ∨ σ = "_n1" := by
  unfold exTP at h
  by_cases h1 : σ = ""
  · exact Or.inl h1
  · by_cases h2 : σ = "_n1"
    · exact Or.inr h2
    · simp [h1, h2] at h

example : TreeOK (prefixMapT "verif" "ha_c1") exUid "verif" "ha_c1" exTP := by
  apply C12_tree_prefix_maps_ok
  · intro σ h
    rcases exTP_members σ h with rfl | rfl <;> decide
  · intro σ τ hσ hτ e
    rcases exTP_members σ hσ with rfl | rfl <;> rcases exTP_members τ hτ with rfl | rfl <;> first | rfl | (simp [exUid] at e)
  · intro σ fs first h f hf
    have hm : (exTP σ).isSome = true := by rw [h]; rfl
    rcases exTP_members σ hm with rfl | rfl
    · have : (exTop, "p0") = (fs, first) := by simpa [exTP] using h
      injection this with e1 _
      subst e1
      revert f
      decide
    · have : (exP, "a0") = (fs, first) := by simpa [exTP] using h
      injection this with e1 _
      subst e1
      revert f
      decide

def exTreeHouse : St :=
  { objs := [{ uid := 7, house := "verif", name := "ha_c1", tag := "c1", sched := .aux, original := false, inode := "",
               first := "p0", frames := exTop.map (gFrame (prefixMapT "verif" "ha_c1") exUid "") },
             { uid := 8, house := "verif", name := "ha_c1_n1", tag := "n1", sched := .aux, original := false,
               main := some (7, "p0"), inode := "", first := "a0",
               frames := exP.map (gFrame (prefixMapT "verif" "ha_c1") exUid "_n1") }],
    cur := "verif", houses := ["verif"], now := 3 }

example : TSim (prefixMapT "verif" "ha_c1") exUid "verif" "ha_c1" exTP [] exTreeHouse
    { ctls := fun _ => {}, mem := fun _ _ => none, now := 3 } := by
  refine { obj := ?_, kid := ?_, mem := fun _ _ _ => rfl, now := rfl, out := rfl }
  · intro σ fs first h
    have hm : (exTP σ).isSome = true := by rw [h]; rfl
    rcases exTP_members σ hm with rfl | rfl
    · have : (exTop, "p0") = (fs, first) := by simpa [exTP] using h
      injection this with e1 e2
      subst e1 e2
      exact ⟨_, rfl, rfl, rfl, rfl, rfl, rfl⟩
    · have : (exP, "a0") = (fs, first) := by simpa [exTP] using h
      injection this with e1 e2
      subst e1 e2
      exact ⟨_, rfl, rfl, rfl, rfl, rfl, rfl⟩
  · intro σ fs first f τ h hf hτ
    have hm : (exTP σ).isSome = true := by rw [h]; rfl
    rcases exTP_members σ hm with rfl | rfl
    · have : (exTop, "p0") = (fs, first) := by simpa [exTP] using h
      injection this with e1 _
      subst e1
      simp [exTop] at hf
      subst hf
      simp [kidsOf] at hτ
      subst hτ
      exact ⟨_, rfl, rfl, rfl⟩
    · have : (exP, "a0") = (fs, first) := by simpa [exTP] using h
      injection this with e1 _
      subst e1
      simp [exP] at hf
      rcases hf with rfl | rfl <;> simp [kidsOf] at hτ

end Ioflo.Clones
