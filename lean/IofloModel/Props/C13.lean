import IofloModel.Lemmas.ResolvePath
/-!
# C13 — relative store addressing is invariant under consistent renaming

Model: `Model/ResolvePath.lean` (`Act.resolvePath` as `resolveParts` on path segments,
`Builder.parseIndirect` / `parseRelation` on clause tokens).

A renaming is a function `f` on segments / tokens.  `Resp f`: `f` fixes the keywords
`"" framer frame actor me main` and maps nothing else onto them (`RespTok f` adds `of`, `root`, the
reserved words and identifier-ness for the clause grammar).  `Ctx.map f` renames every name and inode
segment of the act's context.  `ren old new` renames the single string `old`.
-/
namespace Ioflo.ResolvePath

/-! ## resolvePath -/

/-- **Equivariance.**  Renaming the context and the path by `f` renames the resolved path by `f`
— for every context (frame / over chain, framer, chain of main framers, actor), every act inode,
every path, and every keyword-respecting `f` (errors are preserved as they are). -/
theorem C13_resolve_equivariant (f : String → String) (hf : Resp f) (c : Ctx)
    (inode : Option (List String)) (parts : List String) :
    resolveParts (c.map f) (inode.map (List.map f)) (parts.map f)
      = (resolveParts c inode parts).map (List.map f) :=
  resolveParts_map hf c inode parts

/-- **Absolute references never depend on the context**: names of framers, frames, actors, inodes,
main links — none of it. -/
theorem C13_absolute_ignores_ctx (c : Ctx) (inode : Option (List String)) (rest : List String) :
    resolveParts c inode ("" :: rest) = .ok ("" :: rest) := by
  simp [resolveParts, incompletePath]

/-- the renaming of one name -/
def ren (old new : String) : String → String := fun s => if s = old then new else s

theorem C13_ren_respects (old new : String) (ho : old ∉ Keywords) (hn : new ∉ Keywords) :
    Resp (ren old new) := by
  intro k hk s
  unfold ren
  by_cases h : s = old
  · subst h
    simp only [if_true]
    constructor
    · intro e; exact absurd (e ▸ hk) hn
    · intro e; exact absurd (e ▸ hk) ho
  · simp [h]

theorem map_ren_of_not_mem (old new : String) (l : List String) (h : old ∉ l) :
    l.map (ren old new) = l := by
  induction l with
  | nil => rfl
  | cons a t ih =>
    have h1 : a ≠ old := fun e => h (by simp [e])
    have h2 : old ∉ t := fun e => h (by simp [e])
    simp [ren, h1, ih h2]

/-- **Renaming one name** (`old` → `new`, neither a keyword) in the context, with a reference whose
written segments (path and act inode) do not use `old`: the resolved path is the old resolved path with
exactly the segments equal to `old` replaced by `new`. -/
theorem C13_rename_one (old new : String) (ho : old ∉ Keywords) (hn : new ∉ Keywords)
    (c : Ctx) (inode : Option (List String)) (parts : List String)
    (hparts : old ∉ parts) (hinode : ∀ ip, inode = some ip → old ∉ ip) :
    resolveParts (c.map (ren old new)) inode parts
      = (resolveParts c inode parts).map (List.map (ren old new)) := by
  have := C13_resolve_equivariant (ren old new) (C13_ren_respects old new ho hn) c inode parts
  rw [map_ren_of_not_mem old new parts hparts] at this
  cases inode with
  | none => simpa using this
  | some ip =>
    rw [Option.map_some, map_ren_of_not_mem old new ip (hinode ip rfl)] at this
    exact this

/-- … and every resolved path that does not contain `old` is left unchanged -/
theorem C13_other_paths_unchanged (old new : String) (r : List String) (h : old ∉ r) :
    r.map (ren old new) = r := map_ren_of_not_mem old new r h

/-- a fresh `new` keeps different resolved paths different (no two shares collapse) -/
theorem C13_rename_injective (old new : String) (r1 r2 : List String)
    (h1 : new ∉ r1) (h2 : new ∉ r2) (h : r1.map (ren old new) = r2.map (ren old new)) : r1 = r2 := by
  induction r1 generalizing r2 with
  | nil => cases r2 with
    | nil => rfl
    | cons b t => simp at h
  | cons a t ih =>
    cases r2 with
    | nil => simp at h
    | cons b u =>
      simp only [List.map_cons, List.cons.injEq] at h
      have ha : a ≠ new := fun e => h1 (by simp [e])
      have hb : b ≠ new := fun e => h2 (by simp [e])
      have hab : a = b := by
        have := h.1
        unfold ren at this
        by_cases x : a = old <;> by_cases y : b = old
        · rw [x, y]
        · simp [x, y] at this; exact absurd this.symm hb
        · simp [x, y] at this; exact absurd this ha
        · simpa [x, y] using this
      rw [hab, ih u (fun e => h1 (by simp [e])) (fun e => h2 (by simp [e])) h.2]

/-- renaming the framer of the context (its name is `old`, nothing else in the context is spelled
`old`) is exactly `Ctx.map (ren old new)` -/
theorem C13_rename_framer_is_map (old new : String) (c : Ctx) (hname : c.framerName = old)
    (hframes : ∀ x ∈ c.frames, x.name ≠ old ∧ old ∉ x.inode) (hinode : old ∉ c.framerInode)
    (hmains : ∀ m ∈ c.mains, m.framerName ≠ old ∧ old ∉ m.framerInode ∧ ∀ x ∈ m.chain, x.name ≠ old ∧ old ∉ x.inode)
    (hactor : ∀ a, c.actor = some a → old ∉ a) :
    c.map (ren old new) = { c with framerName := new } := by
  have hfr : ∀ x : FrameC, (x.name ≠ old ∧ old ∉ x.inode) → FrameC.map (ren old new) x = x := by
    intro x hx
    cases x with
    | mk n i => simp only [FrameC.map, map_ren_of_not_mem old new i hx.2]; simp [ren, hx.1]
  have hfrs : ∀ l : List FrameC, (∀ x ∈ l, x.name ≠ old ∧ old ∉ x.inode) → l.map (FrameC.map (ren old new)) = l := by
    intro l hl
    induction l with
    | nil => rfl
    | cons x t ih =>
      simp only [List.map_cons]
      rw [hfr x (hl x (by simp)), ih (fun y hy => hl y (by simp [hy]))]
  have hms : ∀ l : List MainC, (∀ m ∈ l, m.framerName ≠ old ∧ old ∉ m.framerInode ∧
      ∀ x ∈ m.chain, x.name ≠ old ∧ old ∉ x.inode) → l.map (MainC.map (ren old new)) = l := by
    intro l hl
    induction l with
    | nil => rfl
    | cons m t ih =>
      simp only [List.map_cons]
      rw [ih (fun y hy => hl y (by simp [hy]))]
      have hm := hl m (by simp)
      cases m with
      | mk ch fn fi =>
        simp only [MainC.map, hfrs ch hm.2.2, map_ren_of_not_mem old new fi hm.2.1]
        simp [ren, hm.1]
  cases c with
  | mk frames fname finode mains actor =>
    simp only [Ctx.map]
    simp only at hname hframes hinode hmains hactor
    rw [hfrs frames hframes, map_ren_of_not_mem old new finode hinode, hms mains hmains]
    have ha : actor.map (List.map (ren old new)) = actor := by
      cases actor with
      | none => rfl
      | some a => simp [map_ren_of_not_mem old new a (hactor a rfl)]
    rw [ha]
    simp [ren, hname]

/-- **Renaming an actor** replaces exactly the run of segments that spell its name: the resolved path
is either independent of the actor, or `pre ++ (segments of the actor's name) ++ suf` with `pre`, `suf`
independent of it (so a new name with a different number of segments is covered too). -/
theorem C13_actor_splice (c : Ctx) (inode : Option (List String)) (parts : List String) :
    (∃ r, ∀ a, resolveParts (c.withActor a) inode parts = r) ∨
    (∃ pre suf, ∀ a, resolveParts (c.withActor a) inode parts = .ok (pre ++ a ++ suf)) := by
  have hprep : ∀ a, prepend (c.withActor a) inode parts = prepend c inode parts := fun _ => rfl
  have hfn : ∀ a p, substFramerName (c.withActor a) p = substFramerName c p := fun _ _ => rfl
  have hfr : ∀ a p, substFrameName (c.withActor a) p = substFrameName c p := fun _ _ => rfl
  unfold resolveParts
  simp only [hprep]
  generalize (if parts.head? = some "" then parts else prepend c inode parts) = q
  by_cases hinc : incompletePath q = true
  · exact Or.inl ⟨.error .incomplete, fun _ => by simp [hinc]⟩
  simp only [hinc, Bool.false_eq_true, if_false]
  cases q with
  | nil => exact Or.inl ⟨_, fun _ => rfl⟩
  | cons p0 rest =>
    by_cases h0 : p0 = "framer"
    · simp only [h0, if_true]
      cases rest with
      | nil => exact Or.inl ⟨_, fun _ => rfl⟩
      | cons p1 rest2 =>
        simp only [substFramer, bind, Except.bind, hfn]
        cases h1 : substFramerName c p1 with
        | error e => exact Or.inl ⟨_, fun _ => rfl⟩
        | ok n1 =>
          simp only []
          cases rest2 with
          | nil => exact Or.inl ⟨_, fun _ => rfl⟩
          | cons p2 rest3 =>
            by_cases a2 : p2 = "frame"
            · simp only [a2, if_true]
              cases rest3 with
              | nil => exact Or.inl ⟨_, fun _ => rfl⟩
              | cons p3 rest4 =>
                simp only [hfr]
                cases h3 : substFrameName c p3 with
                | error e => exact Or.inl ⟨_, fun _ => rfl⟩
                | ok n3 =>
                  simp only []
                  cases rest4 with
                  | nil => exact Or.inl ⟨_, fun _ => rfl⟩
                  | cons p4 rest5 =>
                    by_cases a4 : p4 = "actor"
                    · simp only [a4, if_true]
                      rcases substActor_splice c rest5 with ⟨r, hr⟩ | ⟨suf, hs⟩
                      · exact Or.inl ⟨_, fun a => by rw [hr a]⟩
                      · refine Or.inr ⟨["framer", n1, "frame", n3, "actor"], suf, fun a => ?_⟩
                        rw [hs a]; simp [pure, Except.pure]
                    · simp only [a4, if_false]
                      exact Or.inl ⟨_, fun _ => rfl⟩
            · simp only [a2, if_false]
              by_cases a3 : p2 = "actor"
              · simp only [a3, if_true]
                rcases substActor_splice c rest3 with ⟨r, hr⟩ | ⟨suf, hs⟩
                · exact Or.inl ⟨_, fun a => by rw [hr a]⟩
                · refine Or.inr ⟨["framer", n1, "actor"], suf, fun a => ?_⟩
                  rw [hs a]; simp [pure, Except.pure]
              · simp only [a3, if_false]
                exact Or.inl ⟨_, fun _ => rfl⟩
    · simp only [h0, if_false]
      exact Or.inl ⟨_, fun _ => rfl⟩


/-! ## parseIndirect / parseRelation, and the composition -/

/-- **The clause parser commutes with renaming the name tokens** (`of framer NAME`, `of frame NAME`,
`of actor NAME`): the relative path it builds is renamed in exactly those positions; the path token is
not touched. -/
theorem C13_parse_equivariant (f : String → String) (hf : RespTok f) (node : Bool) (path : String)
    (rest : List String) (hp : (path.splitOn ".").map f = path.splitOn ".") :
    parseIndirect node (path :: rest.map f) = (parseIndirect node (path :: rest)).map (mapPR f) :=
  parseIndirect_map hf node path rest hp

/-- **parse then resolve**: a clause resolved in a renamed context, with its name tokens renamed the
same way, gives the renamed path -/
theorem C13_parse_then_resolve (f : String → String) (hf : RespTok f) (node : Bool) (path : String)
    (rest : List String) (hp : (path.splitOn ".").map f = path.splitOn ".")
    (c : Ctx) (inode : Option (List String)) (segs tail : List String)
    (hparse : parseIndirect node (path :: rest) = .ok (segs, tail)) :
    parseIndirect node (path :: rest.map f) = .ok (segs.map f, tail.map f) ∧
    resolveParts (c.map f) (inode.map (List.map f)) (segs.map f)
      = (resolveParts c inode segs).map (List.map f) := by
  refine ⟨?_, C13_resolve_equivariant f hf.resp c inode segs⟩
  rw [C13_parse_equivariant f hf node path rest hp, hparse]
  rfl

/-- the clause forms of the documentation, for every name (not reserved, an identifier) and every rest:
`of framer NAME` → `framer.NAME`, `of frame NAME of framer FN` → `framer.FN.frame.NAME`,
`of actor NAME` → `framer.me.frame.me.actor.NAME` -/
theorem C13_clause_forms (name fname : String) (rest : List String) (n : Nat)
    (h1 : name ∉ reserved) (h2 : isIdentPub name = true) (h3 : fname ∉ reserved) (h4 : isIdentPub fname = true)
    (hrest : rest.head? ≠ some "of") (hnm : name ≠ "" ∧ name ≠ "main") (hfm : fname ≠ "") :
    parseRelation (n + 1) ("of" :: "framer" :: name :: rest) "" = .ok (["framer", name], rest) ∧
    parseRelation (n + 2) ("of" :: "frame" :: name :: "of" :: "framer" :: fname :: rest) ""
      = .ok (["framer", fname, "frame", name], rest) ∧
    parseRelation (n + 2) ("of" :: "actor" :: name :: rest) ""
      = .ok (["framer", "me", "frame", "me", "actor", name], rest) := by
  have hno : parseRelation (n + 1) rest "" = .ok ([], rest) := by
    cases rest with
    | nil => rfl
    | cons t r =>
      have : t ≠ "of" := fun e => hrest (by simp [e])
      simp [parseRelation, this]
  have hno' : ∀ fn, parseRelation (n + 1) rest fn = .ok ([], rest) := by
    intro fn
    cases rest with
    | nil => rfl
    | cons t r =>
      have : t ≠ "of" := fun e => hrest (by simp [e])
      simp [parseRelation, this]
  refine ⟨?_, ?_, ?_⟩
  · simp [parseRelation, optName, h1, h2, hnm.1, bind, Except.bind, pure, Except.pure]
  · have inner : parseRelation (n + 1) ("of" :: "framer" :: fname :: rest) "" = .ok (["framer", fname], rest) := by
      simp [parseRelation, optName, h3, h4, hfm, bind, Except.bind, pure, Except.pure]
    simp [parseRelation.eq_def (n + 2), optName, h1, h2, hnm.1, hnm.2, inner, bind, Except.bind, pure, Except.pure, hasInner]
  · simp [parseRelation.eq_def (n + 2), optName, h1, h2, hnm.1, hno' "", bind, Except.bind, pure, Except.pure]

/-! ## non-vacuity -/

/-- an auxiliary framer `bravo` (inode `me.sub`) running in frame `fone` (inode `box`) of framer `alpha`
(inode `.top`): `x of framer` = `framer.me.x` resolves to `framer.bravo.x`, a plain `x` with act inode
`q` collects the inodes up the main chain, `framer.main.frame.main.y` names the main frame, and after
renaming `alpha`→`zqx` exactly that segment changes. -/
def exCtx : Ctx :=
  { frames := [⟨"ftwo", []⟩], framerName := "bravo", framerInode := ["me", "sub"],
    mains := [⟨[⟨"fone", ["box"]⟩], "alpha", ["", "top"]⟩], actor := some ["do", "it"] }

example :
    (resolveParts exCtx none ["framer", "me", "x"]).toOption = some ["framer", "bravo", "x"] ∧
    (resolveParts exCtx (some ["q"]) ["x"]).toOption = some ["", "top", "sub", "q", "x"] ∧
    (resolveParts exCtx none ["framer", "main", "frame", "main", "y"]).toOption
      = some ["framer", "alpha", "frame", "fone", "y"] ∧
    (resolveParts (exCtx.map (ren "alpha" "zqx")) none ["framer", "main", "frame", "main", "y"]).toOption
      = some ["framer", "zqx", "frame", "fone", "y"] ∧
    (resolveParts exCtx (some []) ["framer", "me", "frame", "me", "actor", "me", "v"]).toOption
      = some ["framer", "bravo", "frame", "ftwo", "actor", "do", "it", "v"] := by
  decide

example : (parseRelation 8 ["of", "frame", "big", "of", "framer", "foo", "into"] "").toOption
      = some (["framer", "foo", "frame", "big"], ["into"]) ∧
    (parseRelation 8 ["of", "actor", "into"] "").toOption
      = some (["framer", "me", "frame", "me", "actor", "me"], ["into"]) ∧
    (parseRelation 8 ["of", "frame", "main"] "").toOption = some (["framer", "main", "frame", "main"], []) := by
  decide +kernel

end Ioflo.ResolvePath
