import IofloModel.Lemmas.Worklist
import IofloModel.Generated.ErrSites
/-!
# C14 — building any script terminates with success or a script error  (PARTIAL)

Only parts of this property are within reach of a theorem; they are:

(a) **termination of the resolve loops** on a model of their data (`Model/Worklist.lean`): when the
    loops of `resolveOverLinks`, `traceOutline`/`findBottom` and the clone worklist end, when they
    cannot end (defects D5, D6, D64 as found), and that the repaired loops (fixes D05, D06, D64) always end;
(b) **error-message table** (`Generated/ErrSites.lean`, re-extracted from the working tree by
    `harness/translate/errsites.py` on every run): every `"…" % args` / `"…".format(args)` in the builder-side
    modules is given as many values as its text consumes, and no function of those modules loads a
    name that nothing binds — so no error path turns into `TypeError` / `IndexError` / `NameError` because
    of its own message (defect D7);
(c) the **exception classes** `Builder.build` turns into `return False`.

Not proved (searched for by the generators of the check only): that every `tokens[index]` is guarded,
that no other operation raises an internal error.
-/
namespace Ioflo.Worklist
open Ioflo.ErrSites

/-! ## (a) the resolve loops -/

/-- descent of `under` links (`traceOutline`, `traceHuman`, `findBottom`): ends when a rank decreases
along the links -/
theorem C14_under_descent_terminates (under : Nat → Option Nat) (rank : Nat → Nat)
    (h : ∀ k j, under k = some j → rank j < rank k) (k : Nat) :
    chain under (rank k + 1) k = some .done := chain_of_rank rank h _ k (Nat.lt_succ_self _)

/-- … and never ends from inside a set of frames closed under `under` (a cycle): no step budget suffices -/
theorem C14_under_descent_diverges (under : Nat → Option Nat) (C : Nat → Prop)
    (hC : ∀ k, C k → ∃ j, under k = some j ∧ C j) (k : Nat) (hk : C k) :
    ∀ fuel, chain under fuel k = none := fun fuel => chain_diverges C hC fuel k hk

/-- the full statement for the descent as found, and its refutation by `frame a / under b / frame b / under a`
(defect D6) -/
def C14_under_descent_full : Prop := ∀ (under : Nat → Option Nat) (k : Nat), ∃ fuel r, chain under fuel k = some r

theorem C14_under_descent_counterexample : ¬ C14_under_descent_full := by
  intro h
  obtain ⟨fuel, r, hr⟩ := h (linkOf [some 1, some 0]) 0
  have := C14_under_descent_diverges (linkOf [some 1, some 0]) (fun k => k = 0 ∨ k = 1)
    (by intro k hk; rcases hk with rfl | rfl
        · exact ⟨1, by decide, Or.inr rfl⟩
        · exact ⟨0, by decide, Or.inl rfl⟩) 0 (Or.inl rfl) fuel
  rw [this] at hr; cases hr

/-- `resolveOverLinks`: ends (normally or with the loop error) when a rank decreases along `over` -/
theorem C14_over_climb_terminates (over : Nat → Option Nat) (self : Nat) (rank : Nat → Nat)
    (h : ∀ k j, over k = some j → rank j < rank k) :
    ∃ r, climb over self (rank self + 1) self = some r := climb_of_rank self rank h _ self (Nat.lt_succ_self _)

/-- … raises "Outline overs create loop" when the over links lead from the frame back to itself -/
theorem C14_over_climb_detects_own_loop (over : Nat → Option Nat) (self n : Nat)
    (h : iter over (n + 1) self = some self) : climb over self (n + 1) self = some .loopError :=
  climb_detects self n self h

/-- … and never ends when the over links lead into a cycle that does not contain the frame it started
from: the test `over == self` cannot fire (defect D64) -/
theorem C14_over_climb_diverges (over : Nat → Option Nat) (self : Nat) (C : Nat → Prop) (hs : ¬ C self)
    (hC : ∀ k, C k → ∃ j, over k = some j ∧ C j) (hin : ∃ j, over self = some j ∧ C j) :
    ∀ fuel, climb over self fuel self = none := fun fuel => climb_diverges self C hs hC fuel self (Or.inr hin)

def C14_over_climb_full : Prop :=
  ∀ (over : Nat → Option Nat) (self : Nat), ∃ fuel r, climb over self fuel self = some r

/-- `frame a in b / frame b in c / frame c in b`, resolving `a` -/
theorem C14_over_climb_counterexample : ¬ C14_over_climb_full := by
  intro h
  obtain ⟨fuel, r, hr⟩ := h (linkOf [some 1, some 2, some 1]) 0
  have := C14_over_climb_diverges (linkOf [some 1, some 2, some 1]) 0 (fun k => k = 1 ∨ k = 2)
    (by intro e; rcases e with e | e <;> cases e)
    (by intro k hk; rcases hk with rfl | rfl
        · exact ⟨2, by decide, Or.inr rfl⟩
        · exact ⟨1, by decide, Or.inl rfl⟩)
    ⟨1, by decide, Or.inl rfl⟩ fuel
  rw [this] at hr; cases hr

/-- the same three frames in the other order: `b` is resolved first and its own loop is detected -/
example : resolveOvers (linkOf [some 1, some 0, some 0]) 10 [0, 1, 2] = some .loopError := by decide

/-- **the repaired loops** (a visited list; fixes/D64-over-loop-check.patch, fixes/D06-under-loop-check.patch)
end on every link structure over `n` frames within `n` steps: normally or with the loop error -/
theorem C14_repaired_loops_terminate (next : Nat → Option Nat) (n : Nat)
    (hb : ∀ k j, next k = some j → j < n) (k : Nat) (hk : k < n) :
    ∃ r, chainChecked next n [k] k = some r :=
  chainChecked_total n hb n [k] k (by simp) (by intro x hx; simp at hx; omega) (by simp)

example : chainChecked (linkOf [some 1, some 0]) 2 [0] 0 = some .loopError ∧
    chainChecked (linkOf [some 1, some 2, some 1]) 3 [0] 0 = some .loopError ∧
    chainChecked (linkOf [some 1, none]) 2 [0] 0 = some .done := by decide

/-- the clone worklist (`presolvePresolvables` / `resolveMoots`): empties when a rank decreases from every
framer to the moots it clones; the number of presolved framers is then finite -/
theorem C14_clone_worklist_terminates (moots : Nat → List Nat) (rank : Nat → Nat)
    (h : ∀ k j, j ∈ moots k → rank j < rank k) (wl : List Nat) : ∃ fuel n, run moots fuel wl = some n := by
  let ps := wl.map (fun k => (k, rank k + 1))
  have hp : ∀ p ∈ ps, rank p.1 < p.2 := by
    intro p hp; obtain ⟨k, _, rfl⟩ := List.mem_map.mp hp; simp
  have hm : ps.map (·.1) = wl := by simp [ps, List.map_map, Function.comp_def]
  rcases run_of_budget rank h _ ps hp rfl with h1 | ⟨n, h1⟩
  · exact ⟨_, _, by rw [← hm]; exact h1⟩
  · exact ⟨_, n, by rw [← hm]; exact h1⟩

/-- … and never empties when some framer on it belongs to a set closed under "clones" (a moot framer that
clones itself, directly or through others: defect D5) -/
theorem C14_clone_worklist_diverges (moots : Nat → List Nat) (C : Nat → Prop)
    (hC : ∀ k, C k → ∃ j, j ∈ moots k ∧ C j) (wl : List Nat) (hwl : ∃ k, k ∈ wl ∧ C k) :
    ∀ fuel, run moots fuel wl = none := fun fuel => run_diverges C hC fuel wl hwl

def C14_clone_worklist_full : Prop := ∀ (moots : Nat → List Nat) (wl : List Nat), ∃ fuel n, run moots fuel wl = some n

/-- framer 0 clones moot 1, moot 1 clones itself -/
theorem C14_clone_worklist_counterexample : ¬ C14_clone_worklist_full := by
  intro h
  obtain ⟨fuel, n, hn⟩ := h (mootsOf [[1], [1]]) [0]
  have := C14_clone_worklist_diverges (mootsOf [[1], [1]]) (fun k => k = 0 ∨ k = 1)
    (by intro k hk; rcases hk with rfl | rfl <;> exact ⟨1, by decide, Or.inr rfl⟩) [0] ⟨0, by simp, Or.inl rfl⟩ fuel
  rw [this] at hn; cases hn

example : run (mootsOf [[1, 2], [2], []]) 10 [0] = some 4 := by decide

/-- **the repaired clone worklist** (a lineage per clone; fixes/D05-moot-clone-loop.patch) empties or raises
ResolveError on every clone table: `n` framers, at most `B` `aux … as …` lines per framer, started from
framers of the script (empty lineage) -/
theorem C14_repaired_clone_worklist_terminates (moots : Nat → List Nat) (n B : Nat)
    (hb : ∀ k j, j ∈ moots k → j < n) (hB : ∀ k, (moots k).length ≤ B) (start : List Nat) :
    ∃ fuel r, runChecked moots fuel (start.map (fun k => (k, []))) = some r := by
  obtain ⟨r, hr⟩ := runChecked_total n B hb hB _ (start.map (fun k => (k, [])))
    (by intro p hp; obtain ⟨k, _, rfl⟩ := List.mem_map.mp hp; exact ⟨List.nodup_nil, by simp⟩) (Nat.le_refl _)
  exact ⟨_, r, hr⟩

/-- … and where it does not raise it presolves exactly the framers the loop as found presolves -/
theorem C14_repaired_clone_worklist_conservative (moots : Nat → List Nat) (fuel : Nat) (start : List Nat) (c : Nat)
    (h : runChecked moots fuel (start.map (fun k => (k, []))) = some (some c)) : run moots fuel start = some c := by
  have := runChecked_conservative fuel _ c h
  simpa [List.map_map, Function.comp_def] using this

/-- the D5 scripts are now rejected; an acyclic table is presolved as before -/
example : runChecked (mootsOf [[1], [1]]) 10 [(0, [])] = some none ∧
    runChecked (mootsOf [[1], [2], [1]]) 10 [(0, [])] = some none ∧
    runChecked (mootsOf [[1, 2], [2], []]) 10 [(0, [])] = some (some 4) := by decide

/-! ## (b) the error-message table of the working tree -/

/-- a message construction is well formed: `%` gets exactly as many values as the text has conversion
specifications (a right operand that is not a tuple is one value); `str.format` gets at least as many
arguments as its highest positional field needs -/
def siteOk (s : FmtSite) : Bool := if s.percent then s.need == s.have_ else decide (s.need ≤ s.have_)

/-- every message construction in building.py, framing.py, acting.py, needing.py, completing.py, fiating.py,
wanting.py is well formed -/
theorem C14_error_messages_well_formed : ∀ s ∈ fmtSites, siteOk s = true := by decide +kernel

/-- no function in those modules loads a name that no scope, module global or builtin binds -/
theorem C14_no_unbound_names : unbound = [] := by decide +kernel

example : fmtSites.length > 400 := by decide +kernel

/-! ## (c) what `Builder.build` does with an exception raised while reading or resolving -/

inductive Exc where
  | parseError | resolveError | osError | valueError | typeError | nameError | attributeError | keyError
  | indexError | overflowError | other
deriving DecidableEq, Repr

inductive BuildResult where
  | returnsFalse          -- caught: `return False`
  | raises (e : Exc)      -- leaves `build`
deriving DecidableEq, Repr

/-- `except excepting.ParseError: … raise`, `except excepting.ResolveError: return False`,
`except IOError: return False` (IOError is OSError: it also swallows a `TimeoutError`) -/
def buildCatches : Exc → BuildResult
  | .resolveError => .returnsFalse
  | .osError => .returnsFalse
  | e => .raises e

/-- the outcomes the property accepts: success/`False`, a parse error, a converter's `ValueError` -/
def acceptable : BuildResult → Bool
  | .returnsFalse => true
  | .raises .parseError => true
  | .raises .valueError => true
  | .raises _ => false

/-- `build` itself never turns a script error into an internal error, and lets every internal error through
unchanged (so that the search below can see it) -/
theorem C14_build_exception_table :
    (∀ e, e = .parseError ∨ e = .resolveError ∨ e = .valueError ∨ e = .osError → acceptable (buildCatches e) = true) ∧
    (∀ e, e = .typeError ∨ e = .nameError ∨ e = .attributeError ∨ e = .keyError ∨ e = .indexError ∨
          e = .overflowError → buildCatches e = .raises e ∧ acceptable (buildCatches e) = false) := by
  constructor
  · intro e h; rcases h with rfl | rfl | rfl | rfl <;> rfl
  · intro e h; rcases h with rfl | rfl | rfl | rfl | rfl | rfl <;> exact ⟨rfl, rfl⟩

end Ioflo.Worklist
