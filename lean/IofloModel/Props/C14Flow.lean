import IofloModel.Generated.RaiseSites
/-!
# C14, exception flow of building.py (generated, per run)

`Generated/RaiseSites.lean` is re-extracted from the working tree on every run of the check
(harness/translate/raisesites.py): every `raise` statement, every `tokens[<index>]` read (IndexError) and every call
between functions of building.py (including the dynamic `getattr(self, 'build' + Verb)` of `dispatch`), each with the
`try` statements that enclose it inside its function; the exception class hierarchy; and a certificate `cert` giving,
per function, the classes that can leave it.

`Escapes f c` is the propagation relation: class `c` leaves function `f` because a raise site of `f` raises it outside
every handler that catches it, or because it leaves a callee at a call site of `f` that no enclosing handler catches.
The theorems: the certificate is closed under both rules (checked on the table), hence bounds `Escapes`; and the only
classes that leave `Builder.build` are ParseError and ValueError.  So a new `raise KeyError`, an unguarded
`tokens[index]`, or an `except` clause narrowed so that it no longer catches what is raised under it breaks an
obligation.

Scope: explicit raises, `tokens[…]` reads and calls inside building.py.  Exceptions raised by other modules or by
builtin operations (other subscripts, `int()`, attribute access) are not in the table: that part stays a search.
The two `tokens[0]` reads of the read loop and of `dispatch` are taken as safe (`nonEmptyReads`): the loop skips empty
commands.
-/
namespace Ioflo.RaiseSites

def ancestorsOf (c : Nat) : List Nat := (ancestors[c]?).getD [c]
def certOf (f : Nat) : List Nat := (cert[f]?).getD []

/-- an `except H` clause catches an exception of class `c`: `H` is `c` or one of its bases -/
def catches (h c : Nat) : Bool := (ancestorsOf c).contains h

/-- some enclosing `try` of the site has a handler for class `c` -/
def caught (tries : List (List Nat)) (c : Nat) : Bool := tries.any (fun frame => frame.any (fun h => catches h c))

/-- class `c` leaves function `f` -/
inductive Escapes : Nat → Nat → Prop where
  | raise (s : RaiseSite) (hs : s ∈ raiseSites) (hc : caught s.tries s.cls = false) : Escapes s.func s.cls
  | call (k : CallSite) (hk : k ∈ callSites) (c : Nat) (he : Escapes k.callee c) (hc : caught k.tries c = false) :
      Escapes k.caller c

def raiseOk (s : RaiseSite) : Bool := caught s.tries s.cls || (certOf s.func).contains s.cls

def callOk (k : CallSite) : Bool :=
  (certOf k.callee).all (fun c => caught k.tries c || (certOf k.caller).contains c)

/-- the certificate is closed under the raise sites and the call sites of the working tree -/
theorem C14_exception_certificate_closed : raiseSites.all raiseOk = true ∧ callSites.all callOk = true := by
  decide +kernel

/-- hence it bounds the propagation: whatever leaves a function is in its certificate -/
theorem escapes_in_cert (f c : Nat) (h : Escapes f c) : c ∈ certOf f := by
  obtain ⟨hr, hk⟩ := C14_exception_certificate_closed
  induction h with
  | raise s hs hc =>
    have := List.all_eq_true.mp hr s hs
    simp only [raiseOk, Bool.or_eq_true, hc, Bool.false_eq_true, false_or] at this
    simpa using this
  | call k hk' c he hc ih =>
    have := List.all_eq_true.mp hk k hk'
    simp only [callOk, List.all_eq_true] at this
    have h2 := this c ih
    simp only [Bool.or_eq_true, hc, Bool.false_eq_true, false_or] at h2
    simpa using h2

/-- **no internal error class leaves `Builder.build` through the code of building.py**: every class that can
propagate to `Builder.build` from a raise statement or a `tokens[…]` read anywhere in its call tree is ParseError
(the script error) or ValueError (the literal converters' error) -/
theorem C14_only_script_errors_leave_build (c : Nat) (h : Escapes buildFunc c) :
    c = clsParseError ∨ c = clsValueError := by
  have hc := escapes_in_cert buildFunc c h
  have hall : (certOf buildFunc).all (fun c => c == clsParseError || c == clsValueError) = true := by decide +kernel
  have := List.all_eq_true.mp hall c hc
  simpa using this

/-- every attribute read from a caught exception object (`except X as ex: … ex.attr …`) exists on every class the
handler catches (class attributes, and instance attributes assigned in the `__init__` chain) -/
theorem C14_exception_attributes_exist : excAttrs.all (fun a => a.missing.isEmpty) = true := by decide +kernel

example : raiseSites.length > 300 ∧ callSites.length > 200 := by decide +kernel

end Ioflo.RaiseSites
