import IofloModel.Lemmas.Clauses
/-!
# C15 — optional clauses of a command may appear in any order
-/
namespace Ioflo.Clauses
open Ioflo.Literal

/-- **C15, generic form.** For an option loop (`while index < len(tokens): connective = …`) in which
every clause of a set is *local* — before any continuation that is empty or starts with a connective
of the verb, the loop body consumes exactly the clause's own tokens — and the clauses' updates of
the configuration commute (they set different fields), every arrangement of the clauses parses to
the same configuration. -/
theorem C15_order_independent {σ : Type} (v : Verb σ) (K : List Str) (cs₁ cs₂ : List (ClauseSem σ))
    (hp : cs₁.Perm cs₂) (hk : ∀ c ∈ cs₁, c.key ∈ K) (hl : ∀ c ∈ cs₁, Local v K c)
    (hc : ∀ a ∈ cs₁, ∀ b ∈ cs₁, ∀ s, b.upd (a.upd s) = a.upd (b.upd s)) (s : σ) :
    runClauses v (flat cs₁) s = runClauses v (flat cs₂) s :=
  runClauses_perm v K cs₁ cs₂ hp hk hl hc s

end Ioflo.Clauses
